fn main() {
    // driver.rs (included via #[path]) reads these through env!()
    println!("cargo:rustc-env=VERGEN_SEMVER_LIGHTWEIGHT=UNKNOWN");
    println!("cargo:rustc-env=VERGEN_COMMIT_DATE=UNKNOWN");
    println!("cargo:rustc-env=VERGEN_TARGET_TRIPLE=x");
    println!("cargo:rustc-check-cfg=cfg(hlorenzi_customasm_verif)");
}
