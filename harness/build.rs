fn main() {
    // driver.rs (included via #[path]) reads these through env!()
    println!("cargo:rustc-env=VERGEN_SEMVER_LIGHTWEIGHT=UNKNOWN");
    println!("cargo:rustc-env=VERGEN_COMMIT_DATE=UNKNOWN");
    println!("cargo:rustc-env=VERGEN_TARGET_TRIPLE=x");
    println!("cargo:rustc-check-cfg=cfg(hlorenzi_customasm_verif)");
    println!("cargo:rerun-if-env-changed=VERIF_REPO");
    // binaries that need the (private) command-line driver include this file:
    //   include!(concat!(env!("OUT_DIR"), "/driver_mod.rs"));
    let repo = std::env::var("VERIF_REPO").unwrap_or("/repo".to_string());
    let out = std::env::var("OUT_DIR").unwrap();
    std::fs::write(format!("{}/driver_mod.rs", out),
        format!("#[allow(dead_code)]\n#[path = \"{}/src/driver.rs\"]\npub mod driver;\n", repo)).unwrap();
    println!("cargo:rerun-if-changed={}/src/driver.rs", repo);
}
