//! helpers shared by the harness binaries
pub fn unhex_bytes(h: &str) -> Vec<u8> {
    (0..h.len() / 2).map(|i| u8::from_str_radix(&h[2 * i..2 * i + 2], 16).unwrap_or(0)).collect()
}
pub fn unhex(h: &str) -> String {
    String::from_utf8_lossy(&unhex_bytes(h)).into_owned()
}
pub fn hex(s: &str) -> String {
    s.bytes().map(|b| format!("{:02x}", b)).collect()
}
pub fn hex_bytes(s: &[u8]) -> String {
    s.iter().map(|b| format!("{:02x}", b)).collect()
}
pub fn quiet_panics() {
    std::panic::set_hook(Box::new(|_| {}));
}
/// run f, mapping a panic to None
pub fn guarded<T>(f: impl FnOnce() -> T) -> Option<T> {
    std::panic::catch_unwind(std::panic::AssertUnwindSafe(f)).ok()
}
pub fn for_each_line(mut f: impl FnMut(&str) -> String) {
    use std::io::{BufRead, Write};
    let stdin = std::io::stdin();
    let stdout = std::io::stdout();
    let mut out = std::io::BufWriter::new(stdout.lock());
    for line in stdin.lock().lines() {
        let line = line.unwrap();
        let ans = f(&line);
        writeln!(out, "{}", ans).unwrap();
    }
    out.flush().unwrap();
}
