//! C11: run the crate's real formatters on a given bit vector.
//! line:   <format-id> <bits: string of 0/1, or - for empty> [<spans: off:size,off:size,...  (off may be -) | *>]
//!         spans `*` (default) = one span covering the whole vector (none when it is empty)
//!         format-id: binary binstr hexstr bindump hexdump mif intelhex8 intelhex16 intelhex32
//!                    deccomma hexcomma decspace hexspace decc hexc logisim8 logisim16
//! answer: OK <hex of BitVec::format_*> <= | hex of driver::format_output | DPANIC>   |   PANIC
//!         (`=` when the driver path gives the same bytes)
use customasm::*;
use vh::*;
include!(concat!(env!("OUT_DIR"), "/driver_mod.rs"));

fn build(bits: &str, spans: &str) -> util::BitVec {
    let mut bv = util::BitVec::new();
    let bits = if bits == "-" { "" } else { bits };
    for (i, c) in bits.bytes().enumerate() {
        bv.write_bit(i, c == b'1');
    }
    if spans == "*" {
        if !bits.is_empty() {
            bv.mark_span(Some(0), bits.len(), util::BigInt::from(0usize), diagn::Span::new_dummy());
        }
    } else if !spans.is_empty() && spans != "." {
        for s in spans.split(',') {
            let mut it = s.split(':');
            let off = it.next().unwrap();
            let size: usize = it.next().unwrap().parse().unwrap();
            let off = if off == "-" { None } else { Some(off.parse::<usize>().unwrap()) };
            bv.mark_span(off, size, util::BigInt::from(0usize), diagn::Span::new_dummy());
        }
    }
    bv
}

fn direct(bv: &util::BitVec, id: &str) -> Option<Vec<u8>> {
    Some(match id {
        "binary" => bv.format_binary(),
        "binstr" => bv.format_binstr().into_bytes(),
        "hexstr" => bv.format_hexstr().into_bytes(),
        "bindump" => bv.format_bindump().into_bytes(),
        "hexdump" => bv.format_hexdump().into_bytes(),
        "mif" => bv.format_mif().into_bytes(),
        "intelhex8" => bv.format_intelhex(8).into_bytes(),
        "intelhex16" => bv.format_intelhex(16).into_bytes(),
        "intelhex32" => bv.format_intelhex(32).into_bytes(),
        "deccomma" => bv.format_separator(10, ", ").into_bytes(),
        "hexcomma" => bv.format_separator(16, ", ").into_bytes(),
        "decspace" => bv.format_separator(10, " ").into_bytes(),
        "hexspace" => bv.format_separator(16, " ").into_bytes(),
        "decc" => bv.format_c_array(10).into_bytes(),
        "hexc" => bv.format_c_array(16).into_bytes(),
        "logisim8" => bv.format_logisim(8).into_bytes(),
        "logisim16" => bv.format_logisim(16).into_bytes(),
        _ => return None,
    })
}

/// the spelling a user gives to -f
fn cli_name(id: &str) -> String {
    match id {
        "intelhex8" => "intelhex".to_string(), // the documented default unit
        "intelhex16" => "intelhex,addr_unit:16".to_string(),
        "intelhex32" => "intelhex,addr_unit:32".to_string(),
        x => x.to_string(),
    }
}

fn main() {
    quiet_panics();
    // decls / defs of an empty program: format_output needs them for the symbol formats only
    let mut report = diagn::Report::new();
    let mut fs = util::FileServerMock::new();
    fs.add("main.asm", "");
    let opts = asm::AssemblyOptions::new();
    let a = asm::assemble(&mut report, &opts, &mut fs, &["main.asm"]);
    let decls = a.decls.unwrap();
    let defs = a.defs.unwrap();
    for_each_line(|line| {
        let f: Vec<&str> = line.split_whitespace().collect();
        if f.len() < 2 {
            return "?".to_string();
        }
        let spans = if f.len() > 2 { f[2] } else { "*" };
        let bv = build(f[1], spans);
        let d = guarded(|| direct(&bv, f[0]));
        let d = match d {
            None => return "PANIC".to_string(),
            Some(None) => return "?".to_string(),
            Some(Some(v)) => v,
        };
        let via = guarded(|| {
            let mut report = diagn::Report::new();
            let fmt = driver::parse_output_format(&mut report, &cli_name(f[0])).ok()?;
            Some(driver::format_output(&fs, &decls, &defs, &bv, fmt))
        });
        let second = match via {
            None => "DPANIC".to_string(),
            Some(None) => "DREJECT".to_string(),
            Some(Some(v)) => if v == d { "=".to_string() } else { hex_bytes(&v) },
        };
        format!("OK {} {}", if d.is_empty() { "-".to_string() } else { hex_bytes(&d) }, second)
    });
}
