//! C10 runner: the same assembly repeated in ONE process — sequentially (after whatever was assembled before: every
//! earlier line of stdin is the history) and concurrently on 16 threads — one canonical digest per run.
//!   A <mode D|V> <K[:T]> <budget> <static 0|1> <matching 0|1> <roots hexname,hexname..> <files hexname=hexcontent;..>
//!        -> R <status> <seq> <thr>     (D: digests; seq / thr = the DISTINCT digests of the K sequential / 16 threaded runs as
//!                                       `digest*count,..` in order of first appearance)   status = OK | ERR | INCONSISTENT | PANIC (of run 1)
//!        -> V <status> <hex of the canonical text of run 1>   (V: for replays)
//!   F <mode D|V> <K[:T]> <hex format string>          the same for driver::parse_output_format (diagnostics of bad format strings)
//! canonical text of one run = success flag, error flag, iterations, bits, every output format through the driver's
//! format_output (all formatters, two parameter sets for the parametrised ones), and the diagnostics as printed by
//! report.print_all with colours off.  Digest = 128 bits (two FNV-1a-64 lanes with different offsets and a final mix).
use customasm::*;
include!(concat!(env!("OUT_DIR"), "/driver_mod.rs"));
use driver::OutputFormat as OF;
use vh::*;

const THREADS: usize = 16;

fn digest(data: &[u8]) -> String {
    let mut a: u64 = 0xcbf29ce484222325;
    let mut b: u64 = 0x84222325cbf29ce4 ^ (data.len() as u64).wrapping_mul(0x9E3779B97F4A7C15);
    for &x in data {
        a = (a ^ x as u64).wrapping_mul(0x100000001b3);
        b = (b ^ (x as u64 ^ 0x5a)).wrapping_mul(0x100000001b3).rotate_left(23) ^ a;
    }
    let mix = |mut z: u64| { z ^= z >> 30; z = z.wrapping_mul(0xBF58476D1CE4E5B9); z ^= z >> 27; z = z.wrapping_mul(0x94D049BB133111EB); z ^ (z >> 31) };
    format!("{:016x}{:016x}", mix(a), mix(b ^ a.rotate_left(32)))
}

fn formats() -> Vec<(&'static str, OF)> {
    vec![
        ("binary", OF::Binary),
        ("annotated,16,2", OF::Annotated { base: 16, group: 2 }),
        ("annotated,2,8", OF::Annotated { base: 2, group: 8 }),
        ("binstr", OF::BinStr), ("hexstr", OF::HexStr), ("bindump", OF::BinDump), ("hexdump", OF::HexDump),
        ("mif", OF::Mif),
        ("intelhex,8", OF::IntelHex { address_unit: 8 }), ("intelhex,16", OF::IntelHex { address_unit: 16 }),
        ("deccomma", OF::DecComma), ("hexcomma", OF::HexComma), ("decspace", OF::DecSpace), ("hexspace", OF::HexSpace),
        ("decc", OF::DecC), ("hexc", OF::HexC), ("logisim8", OF::LogiSim8), ("logisim16", OF::LogiSim16),
        ("addrspan", OF::AddressSpan),
        ("tcgame,16,2", OF::TCGame { base: 16, group: 2 }), ("tcgame,2,8", OF::TCGame { base: 2, group: 8 }),
        ("symbols", OF::Symbols), ("mesen-mlb", OF::SymbolsMesenMlb),
    ]
}

#[derive(Clone)]
struct Case { budget: usize, stat: bool, matching: bool, roots: Vec<String>, files: Vec<(String, Vec<u8>)> }

/// one complete assembly on a fresh mock file server; returns (status, canonical text)
fn run_once(c: &Case) -> (String, Vec<u8>) {
    let r = guarded(|| {
        let mut out = Vec::<u8>::new();
        let mut report = diagn::Report::new();
        let mut fs = util::FileServerMock::new();
        for (n, d) in &c.files {
            fs.add(n.clone(), d.clone());
        }
        let mut opts = asm::AssemblyOptions::new();
        opts.max_iterations = c.budget;
        opts.optimize_statically_known = c.stat;
        opts.optimize_instruction_matching = c.matching;
        let a = asm::assemble(&mut report, &opts, &mut fs, &c.roots);
        let status = match (&a.output, report.has_errors(), a.error) {
            (Some(_), false, false) => "OK",
            (None, true, true) => "ERR",
            _ => "INCONSISTENT",
        };
        out.extend_from_slice(format!("status={} output={} has_errors={} error={} iterations={:?}\n",
            status, a.output.is_some(), report.has_errors(), a.error, a.iterations_taken).as_bytes());
        if let (Some(o), Some(decls), Some(defs)) = (a.output.as_ref(), a.decls.as_ref(), a.defs.as_ref()) {
            out.extend_from_slice(b"bits=");
            for i in 0..o.len() {
                out.push(if o.read_bit(i) { b'1' } else { b'0' });
            }
            out.push(b'\n');
            for (name, f) in formats() {
                out.extend_from_slice(format!("--- format {}\n", name).as_bytes());
                match guarded(|| driver::format_output(&fs, decls, defs, o, f)) {
                    Some(b) => out.extend_from_slice(&b),
                    None => out.extend_from_slice(b"<PANIC>"),
                }
                out.push(b'\n');
            }
        } else if let (Some(decls), Some(defs)) = (a.decls.as_ref(), a.defs.as_ref()) {
            // failed assemblies: the symbol table as far as it got (it is walked in hash-container order too)
            out.extend_from_slice(b"--- symbols (partial)\n");
            match guarded(|| decls.symbols.format_default(decls, defs)) {
                Some(s) => out.extend_from_slice(s.as_bytes()),
                None => out.extend_from_slice(b"<PANIC>"),
            }
        }
        out.extend_from_slice(b"--- diagnostics\n");
        let mut msgs = Vec::<u8>::new();
        match guarded(|| { let mut m = Vec::<u8>::new(); report.print_all(&mut m, &fs, false); m }) {
            Some(m) => msgs.extend_from_slice(&m),
            None => msgs.extend_from_slice(b"<PANIC>"),
        }
        out.extend_from_slice(&msgs);
        (status.to_string(), out)
    });
    r.unwrap_or(("PANIC".to_string(), b"PANIC".to_vec()))
}

fn run_format_once(s: &str) -> (String, Vec<u8>) {
    let r = guarded(|| {
        let mut report = diagn::Report::new();
        let r = driver::parse_output_format(&mut report, s);
        let fs = util::FileServerMock::new();
        let mut out = Vec::<u8>::new();
        out.extend_from_slice(format!("ok={} has_errors={} n={}\n", r.is_ok(), report.has_errors(), report.len()).as_bytes());
        if let Ok(f) = r {
            // which formatter was selected: render a fixed 24-bit output with it
            let mut bv = util::BitVec::new();
            bv.write_bigint(0, &util::BigInt::new(0xa5c3f0u32, Some(24)));
            let mut rep2 = diagn::Report::new();
            let d = asm::decls::init(&mut rep2);
            if let Ok(decls) = d {
                let defs = asm::defs::init();
                match guarded(|| driver::format_output(&fs, &decls, &defs, &bv, f)) {
                    Some(b) => out.extend_from_slice(&b),
                    None => out.extend_from_slice(b"<PANIC>"),
                }
            }
        }
        report.print_all(&mut out, &fs, false);
        ((if r.is_ok() { "OK" } else { "ERR" }).to_string(), out)
    });
    r.unwrap_or(("PANIC".to_string(), b"PANIC".to_vec()))
}

/// "K" or "K:T" (T = number of simultaneous threads, default 16)
fn counts(s: &str) -> (usize, usize) {
    let mut it = s.split(':');
    let k = it.next().and_then(|x| x.parse().ok()).unwrap_or(2);
    let t = it.next().and_then(|x| x.parse().ok()).unwrap_or(THREADS);
    (k, t)
}

fn repeat<F>(kt: (usize, usize), mode: &str, f: F) -> String
where F: Fn() -> (String, Vec<u8>) + Send + Sync + Clone + 'static {
    let (status, first) = f();
    if mode == "V" {
        return format!("V\t{}\t{}", status, hex_bytes(&first));
    }
    let (k, threads) = kt;
    let mut seq = vec![digest(&first)];
    for _ in 1..k {
        seq.push(digest(&f().1));
    }
    let barrier = std::sync::Arc::new(std::sync::Barrier::new(threads.max(1)));
    let mut hs = Vec::new();
    for _ in 0..threads {
        let g = f.clone();
        let b = barrier.clone();
        let h = std::thread::Builder::new().stack_size(64 << 20).spawn(move || {
            b.wait();
            digest(&g().1)
        });
        hs.push(h);
    }
    let thr: Vec<String> = hs.into_iter().map(|h| match h { Ok(j) => j.join().unwrap_or("THREADPANIC".to_string()), Err(_) => "NOSPAWN".to_string() }).collect();
    format!("R\t{}\t{}\t{}", status, tally(&seq), tally(&thr))
}

/// distinct digests in order of first appearance, each with its count: `d*3,e*1`
fn tally(ds: &[String]) -> String {
    let mut out: Vec<(String, usize)> = Vec::new();
    for d in ds {
        match out.iter_mut().find(|x| &x.0 == d) { Some(x) => x.1 += 1, None => out.push((d.clone(), 1)) }
    }
    out.iter().map(|(d, n)| format!("{}*{}", d, n)).collect::<Vec<_>>().join(",")
}

fn main() {
    quiet_panics();
    for_each_line(|line| {
        let f: Vec<&str> = line.split('\t').collect();
        match f[0] {
            "A" if f.len() >= 8 => {
                let k = counts(f[2]);
                let case = Case {
                    budget: f[3].parse().unwrap_or(10), stat: f[4] == "1", matching: f[5] == "1",
                    roots: f[6].split(',').filter(|s| !s.is_empty()).map(unhex).collect(),
                    files: f[7].split(';').filter(|s| !s.is_empty()).map(|kv| {
                        let mut it = kv.splitn(2, '=');
                        let n = unhex(it.next().unwrap());
                        (n, unhex_bytes(it.next().unwrap_or("")))
                    }).collect(),
                };
                let c = std::sync::Arc::new(case);
                repeat(k, f[1], move || run_once(&c))
            }
            "F" if f.len() >= 4 => {
                let k = counts(f[2]);
                let s = std::sync::Arc::new(unhex(f[3]));
                repeat(k, f[1], move || run_format_once(&s))
            }
            _ => "?".to_string(),
        }
    });
}
