//! C19 library-level probe of every numeric guard, under catch_unwind (debug AND release builds are compared:
//! a divergence is a silently wrapped overflow).
//! lines (tab separated):
//!   A <main-hex> [name=hex;name=hex...]   assemble the program (mock file server)
//!        -> OK <symbols-hex> | ERR <n> | PANIC | INCONSISTENT <detail>
//!   S shl|shr <a decimal> <b decimal>      util::BigInt::checked_shl / checked_shr directly
//!        -> OK <bits of the result> | ERR | PANIC
//!   E <expr-hex>                           expr::parse + eval (no symbols, no functions)
//!        -> OK <size or -> | ERR | PANIC
//!   F <format string hex>                  driver::parse_output_format
//!        -> OK | ERR | PANIC
use customasm::*;
use vh::*;
include!(concat!(env!("OUT_DIR"), "/driver_mod.rs"));

fn big(s: &str) -> util::BigInt {
    let v: num_bigint::BigInt = s.parse().unwrap_or_else(|_| num_bigint::BigInt::from(0));
    util::BigInt::from(v)
}

fn main() {
    quiet_panics();
    for_each_line(|line| {
        let f: Vec<&str> = line.split('\t').collect();
        match f[0] {
            "A" if f.len() >= 2 => {
                let src = unhex(f[1]);
                let r = guarded(|| {
                    let mut report = diagn::Report::new();
                    let mut fs = util::FileServerMock::new();
                    fs.add("main.asm", src);
                    if f.len() > 2 && !f[2].is_empty() {
                        for kv in f[2].split(';') {
                            let mut it = kv.splitn(2, '=');
                            let name = it.next().unwrap();
                            let data = unhex_bytes(it.next().unwrap_or(""));
                            fs.add(unhex(name), data);
                        }
                    }
                    let opts = asm::AssemblyOptions::new();
                    let a = asm::assemble(&mut report, &opts, &mut fs, &["main.asm"]);
                    match (&a.output, report.has_errors(), a.error) {
                        (Some(_), false, false) => {
                            let d = a.decls.as_ref().unwrap();
                            let fd = a.defs.as_ref().unwrap();
                            format!("OK\t{}", hex(&d.symbols.format_default(d, fd)))
                        }
                        (None, true, true) => format!("ERR\t{}", report.len()),
                        (o, e, ae) => format!("INCONSISTENT\toutput={} has_errors={} error={}", o.is_some(), e, ae),
                    }
                });
                r.unwrap_or("PANIC".to_string())
            }
            "S" if f.len() >= 4 => {
                let (a, b) = (big(f[2]), big(f[3]));
                let shl = f[1] == "shl";
                let r = guarded(|| {
                    let mut report = diagn::Report::new();
                    let span = diagn::Span::new_dummy();
                    let r = if shl { a.checked_shl(&mut report, span, &b) } else { a.checked_shr(&mut report, span, &b) };
                    match r {
                        Ok(v) => format!("OK\t{}", if v.sign() == 0 { 0 } else { v.min_size() }),
                        Err(()) => "ERR".to_string(),
                    }
                });
                r.unwrap_or("PANIC".to_string())
            }
            "E" if f.len() >= 2 => {
                let src = unhex(f[1]);
                let r = guarded(|| {
                    let mut report = diagn::Report::new();
                    let mut walker = syntax::Walker::new(&src, 0, 0);
                    let e = match expr::parse(&mut report, &mut walker) {
                        Ok(e) => e,
                        Err(()) => return "ERR".to_string(),
                    };
                    match e.eval(&mut report, &mut expr::dummy_eval_query) {
                        Ok(expr::Value::Integer(v)) => format!("OK\t{}", v.size.map(|s| s.to_string()).unwrap_or("-".to_string())),
                        Ok(_) => "OK\t?".to_string(),
                        Err(()) => "ERR".to_string(),
                    }
                });
                r.unwrap_or("PANIC".to_string())
            }
            "F" if f.len() >= 2 => {
                let s = unhex(f[1]);
                let r = guarded(|| {
                    let mut report = diagn::Report::new();
                    match driver::parse_output_format(&mut report, &s) {
                        Ok(_) => "OK".to_string(),
                        Err(()) => "ERR".to_string(),
                    }
                });
                r.unwrap_or("PANIC".to_string())
            }
            _ => "?".to_string(),
        }
    });
}
