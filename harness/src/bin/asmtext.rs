//! Assemble program text with given options.
//! line:   A <TAB> budget <TAB> static(0|1) <TAB> matching(0|1) <TAB> main-hex [<TAB> name=hex;name=hex... [<TAB> defines]]
//!         defines = name=value,name=value,... as after `-d` on the command line (value: true | false | [-]integer literal;
//!         a bare name means true); they become opts.driver_symbol_defs exactly as src/driver.rs parse_define_arg builds them
//! answer: OK <TAB> bits(0/1 string) <TAB> iterations <TAB> symbols(hex of format_default) <TAB> name=hexvalue:size;...
//!       | ERR <TAB> number of top-level error messages  | PANIC | INCONSISTENT <TAB> detail
use customasm::*;
use vh::*;

fn main() {
    quiet_panics();
    for_each_line(|line| {
        let f: Vec<&str> = line.split('\t').collect();
        if f.len() < 5 || f[0] != "A" {
            return "?".to_string();
        }
        let budget: usize = f[1].parse().unwrap_or(10);
        let src = unhex(f[4]);
        let r = guarded(|| {
            let mut report = diagn::Report::new();
            let mut fs = util::FileServerMock::new();
            fs.add("main.asm", src);
            if f.len() > 5 && !f[5].is_empty() {
                for kv in f[5].split(';') {
                    let mut it = kv.splitn(2, '=');
                    let name = it.next().unwrap();
                    let data = unhex_bytes(it.next().unwrap_or(""));
                    fs.add(unhex(name), data);
                }
            }
            let mut opts = asm::AssemblyOptions::new();
            opts.max_iterations = budget;
            opts.optimize_statically_known = f[2] == "1";
            opts.optimize_instruction_matching = f[3] == "1";
            if f.len() > 6 && !f[6].is_empty() {
                for d in f[6].split(',') {
                    let mut it = d.splitn(2, '=');
                    let name = it.next().unwrap().to_string();
                    let value = match it.next() {
                        None | Some("true") => expr::Value::make_bool(true),
                        Some("false") => expr::Value::make_bool(false),
                        Some(v) => {
                            let neg = v.starts_with('-');
                            let digits = if neg { &v[1..] } else { v };
                            match syntax::excerpt_as_bigint(None, diagn::Span::new_dummy(), digits) {
                                Ok(b) => { use std::ops::Neg; expr::Value::make_integer(if neg { b.neg() } else { b }) }
                                Err(()) => return "?".to_string(),
                            }
                        }
                    };
                    opts.driver_symbol_defs.push(asm::DriverSymbolDef { name, value });
                }
            }
            let a = asm::assemble(&mut report, &opts, &mut fs, &["main.asm"]);
            match (&a.output, report.has_errors(), a.error) {
                (Some(o), false, false) => {
                    let d = a.decls.as_ref().unwrap();
                    let fd = a.defs.as_ref().unwrap();
                    let mut bits = String::with_capacity(o.len());
                    for i in 0..o.len() {
                        bits.push(if o.read_bit(i) { '1' } else { '0' });
                    }
                    // fifth field: every emitted integer symbol with its size: name=hexvalue:size|-
                    let sized = d.symbols.format(d, fd, &mut |res: &mut String, _decl, name: &str, bigint: &util::BigInt| {
                        res.push_str(&format!("{}={:x}:{};", name, bigint, bigint.size.map_or("-".to_string(), |s| s.to_string())));
                    });
                    // sixth field: non-integer symbols (booleans, strings, void, failed) by declaration index: name=bool:0|1 / name=str:hex:encoding / name=void:- / name=failed:-
                    let mut other = String::new();
                    for i in 0..fd.symbols.len() {
                        let sym = fd.symbols.get(util::ItemRef::new(i));
                        let decl = d.symbols.get(util::ItemRef::new(i));
                        match &sym.value {
                            expr::Value::Bool(b) => other.push_str(&format!("{}=bool:{};", decl.name, if *b { 1 } else { 0 })),
                            expr::Value::String(st) => other.push_str(&format!("{}=str:{}:{};", decl.name, hex(&st.utf8_contents), st.encoding)),
                            expr::Value::Void => other.push_str(&format!("{}=void:-;", decl.name)),
                            expr::Value::FailedConstraint(_) => other.push_str(&format!("{}=failed:-;", decl.name)),
                            _ => {}
                        }
                    }
                    format!("OK\t{}\t{}\t{}\t{}\t{}", bits, a.iterations_taken.unwrap_or(0),
                        hex(&d.symbols.format_default(d, fd)), sized, other)
                }
                (None, true, true) => format!("ERR\t{}", report.len()),
                (o, e, ae) => format!("INCONSISTENT\toutput={} has_errors={} error={}", o.is_some(), e, ae),
            }
        });
        r.unwrap_or("PANIC".to_string())
    });
}
