//! Expression stream: parse (tree + final cursor) and evaluate a source text, or tokenize it.
//! line:   E <hex-source>    -> <parse answer> <TAB> <eval answer>
//!         L <hex-source>    -> token kinds and byte lengths at every char boundary: "Kind:len Kind:len ..."
use customasm::*;
use vh::*;

fn esc(s: &str) -> String {
    s.chars().map(|c| if (c as u32) < 128 && c != '\\' && c != '\n' && c != '\t' && c != '\r' && c != '\0' { c.to_string() } else { format!("\\u{{{:x}}}", c as u32) }).collect()
}

fn pr(e: &expr::Expr) -> String {
    use expr::Expr::*;
    match e {
        Literal(_, expr::Value::Integer(b)) => format!("(num {:x} {})", b, b.size.map_or("-".to_string(), |s| s.to_string())),
        Literal(_, expr::Value::Bool(b)) => format!("(bool {})", b),
        Literal(_, expr::Value::String(s)) => format!("(str {})", esc(&s.utf8_contents)),
        Literal(_, v) => format!("(lit? {:?})", v),
        Variable(_, l, p) => format!("(var {} {})", l, p.join(".")),
        UnaryOp(_, _, o, e) => format!("(un {:?} {})", o, pr(e)),
        BinaryOp(_, _, o, a, b) => format!("(bin {:?} {} {})", o, pr(a), pr(b)),
        TernaryOp(_, c, t, f) => format!("(tern {} {} {})", pr(c), pr(t), pr(f)),
        Slice(_, _, l, r, e) => format!("(slice {} {} {})", pr(l), pr(r), pr(e)),
        SliceShort(_, _, s, e) => format!("(short {} {})", pr(s), pr(e)),
        Block(_, es) => format!("(block{})", es.iter().map(|e| format!(" {}", pr(e))).collect::<String>()),
        Call(_, f, a) => format!("(call {}{})", pr(f), a.iter().map(|e| format!(" {}", pr(e))).collect::<String>()),
        Asm(..) => "(asm)".to_string(),
    }
}

fn pv(v: &expr::Value) -> String {
    match v {
        expr::Value::Unknown => "UNKNOWN".to_string(),
        expr::Value::FailedConstraint(_) => "FAILED".to_string(),
        expr::Value::Void => "VOID".to_string(),
        expr::Value::Integer(b) => format!("INT {:x} {}", b, b.size.map_or("-".to_string(), |s| s.to_string())),
        expr::Value::String(s) => format!("STR {} {}", esc(&s.utf8_contents), s.encoding),
        expr::Value::Bool(b) => format!("BOOL {}", b),
        expr::Value::ExprBuiltInFunction(n) => format!("BUILTIN {}", n),
        other => format!("OTHER {:?}", other),
    }
}

fn main() {
    quiet_panics();
    for_each_line(|line| {
        let f: Vec<&str> = line.split(' ').collect();
        if f.len() < 2 { return "?".to_string(); }
        let s = unhex(f[1]);
        match f[0] {
            "E" => {
                let r = guarded(|| {
                    let mut report = diagn::Report::new();
                    let mut w = syntax::Walker::new(&s, 0, 0);
                    match expr::parse(&mut report, &mut w) {
                        Err(()) => "PERR\t-".to_string(),
                        Ok(e) => {
                            let tree = format!("OK {} @{}", pr(&e), w.get_cursor_index());
                            let v = guarded(|| e.eval(&mut report, &mut expr::dummy_eval_query));
                            match v { None => format!("{}\tPANIC", tree), Some(Err(())) => format!("{}\tERR", tree), Some(Ok(v)) => format!("{}\t{}", tree, pv(&v)) }
                        }
                    }
                });
                r.unwrap_or("PANIC\t-".to_string())
            }
            "L" => {
                let r = guarded(|| {
                    let mut out = Vec::new();
                    for (off, _) in s.char_indices() {
                        let (k, n) = syntax::decide_next_token(&s[off..]);
                        out.push(format!("{:?}:{}", k, n));
                    }
                    out.join(" ")
                });
                r.unwrap_or("PANIC".to_string())
            }
            _ => "?".to_string(),
        }
    });
}
