//! C13 — where diagnostics point.
//!
//! line `L <TAB> text-hex`
//!   drives `util::CharCounter` directly, on EVERY byte index 0..=len (also off char boundaries) and every
//!   line number 0..=line_count+1.
//!   answer: `L <TAB> lines <TAB> l:c,l:c,... <TAB> b:e:x,b:e:x,...`
//!     lines = get_line_count(); l:c = get_line_column_at_index(i) (or `P` when it panics);
//!     b:e = get_index_range_of_line(n), x = `k` when get_excerpt(b, e) returns, `p` when it panics
//!     (whole triple `P` when get_index_range_of_line itself panics).
//!
//! line `P <TAB> entry-name-hex <TAB> namehex=contenthex;namehex=contenthex;...`
//!   assembles the entry file over a FileServerMock holding the given files (default options) and walks every
//!   message of the report (top-level messages in report order, inner messages in pre-order: the order print_all
//!   prints them), using the guarded hook `Report::verif_messages`.
//!   answer: `R <TAB> ok|err <TAB> ok|panic (print_all of the whole report) <TAB> msg;msg;...`
//!     msg = depth,kind(E|W|N),span(-|D|S),file-name-hex (or `!` when the handle names no file),start,end,line,col[,short_excerpt]
//!     span: `-` none, `D` dummy location (file only), `S` located.
//!     line,col: what report.rs prints for that message ("--> file:line:col:"), obtained through its own code path:
//!     the message alone (inner messages dropped) is put in a fresh Report and printed with print_all into a
//!     Vec<u8>; the header line after the description is parsed from the right.  `P,P` when that printing
//!     panics, `?,?` when no header could be parsed, `-,-` when there is no location.
//!     For located messages four more fields follow: tfile-hex,tline,tcol,excerpt — what print_all shows for this message
//!     when its WHOLE top-level message tree is printed (nested messages are printed by the recursive print_msg, which is
//!     where a wrong file text or indentation state would show): the file name, line and column of its `--> file:line:col:`
//!     header and the excerpt lines below it as `n:texthex/n:texthex` (n = printed line number, text = printed source text).
//!     `P` when printing the tree panics, `?` when the message's label line or header cannot be found in the output.
//!   `PANIC` when assembling itself panics.
//!   When the hook is absent from the tree under test (so that this file, and with it the whole harness crate,
//!   still builds) the message list reads `NOHOOK`; assembling and print_all panics are still reported.
use customasm::*;
use vh::*;

/// Fallback used only when `Report` has no inherent `verif_messages` (inherent methods win method resolution).
static HOOK_MISSING: std::sync::atomic::AtomicBool = std::sync::atomic::AtomicBool::new(false);
#[allow(dead_code)]
trait VerifMessagesFallback {
    fn verif_messages(&self) -> &[diagn::Message];
}
impl VerifMessagesFallback for diagn::Report {
    fn verif_messages(&self) -> &[diagn::Message] {
        HOOK_MISSING.store(true, std::sync::atomic::Ordering::SeqCst);
        &[]
    }
}

fn charcounter(text: &str) -> String {
    let counter = util::CharCounter::new(text);
    let lines = match guarded(|| counter.get_line_count()) {
        Some(n) => n,
        None => return "L\tP".to_string(),
    };
    let mut lc = Vec::new();
    for i in 0..=text.len() {
        match guarded(|| counter.get_line_column_at_index(i)) {
            Some((l, c)) => lc.push(format!("{}:{}", l, c)),
            None => lc.push("P".to_string()),
        }
    }
    let mut rg = Vec::new();
    for n in 0..=(lines + 1) {
        match guarded(|| counter.get_index_range_of_line(n)) {
            Some((b, e)) => {
                let ok = guarded(|| counter.get_excerpt(b, e).len()).is_some();
                rg.push(format!("{}:{}:{}", b, e, if ok { "k" } else { "p" }));
            }
            None => rg.push("P".to_string()),
        }
    }
    format!("L\t{}\t{}\t{}", lines, lc.join(","), rg.join(","))
}

/// what report.rs prints as `line:col` for this one message
fn printed_linecol(fs: &util::FileServerMock, msg: &diagn::Message) -> (String, String) {
    let alone = diagn::Message { inner: Vec::new(), ..msg.clone() };
    let descr = alone.descr.clone();
    let kind = alone.kind;
    let out = guarded(|| {
        let mut rep = diagn::Report::new();
        rep.message(alone);
        let mut buf = Vec::<u8>::new();
        rep.print_all(&mut buf, fs, false);
        String::from_utf8_lossy(&buf).into_owned()
    });
    let out = match out {
        Some(o) => o,
        None => return ("P".to_string(), "P".to_string()),
    };
    let label = match kind {
        diagn::MessageKind::Error => "error",
        diagn::MessageKind::Warning => "warning",
        diagn::MessageKind::Note => "note",
    };
    let head = format!("{}: {}\n", label, descr);
    let rest = match out.strip_prefix(head.as_str()) {
        Some(r) => r,
        None => return ("?".to_string(), "?".to_string()),
    };
    let line = rest.split('\n').next().unwrap_or("");
    let line = line.trim_start();
    let line = match line.strip_prefix("--> ") {
        Some(l) => l,
        None => return ("?".to_string(), "?".to_string()),
    };
    let line = match line.strip_suffix(":") {
        Some(l) => l,
        None => return ("?".to_string(), "?".to_string()),
    };
    let mut it = line.rsplitn(3, ':');
    let col = it.next().unwrap_or("?");
    let ln = it.next().unwrap_or("?");
    if it.next().is_none() || ln.parse::<u64>().is_err() || col.parse::<u64>().is_err() {
        return ("?".to_string(), "?".to_string());
    }
    (ln.to_string(), col.to_string())
}

fn label_of(kind: diagn::MessageKind) -> &'static str {
    match kind {
        diagn::MessageKind::Error => "error",
        diagn::MessageKind::Warning => "warning",
        diagn::MessageKind::Note => "note",
    }
}

/// print one top-level message with all its nested messages, through print_all
fn print_tree(fs: &util::FileServerMock, top: &diagn::Message) -> Option<Vec<String>> {
    guarded(|| {
        let mut rep = diagn::Report::new();
        rep.message(top.clone());
        let mut buf = Vec::<u8>::new();
        rep.print_all(&mut buf, fs, false);
        String::from_utf8_lossy(&buf).split('\n').map(|l| l.to_string()).collect::<Vec<String>>()
    })
}

/// walk the printed tree in the order print_msg emits it and pick, for every message, its header and excerpt
fn assign(msg: &diagn::Message, depth: usize, lines: &Vec<String>, cursor: &mut usize, out: &mut Vec<String>) {
    let want = format!("{}{}: {}", if depth > 0 { "+ " } else { "" }, label_of(msg.kind), msg.descr.split('\n').next().unwrap_or(""));
    let mut k = *cursor;
    // (a nested message under a parent that printed no source header is not indented and has no " + " prefix)
    let bare = want.strip_prefix("+ ").unwrap_or(&want).to_string();
    while k < lines.len() && lines[k].trim_start() != want.trim_end() && lines[k].trim_start() != want
        && lines[k].trim_start() != bare && lines[k].trim_start() != bare.trim_end() {
        k += 1;
    }
    let mut info = "-,-,-,-".to_string();
    if k >= lines.len() {
        info = "?,?,?,?".to_string();
    } else {
        *cursor = k + 1 + msg.descr.matches('\n').count();
        if let Some(span) = msg.span {
            let head = if *cursor < lines.len() { lines[*cursor].trim_start().to_string() } else { String::new() };
            if let Some(h) = head.strip_prefix("--> ") {
                *cursor += 1;
                if span.location().is_some() {
                    let h = h.strip_suffix(":").unwrap_or(h);
                    let mut it = h.rsplitn(3, ':');
                    let col = it.next().unwrap_or("?").to_string();
                    let ln = it.next().unwrap_or("?").to_string();
                    let file = it.next().map(|f| hex(f)).unwrap_or("?".to_string());
                    let mut ex = Vec::new();
                    while *cursor < lines.len() {
                        let t = lines[*cursor].trim_start();
                        let digits: String = t.chars().take_while(|c| c.is_ascii_digit()).collect();
                        if !digits.is_empty() && t[digits.len()..].starts_with(" | ") {
                            ex.push(format!("{}:{}", digits, hex(&t[digits.len() + 3..])));
                        } else if !digits.is_empty() && &t[digits.len()..] == " |" {
                            ex.push(format!("{}:", digits));
                        } else if t.starts_with("| ") || t == "|" {
                        } else {
                            break;
                        }
                        *cursor += 1;
                    }
                    info = format!("{},{},{},{}", file, ln, col, if ex.is_empty() { "-".to_string() } else { ex.join("/") });
                }
            } else {
                info = "?,?,?,?".to_string();
            }
        }
    }
    out.push(info);
    for inner in &msg.inner {
        assign(inner, depth + 1, lines, cursor, out);
    }
}

fn tree_infos(fs: &util::FileServerMock, top: &diagn::Message) -> Vec<String> {
    let mut out = Vec::new();
    match print_tree(fs, top) {
        Some(lines) => {
            let mut cursor = 0;
            assign(top, 0, &lines, &mut cursor, &mut out);
        }
        None => {
            for _ in 0..top.len_with_inner() {
                out.push("P,P,P,P".to_string());
            }
        }
    }
    out
}

fn walk(fs: &util::FileServerMock, msg: &diagn::Message, depth: usize, out: &mut Vec<String>) {
    use util::FileServer;
    let kind = match msg.kind {
        diagn::MessageKind::Error => "E",
        diagn::MessageKind::Warning => "W",
        diagn::MessageKind::Note => "N",
    };
    let item = match msg.span {
        None => format!("{},{},-,,0,0,-,-", depth, kind),
        Some(span) => {
            let name = guarded(|| fs.get_filename(span.file_handle).to_string());
            let name = match name {
                Some(n) => hex(&n),
                None => "!".to_string(),
            };
            match span.location() {
                None => format!("{},{},D,{},0,0,-,-", depth, kind, name),
                Some((s, e)) => {
                    let (l, c) = printed_linecol(fs, msg);
                    format!("{},{},S,{},{},{},{},{},{}", depth, kind, name, s, e, l, c, if msg.short_excerpt { 1 } else { 0 })
                }
            }
        }
    };
    out.push(item);
    for inner in &msg.inner {
        walk(fs, inner, depth + 1, out);
    }
}

fn program(entry: &str, files: &str) -> String {
    let r = guarded(|| {
        let mut report = diagn::Report::new();
        let mut fs = util::FileServerMock::new();
        if !files.is_empty() {
            for kv in files.split(';') {
                let mut it = kv.splitn(2, '=');
                let name = unhex(it.next().unwrap());
                let data = unhex_bytes(it.next().unwrap_or(""));
                fs.add(name, data);
            }
        }
        let opts = asm::AssemblyOptions::new();
        let a = asm::assemble(&mut report, &opts, &mut fs, &[unhex(entry)]);
        let ok = a.output.is_some() && !a.error;
        let printed = guarded(|| {
            let mut buf = Vec::<u8>::new();
            report.print_all(&mut buf, &fs, false);
            buf.len()
        });
        let mut items = Vec::new();
        for m in report.verif_messages() {
            let first = items.len();
            walk(&fs, m, 0, &mut items);
            let infos = tree_infos(&fs, m);
            for (k, info) in infos.iter().enumerate() {
                if first + k < items.len() && items[first + k].split(',').nth(2) == Some("S") {
                    items[first + k] = format!("{},{}", items[first + k], info);
                }
            }
        }
        let list = if HOOK_MISSING.load(std::sync::atomic::Ordering::SeqCst) { "NOHOOK".to_string() } else { items.join(";") };
        format!("R\t{}\t{}\t{}", if ok { "ok" } else { "err" },
            if printed.is_some() { "ok" } else { "panic" }, list)
    });
    r.unwrap_or("PANIC".to_string())
}

fn main() {
    quiet_panics();
    for_each_line(|line| {
        let f: Vec<&str> = line.split('\t').collect();
        match f[0] {
            "L" if f.len() >= 2 => charcounter(&unhex(f[1])),
            "L" => charcounter(""),
            "P" if f.len() >= 3 => program(f[1], f[2]),
            _ => "?".to_string(),
        }
    });
}
