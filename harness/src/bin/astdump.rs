//! AST stream: parse a whole assembly text with `asm::parser::parse` (includes not followed, nothing resolved)
//! and print a canonical one-line dump of the AST with every byte span.
//! line:  <hex-source>   ->   ERR <span of the first message> | PANIC | OK <node> <node> ...
//! Expressions are printed exactly like harness/src/bin/expr.rs (`pr`), except that an asm block is
//! `(asm S:E <node>...)`.  Spans are `start:end`, a dummy span is `-`.
use customasm::*;
use vh::*;

fn esc(s: &str) -> String {
    s.chars().map(|c| if (c as u32) < 128 && c != '\\' && c != '\n' && c != '\t' && c != '\r' && c != '\0' { c.to_string() } else { format!("\\u{{{:x}}}", c as u32) }).collect()
}

fn sp(s: diagn::Span) -> String {
    match s.location() { Some((a, b)) => format!("{}:{}", a, b), None => "-".to_string() }
}

fn pr(e: &expr::Expr) -> String {
    use expr::Expr::*;
    match e {
        Literal(_, expr::Value::Integer(b)) => format!("(num {:x} {})", b, b.size.map_or("-".to_string(), |s| s.to_string())),
        Literal(_, expr::Value::Bool(b)) => format!("(bool {})", b),
        Literal(_, expr::Value::String(s)) => format!("(str {})", esc(&s.utf8_contents)),
        Literal(_, v) => format!("(lit? {:?})", v),
        Variable(_, l, p) => format!("(var {} {})", l, p.join(".")),
        UnaryOp(_, _, o, e) => format!("(un {:?} {})", o, pr(e)),
        BinaryOp(_, _, o, a, b) => format!("(bin {:?} {} {})", o, pr(a), pr(b)),
        TernaryOp(_, c, t, f) => format!("(tern {} {} {})", pr(c), pr(t), pr(f)),
        Slice(_, _, l, r, e) => format!("(slice {} {} {})", pr(l), pr(r), pr(e)),
        SliceShort(_, _, s, e) => format!("(short {} {})", pr(s), pr(e)),
        Block(_, es) => format!("(block{})", es.iter().map(|e| format!(" {}", pr(e))).collect::<String>()),
        Call(_, f, a) => format!("(call {}{})", pr(f), a.iter().map(|e| format!(" {}", pr(e))).collect::<String>()),
        Asm(s, ast) => format!("(asm {}{})", sp(*s), nodes(&ast.nodes)),
    }
}

fn opt(e: &Option<expr::Expr>) -> String {
    match e { Some(e) => pr(e), None => "-".to_string() }
}

fn nodes(ns: &[asm::AstAny]) -> String {
    ns.iter().map(|n| format!(" {}", node(n))).collect::<String>()
}

fn ptype(t: &asm::AstRuleParameterType) -> String {
    use asm::AstRuleParameterType::*;
    match t {
        Unspecified => "-".to_string(),
        Ruledef(n) => format!("r:{}", n),
        Unsigned(n) => format!("u{}", n),
        Signed(n) => format!("s{}", n),
        Integer(n) => format!("i{}", n),
    }
}

fn part(p: &asm::AstRulePatternPart) -> String {
    use asm::AstRulePatternPart::*;
    match p {
        Whitespace => "ws".to_string(),
        Exact(c) => format!("x{:x}", *c as u32),
        ExactGlued(c) => format!("g{:x}", *c as u32),
        Parameter(q) => format!("p({},{},{},{})", sp(q.name_span), sp(q.type_span), q.name, ptype(&q.typ)),
    }
}

fn node(n: &asm::AstAny) -> String {
    use asm::AstAny::*;
    match n {
        Symbol(s) => match &s.kind {
            asm::AstSymbolKind::Label => format!("(label {} {} {})", sp(s.decl_span), s.hierarchy_level, s.name),
            asm::AstSymbolKind::Constant(c) => format!("(const {} {} {} {} {})", sp(s.decl_span), s.hierarchy_level, s.name,
                if s.no_emit { "noemit" } else { "emit" }, pr(&c.expr)),
        },
        Instruction(i) => format!("(instr {} {})", sp(i.span), hex(&i.src)),
        DirectiveData(d) => format!("(data {} {}{})", sp(d.header_span), d.elem_size.map_or("-".to_string(), |s| s.to_string()),
            d.elems.iter().map(|e| format!(" {}", pr(e))).collect::<String>()),
        DirectiveRes(d) => format!("(res {} {})", sp(d.header_span), pr(&d.expr)),
        DirectiveAlign(d) => format!("(align {} {})", sp(d.header_span), pr(&d.expr)),
        DirectiveAddr(d) => format!("(addr {} {})", sp(d.header_span), pr(&d.expr)),
        DirectiveAssert(d) => format!("(assert {} {})", sp(d.header_span), pr(&d.condition_expr)),
        DirectiveBank(d) => format!("(bank {} {} {})", sp(d.header_span), sp(d.name_span), d.name),
        DirectiveBankdef(d) => format!("(bankdef {} {} {} bits={} labelalign={} addr={} addr_end={} size={} outp={} fill={})",
            sp(d.header_span), sp(d.name_span), d.name, opt(&d.addr_unit), opt(&d.label_align), opt(&d.addr_start),
            opt(&d.addr_end), opt(&d.addr_size), opt(&d.output_offset), if d.fill { 1 } else { 0 }),
        DirectiveBits(d) => format!("(bits {})", sp(d.header_span)),
        DirectiveLabelAlign(d) => format!("(labelalign {})", sp(d.header_span)),
        DirectiveNoEmit(d) => format!("(noemit {})", sp(d.header_span)),
        DirectiveOnce(d) => format!("(once {})", sp(d.header_span)),
        DirectiveInclude(d) => format!("(include {} {} {})", sp(d.header_span), sp(d.filename_span), hex(&d.filename)),
        DirectiveFn(d) => format!("(fn {} {} {} (params{}) {})", sp(d.header_span), sp(d.name_span), d.name,
            d.params.iter().map(|p| format!(" {}", p.name)).collect::<String>(), pr(&d.body)),
        DirectiveIf(d) => format!("(if {} {} (then{}) {})", sp(d.header_span), pr(&d.condition_expr), nodes(&d.true_arm.nodes),
            match &d.false_arm { Some(a) => format!("(else{})", nodes(&a.nodes)), None => "(noelse)".to_string() }),
        DirectiveRuledef(d) => format!("({} {} {} {}{})", if d.is_subruledef { "subruledef" } else { "ruledef" },
            sp(d.header_span), sp(d.name_span), d.name.clone().unwrap_or("-".to_string()),
            d.rules.iter().map(|r| format!(" (rule {} [{}] {})", sp(r.pattern_span),
                r.pattern.iter().map(part).collect::<Vec<_>>().join(" "), pr(&r.expr))).collect::<String>()),
    }
}

/// Fallback used only when `Report` has no inherent `verif_messages` (inherent methods win method resolution).
#[allow(dead_code)]
trait VerifMessagesFallback {
    fn verif_messages(&self) -> &[diagn::Message];
}
impl VerifMessagesFallback for diagn::Report {
    fn verif_messages(&self) -> &[diagn::Message] { &[] }
}

/// span of the first message of the report (`?` when the hook is absent or the report is empty, `-` for no/dummy span)
fn first_error_span(report: &diagn::Report) -> String {
    match report.verif_messages().first() {
        None => "?".to_string(),
        Some(m) => match m.span { Some(s) => sp(s), None => "-".to_string() },
    }
}

fn run() {
    for_each_line(|line| {
        let s = unhex(line.trim());
        let r = guarded(|| {
            let mut report = diagn::Report::new();
            let mut w = syntax::Walker::new(&s, 0, 0);
            match asm::parser::parse(&mut report, &mut w) {
                Err(()) => format!("ERR {}", first_error_span(&report)),
                Ok(ast) => format!("OK{}", nodes(&ast.nodes)),
            }
        });
        r.unwrap_or("PANIC".to_string())
    });
}

fn main() {
    quiet_panics();
    // deep (but legal) nesting recurses in the parser: give it room so that a crash is a finding, not an artefact
    let t = std::thread::Builder::new().stack_size(512 << 20).spawn(run).unwrap();
    t.join().unwrap();
}
