//! C15: drive the symbol table of the real crate.
//! `Q <TAB> program-hex <TAB> maxlevel <TAB> path|path|...`   (path = hex names joined by '.')
//!     parse the program with the real parser, run asm::decls::init + asm::decls::collect, then walk the
//!     AST as ResolveIterator does (context = `decl.ctx` of the last symbol node, a symbol node: its own)
//!     and call util::SymbolManager::try_get_by_name(ctx, level, path) for every node x level 0..=maxlevel
//!     x path.
//!     answer: `OK <TAB> n_nodes <TAB> r,r,r,...` (node-major, then level, then path; r = item index or `-`)
//!           | `ERR <TAB> class <TAB> declared`   class = skip | dup | other (from the printed message),
//!             declared = number of symbols declared before the failure
//!           | `PARSE` (the program did not parse) | `PANIC`
//! `R <TAB> static(0|1) <TAB> program-hex`
//!     parse, init, then rounds of { decls::collect ; defs::define_symbols ; resolver::resolve_constants_simple }
//!     exactly as the loop of asm::assemble does (this binary repeats the calls only to OBSERVE every round;
//!     the loop's own stop rule is observed through whole programs with asmtext), at most n_symbols + 3 rounds,
//!     stopping after the round whose count equals the previous one.
//!     answer: `OK <TAB> round|round|...`  round = count:v,v,v  (v = hex value | `?` unknown | `o` other, by item index)
//!           | `ERR <TAB> rounds-completed` | `PARSE` | `PANIC`
use customasm::*;
use vh::*;

fn printed(report: &diagn::Report, fs: &util::FileServerMock) -> String {
    let mut buf = Vec::<u8>::new();
    report.print_all(&mut buf, fs, false);
    String::from_utf8_lossy(&buf).into_owned()
}

fn n_declared(decls: &asm::ItemDecls) -> usize {
    // generate_anonymous_name() = "#anonymous_symbol_{decls.len()}"
    decls.symbols.generate_anonymous_name().rsplit('_').next().and_then(|s| s.parse().ok()).unwrap_or(usize::MAX)
}

fn query(src: String, maxlevel: usize, paths: Vec<Vec<String>>) -> String {
    let mut report = diagn::Report::new();
    let mut fs = util::FileServerMock::new();
    fs.add("main.asm", src);
    let mut ast = match asm::parser::parse_many_and_resolve_includes(&mut report, &mut fs, &["main.asm"]) {
        Ok(a) => a,
        Err(()) => return "PARSE".to_string(),
    };
    let mut decls = match asm::decls::init(&mut report) {
        Ok(d) => d,
        Err(()) => return "ERR\tother\t0".to_string(),
    };
    if asm::decls::collect(&mut report, &mut ast, &mut decls).is_err() {
        let text = printed(&report, &fs);
        let class = if text.contains("skips a nesting level") { "skip" } else if text.contains("duplicate") { "dup" } else { "other" };
        return format!("ERR\t{}\t{}", class, n_declared(&decls));
    }
    let mut out = Vec::new();
    let mut ctx = util::SymbolContext::new_global();
    for node in &ast.nodes {
        if let asm::AstAny::Symbol(s) = node {
            ctx = decls.symbols.get(s.item_ref.unwrap()).ctx.clone();
        }
        for level in 0..=maxlevel {
            for p in &paths {
                match decls.symbols.try_get_by_name(&ctx, level, p) {
                    Some(r) => out.push(r.0.to_string()),
                    None => out.push("-".to_string()),
                }
            }
        }
    }
    format!("OK\t{}\t{}", ast.nodes.len(), out.join(","))
}

fn rounds(src: String, opt_static: bool) -> String {
    let mut report = diagn::Report::new();
    let mut fs = util::FileServerMock::new();
    fs.add("main.asm", src);
    let mut ast = match asm::parser::parse_many_and_resolve_includes(&mut report, &mut fs, &["main.asm"]) {
        Ok(a) => a,
        Err(()) => return "PARSE".to_string(),
    };
    let mut opts = asm::AssemblyOptions::new();
    opts.optimize_statically_known = opt_static;
    let mut decls = match asm::decls::init(&mut report) {
        Ok(d) => d,
        Err(()) => return "ERR\t0".to_string(),
    };
    let mut defs = asm::defs::init();
    let mut prev = 0usize;
    let mut out = Vec::new();
    let mut limit = 3usize;
    loop {
        if asm::decls::collect(&mut report, &mut ast, &mut decls).is_err() {
            return format!("ERR\t{}", out.len());
        }
        if asm::defs::define_symbols(&mut report, &opts, &mut ast, &decls, &mut defs).is_err() {
            return format!("ERR\t{}", out.len());
        }
        let n = n_declared(&decls);
        if out.is_empty() {
            limit = n + 3;
        }
        let count = match asm::resolver::resolve_constants_simple(&mut report, &opts, &mut fs, &ast, &decls, &mut defs) {
            Ok(c) => c,
            Err(()) => return format!("ERR\t{}", out.len()),
        };
        let mut vals = Vec::new();
        for i in 0..n {
            let s = defs.symbols.get(util::ItemRef::new(i));
            vals.push(match &s.value {
                expr::Value::Unknown => "?".to_string(),
                expr::Value::Integer(b) => format!("{:x}", b),
                _ => "o".to_string(),
            });
        }
        out.push(format!("{}:{}", count, vals.join(",")));
        if count == prev || out.len() >= limit {
            break;
        }
        prev = count;
    }
    format!("OK\t{}", out.join("|"))
}

fn main() {
    quiet_panics();
    for_each_line(|line| {
        let f: Vec<&str> = line.split('\t').collect();
        let r = match f.get(0).copied() {
            Some("Q") if f.len() >= 4 => {
                let src = unhex(f[1]);
                let maxlevel: usize = f[2].parse().unwrap_or(0);
                let paths: Vec<Vec<String>> = f[3].split('|').filter(|p| !p.is_empty())
                    .map(|p| p.split('.').map(unhex).collect()).collect();
                guarded(|| query(src, maxlevel, paths))
            }
            Some("R") if f.len() >= 3 => {
                let src = unhex(f[2]);
                let st = f[1] == "1";
                guarded(|| rounds(src, st))
            }
            _ => Some("?".to_string()),
        };
        r.unwrap_or("PANIC".to_string())
    });
}
