//! C12: assemble a program and print everything the listing / symbol formats are derived from,
//! together with the text of the formats themselves.
//! line:   L <TAB> main-hex <TAB> [name-hex=contents-hex;...] <TAB> requests (blank separated)
//!         request:  a:<base>:<group>  format_annotated      t:<base>:<group>  format_tcgame
//!                   s  format_addrspan      y  symbols format_default      m  symbols format_mesen_mlb
//! answer: OK <TAB> bits (0/1 string or -) <TAB> spans <TAB> files <TAB> symbols <TAB> banks <TAB> one field per request
//!         banks    index:[-]addr_start-hex:addr_unit:outp|-:size|-  joined by ','  (every Bankdef; size in BITS; index 0 = the default bank)
//!         spans    off|-:size:[-]addrhex:filehandle:start|-:end|-   joined by ','   (BitVec::spans order; or .)
//!         files    handle:name-hex:contents-hex  joined by ','
//!         symbols  index:depth:fullname-hex:kind(c|l|f|o):[-]valuehex|-:noemit(0|1):bank  joined by ','  (or .)
//!                  bank = -  |  [-]addr_start-hex/outp|-
//!         request field:  <hex of text|-> followed by  '=' (driver::format_output gives the same bytes) or
//!                  '!' + hex of the driver's bytes, or '?DPANIC' / '?DREJECT';  PANIC when the formatter panicked
//!       | ERR <TAB> n | PANIC | INCONSISTENT
use customasm::*;
use vh::*;
use customasm::util::FileServer;
include!(concat!(env!("OUT_DIR"), "/driver_mod.rs"));

fn hexz(b: &util::BigInt) -> String {
    format!("{:x}", b)
}

fn cli_name(req: &[&str]) -> Option<String> {
    Some(match req[0] {
        "a" => format!("annotated,base:{},group:{}", req.get(1)?, req.get(2)?),
        "t" => format!("tcgame,base:{},group:{}", req.get(1)?, req.get(2)?),
        "s" => "addrspan".to_string(),
        "y" => "symbols".to_string(),
        "m" => "mesen-mlb".to_string(),
        _ => return None,
    })
}

fn main() {
    quiet_panics();
    for_each_line(|line| {
        let f: Vec<&str> = line.split('\t').collect();
        if f.len() < 4 || f[0] != "L" {
            return "?".to_string();
        }
        let src = unhex(f[1]);
        let r = guarded(|| {
            let mut report = diagn::Report::new();
            let mut fs = util::FileServerMock::new();
            let mut names: Vec<String> = vec!["main.asm".to_string()];
            fs.add("main.asm", src);
            if !f[2].is_empty() {
                for kv in f[2].split(';') {
                    let mut it = kv.splitn(2, '=');
                    let name = unhex(it.next().unwrap());
                    let data = unhex_bytes(it.next().unwrap_or(""));
                    if !names.contains(&name) {
                        names.push(name.clone());
                    }
                    fs.add(name, data);
                }
            }
            let opts = asm::AssemblyOptions::new();
            let a = asm::assemble(&mut report, &opts, &mut fs, &["main.asm"]);
            let (o, d, fd) = match (&a.output, report.has_errors(), a.error) {
                (Some(o), false, false) => (o, a.decls.as_ref().unwrap(), a.defs.as_ref().unwrap()),
                (None, true, true) => return format!("ERR\t{}", report.len()),
                (o, e, ae) => return format!("INCONSISTENT\toutput={} has_errors={} error={}", o.is_some(), e, ae),
            };
            let mut bits = String::with_capacity(o.len());
            for i in 0..o.len() {
                bits.push(if o.read_bit(i) { '1' } else { '0' });
            }
            if bits.is_empty() {
                bits.push('-');
            }
            let spans: Vec<String> = o.spans.iter().map(|s| {
                let loc = match s.span.location() {
                    Some((a, b)) => format!("{}:{}", a, b),
                    None => "-:-".to_string(),
                };
                format!("{}:{}:{}:{}:{}",
                    match s.offset { Some(x) => x.to_string(), None => "-".to_string() },
                    s.size, hexz(&s.addr), s.span.file_handle, loc)
            }).collect();
            let files: Vec<String> = names.iter().map(|n| {
                let h = fs.get_handle_unwrap(n);
                format!("{}:{}:{}", h, hex(fs.get_filename(h)), hex_bytes(&fs.get_bytes_unwrap(h)))
            }).collect();
            let mut syms: Vec<String> = Vec::new();
            for i in 0..fd.symbols.defs.len() {
                let decl = d.symbols.get(util::ItemRef::new(i));
                let sym = match fd.symbols.maybe_get(decl.item_ref) { Some(s) => s, None => continue };
                let kind = match decl.kind {
                    util::SymbolKind::Constant => "c",
                    util::SymbolKind::Label => "l",
                    util::SymbolKind::Function => "f",
                    util::SymbolKind::Other => "o",
                };
                let value = match sym.value { expr::Value::Integer(ref b) => hexz(b), _ => "-".to_string() };
                let bank = match sym.bankdef_ref {
                    None => "-".to_string(),
                    Some(r) => {
                        let b = fd.bankdefs.get(r);
                        format!("{}/{}", hexz(&b.addr_start),
                            match b.output_offset { Some(x) => x.to_string(), None => "-".to_string() })
                    }
                };
                syms.push(format!("{}:{}:{}:{}:{}:{}:{}", i, decl.depth, hex(&decl.name), kind, value,
                    if sym.no_emit { 1 } else { 0 }, bank));
            }
            let mut banks: Vec<String> = Vec::new();
            for i in 0..fd.bankdefs.defs.len() {
                if let Some(b) = fd.bankdefs.maybe_get(util::ItemRef::new(i)) {
                    banks.push(format!("{}:{}:{}:{}:{}", i, hexz(&b.addr_start), b.addr_unit,
                        match b.output_offset { Some(x) => x.to_string(), None => "-".to_string() },
                        match b.size { Some(x) => x.to_string(), None => "-".to_string() }));
                }
            }
            let mut out = format!("OK\t{}\t{}\t{}\t{}\t{}", bits,
                if spans.is_empty() { ".".to_string() } else { spans.join(",") },
                files.join(","),
                if syms.is_empty() { ".".to_string() } else { syms.join(",") },
                banks.join(","));
            for req in f[3].split_whitespace() {
                let p: Vec<&str> = req.split(':').collect();
                let num = |i: usize| -> usize { p.get(i).and_then(|x| x.parse().ok()).unwrap_or(0) };
                let direct = guarded(|| match p[0] {
                    "a" => Some(o.format_annotated(&fs, num(1), num(2))),
                    "t" => Some(o.format_tcgame(&fs, num(1), num(2))),
                    "s" => Some(o.format_addrspan(&fs)),
                    "y" => Some(d.symbols.format_default(d, fd)),
                    "m" => Some(d.symbols.format_mesen_mlb(d, fd)),
                    _ => None,
                });
                let text = match direct {
                    None => { out.push_str("\tPANIC"); continue; }
                    Some(None) => { out.push_str("\t?"); continue; }
                    Some(Some(t)) => t.into_bytes(),
                };
                let via = guarded(|| {
                    let mut report = diagn::Report::new();
                    let fmt = driver::parse_output_format(&mut report, &cli_name(&p)?).ok()?;
                    Some(driver::format_output(&fs, d, fd, o, fmt))
                });
                let second = match via {
                    None => "?DPANIC".to_string(),
                    Some(None) => "?DREJECT".to_string(),
                    Some(Some(v)) => if v == text { "=".to_string() } else { format!("!{}", hex_bytes(&v)) },
                };
                out.push_str(&format!("\t{}{}", if text.is_empty() { "-".to_string() } else { hex_bytes(&text) }, second));
            }
            out
        });
        r.unwrap_or("PANIC".to_string())
    });
}
