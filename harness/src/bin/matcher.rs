//! Matcher stream.  line: X <hex rule-blocks> <hex instruction line>
//! answer: RULES-ERR | <matches without the prefix index> TAB <matches with the prefix index>
//! a match list is `rd.ru[args]xEXACT | ...`, arg = E(start,end,excerpt) or N(start,end,excerpt,match)
use customasm::*;
use vh::*;

fn esc(s: &str) -> String {
    s.chars().map(|c| if (c as u32) < 128 && (c as u32) >= 32 { c.to_string() } else { format!("\\u{{{:x}}}", c as u32) }).collect()
}
fn pm(m: &asm::InstructionMatch) -> String {
    let args: Vec<String> = m.args.iter().map(|a| {
        let (s, t) = a.span.location().unwrap();
        match &a.kind {
            asm::InstructionArgumentKind::Expr(_) => format!("E({},{},{})", s, t, esc(&a.excerpt)),
            asm::InstructionArgumentKind::Nested(n) => format!("N({},{},{},{})", s, t, esc(&a.excerpt), pm(n)),
        }
    }).collect();
    format!("{}.{}[{}]x{}", m.ruledef_ref.0, m.rule_ref.0, args.join(";"), m.exact_part_count)
}

fn main() {
    quiet_panics();
    let mut cur_rules = String::new();
    let mut cur: Option<asm::AssemblyResult> = None;
    for_each_line(|line| {
        let f: Vec<&str> = line.split(' ').collect();
        if f.len() < 3 || f[0] != "X" { return "?".to_string(); }
        if f[1] != cur_rules {
            cur_rules = f[1].to_string();
            let s = unhex(f[1]);
            cur = guarded(|| {
                let mut report = diagn::Report::new();
                let mut fs = util::FileServerMock::new();
                fs.add("r.asm", s);
                let opts = asm::AssemblyOptions::new();
                let a = asm::assemble(&mut report, &opts, &mut fs, &["r.asm"]);
                if a.output.is_some() { Some(a) } else { None }
            }).flatten();
        }
        let s = unhex(f[2]);
        match &cur {
            None => "RULES-ERR".to_string(),
            Some(a) => {
                let defs = a.defs.as_ref().unwrap();
                let mut out = Vec::new();
                for optimized in [false, true] {
                    let mut opts = asm::AssemblyOptions::new();
                    opts.optimize_instruction_matching = optimized;
                    let r = guarded(|| asm::matcher::match_instr(&opts, defs, diagn::Span::new(0, 0, s.len()), &s));
                    out.push(match r { Some(ms) => ms.iter().map(pm).collect::<Vec<_>>().join(" | "), None => "PANIC".to_string() });
                }
                out.join("\t")
            }
        }
    });
}
