//! C16 implementation runner: conditional assembly with command-line defines through the REAL driver
//! (src/driver.rs included privately: getopts, parse_define_arg, assemble_with_command) on a mock file server.
//! line:   C <TAB> static(0|1) <TAB> defines (hex of each raw `-d` argument, `;`-separated, or `-`) <TAB> main-hex
//!           [<TAB> layout]   layout = <number of `--`-separated output groups>:<group of define 0>,<group of define 1>,..
//!           (absent = one group).  Group 0 is `main.asm -q -o out.bin`, the others `-f symbols -o outK.txt` / `-f hexstr ..`;
//!           the static switch goes into the LAST group.
//! answer: OK <TAB> output bytes hex|- <TAB> name:kind:value;..|-      (every declared symbol in declaration order;
//!               kind c|l ; value b0|b1|i[-]hex|? )
//!       | ERR <TAB> class          class of the FIRST top-level message: dup|skip|leftover|unused|eval|define|later|other
//!       | PANIC | INCONSISTENT <TAB> detail
use customasm::*;
include!(concat!(env!("OUT_DIR"), "/driver_mod.rs"));
use vh::*;

fn classify(d: &str) -> &'static str {
    if d.contains("duplicate symbol") { "dup" }
    else if d.contains("skips a nesting level") { "skip" }
    else if d.contains("unresolved condition") { "leftover" }
    else if d.contains("unused define") { "unused" }
    else if d.contains("invalid argument type") || d.contains("out of supported range") { "eval" }
    else if d.contains("invalid define argument") || d.contains("invalid value for define") { "define" }
    else if d.contains("unknown symbol") || d.contains("unresolved symbol") || d.contains("did not converge") { "later" }
    else { "other" }
}

fn main() {
    quiet_panics();
    for_each_line(|line| {
        let f: Vec<&str> = line.split('\t').collect();
        if f.len() < 4 || f[0] != "C" {
            return "?".to_string();
        }
        let src = unhex(f[3]);
        let defs: Vec<String> = if f[2] != "-" && !f[2].is_empty() { f[2].split(';').map(|d| unhex(d)).collect() } else { Vec::new() };
        let (ngroups, place): (usize, Vec<usize>) = if f.len() > 4 && f[4].contains(':') {
            let mut it = f[4].splitn(2, ':');
            let n: usize = it.next().unwrap().parse().unwrap_or(1);
            let pl = it.next().unwrap_or("").split(',').filter(|x| !x.is_empty()).map(|x| x.parse().unwrap_or(0)).collect();
            (n.max(1), pl)
        } else { (1, Vec::new()) };
        let mut args: Vec<String> = vec!["customasm".into()];
        for g in 0..ngroups {
            if g == 0 {
                args.extend(["main.asm", "-q", "-o", "out.bin"].iter().map(|x| x.to_string()));
            } else {
                args.push("--".into());
                args.extend(["-f", if g % 2 == 1 { "symbols" } else { "hexstr" }, "-o"].iter().map(|x| x.to_string()));
                args.push(format!("out{}.txt", g));
            }
            for (i, d) in defs.iter().enumerate() {
                if place.get(i).copied().unwrap_or(0).min(ngroups - 1) == g {
                    // `-dNAME=value` as one argument (a value starting with `-` would otherwise be taken for an option)
                    args.push(format!("-d{}", d));
                }
            }
            if g == ngroups - 1 && f[1] == "0" {
                args.push("--debug-no-optimize-static".into());
            }
        }
        let r = guarded(|| {
            let mut report = diagn::Report::new();
            let mut fs = util::FileServerMock::new();
            fs.add("main.asm", src);
            let res = driver::drive(&mut report, &args, &mut fs);
            let first = report.verif_messages().first().map(|m| m.descr.clone());
            match res {
                Ok(a) => {
                    match (&a.output, report.has_errors(), a.error) {
                        (Some(o), false, false) => {
                            let d = a.decls.as_ref().unwrap();
                            let fd = a.defs.as_ref().unwrap();
                            let mut bytes = String::new();
                            if o.len() % 8 != 0 {
                                return format!("INCONSISTENT\tbits={}", o.len());
                            }
                            for i in 0..o.len() / 8 {
                                let mut b = 0u8;
                                for k in 0..8 { b = (b << 1) | (o.read_bit(i * 8 + k) as u8); }
                                bytes.push_str(&format!("{:02x}", b));
                            }
                            let mut syms: Vec<String> = Vec::new();
                            for i in 0..fd.symbols.len() {
                                let r = util::ItemRef::<asm::Symbol>::new(i);
                                let decl = d.symbols.get(r);
                                let kind = match decl.kind { util::SymbolKind::Constant => "c", util::SymbolKind::Label => "l", _ => "o" };
                                let val = match fd.symbols.maybe_get(r).map(|s| &s.value) {
                                    Some(expr::Value::Bool(b)) => if *b { "b1".to_string() } else { "b0".to_string() },
                                    Some(expr::Value::Integer(bi)) => format!("i{:x}", bi),
                                    _ => "?".to_string(),
                                };
                                syms.push(format!("{}:{}:{}", decl.name, kind, val));
                            }
                            format!("OK\t{}\t{}", if bytes.is_empty() { "-".to_string() } else { bytes },
                                if syms.is_empty() { "-".to_string() } else { syms.join(";") })
                        }
                        (o, e, ae) => format!("INCONSISTENT\toutput={} has_errors={} error={}", o.is_some(), e, ae),
                    }
                }
                Err(()) => {
                    if !report.has_errors() {
                        return "INCONSISTENT\terr-without-message".to_string();
                    }
                    format!("ERR\t{}", classify(&first.unwrap_or_default()))
                }
            }
        });
        r.unwrap_or("PANIC".to_string())
    });
}
