//! C06 harness.
//! line `O <TAB> pos,size;pos,size;...`  (decimal usize): drives util::OverlapChecker directly.
//!   answer: one letter per request: A accepted, R rejected (Err), P panicked (sequence stops there).
//! line `A <TAB> budget <TAB> static <TAB> matching <TAB> main-hex`: assembles like asmtext and, on success,
//!   also prints the bank definitions and the recorded spans, so that the layout invariant can be
//!   evaluated on the implementation's own output:
//!   OK <TAB> bits <TAB> iterations <TAB> symbols-hex <TAB> banks <TAB> spans
//!     banks = `;`-joined  addr_start([-]hex),addr_unit,label_align|-,size|-,output_offset|-,fill(0|1)   (index 0 = default bank)
//!     spans = `;`-joined  offset|-,size,addr([-]hex)        (in recording order)
//!   | ERR <TAB> n | PANIC | INCONSISTENT ...
use customasm::*;
use vh::*;

fn opt(v: Option<usize>) -> String {
    match v {
        Some(x) => x.to_string(),
        None => "-".to_string(),
    }
}

fn overlap_ops(spec: &str) -> String {
    let mut out = String::new();
    let mut checker = util::OverlapChecker::new();
    for op in spec.split(';') {
        if op.is_empty() {
            continue;
        }
        let mut it = op.split(',');
        let pos: usize = it.next().unwrap_or("0").parse().unwrap_or(0);
        let size: usize = it.next().unwrap_or("0").parse().unwrap_or(0);
        let r = guarded(|| {
            let mut report = diagn::Report::new();
            checker.check_and_insert(&mut report, diagn::Span::new_dummy(), pos, size)
        });
        match r {
            Some(Ok(())) => out.push('A'),
            Some(Err(())) => out.push('R'),
            None => {
                out.push('P');
                break;
            }
        }
    }
    if out.is_empty() {
        out.push('-');
    }
    out
}

fn assemble(f: &[&str]) -> String {
    let budget: usize = f[1].parse().unwrap_or(10);
    let src = unhex(f[4]);
    let r = guarded(|| {
        let mut report = diagn::Report::new();
        let mut fs = util::FileServerMock::new();
        fs.add("main.asm", src);
        let mut opts = asm::AssemblyOptions::new();
        opts.max_iterations = budget;
        opts.optimize_statically_known = f[2] == "1";
        opts.optimize_instruction_matching = f[3] == "1";
        let a = asm::assemble(&mut report, &opts, &mut fs, &["main.asm"]);
        match (&a.output, report.has_errors(), a.error) {
            (Some(o), false, false) => {
                let d = a.decls.as_ref().unwrap();
                let fd = a.defs.as_ref().unwrap();
                let mut bits = String::with_capacity(o.len());
                for i in 0..o.len() {
                    bits.push(if o.read_bit(i) { '1' } else { '0' });
                }
                let mut banks: Vec<String> = Vec::new();
                for i in 0..fd.bankdefs.len() {
                    let b = fd.bankdefs.get(util::ItemRef::new(i));
                    banks.push(format!("{:x},{},{},{},{},{}", b.addr_start, b.addr_unit, opt(b.label_align),
                        opt(b.size), opt(b.output_offset), if b.fill { 1 } else { 0 }));
                }
                let mut spans: Vec<String> = Vec::new();
                for s in &o.spans {
                    spans.push(format!("{},{},{:x}", opt(s.offset), s.size, s.addr));
                }
                format!("OK\t{}\t{}\t{}\t{}\t{}", bits, a.iterations_taken.unwrap_or(0),
                    hex(&d.symbols.format_default(d, fd)), banks.join(";"), spans.join(";"))
            }
            (None, true, true) => format!("ERR\t{}", report.len()),
            (o, e, ae) => format!("INCONSISTENT\toutput={} has_errors={} error={}", o.is_some(), e, ae),
        }
    });
    r.unwrap_or("PANIC".to_string())
}

fn main() {
    quiet_panics();
    for_each_line(|line| {
        let f: Vec<&str> = line.split('\t').collect();
        if f.len() >= 2 && f[0] == "O" {
            return overlap_ops(f[1]);
        }
        if f.len() >= 5 && f[0] == "A" {
            return assemble(&f);
        }
        "?".to_string()
    });
}
