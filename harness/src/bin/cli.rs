//! C18 implementation runner: the real command-line driver of /repo (src/driver.rs, included privately).
//! One case per line (tab separated, texts hex-encoded), one answer line per case.
//!   F <hex format string> [repeat]     -> OK ctor f.. | ERR class hexid | PANIC      (NONDET a|b if repeats differ)
//!   C <argv hex;hex;..> <files name=content;..> <probes ctor:f:f;..>
//!        -> OK|ERR|PANIC  it=<n|->  X=<v>  Y=<v>  W=<hexname:hexcontent;..>  S=<hex of what was printed>
//!           P=<hexcontent|PANIC|-;..>  E=<number of messages>
//! `drive` prints with println!, so when VH_STDOUT names the file that fd 1 is redirected to, answers go to fd 3
//! and the text printed during each case is read back from that file.
use customasm::*;
use std::io::{Read, Seek, Write};
include!(concat!(env!("OUT_DIR"), "/driver_mod.rs"));
use driver::OutputFormat as OF;
use vh::*;

fn show(f: OF) -> String {
    match f {
        OF::Binary => "Binary".into(),
        OF::Annotated { base, group } => format!("Annotated {:x} {:x}", base, group),
        OF::BinStr => "BinStr".into(),
        OF::HexStr => "HexStr".into(),
        OF::BinDump => "BinDump".into(),
        OF::HexDump => "HexDump".into(),
        OF::Mif => "Mif".into(),
        OF::IntelHex { address_unit } => format!("IntelHex {:x}", address_unit),
        OF::DecComma => "DecComma".into(),
        OF::HexComma => "HexComma".into(),
        OF::DecSpace => "DecSpace".into(),
        OF::HexSpace => "HexSpace".into(),
        OF::DecC => "DecC".into(),
        OF::HexC => "HexC".into(),
        OF::LogiSim8 => "LogiSim8".into(),
        OF::LogiSim16 => "LogiSim16".into(),
        OF::AddressSpan => "AddressSpan".into(),
        OF::TCGame { base, group } => format!("TCGame {:x} {:x}", base, group),
        OF::Symbols => "Symbols".into(),
        OF::SymbolsMesenMlb => "SymbolsMesenMlb".into(),
    }
}

fn make(ctor: &str, f: &[usize]) -> Option<OF> {
    Some(match (ctor, f.len()) {
        ("Binary", 0) => OF::Binary,
        ("Annotated", 2) => OF::Annotated { base: f[0], group: f[1] },
        ("BinStr", 0) => OF::BinStr,
        ("HexStr", 0) => OF::HexStr,
        ("BinDump", 0) => OF::BinDump,
        ("HexDump", 0) => OF::HexDump,
        ("Mif", 0) => OF::Mif,
        ("IntelHex", 1) => OF::IntelHex { address_unit: f[0] },
        ("DecComma", 0) => OF::DecComma,
        ("HexComma", 0) => OF::HexComma,
        ("DecSpace", 0) => OF::DecSpace,
        ("HexSpace", 0) => OF::HexSpace,
        ("DecC", 0) => OF::DecC,
        ("HexC", 0) => OF::HexC,
        ("LogiSim8", 0) => OF::LogiSim8,
        ("LogiSim16", 0) => OF::LogiSim16,
        ("AddressSpan", 0) => OF::AddressSpan,
        ("TCGame", 2) => OF::TCGame { base: f[0], group: f[1] },
        ("Symbols", 0) => OF::Symbols,
        ("SymbolsMesenMlb", 0) => OF::SymbolsMesenMlb,
        _ => return None,
    })
}

/// what the first diagnostic names: class + the parameter / name it quotes (never its wording beyond this table)
fn classify(text: &str) -> String {
    let quoted = || -> String {
        match (text.find('`'), text.rfind('`')) {
            (Some(a), Some(b)) if b > a => text[a + 1..b].to_string(),
            _ => String::new(),
        }
    };
    let after_comma = |q: &str| -> String { match q.find(',') { Some(i) => q[i + 1..].to_string(), None => String::new() } };
    if text.contains("unknown format argument `") {
        format!("param {}", hex(&after_comma(&quoted())))
    } else if text.contains("unknown format `") {
        format!("format {}", hex(&quoted()))
    } else if text.contains("invalid format argument `") {
        let p = after_comma(&quoted());
        if p.matches(':').count() >= 2 { format!("three {}", hex(&p)) }
        else { format!("value {}", hex(p.split(':').next().unwrap_or(""))) }
    } else {
        "other -".to_string()
    }
}

fn first_message(report: &diagn::Report) -> String {
    let fs = util::FileServerMock::new();
    let mut buf = Vec::<u8>::new();
    report.print_all(&mut buf, &fs, false);
    let s = String::from_utf8_lossy(&buf).into_owned();
    s.lines().find(|l| l.contains("error")).unwrap_or("").to_string()
}

fn run_format(s: &str) -> String {
    let r = guarded(|| {
        let mut report = diagn::Report::new();
        let r = driver::parse_output_format(&mut report, s);
        (r, first_message(&report), report.has_errors())
    });
    match r {
        None => "PANIC".to_string(),
        Some((Ok(f), _, false)) => format!("OK {}", show(f)),
        Some((Ok(_), _, true)) => "OK-WITH-ERRORS".to_string(),
        Some((Err(()), msg, true)) => format!("ERR {}", classify(&msg)),
        Some((Err(()), _, false)) => "ERR-WITHOUT-MESSAGE".to_string(),
    }
}

/// the mock file server of the crate, with a log of the writes
struct RecFs { inner: util::FileServerMock, writes: Vec<(String, Vec<u8>)> }
impl util::FileServer for RecFs {
    fn get_handle(&mut self, report: &mut diagn::Report, span: Option<diagn::Span>, filename: &str) -> Result<util::FileServerHandle, ()> {
        self.inner.get_handle(report, span, filename)
    }
    fn get_filename(&self, h: util::FileServerHandle) -> &str { self.inner.get_filename(h) }
    fn get_bytes(&self, report: &mut diagn::Report, span: Option<diagn::Span>, h: util::FileServerHandle) -> Result<Vec<u8>, ()> {
        self.inner.get_bytes(report, span, h)
    }
    fn write_bytes(&mut self, report: &mut diagn::Report, span: Option<diagn::Span>, filename: &str, data: &Vec<u8>) -> Result<(), ()> {
        self.writes.push((filename.to_string(), data.clone()));
        self.inner.write_bytes(report, span, filename, data)
    }
}

fn symbol_value(asm: &asm::AssemblyResult, name: &str) -> String {
    let (decls, defs) = match (asm.decls.as_ref(), asm.defs.as_ref()) { (Some(a), Some(b)) => (a, b), _ => return "-".into() };
    match decls.symbols.try_get_by_name(&util::SymbolContext::new_global(), 0, &[name]) {
        None => "-".into(),
        Some(r) => match &defs.symbols.get(r).value {
            expr::Value::Bool(b) => if *b { "B1".into() } else { "B0".into() },
            expr::Value::Integer(i) => format!("I:{:x}:{}", i, match i.size { Some(s) => format!("{:x}", s), None => "-".into() }),
            _ => "?".into(),
        },
    }
}

struct Capture { file: Option<std::fs::File>, pos: u64 }
impl Capture {
    fn take(&mut self) -> Vec<u8> {
        let _ = std::io::stdout().flush();
        let mut out = Vec::new();
        if let Some(f) = self.file.as_mut() {
            let _ = f.seek(std::io::SeekFrom::Start(self.pos));
            let _ = f.read_to_end(&mut out);
            self.pos += out.len() as u64;
        }
        out
    }
}

fn run_command(fields: &[&str], cap: &mut Capture) -> String {
    let args: Vec<String> = if fields[1].is_empty() { vec![] } else { fields[1].split(';').map(unhex).collect() };
    let mut fs = RecFs { inner: util::FileServerMock::new(), writes: Vec::new() };
    if fields.len() > 2 && !fields[2].is_empty() {
        for ent in fields[2].split(';') {
            let mut kv = ent.splitn(2, '=');
            let k = unhex(kv.next().unwrap());
            let v = unhex_bytes(kv.next().unwrap_or(""));
            fs.inner.add(k, v);
        }
    }
    cap.take();
    let mut report = diagn::Report::new();
    let r = guarded(|| driver::drive(&mut report, &args, &mut fs));
    let printed = cap.take();
    let writes = fs.writes.iter().map(|(n, d)| format!("{}:{}", hex(n), hex_bytes(d))).collect::<Vec<_>>().join(";");
    let nmsg = guarded(|| report.len()).unwrap_or(0);
    let (status, it, x, y, probes) = match r {
        None => ("PANIC".to_string(), "-".to_string(), "-".to_string(), "-".to_string(), String::new()),
        Some(Err(())) => ((if report.has_errors() { "ERR" } else { "ERR-WITHOUT-MESSAGE" }).to_string(), "-".into(), "-".into(), "-".into(), String::new()),
        Some(Ok(asm)) => {
            let st = if report.has_errors() { "OK-WITH-ERRORS" } else { "OK" };
            let it = asm.iterations_taken.map(|n| n.to_string()).unwrap_or("-".into());
            let mut ps = Vec::new();
            if fields.len() > 3 && !fields[3].is_empty() {
                for p in fields[3].split(';') {
                    let parts: Vec<&str> = p.split(':').collect();
                    let nums: Vec<usize> = parts[1..].iter().map(|h| u64::from_str_radix(h, 16).unwrap_or(0) as usize).collect();
                    let ans = match (make(parts[0], &nums), asm.decls.as_ref(), asm.defs.as_ref(), asm.output.as_ref()) {
                        (Some(f), Some(decls), Some(defs), Some(output)) =>
                            match guarded(|| driver::format_output(&fs, decls, defs, output, f)) {
                                Some(b) => if b.is_empty() { "e".to_string() } else { hex_bytes(&b) },
                                None => "PANIC".to_string(),
                            },
                        _ => "-".to_string(),
                    };
                    ps.push(ans);
                }
            }
            cap.take();
            (st.to_string(), it, symbol_value(&asm, "X"), symbol_value(&asm, "Y"), ps.join(";"))
        }
    };
    format!("{}\tit={}\tX={}\tY={}\tW={}\tS={}\tP={}\tE={}", status, it, x, y, writes, hex_bytes(&printed), probes, nmsg)
}

fn main() {
    quiet_panics();
    let cap_path = std::env::var("VH_STDOUT").ok();
    let mut cap = Capture { file: cap_path.as_ref().and_then(|p| std::fs::File::open(p).ok()), pos: 0 };
    let mut answers: Box<dyn Write> = if cap.file.is_some() {
        use std::os::unix::io::FromRawFd;
        Box::new(std::io::BufWriter::new(unsafe { std::fs::File::from_raw_fd(3) }))
    } else {
        Box::new(std::io::BufWriter::new(std::io::stdout()))
    };
    let stdin = std::io::stdin();
    let mut line = String::new();
    loop {
        line.clear();
        match std::io::BufRead::read_line(&mut stdin.lock(), &mut line) { Ok(0) | Err(_) => break, _ => {} }
        let l = line.trim_end_matches('\n');
        let fields: Vec<&str> = l.split('\t').collect();
        let ans = match fields[0] {
            "F" if fields.len() >= 2 => {
                let s = unhex(fields[1]);
                let n: usize = if fields.len() > 2 { fields[2].parse().unwrap_or(1) } else { 1 };
                let first = run_format(&s);
                let mut ans = first.clone();
                for _ in 1..n {
                    let again = run_format(&s);
                    if again != first { ans = format!("NONDET {} | {}", first, again); break; }
                }
                ans
            }
            "C" if fields.len() >= 2 => run_command(&fields, &mut cap),
            _ => "?".to_string(),
        };
        writeln!(answers, "{}", ans).unwrap();
    }
    answers.flush().unwrap();
    if let Some(p) = cap_path { let _ = std::fs::remove_file(p); }
}
