//! C03 — failure is loud, success is clean, never a crash.  Implementation runner.
//!
//! One case per line (tab separated; every text hex-encoded UTF-8 / raw bytes), one answer line per case.
//!
//! `A <budget> <flags> <defines> <entry-hex> <files>`                    library level: asm::assemble on a FileServerMock
//!     flags    three characters 0/1: optimize_statically_known, optimize_instruction_matching, debug_iterations
//!     defines  `;`-separated `namehex:T` | `namehex:F` | `namehex:I<signed decimal>`          (may be empty)
//!     files    `;`-separated `namehex=contenthex`
//!   answer `A <ok|err> E=<top-level messages carrying an Error at any depth> T=<top-level messages of kind Error>
//!             H=<Report::has_errors 0|1> M=<top-level messages> out=<0|1> err=<AssemblyResult.error 0|1>
//!             print=<ok|panic> it=<iterations|-> hook=<0|1> K=<which error sites spoke, coverage only>`
//!          ok/err = whether `output` is Some.  print = print_all of the whole report into a buffer.
//!
//! `D <argv hex;hex;..> <files> <faults>`                                 the private driver (`driver::drive`) on a mock
//!     file server wrapped to log writes and to inject permanent faults
//!     faults   `;`-separated `H:<namehex>` get_handle fails, `R:<namehex>` get_bytes fails, `W:<namehex>` write_bytes
//!              fails; each failure reports an error first, as FileServerReal does                 (may be empty)
//!   answer `D <OK|ERR> E= T= H= M= out= err= W=<namehex:length:ok|fail;..> print=<ok|panic> hook=`
//!
//! `PANIC at=<hex of file:line>` when the call panics, `TIMEOUT` when it does not return within VH_TIMEOUT_MS (default 10000).  Each case runs
//! on its own thread with the main thread's usual 8 MiB of stack; a stack overflow kills the process (the caller sees
//! CRASH and re-runs the case alone).
//! The driver prints with println!: run this binary with fd 1 redirected and `VH_ANS_FD3=1`, answers then go to fd 3.
use customasm::*;
use std::io::Write;
include!(concat!(env!("OUT_DIR"), "/driver_mod.rs"));
use vh::*;

/// Fallback used only when `Report` has no inherent `verif_messages` (inherent methods win method resolution).
static HOOK_MISSING: std::sync::atomic::AtomicBool = std::sync::atomic::AtomicBool::new(false);
#[allow(dead_code)]
trait VerifMessagesFallback {
    fn verif_messages(&self) -> &[diagn::Message];
}
impl VerifMessagesFallback for diagn::Report {
    fn verif_messages(&self) -> &[diagn::Message] {
        HOOK_MISSING.store(true, std::sync::atomic::Ordering::SeqCst);
        &[]
    }
}

fn add_files(fs: &mut util::FileServerMock, field: &str) {
    if field.is_empty() {
        return;
    }
    for kv in field.split(';') {
        let mut it = kv.splitn(2, '=');
        let name = unhex(it.next().unwrap());
        let data = unhex_bytes(it.next().unwrap_or(""));
        fs.add(name, data);
    }
}

/// which push-and-continue / accumulation sites spoke (coverage only, never compared): a = assertion failed,
/// c = did not converge, u = unused define, n = no match, f = failed to resolve, o = anything else
fn kinds(report: &diagn::Report) -> String {
    let mut seen = std::collections::BTreeSet::new();
    for m in report.verif_messages() {
        if !carries_error(m) {
            continue;
        }
        let d = &m.descr;
        seen.insert(if d.contains("assertion failed") { 'a' } else if d.contains("did not converge") { 'c' }
            else if d.contains("unused define") { 'u' } else if d.contains("no match") { 'n' }
            else if d.contains("failed to resolve") { 'f' } else { 'o' });
    }
    seen.into_iter().collect()
}

fn carries_error(m: &diagn::Message) -> bool {
    matches!(m.kind, diagn::MessageKind::Error) || m.inner.iter().any(carries_error)
}

/// (top-level messages carrying an Error at any depth, top-level messages of kind Error, messages, hook present)
fn count(report: &diagn::Report) -> (usize, usize, usize, bool) {
    let msgs = report.verif_messages();
    let deep = msgs.iter().filter(|m| carries_error(m)).count();
    let top = msgs.iter().filter(|m| matches!(m.kind, diagn::MessageKind::Error)).count();
    let missing = HOOK_MISSING.load(std::sync::atomic::Ordering::SeqCst);
    if missing {
        (report.len(), report.len(), report.len(), false)
    } else {
        (deep, top, report.len(), true)
    }
}

fn printable(report: &diagn::Report, fs: &dyn util::FileServer) -> &'static str {
    let r = guarded(|| {
        let mut buf = Vec::<u8>::new();
        report.print_all(&mut buf, fs, false);
        let mut buf2 = Vec::<u8>::new();
        report.print_all(&mut buf2, fs, true);
        buf.len() + buf2.len()
    });
    if r.is_some() { "ok" } else { "panic" }
}

fn library(f: &[String]) -> String {
    let budget: usize = f[1].parse().unwrap_or(10);
    let flags: Vec<char> = f[2].chars().collect();
    let mut opts = asm::AssemblyOptions::new();
    opts.max_iterations = budget;
    opts.optimize_statically_known = flags.get(0) != Some(&'0');
    opts.optimize_instruction_matching = flags.get(1) != Some(&'0');
    opts.debug_iterations = flags.get(2) == Some(&'1');
    if !f[3].is_empty() {
        for d in f[3].split(';') {
            let mut it = d.splitn(2, ':');
            let name = unhex(it.next().unwrap());
            let v = it.next().unwrap_or("T");
            let value = match v.as_bytes().first() {
                Some(b'F') => expr::Value::make_bool(false),
                Some(b'I') => expr::Value::make_integer(util::BigInt::new(v[1..].parse::<i64>().unwrap_or(0), None)),
                _ => expr::Value::make_bool(true),
            };
            opts.driver_symbol_defs.push(asm::DriverSymbolDef { name, value });
        }
    }
    let entry = unhex(&f[4]);
    let mut fs = util::FileServerMock::new();
    add_files(&mut fs, if f.len() > 5 { &f[5] } else { "" });
    let mut report = diagn::Report::new();
    let r = guarded(|| asm::assemble(&mut report, &opts, &mut fs, &[entry]));
    match r {
        None => panic_answer(),
        Some(a) => {
            let (e, t, m, hook) = count(&report);
            format!("A\t{}\tE={}\tT={}\tH={}\tM={}\tout={}\terr={}\tprint={}\tit={}\thook={}\tK={}",
                if a.output.is_some() { "ok" } else { "err" }, e, t, if report.has_errors() { 1 } else { 0 }, m,
                if a.output.is_some() { 1 } else { 0 }, if a.error { 1 } else { 0 },
                printable(&report, &fs),
                a.iterations_taken.map(|n| n.to_string()).unwrap_or("-".to_string()),
                if hook { 1 } else { 0 }, kinds(&report))
        }
    }
}

/// the crate's mock file server, with a log of the writes and injected permanent faults
struct FaultFs {
    inner: util::FileServerMock,
    writes: Vec<(String, usize, bool)>,
    no_handle: Vec<String>,
    no_read: Vec<String>,
    no_write: Vec<String>,
}

fn fault_error(report: &mut diagn::Report, span: Option<diagn::Span>, descr: String) {
    match span {
        Some(span) => report.error_span(descr, span),
        None => report.error(descr),
    }
}

impl util::FileServer for FaultFs {
    fn get_handle(&mut self, report: &mut diagn::Report, span: Option<diagn::Span>, filename: &str) -> Result<util::FileServerHandle, ()> {
        if self.no_handle.iter().any(|n| n == filename) {
            fault_error(report, span, format!("file not found: `{}`", filename));
            return Err(());
        }
        self.inner.get_handle(report, span, filename)
    }
    fn get_filename(&self, h: util::FileServerHandle) -> &str {
        self.inner.get_filename(h)
    }
    fn get_bytes(&self, report: &mut diagn::Report, span: Option<diagn::Span>, h: util::FileServerHandle) -> Result<Vec<u8>, ()> {
        let name = self.inner.get_filename(h).to_string();
        if self.no_read.iter().any(|n| *n == name) {
            fault_error(report, span, format!("could not open file `{}`: injected fault", name));
            return Err(());
        }
        self.inner.get_bytes(report, span, h)
    }
    fn write_bytes(&mut self, report: &mut diagn::Report, span: Option<diagn::Span>, filename: &str, data: &Vec<u8>) -> Result<(), ()> {
        if self.no_write.iter().any(|n| n == filename) {
            self.writes.push((filename.to_string(), data.len(), false));
            fault_error(report, span, format!("could not create file `{}`: injected fault", filename));
            return Err(());
        }
        self.writes.push((filename.to_string(), data.len(), true));
        self.inner.write_bytes(report, span, filename, data)
    }
}

fn through_driver(f: &[String]) -> String {
    let args: Vec<String> = if f[1].is_empty() { vec![] } else { f[1].split(';').map(unhex).collect() };
    let mut fs = FaultFs { inner: util::FileServerMock::new(), writes: Vec::new(), no_handle: Vec::new(), no_read: Vec::new(), no_write: Vec::new() };
    add_files(&mut fs.inner, if f.len() > 2 { &f[2] } else { "" });
    if f.len() > 3 && !f[3].is_empty() {
        for x in f[3].split(';') {
            let mut it = x.splitn(2, ':');
            let kind = it.next().unwrap();
            let name = unhex(it.next().unwrap_or(""));
            match kind {
                "H" => fs.no_handle.push(name),
                "R" => fs.no_read.push(name),
                "W" => fs.no_write.push(name),
                _ => {}
            }
        }
    }
    let mut report = diagn::Report::new();
    let r = guarded(|| driver::drive(&mut report, &args, &mut fs));
    let writes = fs.writes.iter().map(|(n, l, ok)| format!("{}:{}:{}", hex(n), l, if *ok { "ok" } else { "fail" })).collect::<Vec<_>>().join(";");
    let (e, t, m, hook) = count(&report);
    let (status, out, err) = match &r {
        None => return format!("{}\tW={}", panic_answer(), writes),
        Some(Ok(a)) => ("OK", a.output.is_some(), a.error),
        Some(Err(())) => ("ERR", false, true),
    };
    format!("D\t{}\tE={}\tT={}\tH={}\tM={}\tout={}\terr={}\tW={}\tprint={}\thook={}\tK={}", status, e, t, if report.has_errors() { 1 } else { 0 }, m,
        if out { 1 } else { 0 }, if err { 1 } else { 0 }, writes, printable(&report, &fs), if hook { 1 } else { 0 }, kinds(&report))
}

/// where the last panic happened (`file:line`), for the report only
static LAST_PANIC: std::sync::Mutex<String> = std::sync::Mutex::new(String::new());

fn panic_answer() -> String {
    let at = LAST_PANIC.lock().map(|s| s.clone()).unwrap_or_default();
    format!("PANIC\tat={}", hex(&at))
}

fn main() {
    std::panic::set_hook(Box::new(|info| {
        let at = info.location().map(|l| format!("{}:{}", l.file(), l.line())).unwrap_or_default();
        if let Ok(mut s) = LAST_PANIC.lock() {
            *s = at;
        }
    }));
    let timeout_ms: u64 = std::env::var("VH_TIMEOUT_MS").ok().and_then(|s| s.parse().ok()).unwrap_or(10000);
    let mut answers: Box<dyn Write> = if std::env::var("VH_ANS_FD3").is_ok() {
        use std::os::unix::io::FromRawFd;
        Box::new(std::io::BufWriter::new(unsafe { std::fs::File::from_raw_fd(3) }))
    } else {
        Box::new(std::io::BufWriter::new(std::io::stdout()))
    };
    let stdin = std::io::stdin();
    let mut line = String::new();
    let mut stuck = 0;
    loop {
        line.clear();
        match std::io::BufRead::read_line(&mut stdin.lock(), &mut line) {
            Ok(0) | Err(_) => break,
            _ => {}
        }
        let fields: Vec<String> = line.trim_end_matches('\n').split('\t').map(|s| s.to_string()).collect();
        let (tx, rx) = std::sync::mpsc::channel();
        let spawned = std::thread::Builder::new().stack_size(8 << 20).spawn(move || {
            let ans = match fields[0].as_str() {
                "A" if fields.len() >= 5 => guarded(|| library(&fields)).unwrap_or_else(panic_answer),
                "D" if fields.len() >= 2 => guarded(|| through_driver(&fields)).unwrap_or_else(panic_answer),
                _ => "?".to_string(),
            };
            let _ = tx.send(ans);
        });
        let ans = match spawned {
            Err(_) => "NOTHREAD".to_string(),
            Ok(_) => match rx.recv_timeout(std::time::Duration::from_millis(timeout_ms)) {
                Ok(a) => a,
                Err(_) => {
                    stuck += 1;
                    "TIMEOUT".to_string()
                }
            },
        };
        writeln!(answers, "{}", ans).unwrap();
        if stuck >= 4 {
            // too many runaway threads: let the caller re-run the rest (it sees CRASH for the missing answers)
            answers.flush().unwrap();
            std::process::exit(3);
        }
    }
    answers.flush().unwrap();
    if stuck > 0 {
        std::process::exit(0);
    }
}
