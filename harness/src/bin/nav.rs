//! C14 harness: path navigation and whole assemblies on the mock file server.
//! N <TAB> current-hex <TAB> relative-hex
//!     -> OK:<hex of result> | ERR | PANIC            (util::filename_navigate)
//! G <TAB> root-hex[,root-hex...] <TAB> name=hex;name=hex...     (file contents as raw bytes)
//!     -> OK <TAB> bits | ERR | PANIC | INCONSISTENT <TAB> detail  (asm::assemble on util::FileServerMock)
use customasm::*;
use vh::*;

fn main() {
    quiet_panics();
    for_each_line(|line| {
        let f: Vec<&str> = line.split('\t').collect();
        match f[0] {
            "N" if f.len() >= 3 => {
                let cur = unhex(f[1]);
                let rel = unhex(f[2]);
                let r = guarded(|| {
                    let mut report = diagn::Report::new();
                    util::filename_navigate(&mut report, diagn::Span::new_dummy(), &cur, &rel)
                });
                match r {
                    Some(Ok(p)) => format!("OK:{}", hex(&p)),
                    Some(Err(())) => "ERR".to_string(),
                    None => "PANIC".to_string(),
                }
            }
            "G" if f.len() >= 3 => {
                let roots: Vec<String> = f[1].split(',').map(|r| unhex(r)).collect();
                let r = guarded(|| {
                    let mut report = diagn::Report::new();
                    let mut fs = util::FileServerMock::new();
                    if !f[2].is_empty() {
                        for kv in f[2].split(';') {
                            let mut it = kv.splitn(2, '=');
                            let name = it.next().unwrap();
                            let data = unhex_bytes(it.next().unwrap_or(""));
                            fs.add(unhex(name), data);
                        }
                    }
                    let opts = asm::AssemblyOptions::new();
                    let a = asm::assemble(&mut report, &opts, &mut fs, &roots);
                    match (&a.output, report.has_errors(), a.error) {
                        (Some(o), false, false) => {
                            let mut bits = String::with_capacity(o.len());
                            for i in 0..o.len() {
                                bits.push(if o.read_bit(i) { '1' } else { '0' });
                            }
                            format!("OK\t{}", bits)
                        }
                        (None, true, true) => "ERR".to_string(),
                        (o, e, ae) => format!("INCONSISTENT\toutput={} has_errors={} error={}", o.is_some(), e, ae),
                    }
                });
                r.unwrap_or("PANIC".to_string())
            }
            _ => "?".to_string(),
        }
    });
}
