(* C10 — assembly is a deterministic function of its inputs.
   PARTIAL BY NATURE.  What is PROVED here: (1) for every place where /repo/src iterates a hash container (inventory
   regenerated from the source on every run by tools/translate_c10.py), the model of what the code computes from the
   iteration does not depend on the iteration order `ord` (any permutation of the container's entries, keys distinct);
   (2) table obligations: every iteration site / hand-over / kind of use in the regenerated inventory is in the hand-written
   lists of Spec/HashOrderSpec.v with the hash of the code it was read from, and the regenerated list of ambient state
   (statics, lazily initialised globals, interior mutability, time, randomness, environment, process, hashers, addresses,
   threads, directory listings, unsafe, Debug formatting) EQUALS the justified list.  What is only OBSERVED (tools/props/c10.py):
   equality of all outputs and diagnostics across fresh processes, threads and in-process histories.
   Only statements; each closed by a lemma of Proofs/HashOrderP.v / Proofs/HashOrderInv.v / Proofs/AmbientInv.v. *)
From Coq Require Import NArith ZArith List Bool Permutation String.
From CA Require Import Model.C10Tables Model.HashOrder Spec.HashOrderSpec Proofs.HashOrderP Proofs.HashOrderInv Proofs.AmbientInv.
Import ListNotations.

(* ---- site src/util/symbol_format.rs format_recursive: children.iter().collect() + sort_by_key(|c| c.1.0) -------------
   one level: the vector walked after the sort is the same for every iteration order (ItemRef indices distinct) *)
Theorem C10_site_symbol_children : forall ord ord' : list (text * N),
  Permutation ord ord' -> NoDup (map snd ord) -> sorted_children ord = sorted_children ord'.
Proof. exact sorted_children_order_free. Qed.

(* the whole recursion: the same declaration tree with EVERY children map enumerated in another order (sperm / kperm)
   formats to the same (name, value) sequence; swf / kwf = sibling indices distinct at every level *)
Theorem C10_site_symbol_format_tree : forall g g', kperm g g' -> kwf g -> format_symbols g = format_symbols g'.
Proof. exact format_symbols_order_free. Qed.

Theorem C10_site_symbol_format_decl : forall t t' hierarchy name, sperm t t' -> swf t ->
  format_decl hierarchy name t = format_decl hierarchy name t'.
Proof. exact format_decl_order_free. Qed.

(* format_decl is the code's own order of evaluation (sort the children, then walk them) *)
Theorem C10_site_symbol_format_is_walk : forall fuel d hierarchy name, (sdepth d < fuel)%nat ->
  format_decl_walk fuel hierarchy name d = format_decl hierarchy name d.
Proof. exact format_decl_walk_eq. Qed.

(* the hypothesis "indices distinct" is what SymbolManager::declare maintains: the new index is decls.len() *)
Theorem C10_declare_indices_distinct : forall n children name,
  Forall (fun c => (snd c < n)%N) children -> NoDup (map snd children) ->
  let r := declare_child n children name in
  Forall (fun c => (snd c < fst r)%N) (snd r) /\ NoDup (map snd (snd r)).
Proof. exact declare_child_fresh. Qed.

(* ---- sites src/expr/eval.rs hygienize_locals_for_asm_subst: `for entry in &self.locals`, `for entry in &self.token_substs`
   the new map answers every lookup identically whatever the order (renaming by a prefix is injective) *)
Theorem C10_site_hygienize_locals : forall Val (ord ord' : list (text * Val)) name,
  Permutation ord ord' -> NoDup (keys ord) -> lookup name (hygienize_map ord) = lookup name (hygienize_map ord').
Proof. exact site_hygienize_lookup. Qed.

Theorem C10_site_hygienize_token_substs : forall (ord ord' : list (text * text)) name,
  Permutation ord ord' -> NoDup (keys ord) -> lookup name (hygienize_map ord) = lookup name (hygienize_map ord').
Proof. exact (site_hygienize_lookup text). Qed.

(* ---- site src/asm/resolver/eval_asm.rs resolve_once: `for (label_name, label_value) in labels.iter() { set_local }` *)
Theorem C10_site_asm_labels : forall V (ord ord' : list (text * V)) (locals : amap V) name,
  Permutation ord ord' -> NoDup (keys ord) -> lookup name (set_labels ord locals) = lookup name (set_labels ord' locals).
Proof. exact site_labels_lookup. Qed.

(* the three loops together: everything resolve_encoding can ask of the context an asm-block instruction is resolved in *)
Theorem C10_site_asm_instruction_ctx : forall Val depth (ol ol' : list (text * Val)) (os os' : list (text * text)) (ob ob' : list (text * Val)),
  Permutation ol ol' -> NoDup (keys ol) -> Permutation os os' -> NoDup (keys os) -> Permutation ob ob' -> NoDup (keys ob) ->
  forall name,
    get_local (asm_instruction_ctx depth ol os ob) name = get_local (asm_instruction_ctx depth ol' os' ob') name /\
    get_token_subst (asm_instruction_ctx depth ol os ob) name = get_token_subst (asm_instruction_ctx depth ol' os' ob') name /\
    ec_depth (asm_instruction_ctx depth ol os ob) = ec_depth (asm_instruction_ctx depth ol' os' ob').
Proof. exact asm_ctx_order_free. Qed.

(* the maps built by these sites have distinct keys, and two such lists with the same lookups are permutations of each
   other: whatever order the NEW container is later iterated in is again one of the `ord` quantified over above *)
Theorem C10_results_are_maps : forall V (ord : list (text * V)) locals,
  NoDup (keys (hygienize_map ord)) /\ (NoDup (keys locals) -> NoDup (keys (set_labels ord locals))).
Proof. exact results_are_maps. Qed.

Theorem C10_equivalent_maps_are_permutations : forall V (m m' : amap V),
  NoDup (keys m) -> NoDup (keys m') -> map_equiv m m' -> Permutation m m'.
Proof. exact (@equiv_perm). Qed.

(* ---- point operations (get / insert / remove / contains_key): their results depend on the lookup function only, and a
   permutation of the entries is the same lookup function *)
Theorem C10_point_operations : forall V (m m' : amap V),
  (Permutation m m' -> NoDup (keys m) -> map_equiv m m') /\
  (map_equiv m m' -> forall k v, map_equiv (insert k v m) (insert k v m') /\ map_equiv (remove k m) (remove k m') /\
                                contains_key k m = contains_key k m' /\ lookup k m = lookup k m').
Proof. exact point_operations. Qed.

(* ---- driver.rs: the leftover format parameter.  Current code (fix 3d8d817): no iteration, membership only *)
Theorem C10_point_leftover_given_order : forall V given (ord ord' : amap V),
  Permutation ord ord' -> NoDup (keys ord) -> leftover_fixed given ord = leftover_fixed given ord'.
Proof. exact leftover_fixed_order_free. Qed.

(* F16, pinned code: reporting the FIRST entry of the iteration IS order dependent (`-f binary,foo:1,bar:2`) *)
Theorem C10_site_leftover_refuted_pinned :
  exists (ord ord' : list (text * text)), Permutation ord ord' /\ NoDup (keys ord) /\ leftover_pinned ord <> leftover_pinned ord'.
Proof. exact leftover_pinned_order_dependent. Qed.

(* ---- the tie to the CURRENT source: table obligations over the regenerated inventory -------------------------------- *)
(* every use of a hash container found in src/: an iteration is one of covered_sites (same file, function, kind and code
   hash), a hand-over is one of allowed_pass, anything else is a declaration or an order-free point operation *)
Theorem C10_inventory_covered : forall u, In u c10_uses -> use_ok u = true.
Proof. exact inventory_covered. Qed.

(* no stale entries: every covered site and every allowed hand-over still exists, one covered entry per iteration found *)
Theorem C10_inventory_tight :
  (forall c, In c covered_sites -> existsb (site_eqb (fst c)) c10_uses = true) /\
  (forall c, In c allowed_pass -> existsb (site_eqb c) c10_uses = true) /\
  List.length (filter (fun u => match u with (_, _, k, _) => String.prefix "iter:" k end) c10_uses) = List.length covered_sites.
Proof. exact (conj covered_present (conj pass_present iteration_sites_count)). Qed.

(* global mutable state / time / randomness / environment / addresses / threads / Debug formatting: exactly the justified list
   (immutable statics, std::env::args_os in main, the extern declaration for the Windows console, {:?} of numbers and values) *)
Theorem C10_no_ambient_state : c10_ambient = allowed_ambient.
Proof. exact no_ambient_state. Qed.

Theorem C10_scan_scope : c10_excluded = allowed_excluded /\ (40 <= c10_file_count)%nat.
Proof. exact scan_scope. Qed.

(* ---- non-vacuity ----------------------------------------------------------------------------------------------------- *)
Open Scope N_scope.
Definition a_ : text := [97].  Definition b_ : text := [98].  Definition c_ : text := [99].  Definition ua_ : text := [95; 95; 97].
(* three children declared in the order b, a, c (indices 0, 1, 2), enumerated in two different orders: same text, in
   declaration order; a local already carrying the prefix is dropped, the others are renamed; a label overrides a
   hygienised local of the same name whatever the orders *)
Example C10_nonvacuous :
  let t0 := SDecl 0 (Some 5%Z) [] in let t1 := SDecl 1 None [(c_, SDecl 3 (Some 7%Z) []); (b_, SDecl 2 (Some 6%Z) [])] in
  let t1' := SDecl 1 None [(b_, SDecl 2 (Some 6%Z) []); (c_, SDecl 3 (Some 7%Z) [])] in let t4 := SDecl 4 (Some 9%Z) [] in
  format_symbols [(a_, t1); (c_, t4); (b_, t0)] = [(b_, 5%Z); ([97; 46; 98], 6%Z); ([97; 46; 99], 7%Z); (c_, 9%Z)] /\
  format_symbols [(c_, t4); (b_, t0); (a_, t1')] = format_symbols [(a_, t1); (c_, t4); (b_, t0)] /\
  sorted_children [(a_, 2); (b_, 0); (c_, 1)] = [(b_, 0); (c_, 1); (a_, 2)] /\
  lookup ua_ (hygienize_map [(a_, 1); (ua_, 2); (b_, 3)]) = Some 1 /\ lookup a_ (hygienize_map [(a_, 1); (ua_, 2); (b_, 3)]) = None /\
  List.length (hygienize_map [(b_, 3); (ua_, 2); (a_, 1)]) = 2%nat /\
  get_local (asm_instruction_ctx 0 [(a_, 1); (b_, 2)] [] [(ua_, 7); (c_, 8)]) ua_ = Some 7 /\
  get_local (asm_instruction_ctx 0 [(b_, 2); (a_, 1)] [] [(c_, 8); (ua_, 7)]) ua_ = Some 7 /\
  get_token_subst (asm_instruction_ctx 0 [(a_, 1)] [(b_, c_)] []) [95; 95; 98] = Some c_ /\
  leftover_pinned [(a_, b_); (c_, b_)] = Some a_ /\ leftover_pinned [(c_, b_); (a_, b_)] = Some c_ /\
  leftover_fixed [a_; c_] [(c_, b_); (a_, b_)] = Some a_ /\ leftover_fixed [a_; c_] [(a_, b_); (c_, b_)] = Some a_.
Proof. vm_compute. repeat split. Qed.

Example C10_inventory_nonvacuous :
  (4 <= List.length (filter (fun u => match u with (_, _, k, _) => String.prefix "iter:" k end) c10_uses))%nat /\
  (50 <= List.length c10_uses)%nat /\ use_ok ("src/x.rs", "f", "iter:for", "0000000000000000")%string = false /\
  use_ok ("src/x.rs", "f", "pass", "0000000000000000")%string = false /\ use_ok ("src/x.rs", "f", "point:frobnicate", "")%string = false.
Proof. vm_compute. repeat split; repeat constructor. Qed.
