(* C06 — Output layout is safe: no overlap, nothing leaves its bank, gaps are zero.
   Only statements; each closed by a lemma of Proofs/{OverlapP,CursorP,OutputP,LastPassP}.v.
   Models: Model/Overlap.v (util/overlap_checker.rs), Model/Cursor.v (resolver/iter.rs),
   Model/Output.v (output/mod.rs, util/bitvec.rs), Model/LastPass.v (label/addr/align checks).
   Specification: Spec/OverlapSpec.v, Spec/LayoutInv.v. *)
From Coq Require Import ZArith NArith List Bool.
From CA Require Import Model.Overlap Model.Cursor Model.Output Model.LastPass Spec.OverlapSpec Spec.LayoutInv
  Proofs.OverlapP Proofs.CursorP Proofs.OutputP Proofs.LastPassP.
Import ListNotations.
Open Scope N_scope.

(* ---------------------------------------------------------------- the overlap checker *)
(* ANY sequence of requests, ANY binary search meeting the library contract: if every request was
   accepted, the positive-size requests are pairwise disjoint. *)
Theorem C06_overlap_sound : forall search, search_ok search -> forall ops es,
  run_with (check_and_insert_with search) ops [] = Ok es ->
  forall i j a b, i <> j -> nth_error ops i = Some a -> nth_error ops j = Some b ->
    0 < snd a -> 0 < snd b -> disjoint a b.
Proof. exact overlap_sound. Qed.

(* disjoint = no common bit *)
Theorem C06_disjoint_meaning : forall a b, 0 < snd a -> 0 < snd b ->
  (disjoint a b <-> forall k, ~ (covers a k /\ covers b k)).
Proof. exact disjoint_no_common_bit. Qed.

(* a positive-size request sharing a bit with an earlier accepted positive-size request is never accepted ... *)
Theorem C06_overlap_complete : forall search, search_ok search -> forall ops es p s,
  run_with (check_and_insert_with search) ops [] = Ok es -> 0 < s ->
  (exists i a, nth_error ops i = Some a /\ 0 < snd a /\ ~ disjoint a (p, s)) ->
  forall es', check_and_insert_with search es p s <> Ok es'.
Proof. exact overlap_complete. Qed.

(* ... and it is an error (not a panic) when no request end exceeds usize *)
Theorem C06_overlap_complete_err : forall search, search_ok search -> forall ops es p s,
  run_with (check_and_insert_with search) ops [] = Ok es -> 0 < s ->
  Forall fits ops -> fits (p, s) ->
  (exists i a, nth_error ops i = Some a /\ 0 < snd a /\ ~ disjoint a (p, s)) ->
  check_and_insert_with search es p s = Err.
Proof. exact overlap_complete_err. Qed.

(* the search that is extracted and run against the implementation (transcription of the toolchain's
   slice::binary_search_by) meets the contract, so the hypothesis above is not vacuous *)
Theorem C06_search_contract : search_ok bsearch /\ search_ok lsearch.
Proof. exact (conj bsearch_ok lsearch_ok). Qed.

(* F19: the PINNED algorithm (zero-sized requests are inserted) accepts two requests sharing 8 bits *)
Theorem C06_overlap_refuted_pinned :
  run_pinned [(0, 8); (0, 0); (0, 8)] = Ok [(0, 8); (0, 0); (0, 8)] /\ ~ disjoint (0, 8) (0, 8).
Proof. exact pinned_accepts_F19. Qed.

(* the same defect for EVERY admissible binary search (no dependence on which equal key is found) *)
Theorem C06_overlap_refuted_pinned_any_search : forall search, search_ok search ->
  run_with (check_and_insert_pinned_with search) [(0, 16); (0, 0); (8, 8)] [] = Ok [(0, 16); (0, 0); (8, 8)] /\
  ~ disjoint (0, 16) (8, 8).
Proof. exact pinned_accepts_any_search. Qed.

(* regression guard: the repaired algorithm rejects the F19 sequence *)
Theorem C06_overlap_repaired_rejects_F19 : forall search, search_ok search ->
  forall es, run_with (check_and_insert_with search) [(0, 8); (0, 0); (0, 8)] [] <> Ok es.
Proof. intros search H. exact (proj2 (repaired_rejects_F19 search H)). Qed.

(* ---------------------------------------------------------------- bank windows *)
Theorem C06_bank_windows : forall banks, check_bank_overlap banks = Ok tt ->
  forall i j b1 b2, (1 <= i)%nat -> (i < j)%nat -> nth_error banks i = Some b1 -> nth_error banks j = Some b2 ->
    windows_disjoint b1 b2.
Proof. exact bank_windows. Qed.

(* the window check and the output-position computation never panic (F48, F61 fixed) *)
Theorem C06_bank_overlap_never_panics : forall banks, check_bank_overlap banks <> Panic.
Proof. exact check_bank_overlap_never_panics. Qed.
Theorem C06_output_position_never_panics : forall b pos, get_output_position b pos <> Panic.
Proof. exact get_output_position_never_panics. Qed.

Theorem C06_bank_windows_checker : forall banks, check_bank_overlap banks = Ok tt -> windows_ok banks = true.
Proof. exact bank_windows_b. Qed.

(* overlapping windows of two user banks are rejected, unconditionally (since /repo abbd199, F48 fixed: a window whose
   end is not representable ends after everything; the comparison can no longer overflow) *)
Theorem C06_rejects_overlapping_windows : forall banks i j b1 b2 k,
  (1 <= i)%nat -> (i < j)%nat -> nth_error banks i = Some b1 -> nth_error banks j = Some b2 ->
  in_window b1 k -> in_window b2 k -> check_bank_overlap banks = Err.
Proof. exact bank_windows_rejected. Qed.

(* ---------------------------------------------------------------- build_output *)
(* FULL layout invariant, for EVERY program: since the F49 repair (BitVec::write_bigint does not extend the length for an
   empty value) the output is exactly as long as the highest written bit / filled bank *)
Theorem C06_layout : forall mb banks nodes out items,
  build_output mb banks nodes = Ok (out, items) -> layout_ok banks items out = true.
Proof. exact layout_full. Qed.

(* the same clause by clause (the length as a formula: ends of filled banks and of written items WITH bits), and the
   written bits are the encodings *)
Theorem C06_layout_partial : forall mb banks nodes out items,
  build_output mb banks nodes = Ok (out, items) ->
  forallb (item_ok banks) items = true /\
  pairwise_disjointb (ranges items) = true /\
  unwritten_zero items out = true /\
  N.of_nat (length out) = N.max (fill_end banks) (written_end items) /\
  content_ok items out = true.
Proof. exact layout_partial. Qed.

(* regression for F49 (repaired): `#addr 0x10` / `#d ""` -- a zero-sized item is recorded at its position but writes
   nothing: the output stays empty (it used to be 128 zero bits) *)
Theorem C06_zero_sized_item_writes_nothing :
  build_output 800000000 [default_bank] [NAddr 16; NEmit []] = Ok ([], [mkItem 0 (Some 128) 0 16%Z (Some [])]) /\
  length_exact [default_bank] [mkItem 0 (Some 128) 0 16%Z (Some [])] [] = true.
Proof. vm_compute. auto. Qed.

(* what pairwise_disjointb / unwritten_zero mean *)
Theorem C06_pairwise_meaning : forall l, pairwise_disjointb l = true <->
  forall i j a b, (i < j)%nat -> nth_error l i = Some a -> nth_error l j = Some b ->
    0 < snd a -> 0 < snd b -> disjoint a b.
Proof. exact pairwise_disjointb_spec. Qed.

(* ---------------------------------------------------------------- rejections *)
(* writing past the bank's size, into a bank without outp, or in the default bank after #bankdef *)
Theorem C06_rejects_write : forall mb banks c b pos enc es out spans,
  (c_bank c = 0%nat /\ length banks <> 1%nat) \/
  (exists sz, bk_size b = Some sz /\ sz < pos + N.of_nat (length enc)) \/
  bk_outp b = None ->
  emit_node mb banks c b pos (NEmit enc) es out spans = Err.
Proof. exact emit_rejected. Qed.

Theorem C06_rejects_reservation : forall mb banks c b pos k es out spans,
  (c_bank c = 0%nat /\ length banks <> 1%nat) \/ (exists sz, bk_size b = Some sz /\ sz < pos + k) ->
  emit_node mb banks c b pos (NRes k) es out spans = Err.
Proof. exact res_rejected. Qed.

Theorem C06_rejects_label : forall mb banks c b pos d0 v es out spans,
  (c_bank c = 0%nat /\ length banks <> 1%nat) \/ (exists sz, bk_size b = Some sz /\ sz < pos) ->
  emit_node mb banks c b pos (NSymbol true d0 v) es out spans = Err.
Proof. exact label_rejected. Qed.

(* an item sharing a bit with an earlier write or reservation *)
Theorem C06_rejects_overlapping_item : forall es o size e,
  inv es -> Forall fits es -> In e es -> 0 < size -> fits (o, size) -> ~ disjoint e (o, size) ->
  check_and_insert es o size = Err.
Proof. exact overlapping_request_rejected. Qed.

(* a misaligned label (last pass) *)
Theorem C06_rejects_misaligned_label : forall mb b pos d0 v,
  bk_unit b <> 0 -> pos mod bk_unit b <> 0 -> check_node mb b pos (NSymbol true d0 v) = Err.
Proof. exact misaligned_label_rejected. Qed.

(* an error at any node is the result of build_output *)
Theorem C06_rejects_propagate : forall mb banks pre n post out0 st,
  fill_banks mb banks [] = Ok out0 ->
  run_nodes mb banks pre (mkW (init_cursor banks) None [] out0 []) = Ok st ->
  step mb banks st n = Err ->
  build_output mb banks (pre ++ n :: post) = Err.
Proof. exact error_propagates. Qed.

(* ---------------------------------------------------------------- position <-> address *)
Theorem C06_position_address :
  (* a label (no guessing) sits exactly at pos = (addr - addr_start) * unit *)
  (forall mb b pos a, eval_address mb b pos false = Ok a ->
     bk_unit b <> 0 /\ pos mod bk_unit b = 0 /\ Z.of_N pos = ((a - bk_addr b) * Z.of_N (bk_unit b))%Z) /\
  (* the address recorded for an item is the one containing its first bit *)
  (forall mb b pos a, get_address mb b pos true = Ok (Some a) ->
     bk_unit b <> 0 /\ a = (bk_addr b + Z.of_N (pos / bk_unit b))%Z /\
     ((a - bk_addr b) * Z.of_N (bk_unit b) <= Z.of_N pos < (a - bk_addr b) * Z.of_N (bk_unit b) + Z.of_N (bk_unit b))%Z) /\
  (* #addr a selects (a - addr_start) * unit, and a label there reads a back *)
  (forall mb b a p a', addr_position mb b a = Ok p -> (bk_addr b <= a)%Z -> to_usize (a - bk_addr b) <> None ->
     Z.of_N p = ((a - bk_addr b) * Z.of_N (bk_unit b))%Z /\ (eval_address mb b p false = Ok a' -> a' = a)) /\
  (* alignment padding *)
  (forall c al pad, bits_until_alignment c al = Ok pad -> al <> 0 ->
     ((c + Z.of_N pad) mod Z.of_N al = 0)%Z /\ pad < al) /\
  (forall mb b p al p', align_position mb b p al = Ok p' -> al <> 0 ->
     p <= p' /\ p' - p < al /\ ((bk_addr b * Z.of_N (bk_unit b) + Z.of_N p') mod Z.of_N al = 0)%Z).
Proof.
  split; [exact eval_address_exact|]. split; [exact get_address_guess|]. split.
  - intros mb b a p a' H Hle Hfit. split; [exact (addr_position_exact mb b a p H Hle Hfit)|].
    intros He. exact (addr_round_trip mb b a p a' H Hle Hfit He).
  - split; [exact bits_until_alignment_spec | exact align_position_spec].
Qed.

(* the label value computed by the last pass is that address *)
Theorem C06_label_value : forall mb b pos d0 v n',
  check_node mb b pos (NSymbol true d0 v) = Ok n' ->
  exists a, n' = NSymbol true d0 a /\ Z.of_N pos = ((a - bk_addr b) * Z.of_N (bk_unit b))%Z.
Proof. exact label_value_is_address. Qed.

(* ---------------------------------------------------------------- non-vacuity *)
(* two banks (4-bit addresses from 0x10, filled 32-bit window at output bit 8; a bank without outp), a label,
   data, a reservation: assembles, satisfies the invariant; one more bit than the bank holds is rejected *)
Example C06_nonvacuous :
  let banks := [default_bank; mkBank 16 4 None (Some 32) (Some 8) true; mkBank 0 8 None (Some 16) None false] in
  let nodes := [NBank 1; NSymbol true true 16; NEmit [false; true; false; true]; NEmit [true; false; true; false; true; false; true; true]; NRes 4] in
  match build_output 800000000 banks nodes with
  | Ok (out, items) => layout_ok banks items out && Nat.eqb (length out) 40 && nth 9 out false && Nat.eqb (length items) 3
  | _ => false
  end = true /\
  build_output 800000000 banks (nodes ++ [NEmit (repeat true 17)]) = Err /\
  build_output 800000000 banks [NBank 2; NEmit [true]] = Err /\
  build_output 800000000 banks [NEmit [true]] = Err /\
  check_bank_overlap [default_bank; mkBank 0 8 None (Some 16) (Some 0) false; mkBank 0 8 None (Some 16) (Some 15) false] = Err /\
  run [(0, 8); (8, 8); (4, 1)] = Err /\ run [(8, 8); (0, 8); (16, 1)] = Ok [(0, 8); (8, 8); (16, 1)].
Proof. vm_compute. repeat split. Qed.

(* ===== the same theorems for the larger fragment of Model/Resolver2.v: #bankdef / #bank with per-bank cursors and
   checked position arithmetic, nested symbols declared and referenced by dot level and path ===== *)
From Coq Require Import NArith ZArith List Bool.
From CA Require Import Model.Lexer Model.Parser Model.BigIntOps Model.Matcher Model.Evaluator Model.Resolver
  Model.Resolver2 Spec.Certificate2 Proofs.Resolver2FixP Proofs.Resolver2MonoP Proofs.Resolver2TopP Proofs.Resolver2CertP
  Proofs.Certificate2P.
From CA Require Model.Overlap Model.Cursor Model.Output Model.Symbols Spec.OverlapSpec Spec.LayoutInv Proofs.OutputP.
Import ListNotations.
Open Scope Z_scope.

Theorem C06_resolver_output_layout : forall indexed defs ps budget r,
  assemble2 indexed defs ps budget = Ok r ->
  LayoutInv.layout_ok (r_banks r) (r_items r) (r_bits r) = true /\ LayoutInv.windows_ok (r_banks r) = true.
Proof. exact Resolver2TopP.C02b_output_is_layout_ok. Qed.

Theorem C06_resolver_output_layout_partial : forall indexed defs ps budget r,
  assemble2 indexed defs ps budget = Ok r ->
  forallb (LayoutInv.item_ok (r_banks r)) (r_items r) = true /\
  OverlapSpec.pairwise_disjointb (LayoutInv.ranges (r_items r)) = true /\
  LayoutInv.unwritten_zero (r_items r) (r_bits r) = true /\
  N.of_nat (length (r_bits r)) = N.max (LayoutInv.fill_end (r_banks r)) (OutputP.written_end (r_items r)) /\
  LayoutInv.content_ok (r_items r) (r_bits r) = true /\
  LayoutInv.windows_ok (r_banks r) = true.
Proof. exact C02b_output_layout_partial. Qed.
