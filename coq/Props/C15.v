(* C15 — placeholder while the streams are brought up; replaced by the real statements *)
From Coq Require Import List.
From CA Require Import Model.Symbols Spec.Scope.
Theorem C15_placeholder : True.
Proof. exact I. Qed.
