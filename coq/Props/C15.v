(* C15 — Symbols resolve lexically and independently of declaration order.
   Only statements; each closed by a lemma of Proofs/SymbolsP.v, SymResolveP.v, ConstPassP.v.
   Model: Model/Symbols.v (util::SymbolManager, decls::symbol::collect, the iterator's contexts),
   Model/ConstPass.v (constant pre-pass), Model/SymResolve.v (references in the main passes).
   Spec: Spec/Scope.v (forest, scope walk), Spec/ConstDen.v (denotation of address-free constants).

   Reading (DESIGN appendix B): ANY symbol, label or constant, opens a scope for deeper levels; the expression
   of a constant is resolved in the scopes that hold right after its own declaration; reserved words
   (pc, le, sizeof, ..., incbin) are answered before the table is asked (finding F54). *)
From Coq Require Import ZArith NArith List Bool Arith.
From CA Require Import Model.Paths Model.Symbols Model.ConstPass Model.SymResolve Spec.Scope Spec.ConstDen
  Proofs.SymbolsP Proofs.SymResolveP Proofs.ConstPassP Proofs.ConstLoopP.
Import ListNotations.
Open Scope nat_scope.

(* ---------------------------------------------------------------- lookup = scope walk *)
(* For EVERY freshly parsed program (any sequence of symbol declarations - dots, name, kind - and other nodes)
   that decls::collect accepts: the specification accepts it too, and at EVERY node i, with the context the
   resolver holds there (node_ctxs), EVERY lookup (k dots, dotted path) of the symbol table equals the scope
   walk on the final forest from the scopes enclosing node i. *)
Theorem C15_lookup : forall nodes m ast, fresh nodes -> collect mgr_new nodes = ROk (m, ast) ->
  exists encls F ctxs,
    scopes (prog_of nodes) = Some (encls, F) /\ node_ctxs m ctx_global ast = ROk ctxs /\
    length ctxs = length nodes /\
    forall i ctx, nth_error ctxs i = Some ctx ->
      exists encl, nth_error encls i = Some encl /\
        forall k path, try_get_by_name m ctx k path = ROk (scope_resolve F encl k path).
Proof. exact lookup_spec. Qed.

(* ---------------------------------------------------------------- rejected declarations: exactly those *)
(* a program is rejected by decls::collect iff the specification rejects one of its declarations; never a panic *)
Theorem C15_declare_errors : forall nodes, fresh nodes ->
  (collect mgr_new nodes = RErr <-> scopes (prog_of nodes) = None) /\
  collect mgr_new nodes <> RPanic /\ collect mgr_new nodes <> RFuel.
Proof. exact collect_errors. Qed.

(* ... and the specification rejects a declaration exactly when it skips a nesting level or repeats a name of
   its scope *)
Theorem C15_declare_errors_exactly : forall k f nm id,
  scope_insert k f nm id = None <-> skips_level f k = true \/ duplicate_in_scope f k nm = true.
Proof. exact insert_none_iff. Qed.

(* the same for one more declaration in the state reached after any accepted program (Inv, established by
   C15_reaches): SymbolManager::declare fails iff skipped level or duplicate, and never panics *)
Theorem C15_reaches : forall nodes m ast, fresh nodes -> collect mgr_new nodes = ROk (m, ast) ->
  exists encls F next, scopes (prog_of nodes) = Some (encls, F) /\ Inv m F next.
Proof. exact collect_reaches. Qed.

Theorem C15_declare_step_errors : forall m F next k nm kind, Inv m F next ->
  (declare m (rnames F) nm k kind = RErr <-> skips_level F k = true \/ duplicate_in_scope F k nm = true) /\
  declare m (rnames F) nm k kind <> RPanic /\ declare m (rnames F) nm k kind <> RFuel.
Proof. exact declare_errors. Qed.

(* ---------------------------------------------------------------- undeclared names *)
(* In the last iteration (can_guess = false) an expression that contains a reference the table does not know
   in the current context - and that is not a reserved word - never evaluates: the pass fails.  Stated for
   references that are evaluated: the expression language has strict operators only (`c ? a : nosuch` with a
   true c assembles; noted in the evidence). *)
Theorem C15_unknown : forall nm m defs ctx addr e,
  has_unknown nm m ctx e -> forall v, eval_full nm m defs ctx false addr e <> ROk v.
Proof. exact unknown_fails. Qed.

(* ---------------------------------------------------------------- use before declaration *)
(* What a reference resolves to depends on the FINAL forest (all declarations, earlier and later alike) and on
   the enclosing declaration k-1 levels up at the point of use - nothing else.  So two points i, j of a
   program (e.g. one before and one after the target's declaration) with the same enclosing declaration at
   that depth resolve (k, path) to the same declaration; with k = 0 every point does. *)
Theorem C15_forward : forall nodes m ast, fresh nodes -> collect mgr_new nodes = ROk (m, ast) ->
  exists encls F ctxs,
    scopes (prog_of nodes) = Some (encls, F) /\ node_ctxs m ctx_global ast = ROk ctxs /\
    forall i j ci cj ei ej,
      nth_error ctxs i = Some ci -> nth_error ctxs j = Some cj ->
      nth_error encls i = Some ei -> nth_error encls j = Some ej ->
      forall k path,
        (match k with O => True | S k' => nth_error ei k' = nth_error ej k' end) ->
        try_get_by_name m ci k path = try_get_by_name m cj k path /\
        try_get_by_name m ci k path = ROk (scope_resolve F ei k path).
Proof. exact forward_spec. Qed.

(* ---------------------------------------------------------------- constants *)
(* The pre-pass loop of asm::assemble (Model/ConstPass.v), started from the table defs::define_symbols builds
   (every value Unknown, nothing flagged resolved), for ANY set of constants with distinct items and ANY table m
   whose global lookup is `look` (C15_global_lookup: every table built by decls::collect has one):
   (1) the fuel |constants| + 1 is always enough - the loop stops within that many rounds;
   (2) the table it stops in is stable: every constant holds what its expression evaluates to there, so one more
       round changes nothing;
   (3) a symbol holds an integer in it EXACTLY when it has a denotation (Spec/ConstDen.v: finite derivation
       through literals, + - * and global references to constants), and then that integer is the denotation.
   Constants on a cycle (`a = b`, `b = a`), and everything depending on one, on a label, on an undeclared or dotted
   name, have no denotation: they stay Unknown and the pre-pass reports nothing (C15_cycles; the main passes
   then end in "unresolved symbol" / "did not converge", checked by the `chain` stream).
   The expression language of this model has strict operators only.  With the lazy ones of the real evaluator
   (`a = 1 == 1 || a`, `c = 1 == 1 ? 5 : c`) a constant that names itself in a branch that is not taken DOES get its
   value (the implementation gives c = 5); that is a least fixed point of a non-strict functional and is covered by
   C01's chain analysis (Spec/Chain.v), not by `den`; the `rounds` stream checks these programs on the implementation. *)
Theorem C15_constants_fixpoint : forall nm opt m cs look,
  (forall p, try_get_by_name m ctx_global 0 p = ROk (look p)) -> NoDup (map fst cs) ->
  forall d0, fresh_defs d0 ->
    prepass nm opt m cs d0 <> RFuel /\
    forall d, prepass nm opt m cs d0 = ROk d ->
      stable nm m cs d /\ (forall r z, vals d r = VInt z <-> den (plain nm) look cs r z).
Proof. exact prepass_spec. Qed.

Theorem C15_fresh_table : forall n f, fresh_defs (define_symbols n f).
Proof. exact define_symbols_fresh. Qed.

Theorem C15_global_lookup : forall m F next, Inv m F next ->
  forall p, try_get_by_name m ctx_global 0 p = ROk (scope_resolve F [] 0 p).
Proof. exact global_lookup. Qed.

(* the two ingredients: evaluation is monotone in the information order Unknown <= v (DESIGN A.7); in a stable table
   every address-free acyclic constant equals its denotation (induction on the dependency depth) *)
Theorem C15_eval_monotone : forall nm m d1 d2 e, below d1 d2 ->
  eval_simple nm m d1 e = ROk VUnknown \/ eval_simple nm m d1 e = eval_simple nm m d2 e.
Proof. exact eval_monotone. Qed.

Theorem C15_stable_den : forall nm m cs look,
  (forall p, try_get_by_name m ctx_global 0 p = ROk (look p)) ->
  forall defs, stable nm m cs defs ->
  forall r z, den (plain nm) look cs r z -> vals defs r = VInt z.
Proof. exact stable_den. Qed.

(* cycles, exactly: no denotation, no integer *)
Theorem C15_cycles : forall nm opt m cs look d0 d,
  (forall p, try_get_by_name m ctx_global 0 p = ROk (look p)) -> NoDup (map fst cs) -> fresh_defs d0 ->
  prepass nm opt m cs d0 = ROk d ->
  forall r, (forall z, ~ den (plain nm) look cs r z) -> forall z, vals d r <> VInt z.
Proof. exact no_den_no_value. Qed.

(* ---------------------------------------------------------------- independence of declaration order *)
(* For every permutation of the constant declarations (the order in which the pre-pass visits them): both runs
   succeed or fail without running out of fuel (C15_constants_fixpoint), and when both return, every address-free
   acyclic constant has the same value in both - its denotation.  Unconditional: no stability hypothesis. *)
Theorem C15_order_independent : forall nm opt m cs cs' look d0 d0' d d',
  (forall p, try_get_by_name m ctx_global 0 p = ROk (look p)) ->
  NoDup (map fst cs) -> Permutation.Permutation cs cs' ->
  fresh_defs d0 -> fresh_defs d0' ->
  prepass nm opt m cs d0 = ROk d -> prepass nm opt m cs' d0' = ROk d' ->
  forall r z, den (plain nm) look cs r z -> vals d r = VInt z /\ vals d' r = VInt z.
Proof. exact order_independent. Qed.

(* the same when moving the declarations also renumbers the items (sigma) and rebuilds the table (m'), as it does in
   a source file: the two tables resolve global names alike up to sigma, the constants keep their expressions *)
Theorem C15_order_independent_renumbered : forall nm opt opt' m m' cs cs' look look' sigma d0 d0' d d',
  (forall p, try_get_by_name m ctx_global 0 p = ROk (look p)) ->
  (forall p, try_get_by_name m' ctx_global 0 p = ROk (look' p)) ->
  NoDup (map fst cs) -> NoDup (map fst cs') ->
  (forall p r, look p = Some r -> look' p = Some (sigma r)) ->
  (forall r e, In (r, e) cs -> In (sigma r, e) cs') ->
  fresh_defs d0 -> fresh_defs d0' ->
  prepass nm opt m cs d0 = ROk d -> prepass nm opt' m' cs' d0' = ROk d' ->
  forall r z, den (plain nm) look cs r z -> vals d r = VInt z /\ vals d' (sigma r) = VInt z.
Proof. exact order_independent_renumbered. Qed.

(* ---------------------------------------------------------------- non-vacuity *)
Definition tx (s : list nat) : text := map N.of_nat s.
(*  g:  .a:  (other)  h:  .a:  ..b = _   — `a` twice under different parents *)
Definition ex_nodes : list anode :=
  [ASym 0 (tx [103]) KLabel None; ASym 1 (tx [97]) KLabel None; AOther;
   ASym 0 (tx [104]) KLabel None; ASym 1 (tx [97]) KLabel None; ASym 2 (tx [98]) KConstant None].

Example C15_nonvacuous_lookup :
  fresh ex_nodes /\
  match collect mgr_new ex_nodes with
  | ROk (m, ast) =>
      node_ctxs m ctx_global ast = ROk [[tx [103]]; [tx [103]; tx [97]]; [tx [103]; tx [97]]; [tx [104]];
                                        [tx [104]; tx [97]]; [tx [104]; tx [97]; tx [98]]] /\
      (* `.a` under g is item 1, under h item 3; `g.a` from anywhere is 1; `..b` before its declaration is 4 *)
      try_get_by_name m [tx [103]; tx [97]] 1 [tx [97]] = ROk (Some 1) /\
      try_get_by_name m [tx [104]; tx [97]] 1 [tx [97]] = ROk (Some 3) /\
      try_get_by_name m [tx [104]; tx [97]] 0 [tx [103]; tx [97]] = ROk (Some 1) /\
      try_get_by_name m [tx [104]; tx [97]] 2 [tx [98]] = ROk (Some 4) /\
      try_get_by_name m [tx [103]; tx [97]] 2 [tx [98]] = ROk None /\
      try_get_by_name m [tx [104]] 2 [tx [98]] = ROk None
  | _ => False
  end /\
  match scopes (prog_of ex_nodes) with
  | Some (encls, F) => encls = [[0]; [0; 1]; [0; 1]; [2]; [2; 3]; [2; 3; 4]] /\
                       scope_resolve F [2; 3] 2 [tx [98]] = Some 4 /\ scope_resolve F [0; 1] 1 [tx [97]] = Some 1
  | None => False
  end.
Proof. vm_compute. repeat split. Qed.

Example C15_nonvacuous_errors :
  collect mgr_new [ASym 0 (tx [103]) KLabel None; ASym 2 (tx [97]) KLabel None] = RErr /\
  collect mgr_new [ASym 0 (tx [103]) KLabel None; ASym 1 (tx [97]) KLabel None; ASym 1 (tx [97]) KConstant None] = RErr /\
  skips_level (FCons (tx [103]) 0 FNil FNil) 2 = true /\
  duplicate_in_scope (FCons (tx [103]) 0 (FCons (tx [97]) 1 FNil FNil) FNil) 1 (tx [97]) = true /\
  (exists m a, collect mgr_new [ASym 0 (tx [103]) KLabel None; ASym 1 (tx [97]) KLabel None;
                               ASym 0 (tx [104]) KLabel None; ASym 1 (tx [97]) KLabel None] = ROk (m, a)).
Proof. repeat split; try reflexivity. vm_compute. eauto. Qed.

Definition no_names : names := mkNames (fun _ => false) (fun _ => false) (fun _ => false).

(* `g:` then `#d8 nosuch + 1` in the final pass: the premise of C15_unknown holds and the evaluation fails *)
Example C15_nonvacuous_unknown :
  match collect mgr_new [ASym 0 (tx [103]) KLabel None] with
  | ROk (m, _) =>
      has_unknown no_names m [tx [103]] (CAdd (CRef 0 [tx [110]]) (CLit 1)) /\
      eval_full no_names m [mkSym (VInt 0) false false] [tx [103]] false (ROk 0%Z) (CAdd (CRef 0 [tx [110]]) (CLit 1)) = RErr /\
      eval_full no_names m [mkSym (VInt 7) false false] [tx [103]] false (ROk 0%Z) (CAdd (CRef 0 [tx [103]]) (CLit 1)) = ROk (VInt 8)
  | _ => False
  end.
Proof.
  vm_compute. split; [|split; reflexivity].
  apply hu_add_l. apply hu_ref; [|reflexivity]. split; [reflexivity|]. split; reflexivity.
Qed.

(* k0 = k1 + 1 ; k1 = 5 declared in that order: the pre-pass needs two rounds, stops in the third, and the
   result is the denotation (6, 5); it is a stable table *)
Example C15_nonvacuous_constants :
  match collect mgr_new [ASym 0 (tx [107; 48]) KConstant None; ASym 0 (tx [107; 49]) KConstant None] with
  | ROk (m, _) =>
      let cs := [(0, CAdd (CRef 0 [tx [107; 49]]) (CLit 1)); (1, CLit 5)] in
      match prepass no_names true m cs (define_symbols 2 (expr_of cs)) with
      | ROk defs => vals defs 0 = VInt 6 /\ vals defs 1 = VInt 5
      | _ => False
      end /\
      prepass_loop 1 no_names true m cs 0 (define_symbols 2 (expr_of cs)) = RFuel
  | _ => False
  end.
Proof. vm_compute. repeat split. Qed.

(* the bound |constants| + 1 is tight: k0 = k1 + 1 ; k1 = k2 + 1 ; k2 = 5 in that order needs 4 rounds (counts 1, 2, 3, 3);
   with fuel 3 the loop would run out *)
Example C15_fuel_tight :
  match collect mgr_new [ASym 0 (tx [107; 48]) KConstant None; ASym 0 (tx [107; 49]) KConstant None;
                         ASym 0 (tx [107; 50]) KConstant None] with
  | ROk (m, _) =>
      let cs := [(0, CAdd (CRef 0 [tx [107; 49]]) (CLit 1)); (1, CAdd (CRef 0 [tx [107; 50]]) (CLit 1)); (2, CLit 5)] in
      prepass_loop 3 no_names true m cs 0 (define_symbols 3 (expr_of cs)) = RFuel /\
      match prepass_loop 4 no_names true m cs 0 (define_symbols 3 (expr_of cs)) with
      | ROk defs => vals defs 0 = VInt 7 /\ vals defs 1 = VInt 6 /\ vals defs 2 = VInt 5
      | _ => False
      end
  | _ => False
  end.
Proof. vm_compute. repeat split. Qed.

(* a = b ; b = a : the pre-pass returns with both Unknown, and neither has a denotation *)
Example C15_nonvacuous_cycle :
  exists m ast F next, collect mgr_new cyc_nodes = ROk (m, ast) /\ Inv m F next /\
    exists d, prepass names0 true m cyc_cs (define_symbols 2 (expr_of cyc_cs)) = ROk d /\
      vals d 0 = VUnknown /\ vals d 1 = VUnknown /\
      (forall z, ~ den (plain names0) (scope_resolve F [] 0) cyc_cs 0 z) /\
      (forall z, ~ den (plain names0) (scope_resolve F [] 0) cyc_cs 1 z).
Proof. exact cycle_example. Qed.
