(* C19 -- Resource limits are diagnosed, not crashed into.
   Only statements; each closed by lemmas of Proofs/LimitsP.v and Proofs/LimitsDepthP.v.
   The guards (Model/Limits.v) are instantiated with the limits regenerated from /repo (Gen/Generated.v).
   PARTIAL BY NATURE: stack frame sizes, the allocator and wall-clock time are not in the model; what is proved is
   the LOGICAL part -- every guard decides before the work it protects, no guard overflows, every counter is bounded
   and rejects -- and the places where the faithful model REFUTES the property are stated as `_refuted` theorems
   (each is a known finding reproduced on the real binary by tools/props/c19.py). *)
From Coq Require Import ZArith NArith List Bool Lia String.
From CA Require Import Model.Overlap Model.Cursor Model.Limits Model.LimitFamilies.
From CA Require Model.IncFns Gen.Generated.
From CA Require Import Proofs.LimitsP Proofs.LimitsDepthP.
From CA Require Proofs.IncFnsP.
Import ListNotations.
Open Scope Z_scope.

Definition MB : Z := Generated.BIGINT_MAX_BITS.
Definition PL : Z := Generated.PARSE_RECURSION_DEPTH_MAX.
Definition EL : Z := Generated.EVAL_RECURSION_DEPTH_MAX.

(* ---- table obligations against the regenerated constants *)
Theorem C19_limits_table : 0 <= PL <= 64 /\ 0 <= EL <= 32 /\ 1 <= MB <= 4294967295 /\ 2 * MB <= U.
Proof. unfold PL, EL, MB, U. cbv. repeat split; discriminate. Qed.
Theorem C19_limits_word : MB <= U.
Proof. unfold MB, U. cbv. discriminate. Qed.
(* the `group` validator of driver.rs as translated: 1 ..= u16::MAX *)
Theorem C19_group_table :
  In (Generated.cli_txt "check_nonzero"%string, Generated.CliRange 1 65535) Generated.cli_validators.
Proof. vm_compute. tauto. Qed.

(* ---- C19_no_overflow: no guard wraps / panics, for ALL inputs, position by position *)
Theorem C19_no_overflow :
  (forall a b, guard_shl MB a b <> Panic) /\
  (forall a b, guard_shr a b <> Panic) /\
  (forall l r, guard_slice MB l r <> Panic) /\
  (forall s, guard_slice_short MB s <> Panic) /\
  (forall a b, guard_add MB a b <> Panic) /\ (forall a b, guard_sub MB a b <> Panic) /\ (forall a b, guard_mul MB a b <> Panic) /\
  (forall n, guard_width_suffix MB n <> Panic) /\
  (forall unit v, guard_res unit v <> Panic) /\ (forall unit pos v, guard_res_position unit pos v <> Panic) /\
  (forall b pos v, guard_align_position MB b pos v <> Panic) /\
  (forall b a, guard_addr_position MB b a <> Panic) /\
  (forall s, guard_bankdef MB s <> Panic) /\
  (forall b, guard_fill MB b <> Panic) /\
  (forall b pos size wr, guard_bank_output MB b pos size wr <> Panic) /\
  (forall b pos size wr, place_item MB b pos size wr <> Panic) /\
  (forall b1 b2, guard_bank_overlap b1 b2 <> Panic) /\
  (forall pos sizes, asm_block_positions pos sizes <> Panic) /\
  (forall bytes a, Z.of_nat (List.length bytes) <= IncFnsP.isize_max -> guard_incbin bytes a <> Panic) /\
  (forall bpc chars a, (1 <= bpc)%nat ->
     (forall ds, IncFns.read_digits bpc chars = Some ds -> Z.of_nat (List.length ds * bpc) <= IncFnsP.isize_max) ->
     guard_incstr bpc chars a <> Panic) /\
  (forall v, guard_group 1 65535 v <> Panic).
Proof.
  exact (conj (shl_no_panic MB) (conj shr_no_panic (conj (slice_no_panic MB) (conj (slice_short_no_panic MB)
        (conj (add_no_panic MB) (conj (sub_no_panic MB) (conj (mul_no_panic MB) (conj (width_no_panic MB)
        (conj res_no_panic (conj res_position_no_panic (conj (align_guard_no_panic MB) (conj (addr_guard_no_panic MB)
        (conj (bankdef_no_panic MB) (conj (fill_no_panic MB) (conj (bank_output_no_panic MB)
        (conj (fun b pos size wr => place_item_no_panic MB b pos size wr C19_limits_word)
        (conj bank_overlap_no_panic (conj asm_block_positions_no_panic
        (conj incbin_no_panic (conj incstr_no_panic (group_no_panic 1 65535))))))))))))))))))))).
Qed.

(* EVERY position sum of the resolver and of the output builder, without exception (tree /repo 76fc576): the padding of a
   top-level label to the bank's #labelalign and of #align (align_position), #addr (addr_position), #res / data /
   instruction (advance_by), the inner position of an asm block (asm_block_positions), the bank-size check and the
   output range check (guard_bank_output), the output position of an item (output_position / place_item) and the bank
   window ends (ends_after) are checked operations: never a panic, and an accepted position is a usize -- for ALL banks,
   positions and operands *)
Theorem C19_no_overflow_positions :
  (forall b pos la, align_position MB b pos la <> Panic) /\
  (forall b pos la p, align_position MB b pos la = Ok p -> (pos <= p)%N /\ Z.of_N p <= U) /\
  (forall b a, addr_position MB b a <> Panic) /\
  (forall b a p, addr_position MB b a = Ok p -> Z.of_N p <= U) /\
  (forall pos size, advance_by pos size <> Panic) /\
  (forall pos size p, advance_by pos size = Ok p -> Z.of_N p = Z.of_N pos + Z.of_N size /\ Z.of_N p <= U) /\
  (forall pos sizes, asm_block_positions pos sizes <> Panic) /\
  (forall pos sizes p, Z.of_N pos <= U -> asm_block_positions pos sizes = Ok p ->
     Z.of_N p = Z.of_N pos + Z.of_N (fold_right N.add 0%N sizes) /\ Z.of_N p <= U) /\
  (forall b pos size wr bsz, bk_size b = Some bsz -> Z.of_N bsz < Z.of_N pos + Z.of_N size ->
     guard_bank_output MB b pos size wr = Err) /\
  (forall b pos, match output_position b pos with
                 | Some p => exists off, bk_outp b = Some off /\ p = (off + pos)%N /\ Z.of_N p <= U
                 | None => bk_outp b = None \/ exists off, bk_outp b = Some off /\ U < Z.of_N off + Z.of_N pos
                 end) /\
  (forall outp size other, Z.of_N other <= U -> ends_after outp size other = (Z.of_N other <? Z.of_N outp + Z.of_N size)).
Proof.
  exact (conj (align_position_no_panic MB) (conj (align_position_fits MB) (conj (addr_position_no_panic MB)
        (conj (addr_position_fits MB) (conj advance_by_no_panic (conj advance_by_fits
        (conj asm_block_positions_no_panic (conj asm_block_positions_fits (conj (bank_output_size_above MB)
        (conj output_position_spec ends_after_spec)))))))))).
Qed.

(* ---- C19_guards: above the bound => Err (decided before the loop/allocation), below it work <= bound *)
Theorem C19_guards_shift :
  (forall a b, b < 0 \/ 4294967295 < b \/ MB <= zbits a + b -> guard_shl MB a b = Err) /\
  (forall a b w, guard_shl MB a b = Ok w -> Z.of_N w = zbits a + b /\ zbits a + b < MB /\ 0 <= b <= 4294967295) /\
  (forall a b, b < 0 \/ U < b -> guard_shr a b = Err) /\
  (forall a b w, guard_shr a b = Ok w -> Z.of_N w = zbits a /\ 0 <= b <= U).
Proof. exact (conj (shl_above MB) (conj (shl_work MB) (conj shr_above shr_work))). Qed.
Theorem C19_guards_slice :
  (forall l r, l < 0 \/ r < 0 \/ U <= l \/ U < r \/ l + 1 < r \/ MB < l + 1 - r -> guard_slice MB l r = Err) /\
  (forall l r w, guard_slice MB l r = Ok w -> Z.of_N w = l + 1 - r /\ Z.of_N w <= MB /\ 0 <= r <= l + 1) /\
  (forall s, s < 0 \/ U < s \/ MB < s -> guard_slice_short MB s = Err) /\
  (forall s w, guard_slice_short MB s = Ok w -> Z.of_N w = s /\ s <= MB).
Proof. exact (conj (slice_above MB) (conj (slice_work MB) (conj (slice_short_above MB) (slice_short_work MB)))). Qed.
Theorem C19_guards_arith :
  (forall a b, MB - 1 <= Z.max (zbits a) (zbits b) -> guard_add MB a b = Err) /\
  (forall a b, MB / 2 <= Z.max (zbits a) (zbits b) -> guard_mul MB a b = Err) /\
  (forall a b w, guard_add MB a b = Ok w -> Z.of_N w < MB) /\
  (forall a b w, guard_sub MB a b = Ok w -> Z.of_N w < MB) /\
  (forall a b w, guard_mul MB a b = Ok w -> Z.of_N w < MB).
Proof. exact (conj (add_above MB) (conj (mul_above MB) (conj (add_work MB) (conj (sub_work MB) (mul_work MB))))). Qed.
Theorem C19_guards_width :
  (forall n, MB < n -> guard_width_suffix MB n = Err) /\
  (forall n w, guard_width_suffix MB n = Ok w -> Z.of_N w = n /\ n <= MB).
Proof. exact (conj (width_above MB) (width_work MB)). Qed.
Theorem C19_guards_res_align_addr :
  (forall unit v, v < 0 \/ 4294967295 < v \/ U < v * Z.of_N unit -> guard_res unit v = Err) /\
  (forall unit pos v p, guard_res_position unit pos v = Ok p -> Z.of_N p = Z.of_N pos + v * Z.of_N unit /\ Z.of_N p <= U) /\
  (forall b pos v, v <= 0 \/ U < v -> guard_align_position MB b pos v = Err) /\
  (forall b pos v p, guard_align_position MB b pos v = Ok p -> (pos <= p)%N /\ Z.of_N p - Z.of_N pos < v /\ Z.of_N p <= U) /\
  (forall b a, a < bk_addr b \/ U < (a - bk_addr b) * Z.of_N (bk_unit b) -> guard_addr_position MB b a = Err) /\
  (forall b a p, guard_addr_position MB b a = Ok p ->
     Z.of_N p = (a - bk_addr b) * Z.of_N (bk_unit b) /\ Z.of_N p <= U /\
     match bk_size b with Some sz => (p < sz)%N | None => True end).
Proof.
  exact (conj res_above (conj res_position_work (conj (align_above MB) (conj (align_work MB) (conj (addr_above MB) (addr_work MB)))))).
Qed.
Theorem C19_guards_bankdef :
  (forall s v, s_bits s = Some v -> v <= 0 \/ U < v -> guard_bankdef MB s = Err) /\
  (forall s, (exists v, s_labelalign s = Some v /\ (v < 0 \/ U < v)) \/
             (exists v, s_size s = Some v /\ (v < 0 \/ U < v)) \/
             (exists v, s_outp s = Some v /\ (v < 0 \/ U < v)) \/
             (exists v u, s_size s = Some v /\ s_bits s = Some u /\ U < v * u) -> guard_bankdef MB s = Err) /\
  (forall s b, guard_bankdef MB s = Ok b ->
     bk_unit b <> 0%N /\ Z.of_N (bk_unit b) <= U /\ fits (bk_labelalign b) /\ fits (bk_size b) /\ fits (bk_outp b) /\
     match s_bits s with Some v => Z.of_N (bk_unit b) = v | None => bk_unit b = 8%N end /\
     match s_size s, bk_size b with Some v, Some sz => Z.of_N sz = v * Z.of_N (bk_unit b) | Some _, None => False | None, _ => True end /\
     match s_outp s, bk_outp b with Some v, Some o => Z.of_N o = v | None, None => True | _, _ => False end /\
     match s_labelalign s, bk_labelalign b with Some v, Some o => Z.of_N o = v | None, None => True | _, _ => False end).
Proof. exact (conj (bankdef_bits_above MB) (conj (bankdef_field_above MB) (bankdef_ok MB))). Qed.
Theorem C19_guards_output :
  (forall b size off, bk_fill b = true -> bk_size b = Some size -> bk_outp b = Some off -> size <> 0%N ->
     MB < Z.of_N off + Z.of_N size -> guard_fill MB b = Err) /\
  (forall b w, guard_fill MB b = Ok w -> Z.of_N w <= Z.max 0 MB) /\
  (forall b pos size off, bk_outp b = Some off ->
     MB < Z.of_N off + Z.of_N pos + Z.of_N size -> guard_bank_output MB b pos size true = Err) /\
  (forall b pos size w, place_item MB b pos size true = Ok w -> Z.of_N w <= Z.max 0 MB).
Proof. exact (conj (fill_above MB) (conj (fill_work MB) (conj (bank_output_above MB) (place_written_work MB)))). Qed.
Theorem C19_guards_include :
  (forall bytes a st, IncFns.arg_start a = Some st -> Z.of_nat (List.length bytes) <= st -> bytes <> [] -> guard_incbin bytes a = Err) /\
  (forall bytes st sz, Z.of_nat (List.length bytes) <= IncFnsP.isize_max ->
     st < 0 \/ sz < 0 \/ Z.of_nat (List.length bytes) < st + sz -> guard_incbin bytes (IncFns.A3 st sz) = Err) /\
  (forall bytes a w, guard_incbin bytes a = Ok w -> (w <= N.of_nat (List.length bytes))%N).
Proof. exact (conj incbin_above (conj incbin_size_above incbin_work)). Qed.
Theorem C19_guards_group :
  (forall v, 65535 < v \/ v < 1 -> guard_group 1 65535 v = Err) /\
  (forall v w, guard_group 1 65535 v = Ok w -> Z.of_N w = v /\ 1 <= v <= 65535).
Proof. exact (conj (group_above 1 65535) (group_work 1 65535)). Qed.
(* F58: concatenation is the one size-producing operation without a guard: operands within the bound, result beyond it *)
Theorem C19_guards_concat_refuted :
  exists lw rw w, Z.of_N lw <= MB /\ Z.of_N rw <= MB /\ guard_concat lw rw = Ok w /\ MB < Z.of_N w.
Proof. exact (concat_unbounded MB (proj1 (proj1 (proj2 (proj2 C19_limits_table)))) (proj2 (proj2 (proj2 C19_limits_table)))). Qed.

(* ---- C19_depth: the counters are bounded by constants and reject; native depth = counter where every edge is counted *)
Theorem C19_depth_parser :
  (* counters <= limit on ANY skeleton, and the native nesting of counted frames (expression levels + blocks) is at
     most 2 * limit: both counters are cumulative across asm blocks (fixes 4384c6c, 435a7f6) *)
  (forall s bd d nd c n, d <= PL -> bd <= PL -> pwalk PL bd d nd s = Ok (c, n) ->
     d <= c <= PL /\ nd <= n /\ n - nd <= (PL - d) + (PL - bd)) /\
  (forall s, has_asm s = false ->
     parse_top PL s = if 1 + counted_depth s <=? PL then Ok (1 + counted_depth s, 1 + counted_depth s) else Err).
Proof. exact (conj (pwalk_bound PL (proj1 (proj1 C19_limits_table))) (fun s H => parse_top_exact PL s H (proj1 (proj1 C19_limits_table)))). Qed.
(* #if blocks and asm blocks share ONE limit (fix 4384c6c): in any interleaving, with any expressions in between, more
   than PL nested blocks are an error; asm blocks nested through line expressions are accepted to exactly PL levels *)
Theorem C19_depth_interleaved_blocks :
  (forall s bd d nd, bd <= PL -> PL < bd + block_depth s -> pwalk PL bd d nd s = Err) /\
  (forall n, parse_lines PL [nest_asm n] = if Z.of_nat n <=? PL then Ok (Z.of_nat n, 2 * Z.of_nat n) else Err).
Proof.
  exact (conj (pwalk_rejects_blocks PL) (fun n => nest_asm_lines PL n (proj1 (proj1 C19_limits_table)))).
Qed.
Theorem C19_depth_blocks :
  (forall b c n, parse_file_line PL b = Ok (c, n) -> c <= PL) /\
  (forall n, parse_file_line PL (nest_if n) = if Z.of_nat n <=? PL then Ok (Z.of_nat n, Z.of_nat n) else Err).
Proof.
  exact (conj (fun b c n => parse_file_line_bound PL b c n (proj1 (proj1 C19_limits_table)))
              (fun n => nest_if_exact PL n (proj1 (proj1 C19_limits_table)))).
Qed.
Theorem C19_depth_eval :
  forall e d m, d <= EL + 1 -> ewalk EL d e = Ok m -> d <= m <= EL + 1.
Proof. exact (fun e => ewalk_bound EL e (proj1 (proj1 (proj2 C19_limits_table)))). Qed.
(* F11: a chain of n left-associative operators is parsed at counter 1; evaluating (and dropping) its tree recurses n + 1 deep *)
Theorem C19_depth_operator_chain_refuted :
  forall n, parse_top PL (SChain (leaves (S n))) = Ok (1, 1) /\ eval_recursion_depth (SChain (leaves (S n))) = Z.of_nat n + 1.
Proof. exact (fun n => conj (chain_parse PL n ltac:(unfold PL; cbv; discriminate)) (chain_eval_depth n)). Qed.
(* F56: an #if with n #elif arms is accepted with block counter 1 and n + 1 native frames *)
Theorem C19_depth_elif_chain_refuted :
  forall n, parse_file_line PL (elif_chain n) = Ok (1, Z.of_nat n + 1).
Proof. exact (fun n => elif_chain_walk PL n ltac:(unfold PL; cbv; discriminate)). Qed.

(* ---- C19_recursion_error: recursion through functions / asm blocks beyond the limit is an error *)
Theorem C19_recursion_error :
  (forall e d, d <= EL + 1 -> EL + 1 < d + ev_cost e -> ewalk EL d e = Err) /\
  (forall n, eval_directive EL (call_chain n) = if Z.of_nat n <=? EL then Ok (Z.of_nat n) else Err) /\
  (forall n, eval_instruction EL (asm_chain (S n)) = if 1 + 2 * Z.of_nat n <? EL then Ok (1 + 2 * Z.of_nat (S n)) else Err).
Proof.
  exact (conj (ewalk_rejects EL)
        (conj (fun n => call_chain_walk EL n 0 (proj1 (proj1 (proj2 C19_limits_table))))
              (fun n => asm_chain_walk EL n 1))).
Qed.

(* ---- non-vacuity: the thresholds the real binary shows (tools/props/c19.py compares them on every run) *)
Example C19_nonvacuous :
  d_paren 49 = Ok (50, 50) /\ d_paren 50 = Err /\ d_unary 49 = Ok (50, 50) /\ d_unary 50 = Err /\
  d_if 50 = Ok (50, 50) /\ d_if 51 = Err /\ d_fn_calls 25 = Ok 25 /\ d_fn_calls 26 = Err /\
  d_asm_calls 12 = Ok 25 /\ d_asm_calls 13 = Err /\
  f_slice_left 799999999 = Ok (800000000%N, None) /\ f_slice_left 800000000 = Err /\
  f_res 4294967295 = Ok (0%N, Some 4294967295) /\ f_res 4294967296 = Err /\
  f_bank_bits_res_max 2147483648 = Err /\ f_bank_outp_label 18446744073709551615 = Ok (0%N, Some 1) /\ f_bank_outp_two 18446744073709551615 = Ok (0%N, None) /\
  f_asm_block_position 2305843009213693951 = Err /\
  d_mixed [0; 1; 3]%nat 25 = Ok (25, 75) /\ d_mixed [0; 1; 3]%nat 26 = Err /\ d_asm_nest 50 = Ok (50, 100) /\ d_asm_nest 51 = Err /\
  d_mixed (1 :: repeat 1 49 ++ [3])%nat 1 = Ok (50, 51) /\ d_mixed (1 :: repeat 1 49 ++ [3])%nat 2 = Err /\
  d_mixed_calls 8 = Ok 25 /\ d_mixed_calls 9 = Err /\
  f_near_top 0 64 8 = Err /\ f_near_top 0 64 64 = Ok (0%N, Some 18446744073709551552) /\ f_near_top 2 8 9 = Ok (0%N, Some 18446744073709551615) /\
  f_bank_combo true true false 0 800000000 = Err /\ f_bank_combo true false false 1 99999999 = Ok (800000000%N, Some 100000000) /\ f_bank_combo true false false 1 100000000 = Err.
Proof. vm_compute. repeat split. Qed.

(* ===== block nesting in the line/directive parser model (the counter added by the F10 repair): accepted programs
   nest #if / braces at most PARSE_DEPTH_MAX deep, also across asm blocks and else/elif arms ===== *)
From CA Require Import Model.Lexer Model.Parser Model.AsmAst Model.AsmParser Proofs.AsmParserP.
Theorem C19_block_depth : forall (t : text) (nodes : list anode) (w : walker) (k : nat),
  parse_file t = POk nodes w -> nest_ge k nodes -> (k <= PARSE_DEPTH_MAX)%nat.
Proof. exact AsmParserP.C19_block_depth. Qed.
Theorem C19_block_guard : forall (fuel bd : nat) (w : walker), (PARSE_DEPTH_MAX <= bd)%nat ->
  parse_braced fuel bd w = PErr \/ parse_braced fuel bd w = PFuel.
Proof. exact AsmParserP.C19_block_guard. Qed.

(* ===== after the repairs F57 / F76: asm blocks share the block counter, the expression depth is cumulative across asm
   blocks; the nesting an accepted program can reach is linear in the limit (before: limit + limit^2) ===== *)
From CA Require Import Spec.AsmDepth Proofs.AsmParserDepthP.
Theorem C19_expr_depth_cumulative : forall (t : text) (nodes : list anode) (w : walker) (k : nat),
  parse_file t = POk nodes w -> xdepth_ge k nodes -> (k <= PARSE_DEPTH_MAX)%nat.
Proof. exact AsmParserDepthP.C19_expr_depth_cumulative. Qed.
Theorem C19_nesting_linear : forall (t : text) (nodes : list anode) (w : walker) (kb ke : nat),
  parse_file t = POk nodes w -> nest_ge kb nodes -> xdepth_ge ke nodes -> (kb + ke <= 2 * PARSE_DEPTH_MAX)%nat.
Proof. exact AsmParserDepthP.C19_nesting_linear. Qed.
Theorem C19_asm_guard : forall (fuel bd d : nat) (w : walker), (PARSE_DEPTH_MAX <= bd)%nat ->
  asm_hook fuel bd d w = PErr \/ asm_hook fuel bd d w = PFuel.
Proof. exact AsmParserP.C19_asm_guard. Qed.
Theorem C19_expr_guard : forall A (hook : nat -> walker -> pres (span * A)) (fuel d : nat) (w : walker), (PARSE_DEPTH_MAX <= d)%nat ->
  gparse_expr hook fuel d w = PErr \/ gparse_expr hook fuel d w = PFuel.
Proof. exact AsmParserP.C19_expr_guard. Qed.
