(* C07 — Instruction matching ignores case, extra spacing, comments and rule order.  Only statements.
   (The invariance of whole programs under the renderings is decided on every run by the metamorphic stream.) *)
From Coq Require Import NArith ZArith List Bool.
From CA Require Import Model.Lexer Model.Parser Model.Matcher Proofs.MatcherP Proofs.MatcherCaseP.
Import ListNotations.
Open Scope N_scope.

(* case: patterns are stored lower-cased, so the case of the rule text is irrelevant ... *)
Theorem C07_pattern_lowercase : forall t, lower_exacts (map to_lower t) = lower_exacts t.
Proof. exact MatcherCaseP.C07_pattern_lowercase. Qed.
(* ... literal characters of the instruction are compared modulo ASCII case, both for the first character of a
   pattern token (after skipping blanks and comments) and for the following, glued ones *)
Theorem C07_char_case : forall w c c', to_lower c = to_lower c' ->
  maybe_expect_char w c = maybe_expect_char w c' /\ maybe_expect_char_glued w c = maybe_expect_char_glued w c'.
Proof. exact MatcherCaseP.C07_char_case. Qed.
Theorem C07_instr_char_case : forall w w' ch ch' t c,
  cur w = cur w' -> lim w = lim w' -> tail w = ch :: t -> tail w' = ch' :: t -> to_lower ch = to_lower ch' ->
  maybe_expect_char_glued w c = maybe_expect_char_glued w' c.
Proof. exact MatcherCaseP.C07_instr_char_case_eq. Qed.

(* spacing and comments: any run of blanks / tabs / comments in front of the first character of a pattern token is skipped *)
Theorem C07_blank_before_exact : forall f w c, maybe_expect_char (skip_ignorable f w) c = maybe_expect_char w c.
Proof. exact MatcherCaseP.C07_blank_before_exact. Qed.

(* literal priority: only matches with the maximal recursive count of literal characters survive, so a rule that
   spells an operand literally always beats one that reads the same text as an expression *)
Theorem C07_literal_priority : forall defs working m, In m (finish_matches defs working) ->
  forall m', In m' (map fst working) -> exact_count defs m' <= get_exact m.
Proof. exact MatcherCaseP.C07_literal_priority_all. Qed.
Theorem C07_maximal_survives : forall defs working m0, In m0 (dedupe [] (map fst working)) ->
  (forall m', In m' (dedupe [] (map fst working)) -> exact_count defs m' <= exact_count defs m0) ->
  In (set_exact m0 (exact_count defs m0)) (finish_matches defs working).
Proof. exact MatcherCaseP.finish_complete. Qed.

(* rule order / block partition: the candidate list through the index is a permutation of the brute-force list
   (Props/C08.v); the metamorphic stream decides the whole-program statement *)
Theorem C07_to_lower_idempotent : forall c, to_lower (to_lower c) = to_lower c.
Proof.
  intro c. unfold to_lower, in_range.
  destruct ((65 <=? c) && (c <=? 90)) eqn:E; [|rewrite E; reflexivity].
  apply andb_prop in E. destruct E as [E1 E2]. apply N.leb_le in E1. apply N.leb_le in E2.
  replace ((65 <=? c + 32) && (c + 32 <=? 90)) with false; [reflexivity|].
  symmetry. apply andb_false_iff. right. apply N.leb_gt. Lia.lia.
Qed.

(* ---------- blanks and comments at line level (Proofs/BlankLexP, BlankWalkP, BlankMatchP, BlankTopP) ---------- *)
From CA Require Import Proofs.MatcherPermP Proofs.MatcherKeysP Proofs.BlankLexP Proofs.BlankWalkP Proofs.BlankMatchP Proofs.BlankTopP
  Proofs.BlankCaseP.

(* blank_equiv s s': the two lines are renderings of segment lists with the same plain characters and gaps at the same
   places; only the content of each gap (blanks, tabs, CRs, block comments without inner ';') differs.  Decided by the
   executable blank_equivb (re-tokenises both lines and compares the skeletons). *)
Theorem C07_blank_equiv_decided : forall s s', blank_equivb s s' = true -> blank_equiv s s'.
Proof. exact BlankTopP.blank_equivb_sound. Qed.

(* Both matchers, any fuel, every parsed rule set: blank-equivalent lines give the same candidates (same rules, same nested
   structure, same argument expressions) up to the byte positions of the argument spans and the excerpts -- provided
   the expression parser's own fuel (200 per remaining character) is not exhausted on either line (expr_fuel_ok,
   decidable by expr_fuel_okb). *)
Theorem C07_blank_lines : forall A A' s s' t defs fuel indexed,
  parse_defs t = Some defs -> blank_equiv_by A A' s s' -> expr_fuel_ok A -> expr_fuel_ok A' ->
  map strip (match_instr_fuel defs fuel indexed (start s)) = map strip (match_instr_fuel defs fuel indexed (start s')).
Proof. exact BlankTopP.C07_blank_invariance_parsed. Qed.

(* the spans themselves correspond: both are the byte positions of the same segment boundary (relation mrel) *)
Theorem C07_blank_lines_spans : forall A A' s s' defs fuel indexed,
  blank_equiv_by A A' s s' -> Forall ruledef_ok defs -> expr_fuel_ok A -> expr_fuel_ok A' ->
  Forall2 (mrel A A') (match_instr_fuel defs fuel indexed (start s)) (match_instr_fuel defs fuel indexed (start s')) /\
  map strip (match_instr_fuel defs fuel indexed (start s)) = map strip (match_instr_fuel defs fuel indexed (start s')).
Proof. exact BlankTopP.C07_blank_invariance. Qed.

(* match_instr itself (its fuel grows with the length of the line): when the extra fuel is not needed on s' *)
Theorem C07_blank_lines_match_instr : forall A A' s s' t defs indexed,
  parse_defs t = Some defs -> blank_equiv_by A A' s s' -> expr_fuel_ok A -> expr_fuel_ok A' ->
  match_instr_fuel defs (fuel_for indexed defs s') indexed (start s') = match_instr_fuel defs (fuel_for indexed defs s) indexed (start s') ->
  map strip (match_instr indexed defs s) = map strip (match_instr indexed defs s').
Proof. exact BlankTopP.C07_blank_invariance_match_instr. Qed.
Theorem C07_match_instr_fuel : forall indexed defs s,
  match_instr indexed defs s = match_instr_fuel defs (fuel_for indexed defs s) indexed (start s).
Proof. exact BlankTopP.match_instr_fuel_eq. Qed.

Example C07_blank_lines_nonvacuous :
  parse_defs bx_rules = Some bx_defs /\ blank_equivb bx_s bx_s' = true /\ blank_equiv_by bx_A bx_A' bx_s bx_s' /\
  expr_fuel_ok bx_A /\ expr_fuel_ok bx_A'.
Proof. exact BlankTopP.bx_hypotheses. Qed.

(* letter case at line level: a run of literal pattern parts ends at the same segment on two lines that differ only in
   the ASCII case of plain characters ... *)
Theorem C07_case_literal_run : forall A A', Forall seg_ok A -> Forall seg_ok A' -> Forall2 seg_relc A A' ->
  forall lits i j, (i <= j)%nat -> (j <= length A)%nat -> Forall part_ok lits ->
  both A A' (run_lits lits (W A i j)) (run_lits lits (W A' i j)) i j.
Proof. exact BlankCaseP.C07_case_literal_run. Qed.
(* ... and recasing characters consumed by the LEADING literal run of a rule leaves its candidates identical *)
Theorem C07_case_leading_literals : forall P P' T defs r lits rest f needs sf,
  Forall seg_ok (P ++ T) -> Forall seg_ok (P' ++ T) -> Forall2 seg_relc P P' ->
  forallb is_lit lits = true -> Forall part_ok lits ->
  (forall i1, run_lits lits (start (render (P ++ T))) = Some (W (P ++ T) i1 (length (P ++ T))) -> (length P <= i1)%nat) ->
  map fst (match_with_rule (length lits + f) defs r (lits ++ rest) (start (render (P ++ T))) needs sf) =
  map fst (match_with_rule (length lits + f) defs r (lits ++ rest) (start (render (P' ++ T))) needs sf).
Proof. exact BlankCaseP.C07_case_leading_literals. Qed.
