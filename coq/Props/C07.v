(* C07 — Instruction matching ignores case, extra spacing, comments and rule order.  Only statements.
   (The invariance of whole programs under the renderings is decided on every run by the metamorphic stream.) *)
From Coq Require Import NArith ZArith List Bool.
From CA Require Import Model.Lexer Model.Parser Model.Matcher Proofs.MatcherP Proofs.MatcherCaseP.
Import ListNotations.
Open Scope N_scope.

(* case: patterns are stored lower-cased, so the case of the rule text is irrelevant ... *)
Theorem C07_pattern_lowercase : forall t, lower_exacts (map to_lower t) = lower_exacts t.
Proof. exact MatcherCaseP.C07_pattern_lowercase. Qed.
(* ... literal characters of the instruction are compared modulo ASCII case, both for the first character of a
   pattern token (after skipping blanks and comments) and for the following, glued ones *)
Theorem C07_char_case : forall w c c', to_lower c = to_lower c' ->
  maybe_expect_char w c = maybe_expect_char w c' /\ maybe_expect_char_glued w c = maybe_expect_char_glued w c'.
Proof. exact MatcherCaseP.C07_char_case. Qed.
Theorem C07_instr_char_case : forall w w' ch ch' t c,
  cur w = cur w' -> lim w = lim w' -> tail w = ch :: t -> tail w' = ch' :: t -> to_lower ch = to_lower ch' ->
  maybe_expect_char_glued w c = maybe_expect_char_glued w' c.
Proof. exact MatcherCaseP.C07_instr_char_case_eq. Qed.

(* spacing and comments: any run of blanks / tabs / comments in front of the first character of a pattern token is skipped *)
Theorem C07_blank_before_exact : forall f w c, maybe_expect_char (skip_ignorable f w) c = maybe_expect_char w c.
Proof. exact MatcherCaseP.C07_blank_before_exact. Qed.

(* literal priority: only matches with the maximal recursive count of literal characters survive, so a rule that
   spells an operand literally always beats one that reads the same text as an expression *)
Theorem C07_literal_priority : forall defs working m, In m (finish_matches defs working) ->
  forall m', In m' (map fst working) -> exact_count defs m' <= get_exact m.
Proof. exact MatcherCaseP.C07_literal_priority_all. Qed.
Theorem C07_maximal_survives : forall defs working m0, In m0 (dedupe [] (map fst working)) ->
  (forall m', In m' (dedupe [] (map fst working)) -> exact_count defs m' <= exact_count defs m0) ->
  In (set_exact m0 (exact_count defs m0)) (finish_matches defs working).
Proof. exact MatcherCaseP.finish_complete. Qed.

(* rule order / block partition: the candidate list through the index is a permutation of the brute-force list
   (Props/C08.v); the metamorphic stream decides the whole-program statement *)
Theorem C07_to_lower_idempotent : forall c, to_lower (to_lower c) = to_lower c.
Proof.
  intro c. unfold to_lower, in_range.
  destruct ((65 <=? c) && (c <=? 90)) eqn:E; [|rewrite E; reflexivity].
  apply andb_prop in E. destruct E as [E1 E2]. apply N.leb_le in E1. apply N.leb_le in E2.
  replace ((65 <=? c + 32) && (c + 32 <=? 90)) with false; [reflexivity|].
  symmetry. apply andb_false_iff. right. apply N.leb_gt. Lia.lia.
Qed.
