(* C07 — Instruction matching ignores case, extra spacing, comments and rule order.  Only statements. *)
From Coq Require Import NArith ZArith List Bool.
From CA Require Import Model.Lexer Model.Parser Model.Matcher.
Import ListNotations.
Open Scope N_scope.

(* ASCII recasing: the stored pattern and the comparison are both modulo ASCII case *)
Theorem C07_to_lower_idempotent : forall c, to_lower (to_lower c) = to_lower c.
Proof.
  intro c. unfold to_lower, in_range.
  destruct ((65 <=? c) && (c <=? 90)) eqn:E; [|rewrite E; reflexivity].
  apply andb_prop in E. destruct E as [E1 E2]. apply N.leb_le in E1. apply N.leb_le in E2.
  replace ((65 <=? c + 32) && (c + 32 <=? 90)) with false; [reflexivity|].
  symmetry. apply andb_false_iff. right. apply N.leb_gt. Lia.lia.
Qed.
