(* C18 — the command line does what the usage text says.
   Only statements; each closed by a lemma of Proofs/DriverP.v.  The model (Model/Driver.v) starts after getopts:
   a command line is the list of per-group parsed options (pgroup); the spelling layer is exercised by the
   correspondence run only.  cli_* are the tables regenerated on every run from src/usage_help.md and src/driver.rs. *)
From Coq Require Import ZArith NArith List Bool.
From CA Require Import Model.CliTables Model.Driver Spec.Cli Proofs.DriverP.
Import ListNotations.
Open Scope N_scope.

(* ---- every name / parameter / default printed in the usage text is accepted and selects that format -------------
   each entry of the Formats section, with every subset of its documented parameters, parses to the documented
   formatter with the documented defaults; `Same as` entries equal their targets; every value of a documented set
   ("Supports base 2 and 16") is accepted.  Finite: the generated table (vm_compute, lifted with forallb_forall). *)
Theorem C18_usage_accepted : forall e, In e cli_usage_formats -> usage_entry_ok e = true.
Proof. exact usage_accepted. Qed.

Theorem C18_usage_examples : forall e, In e cli_usage_examples -> usage_example_ok e = true.
Proof. exact usage_examples. Qed.

(* every documented value of every parameter of every name (base sets, addr_unit set, group 1..65535), spelled
   `name,param:value`, is accepted and arrives in the selected format.  Finite: 2 x 65535 + 13 strings. *)
Theorem C18_values_accepted : forall a, In a cli_arms -> arm_values_accepted a = true.
Proof. exact values_accepted. Qed.

(* the driver's tables say what the documentation says: every name it knows is in the usage text (or is one of the two
   listed aliases and builds what its target builds), every validator equals the documented set, every default is
   valid, derived-name extensions are bin / mlb / txt, and the options of make_opts are those of the usage text *)
Theorem C18_tables_documented :
  (forall a, In a cli_arms -> arm_named a = true /\ arm_documented a = true /\ default_valid a = true /\
                              nodupb (field_params (snd a)) = true) /\
  (forall v, In v cli_variants -> extension_documented v = true) /\
  (forall o, In o cli_opts -> option_documented o = true) /\
  (forall u, In u cli_usage_options -> option_implemented u = true).
Proof. exact tables_documented. Qed.

(* the code is the repaired one: leftover parameters are reported in the order given (F16), an empty define value is
   an error and not an assertion failure (F30) *)
Theorem C18_fixed_tables : cli_leftover_in_given_order = true /\ cli_empty_literal_is_error = true.
Proof. exact tables_fixed. Qed.

(* ---- unknown name / unknown parameter / value outside its set / three-part parameter => rejected, for ALL strings
   stated as: whatever is accepted has a known name, only known two-part parameters, and every field is the default
   (parameter absent) or the LAST value spelled for it, a usize inside the DOCUMENTED set *)
Theorem C18_unknown_rejected : forall s f fid ps,
  parse_output_format s = COk f -> split_on 44 s = fid :: ps ->
  exists a, find_arm cli_arms fid = Some a /\ f_ctor f = snd (fst a) /\
    (forall p, In p ps -> (List.length (pieces p) <= 2)%nat /\ In (id_of p) (field_params (snd a))) /\
    Forall2 (field_spec_doc fid ps) (snd a) (f_fields f).
Proof. exact accepted_is_documented. Qed.

(* the same, one cause at a time and for any tables *)
Theorem C18_unknown_name_rejected : forall arms vals s fid ps,
  split_on 44 s = fid :: ps -> find_arm arms fid = None -> forall f, parse_output_format_with arms vals s <> COk f.
Proof. exact unknown_name_rejected. Qed.

Theorem C18_three_part_rejected : forall arms vals s fid ps p,
  split_on 44 s = fid :: ps -> In p ps -> (List.length (split_on 58 p) > 2)%nat ->
  forall f, parse_output_format_with arms vals s <> COk f.
Proof. exact three_part_rejected. Qed.

Theorem C18_unknown_param_rejected : forall arms vals s fid ps p a,
  split_on 44 s = fid :: ps -> find_arm arms fid = Some a -> In p ps -> ~ In (id_of p) (field_params (snd a)) ->
  forall f, parse_output_format_with arms vals s <> COk f.
Proof. exact unknown_param_rejected. Qed.

(* ---- groups: each group's decision is a function of its own options and of the first input name ----------------- *)
Theorem C18_groups : forall T gs c, parse_command_with T gs = COk c ->
  Forall2 (fun g g' => group_decision T (hd_error (flat_map pg_free gs)) g = COk g') gs (c_groups c).
Proof. intros T gs c H. exact (proj2 (proj2 (proj2 (proj2 (proj2 (proj2 (proj2 (command_inv T gs c H)))))))). Qed.

(* exactly one print or one write per group, in order, once the assembly succeeded *)
Theorem C18_one_action_per_group : forall T gs c asm_ok wr acts,
  parse_command_with T gs = COk c -> run_command c asm_ok wr = ODone acts ->
  acts = map action_of (c_groups c) /\ List.length acts = List.length gs /\ Forall acts_once acts.
Proof. exact run_one_action_per_group. Qed.

(* help, version, no input, failed assembly: nothing is written or printed by any group *)
Theorem C18_no_action_otherwise : forall c asm_ok wr,
  (c_help c = true \/ c_version c = true \/ c_inputs c = [] \/ asm_ok = false) ->
  match run_command c asm_ok wr with ODone _ | OWriteFailed _ => False | _ => True end.
Proof. exact run_no_action_otherwise. Qed.

(* ---- derived names: never the input name; the format's extension whenever the input has a file name -------------- *)
Theorem C18_derived_name : forall f input name, derive_output_filename f input = COk name ->
  name <> input /\
  (file_name_split input <> None -> ends_with name (46 :: extension_of cli_extensions cli_default_extension f)).
Proof. exact derived_name. Qed.

Theorem C18_derived_name_refused : forall exts d f input,
  replace_backslash (set_extension input (extension_of exts d f)) = input ->
  derive_output_filename_with exts d f input = CErr (EDerive input).
Proof. exact derive_refuses_same. Qed.

(* ---- defaults ---------------------------------------------------------------------------------------------------- *)
Theorem C18_defaults : forall T first g g', finish_group T first g = COk g' -> cg_format g = None ->
  cg_format g' = Some (if cg_print g then mkfmt (t_default_print T) else mkfmt (t_default_file T)).
Proof. exact default_format. Qed.

Theorem C18_defaults_documented :
  mkfmt cli_default_print = {| f_ctor := s_Annotated; f_fields := [16; 2] |} /\
  mkfmt cli_default_file = {| f_ctor := s_Binary; f_fields := [] |} /\
  cli_iters_default = cli_usage_iters_default /\ cli_colors_default = text_eqb cli_usage_color_default t_on /\
  cli_quiet_default = false.
Proof. exact defaults_documented. Qed.

(* ---- global options are honoured wherever they appear ------------------------------------------------------------ *)
Theorem C18_globals : forall T gs c, parse_command_with T gs = COk c ->
  c_inputs c = flat_map pg_free gs /\
  c_quiet c = t_quiet T || existsb pg_quiet gs /\ c_version c = existsb pg_version gs /\ c_help c = existsb pg_help gs /\
  (exists dss, Forall2 (fun g ds => parse_defines T (pg_defines g) = COk ds) gs dss /\ c_defines c = concat dss) /\
  match last_given pg_iters gs with None => c_iters c = t_iters T | Some t => parse_usize t = Some (c_iters c) /\ c_iters c <> 0 end /\
  match last_given pg_color gs with None => c_colors c = t_colors T
  | Some v => (v = Some t_on /\ c_colors c = true) \/ (v = Some t_off /\ c_colors c = false) end /\
  Forall2 (fun g g' => group_decision T (hd_error (flat_map pg_free gs)) g = COk g') gs (c_groups c).
Proof. exact command_inv. Qed.

(* ---- defines: NAME, NAME=true, NAME=false, NAME=[-]literal; empty value and a second '=' are errors -------------- *)
Theorem C18_define_parse : forall name, ~ In 61 name ->
  parse_define name = COk (name, DBool true) /\
  parse_define (name ++ 61 :: t_true) = COk (name, DBool true) /\
  parse_define (name ++ 61 :: t_false) = COk (name, DBool false) /\
  parse_define (name ++ [61]) = CErr (EDefineValue name) /\
  parse_define (name ++ [61; 45]) = CErr (EDefineValue name) /\
  (forall b c, ~ In 61 b -> parse_define (name ++ 61 :: b ++ 61 :: c) = CErr (EDefine (name ++ 61 :: b ++ 61 :: c))) /\
  (forall body, ~ In 61 body -> text_eqb body t_true = false -> text_eqb body t_false = false -> (forall r, body <> 45 :: r) ->
     parse_define (name ++ 61 :: body) =
     cbind (excerpt_as_bigint cli_radix_prefix2 cli_radix_prefix1 cli_empty_literal_is_error body) (fun o => match o with
       | None => CErr (EDefineValue name) | Some (v, sz) => COk (name, DInt (Z.of_N v) sz) end)) /\
  (forall body, ~ In 61 body ->
     parse_define (name ++ 61 :: 45 :: body) =
     cbind (excerpt_as_bigint cli_radix_prefix2 cli_radix_prefix1 cli_empty_literal_is_error body) (fun o => match o with
       | None => CErr (EDefineValue name) | Some (v, sz) => COk (name, DInt (- Z.of_N v) None) end)).
Proof. exact define_parse. Qed.

(* the sign of a define belongs to the driver, not to the number parser: `NAME=-<literal>` is the UNSIZED negation of the
   literal (a negated `0xff` is -255 with no declared size, so an 8-bit consumer must refuse it); a positive radix literal
   keeps its digit-count size *)
Theorem C18_define_negated_unsized : forall name body v sz, ~ In 61 name -> ~ In 61 body ->
  excerpt_as_bigint cli_radix_prefix2 cli_radix_prefix1 cli_empty_literal_is_error body = COk (Some (v, sz)) ->
  parse_define (name ++ 61 :: 45 :: body) = COk (name, DInt (- Z.of_N v) None).
Proof. exact define_negated_unsized. Qed.

Theorem C18_define_positive_sized : forall name body v sz, ~ In 61 name -> ~ In 61 body ->
  text_eqb body t_true = false -> text_eqb body t_false = false -> (forall r, body <> 45 :: r) ->
  excerpt_as_bigint cli_radix_prefix2 cli_radix_prefix1 cli_empty_literal_is_error body = COk (Some (v, sz)) ->
  parse_define (name ++ 61 :: body) = COk (name, DInt (Z.of_N v) sz).
Proof. exact define_positive_sized. Qed.

(* ---- non-vacuity -------------------------------------------------------------------------------------------------- *)
From Coq Require Import String.
Open Scope string_scope.
Open Scope N_scope.
Definition T (s : string) : text := txt s.
Example C18_nonvacuous :
  parse_output_format (T "annotated,base:8,group:3") = COk {| f_ctor := T "Annotated"; f_fields := [8; 3] |} /\
  parse_output_format (T "annotated,base:3") = CErr (EInvalidValue (T "annotated") (T "base") (T "3")) /\
  parse_output_format (T "annotated,group:65536") = CErr (EInvalidValue (T "annotated") (T "group") (T "65536")) /\
  parse_output_format (T "binary,foo:1,bar:2,baz:3") = CErr (EUnknownParam (T "binary") (T "foo")) /\
  parse_output_format (T "binary,baz:3,foo:1") = CErr (EUnknownParam (T "binary") (T "baz")) /\
  parse_output_format (T "annotated,base:16:2") = CErr (EThreePart (T "annotated") (T "base:16:2")) /\
  parse_output_format (T "bogus") = CErr (EUnknownFormat (T "bogus")) /\
  parse_output_format (T "annotated,base:2,base:+16") = COk {| f_ctor := T "Annotated"; f_fields := [16; 2] |} /\
  derive_output_filename {| f_ctor := T "Binary"; f_fields := [] |} (T "dir/main.asm") = COk (T "dir/main.bin") /\
  derive_output_filename {| f_ctor := T "Binary"; f_fields := [] |} (T "main.bin") = CErr (EDerive (T "main.bin")) /\
  derive_output_filename {| f_ctor := T "Symbols"; f_fields := [] |} (T ".asm") = COk (T ".asm.txt") /\
  parse_define (T "X=0x1_f") = COk (T "X", DInt 31 (Some 8)) /\ parse_define (T "X=-%101") = COk (T "X", DInt (-5) None) /\
  parse_define (T "X=$ff") = COk (T "X", DInt 255 (Some 8)) /\ parse_define (T "X=0o17") = COk (T "X", DInt 15 (Some 6)) /\
  parse_define (T "X=12") = COk (T "X", DInt 12 None) /\ parse_define (T "X=-0xff") = COk (T "X", DInt (-255) None) /\
  parse_define (T "X=0xff") = COk (T "X", DInt 255 (Some 8)) /\ parse_define (T "X=-0b11111111") = COk (T "X", DInt (-255) None) /\ parse_define (T "X=") = CErr (EDefineValue (T "X")) /\
  parse_define (T "X=0x") = CErr (EDefineValue (T "X")) /\ parse_define (T "X=1=2") = CErr (EDefine (T "X=1=2")).
Proof. vm_compute. repeat split. Qed.

(* an input without a file name (it ends in `..`) but with a backslash: the name handed back is the input with the
   backslash replaced; it does not carry the extension.  Such a path cannot name a readable file. *)
Example C18_derived_name_needs_file_name :
  file_name_split (T "a\b/..") = None /\
  derive_output_filename {| f_ctor := T "Binary"; f_fields := [] |} (T "a\b/..") = COk (T "a/b/..").
Proof. vm_compute. split; reflexivity. Qed.
