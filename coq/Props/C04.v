(* C04 — Typed arguments and sized data accept exactly their range, never truncating.
   Only statements; each closed by a lemma of Proofs/TypeRangeP.v. *)
From Coq Require Import ZArith List Bool.
From CA Require Import Model.TypeRange Proofs.TypeRangeP.
Import ListNotations.
Open Scope Z_scope.

Theorem C04_unsigned : forall n v, 1 <= n -> (accepts (U n) v = true <-> 0 <= v < 2^n).
Proof. exact unsigned_range. Qed.

Theorem C04_signed : forall n v, 1 <= n -> (accepts (S n) v = true <-> - 2^(n-1) <= v < 2^(n-1)).
Proof. exact signed_range. Qed.

Theorem C04_integer : forall n v, 1 <= n -> (accepts (I n) v = true <-> - 2^(n-1) <= v < 2^n).
Proof. exact integer_range. Qed.

(* the emitted bits of an accepted value are its n low-order two's-complement bits, MSB first *)
Theorem C04_emit : forall n v i, (i < Z.to_nat n)%nat ->
  nth_error (emit n v) i = Some (Z.testbit v (n - 1 - Z.of_nat i)).
Proof. exact emit_bit. Qed.

Theorem C04_emit_length : forall n v, 0 <= n -> Z.of_nat (length (emit n v)) = n.
Proof. exact emit_length. Qed.

(* nothing is ever cut to fit: the emitted bits determine the accepted value *)
Theorem C04_no_truncation_unsigned : forall n v, 1 <= n -> accepts (U n) v = true ->
  unsigned_of_bits (emit n v) = v.
Proof. exact no_truncation_unsigned. Qed.

Theorem C04_no_truncation_signed : forall n v, 1 <= n -> accepts (S n) v = true ->
  signed_of_bits (emit n v) = v.
Proof. exact no_truncation_signed. Qed.

Theorem C04_no_truncation_integer : forall n v, 1 <= n -> accepts (I n) v = true ->
  (0 <= v -> unsigned_of_bits (emit n v) = v) /\ (v < 0 -> signed_of_bits (emit n v) = v).
Proof. exact no_truncation_integer. Qed.

(* data directive of width n *)
Theorem C04_data_unsized : forall n v, 1 <= n ->
  (data_accepts n v None = true <-> - 2^(n-1) <= v < 2^n).
Proof. exact data_unsized_range. Qed.

Theorem C04_data_sized : forall n v m, data_accepts n v (Some m) = true <-> m <= n.
Proof. exact data_sized_range. Qed.

(* width 0: the code rejects every value (known finding F26: the property text would admit 0 for u0) *)
Theorem C04_width0_rejects_all : forall t v, width t = 0 -> accepts t v = false.
Proof. exact width0. Qed.

Theorem C04_width0_refuted : accepts (U 0) 0 = false.
Proof. reflexivity. Qed.

(* non-vacuity *)
Example C04_nonvacuous : accepts (U 8) 255 = true /\ accepts (U 8) 256 = false /\
  accepts (S 8) (-128) = true /\ accepts (S 8) 128 = false /\ accepts (I 8) 255 = true /\
  accepts (I 8) (-129) = false /\ typed_result (S 4) (-3) = Some [true; true; false; true].
Proof. repeat split. Qed.
