(* C05 — Expressions compute exact unbounded-integer mathematics with tracked sizes.
   Only statements; each closed by a lemma of Proofs/. *)
From Coq Require Import ZArith NArith List Bool String.
From CA Require Import Gen.Generated Model.Lexer Model.Parser Model.BigIntOps Model.Evaluator Spec.Sem Spec.SemEval Spec.Grammar
  Proofs.BitOpsP.
From CA Require Import Model.Literal Spec.EvalWf Spec.LiteralSpec Spec.StrCodec Proofs.C05More.
Import ListNotations.
Open Scope Z_scope.

(* --- the big-integer primitives: the code's algorithms equal plain mathematics, for all operands --- *)
(* slice = bits right..left-1 of the infinite two's-complement representation *)
Theorem C05_slice : forall x left right,
  slice_bits x left right = (x / 2 ^ Z.of_N right) mod 2 ^ Z.of_N (left - right).
Proof. exact slice_bits_spec. Qed.

(* concatenation joins exactly the named bits *)
Theorem C05_concat : forall a asz b bsz,
  concat_bits a asz b bsz = (a mod 2 ^ Z.of_N asz) * 2 ^ Z.of_N bsz + b mod 2 ^ Z.of_N bsz.
Proof. exact concat_bits_spec. Qed.

(* `!` (byte-wise complement of the signed byte string) is the two's-complement -x-1 *)
Theorem C05_not : forall v, not_bytes v = - v - 1.
Proof. exact not_bytes_spec. Qed.

(* `le` reverses the size/8 bytes of the value *)
Theorem C05_le : forall x size, wf x -> bsz x = Some size -> (size mod 8 = 0)%N ->
  convert_le x size = mk (reverse_bytes (bv (sem_slice x size 0)) (N.to_nat (size / 8))) (Some size).
Proof. exact convert_le_spec. Qed.

(* the evaluator's slice / concat primitives with their size bookkeeping *)
Theorem C05_slice_sized : forall x left right, slice x left right = sem_slice x left right.
Proof. exact slice_spec. Qed.
Theorem C05_concat_sized : forall a asz b bsz, concat a asz b bsz = sem_concat a asz b bsz.
Proof. exact concat_spec. Qed.

(* --- table obligations, re-checked against the regenerated tables of /repo on every run --- *)
(* operators bind with the documented precedence and associativity: the chain of parse levels read out of
   src/expr/parser.rs is the documented one ... *)
Theorem C05_precedence_table : Generated.levels = documented_levels.
Proof. vm_compute. reflexivity. Qed.
(* ... and the parser model climbs exactly the binary levels of that chain *)
Theorem C05_model_levels :
  map (fun l => snd (fst l)) (filter (fun l => String.eqb (snd (fst (fst l))) "parse_binary_ops") Generated.levels)
  = level_ops_as_strings.
Proof. vm_compute. reflexivity. Qed.
(* the token table of src/syntax/token.rs is the one the lexer model uses, in the same order *)
Theorem C05_token_table : Generated.tokens = (keywords_as_strings ++ specials_as_strings)%list.
Proof. vm_compute. reflexivity. Qed.
Theorem C05_limits : Generated.PARSE_RECURSION_DEPTH_MAX = Z.of_nat PARSE_DEPTH_MAX /\ Generated.BIGINT_MAX_BITS = BIGINT_MAX_BITS.
Proof. vm_compute. split; reflexivity. Qed.


(* --- the whole evaluator: the code's algorithms = plain mathematics, on every well-formed expression --- *)
Theorem C05_eval_sem : forall pvar e ctx, wf_pvar pvar -> wf_expr e -> wf_ctx ctx ->
  eval code_ops pvar e ctx = eval math_ops pvar e ctx.
Proof. exact C05More.C05_eval_sem. Qed.
Theorem C05_eval_wf : forall pvar e ctx v ctx', wf_pvar pvar -> wf_expr e -> wf_ctx ctx ->
  eval math_ops pvar e ctx = EOk (v, ctx') -> wf_value v /\ wf_ctx ctx'.
Proof. exact C05More.C05_eval_wf. Qed.
Theorem C05_parse_wf : forall t e w, scalar_text t -> parse_text t = POk e w -> wf_expr e.
Proof. exact C05More.C05_parse_wf. Qed.
Theorem C05_str_wf : forall s enc, scalar_text s -> wf (str_bigint s enc).
Proof. exact C05More.C05_str_wf. Qed.
Theorem C05_run_sem : forall t, scalar_text t -> run code_ops t = run math_ops t.
Proof. exact C05More.C05_run_sem. Qed.

(* --- number literals --- *)
Theorem C05_literal :
  (forall body, number_literal (48 :: 98 :: body)%N = literal_spec 2 body) /\      (* 0b *)
  (forall body, number_literal (48 :: 111 :: body)%N = literal_spec 8 body) /\     (* 0o *)
  (forall body, number_literal (48 :: 120 :: body)%N = literal_spec 16 body) /\    (* 0x *)
  (forall body, number_literal (37 :: body)%N = literal_spec 2 body) /\            (* %  *)
  (forall body, number_literal (36 :: body)%N = literal_spec 16 body) /\           (* $  *)
  (forall t, has_prefix t = false -> number_literal t = literal_spec 10 t) /\
  (forall radix body v sz, literal_spec radix body = Some (v, sz) ->
     exists ds, digit_list body = Some ds /\ ds <> [] /\ Forall (fun d => (d < radix)%N) ds /\
                v = value_of_digits radix ds /\
                sz = match bits_per_digit radix with Some k => Some (k * N.of_nat (List.length ds))%N | None => None end) /\
  (forall radix body, literal_spec radix body = None <->
     match digit_list body with Some ds => ds = [] \/ Exists (fun d => (radix <= d)%N) ds | None => True end) /\
  (forall t v s, number_literal t = Some (v, Some s) -> Z.of_N v < 2 ^ Z.of_N s).
Proof. exact C05More.C05_literal. Qed.

(* --- ill-typed or undefined operations are errors, for arbitrary subexpressions (any primitives, any provider) --- *)
Theorem C05_errors : forall (O : ops) (pvar : N -> list text -> eres value),
  (forall o a b ctx va c1 vb c2 x y, o = Div \/ o = Mod ->
     eval O pvar a ctx = EOk (va, c1) -> eval O pvar b c1 = EOk (vb, c2) ->
     get_bigint va = Some x -> get_bigint vb = Some y -> bv y = 0 ->
     eval O pvar (EBin o a b) ctx = EErr) /\
  (forall a b ctx va c1 vb c2 x y,
     eval O pvar a ctx = EOk (va, c1) -> eval O pvar b c1 = EOk (vb, c2) ->
     get_bigint va = Some x -> get_bigint vb = Some y -> bsz x = None \/ bsz y = None ->
     eval O pvar (EBin Concat a b) ctx = EErr) /\
  (forall l r a ctx v c0 x lb c1 rb c2,
     eval O pvar a ctx = EOk (v, c0) -> get_bigint v = Some x ->
     eval O pvar l c0 = EOk (VInt lb, c1) -> eval O pvar r c1 = EOk (VInt rb, c2) ->
     bv lb + 1 < bv rb ->
     eval O pvar (ESlice l r a) ctx = EErr) /\
  (forall c t f ctx v c1,
     eval O pvar c ctx = EOk (v, c1) -> should_propagate v = false -> (forall b, v <> VBool b) ->
     eval O pvar (ETern c t f) ctx = EErr) /\
  (forall o a b ctx v c1, o = LazyAnd \/ o = LazyOr ->
     eval O pvar a ctx = EOk (v, c1) -> should_propagate v = false -> (forall x, v <> VBool x) ->
     eval O pvar (EBin o a b) ctx = EErr) /\
  (forall o a b ctx x c1 v c2, (o = LazyAnd /\ x = true) \/ (o = LazyOr /\ x = false) ->
     eval O pvar a ctx = EOk (VBool x, c1) ->
     eval O pvar b c1 = EOk (v, c2) -> should_propagate v = false -> (forall y, v <> VBool y) ->
     eval O pvar (EBin o a b) ctx = EErr) /\
  (forall o a b ctx x c1 y c2, strict_op o = true ->
     eval O pvar a ctx = EOk (VBool x, c1) -> eval O pvar b c1 = EOk (VBool y, c2) ->
     match o with And | Or | Xor | Eq | Ne => False | _ => True end ->
     eval O pvar (EBin o a b) ctx = EErr).
Proof. exact C05More.C05_errors. Qed.

(* --- strict binary operators on integer operands are int_binop; its arithmetic --- *)
Theorem C05_eval_bin_int : forall (O : ops) pvar o a b ctx va c1 vb c2 x y, strict_op o = true ->
  eval O pvar a ctx = EOk (va, c1) -> eval O pvar b c1 = EOk (vb, c2) ->
  get_bigint va = Some x -> get_bigint vb = Some y ->
  eval O pvar (EBin o a b) ctx = match int_binop O o x y with EOk v => EOk (v, c2) | EErr => EErr end.
Proof. exact C05More.eval_bin_int. Qed.
Theorem C05_div_trunc : forall O a b, bv b <> 0 ->
  let q := Z.quot (bv a) (bv b) in
  int_binop O Div a b = EOk (VInt (un q)) /\
  q = Z.sgn (bv a) * Z.sgn (bv b) * (Z.abs (bv a) / Z.abs (bv b)) /\
  Z.abs (q * bv b) <= Z.abs (bv a) < Z.abs (q * bv b) + Z.abs (bv b).
Proof. exact C05More.C05_div_trunc. Qed.
Theorem C05_mod_sign : forall O a b, bv b <> 0 ->
  let r := Z.rem (bv a) (bv b) in
  int_binop O Mod a b = EOk (VInt (un r)) /\
  bv a = bv b * Z.quot (bv a) (bv b) + r /\
  Z.abs r < Z.abs (bv b) /\
  (r = 0 \/ Z.sgn r = Z.sgn (bv a)).
Proof. exact C05More.C05_mod_sign. Qed.
Theorem C05_shifts : forall O a b,
  (forall v, int_binop O Shl a b = EOk v -> 0 <= bv b /\ v = VInt (un (bv a * 2 ^ bv b))) /\
  (forall v, int_binop O Shr a b = EOk v -> 0 <= bv b /\ v = VInt (un (bv a / 2 ^ bv b)) /\
             forall i, 0 <= i -> Z.testbit (bv a / 2 ^ bv b) i = Z.testbit (bv a) (i + bv b)) /\
  (bv b < 0 -> int_binop O Shl a b = EErr /\ int_binop O Shr a b = EErr) /\
  (0 <= bv b <= u32_max -> bits (bv a) + bv b < BIGINT_MAX_BITS -> int_binop O Shl a b = EOk (VInt (un (bv a * 2 ^ bv b)))) /\
  (0 <= bv b <= usize_max -> int_binop O Shr a b = EOk (VInt (un (bv a / 2 ^ bv b)))).
Proof. exact C05More.C05_shifts. Qed.
Theorem C05_bitwise : forall O a b,
  (exists r, int_binop O And a b = EOk (VInt (un r)) /\ forall i, Z.testbit r i = Z.testbit (bv a) i && Z.testbit (bv b) i) /\
  (exists r, int_binop O Or a b = EOk (VInt (un r)) /\ forall i, Z.testbit r i = Z.testbit (bv a) i || Z.testbit (bv b) i) /\
  (exists r, int_binop O Xor a b = EOk (VInt (un r)) /\ forall i, Z.testbit r i = xorb (Z.testbit (bv a) i) (Z.testbit (bv b) i)) /\
  (forall i, 0 <= i -> Z.testbit (not_bytes (bv a)) i = negb (Z.testbit (bv a) i)).
Proof. exact C05More.C05_bitwise. Qed.
Theorem C05_arith : forall O a b,
  (forall v, int_binop O Add a b = EOk v -> v = VInt (un (bv a + bv b))) /\
  (forall v, int_binop O Sub a b = EOk v -> v = VInt (un (bv a - bv b))) /\
  (forall v, int_binop O Mul a b = EOk v -> v = VInt (un (bv a * bv b))) /\
  int_binop O Eq a b = EOk (VBool (bv a =? bv b)) /\ int_binop O Ne a b = EOk (VBool (negb (bv a =? bv b))) /\
  int_binop O Lt a b = EOk (VBool (bv a <? bv b)) /\ int_binop O Le a b = EOk (VBool (bv a <=? bv b)) /\
  int_binop O Gt a b = EOk (VBool (bv b <? bv a)) /\ int_binop O Ge a b = EOk (VBool (bv b <=? bv a)).
Proof. exact C05More.C05_arith. Qed.
Theorem C05_slice_concat_value : forall x left right, wf x ->
  slice x left right = mk ((bv x / 2 ^ Z.of_N right) mod 2 ^ Z.of_N (left - right)) (Some (left - right)%N) /\
  forall y sx sy, concat x sx y sy = mk ((bv x mod 2 ^ Z.of_N sx) * 2 ^ Z.of_N sy + bv y mod 2 ^ Z.of_N sy) (Some (sx + sy)%N).
Proof. exact C05More.C05_slice_concat_value. Qed.

(* --- strings --- *)
Theorem C05_strings :
  (forall s, scalar_text s -> string_contents (34 :: escape s ++ [34])%N%list = Some s) /\
  (forall O s e, eval_builtin O s_strlen [VStr s e] = EOk (VInt (un (Z.of_N (bytes_len s))))) /\
  (forall s, Z.of_nat (List.length (utf8_bytes s)) = Z.of_N (bytes_len s)) /\
  (forall enc s, (enc <= 4)%N -> scalar_text s -> decode enc (encode enc s) = Some s) /\
  (forall enc s, (4 < enc)%N -> encode enc s = map (fun c => if (256 <=? c)%N then 0 else Z.of_N c) s) /\
  (forall enc s, scalar_text s -> Forall (fun b => 0 <= b < 256) (encode enc s)).
Proof. exact C05More.C05_strings. Qed.
Theorem C05_string_value : forall s enc,
  bv (str_bigint s enc) = from_bytes_be (encode enc s) /\
  bsz (str_bigint s enc) = Some (N.of_nat (8 * List.length (encode enc s))).
Proof. exact C05More.C05_string_value. Qed.

(* non-vacuity of the families above *)
Example C05_more_nonvacuous :
  (let t := [108;101;40;48;120;49;50;51;52;41;32;64;32;40;33;53;41;91;55;58;48;93]%N in   (* le(0x1234) @ (!5)[7:0] *)
   scalar_text t /\
   match parse_text t with POk e _ => wf_expr e | _ => False end /\
   match run code_ops t with POk (_, r) _ => r = EOk (VInt (mk 0x3412fa (Some 24%N))) | _ => False end /\
   match run math_ops t with POk (_, r) _ => r = EOk (VInt (mk 0x3412fa (Some 24%N))) | _ => False end) /\
  eval code_ops dummy_var (EBin Div (ENum 1 None) (ENum 0 None)) [] = EErr /\
  eval code_ops dummy_var (EBin Concat (ENum 1 None) (ENum 0 (Some 1%N))) [] = EErr /\
  eval code_ops dummy_var (ESlice (ENum 1 None) (ENum 3 None) (ENum 5 None)) [] = EErr /\
  eval code_ops dummy_var (ETern (ENum 1 None) (ENum 3 None) (ENum 5 None)) [] = EErr /\
  eval code_ops dummy_var (EBin LazyAnd (EBool true) (ENum 5 None)) [] = EErr /\
  int_binop code_ops Div (un (-7)) (un 2) = EOk (VInt (un (-3))) /\ int_binop code_ops Mod (un (-7)) (un 2) = EOk (VInt (un (-1))) /\
  int_binop code_ops Shr (un (-7)) (un 1) = EOk (VInt (un (-4))) /\ int_binop code_ops Shl (un (-7)) (un 2) = EOk (VInt (un (-28))) /\
  int_binop code_ops And (un (-2)) (un 7) = EOk (VInt (un 6)) /\
  number_literal [48;120;102;95;70]%N = Some (255%N, Some 8%N) /\ number_literal [48;98;50]%N = None /\
  string_contents (34 :: escape [34;233;0x1F600] ++ [34])%N%list = Some [34;233;0x1F600]%N /\
  decode 1 (encode 1 [0x1F600]%N) = Some [0x1F600]%N /\ encode 5 [65;233;0x20AC]%N = [65;233;0].
Proof. exact C05More.C05More_nonvacuous. Qed.
(* ==== END ==== *)
Print Assumptions C05_eval_sem. Print Assumptions C05_strings. Print Assumptions C05_errors. Print Assumptions C05_literal.

(* non-vacuity *)
Example C05_nonvacuous :
  slice_bits 0xabcd 12 4 = 0xbc /\ concat_bits 0xa 4 0x5 4 = 0xa5 /\ not_bytes 5 = -6 /\ not_bytes (-200) = 199 /\
  bv (convert_le (mk 0x1234 (Some 16%N)) 16) = 0x3412.
Proof. vm_compute. repeat split; reflexivity. Qed.

(* --- the printer/parser round trip: operators bind with the documented precedence and associativity --- *)
From CA Require Import Spec.Printer Proofs.C05Round.
Theorem C05_parse_print_full : forall e, wf_print e -> (depth_full e <= PARSE_DEPTH_MAX)%nat ->
  exists w, parse_text (print_full e) = POk e w /\ cur w = bytes_len (print_full e).
Proof. exact C05Round.C05_parse_print_full. Qed.
Theorem C05_parse_print_min : forall e, wf_print e -> (depth_min e <= PARSE_DEPTH_MAX)%nat ->
  exists w, parse_text (print_min e) = POk e w /\ cur w = bytes_len (print_min e).
Proof. exact C05Round.C05_parse_print_min. Qed.
Theorem C05_parse_print_min_height : forall e, wf_print e -> (2 * height e < PARSE_DEPTH_MAX)%nat ->
  exists w, parse_text (print_min e) = POk e w /\ cur w = bytes_len (print_min e).
Proof. exact C05Round.C05_parse_print_min_height. Qed.
Theorem C05_printer_table : forall o, exists fn comb ops nxt,
  nth_error documented_levels (binop_prec o - 1) = Some (fn, comb, ops, nxt)
  /\ In (tkind_name (binop_tok o), binop_name o) ops /\ In (binop_text o, binop_tok o) specials.
Proof. exact C05Round.C05_printer_table. Qed.

(* --- the round trip covers the whole language: every parsed tree is printable, so parse . print . parse = parse --- *)
(* `wf_print e` is `printable e = true` (Spec/Printer.v, executable): strings, dotted names with leading dots, calls,
   blocks, slices, size suffixes, assignments, unary chains, sized literals of any size, all ternary corner cases *)
Theorem C05_parse_printable : forall s e w, parse_text s = POk e w -> printable e = true.
Proof. exact C05Round.C05_parse_printable. Qed.
Theorem C05_reparse_stable : forall s e w, parse_text s = POk e w -> (depth_min e <= PARSE_DEPTH_MAX)%nat ->
  exists w', parse_text (print_min e) = POk e w' /\ cur w' = bytes_len (print_min e).
Proof. exact C05Round.C05_reparse_stable. Qed.
Theorem C05_reparse_stable_full : forall s e w, parse_text s = POk e w -> (depth_full e <= PARSE_DEPTH_MAX)%nat ->
  exists w', parse_text (print_full e) = POk e w' /\ cur w' = bytes_len (print_full e).
Proof. exact C05Round.C05_reparse_stable_full. Qed.
Theorem C05_reparse_stable_height : forall s e w, parse_text s = POk e w -> (2 * height e < PARSE_DEPTH_MAX)%nat ->
  exists w', parse_text (print_min e) = POk e w' /\ cur w' = bytes_len (print_min e).
Proof. exact C05Round.C05_reparse_stable_height. Qed.
(* the depth hypothesis (about the printed text) is needed: a source at the limit whose reprint is one level deeper *)
Theorem C05_reparse_needs_depth :
  exists e w, parse_text C05Round.deep_src = POk e w /\ parse_text (print_min e) = PErr /\ depth_min e = 51%nat.
Proof. exact C05Round.C05_reparse_needs_depth. Qed.
(* string literals written by the specification's literal printer are printable tokens denoting the string *)
Theorem C05_string_literal : forall s, scalar_text s -> forallb PrintStrP.noq s = true ->
  printable (EStr (PrintStrP.str_lit s)) = true /\ string_contents (PrintStrP.str_lit s) = Some s.
Proof. exact C05Round.C05_string_literal. Qed.
Print Assumptions C05_parse_print_min. Print Assumptions C05_parse_print_full. Print Assumptions C05_reparse_stable.
Print Assumptions C05_parse_printable.
