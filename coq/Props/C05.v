(* C05 — Expressions compute exact unbounded-integer mathematics with tracked sizes.
   Only statements; each closed by a lemma of Proofs/. *)
From Coq Require Import ZArith NArith List Bool String.
From CA Require Import Gen.Generated Model.Lexer Model.Parser Model.BigIntOps Model.Evaluator Spec.Sem Spec.SemEval Spec.Grammar
  Proofs.BitOpsP.
Import ListNotations.
Open Scope Z_scope.

(* --- the big-integer primitives: the code's algorithms equal plain mathematics, for all operands --- *)
(* slice = bits right..left-1 of the infinite two's-complement representation *)
Theorem C05_slice : forall x left right,
  slice_bits x left right = (x / 2 ^ Z.of_N right) mod 2 ^ Z.of_N (left - right).
Proof. exact slice_bits_spec. Qed.

(* concatenation joins exactly the named bits *)
Theorem C05_concat : forall a asz b bsz,
  concat_bits a asz b bsz = (a mod 2 ^ Z.of_N asz) * 2 ^ Z.of_N bsz + b mod 2 ^ Z.of_N bsz.
Proof. exact concat_bits_spec. Qed.

(* `!` (byte-wise complement of the signed byte string) is the two's-complement -x-1 *)
Theorem C05_not : forall v, not_bytes v = - v - 1.
Proof. exact not_bytes_spec. Qed.

(* `le` reverses the size/8 bytes of the value *)
Theorem C05_le : forall x size, wf x -> bsz x = Some size -> (size mod 8 = 0)%N ->
  convert_le x size = mk (reverse_bytes (bv (sem_slice x size 0)) (N.to_nat (size / 8))) (Some size).
Proof. exact convert_le_spec. Qed.

(* the evaluator's slice / concat primitives with their size bookkeeping *)
Theorem C05_slice_sized : forall x left right, slice x left right = sem_slice x left right.
Proof. exact slice_spec. Qed.
Theorem C05_concat_sized : forall a asz b bsz, concat a asz b bsz = sem_concat a asz b bsz.
Proof. exact concat_spec. Qed.

(* --- table obligations, re-checked against the regenerated tables of /repo on every run --- *)
(* operators bind with the documented precedence and associativity: the chain of parse levels read out of
   src/expr/parser.rs is the documented one ... *)
Theorem C05_precedence_table : Generated.levels = documented_levels.
Proof. vm_compute. reflexivity. Qed.
(* ... and the parser model climbs exactly the binary levels of that chain *)
Theorem C05_model_levels :
  map (fun l => snd (fst l)) (filter (fun l => String.eqb (snd (fst (fst l))) "parse_binary_ops") Generated.levels)
  = level_ops_as_strings.
Proof. vm_compute. reflexivity. Qed.
(* the token table of src/syntax/token.rs is the one the lexer model uses, in the same order *)
Theorem C05_token_table : Generated.tokens = (keywords_as_strings ++ specials_as_strings)%list.
Proof. vm_compute. reflexivity. Qed.
Theorem C05_limits : Generated.PARSE_RECURSION_DEPTH_MAX = Z.of_nat PARSE_DEPTH_MAX /\ Generated.BIGINT_MAX_BITS = BIGINT_MAX_BITS.
Proof. vm_compute. split; reflexivity. Qed.

(* non-vacuity *)
Example C05_nonvacuous :
  slice_bits 0xabcd 12 4 = 0xbc /\ concat_bits 0xa 4 0x5 4 = 0xa5 /\ not_bytes 5 = -6 /\ not_bytes (-200) = 199 /\
  bv (convert_le (mk 0x1234 (Some 16%N)) 16) = 0x3412.
Proof. vm_compute. repeat split; reflexivity. Qed.
