(* C03 — failure is always loud and success always clean; the assembler never crashes.
   Only statements; each closed by a lemma of Proofs/TopShapeP.v.

   WHAT IS PROVED HERE is the control-flow SHAPE (Model/TopShape.v): where errors are recorded, where Err(()) leaves
   through a `?`, where `report.stop_at_errors()?` stands, where `output` is stored, where the driver formats / prints /
   writes.  The phases themselves (parser, resolver, ...) are ABSTRACT: the theorems hold for every instantiation `sem`
   that satisfies `obligations` (Spec/Loud.v): L1..L13 "a phase that returns Err leaves an error in the report",
   Q1..Q3 "the three phases after the last stop_at_errors push nothing when they return Ok", "defs::init cannot fail",
   T1 "a phase that returns Ok has pushed errors only as top-level Errors" (stop_at_errors reads top-level kinds only).
   `has_error r` = some top-level message of r carries an error at any depth; the initial report must be `well_topped`.
   TopShape.phase_obligations lists them with the file/function each was checked against by reading.  They are NOT proved
   of the Rust code; the streams of tools/props/c03.py look for exactly their failures on every run.
   Crashes (panic inside a phase, stack overflow, OOM, non-termination) cannot be exhibited by this model: observed only.
   c03_* are the tables regenerated from the source on every run (tools/translate_c03.py). *)
From Coq Require Import NArith List Bool.
From CA Require Import Model.CliTables Model.Driver Spec.Cli Proofs.DriverP Model.TopShape Model.TopTables Spec.Loud Proofs.TopShapeP.
Import ListNotations.

(* ---- asm::assemble, for every shape that passes the computable check shape_ok and every phases satisfying the obligations *)
(* success is clean: output delivered => no error in the report, error flag not set, and the fields the driver unwraps are Some *)
Theorem C03_ok_clean : forall St sem loop_done, obligations St sem -> forall sh, shape_ok sh = true ->
  forall fuel s0 r0 a r, well_topped r0 = true -> assemble St sem loop_done sh fuel s0 r0 = AReturn a r -> r_output a = true ->
  has_error r = false /\ r_error a = false /\ r_decls a = true /\ r_defs a = true /\ r_iter a = true.
Proof. exact ok_clean. Qed.

(* failure is loud: no output => at least one error in the report (whatever the report held at the start) and the error flag set;
   the code's own assert!(report.has_errors()) is hereby a consequence, not a run-time hope *)
Theorem C03_err_loud : forall St sem loop_done, obligations St sem -> forall sh, shape_ok sh = true ->
  forall fuel s0 r0 a r, well_topped r0 = true -> assemble St sem loop_done sh fuel s0 r0 = AReturn a r -> r_output a = false ->
  has_error r = true /\ r_error a = true.
Proof. exact err_loud. Qed.

(* neither the assert! nor an unwrap of a field that is still None can fire *)
Theorem C03_assemble_glue_never_panics : forall St sem loop_done, obligations St sem -> forall sh, shape_ok sh = true ->
  forall fuel s0 r0, well_topped r0 = true ->
  assemble St sem loop_done sh fuel s0 r0 <> APanicUnwrap /\ assemble St sem loop_done sh fuel s0 r0 <> APanicAssert.
Proof. exact no_panic. Qed.

(* exactly one of the two ends *)
Theorem C03_outcome_exclusive : forall a r, ~ (clean_success a r /\ loud_failure a r).
Proof. exact outcome_exclusive. Qed.

(* ---- the shape regenerated from the CURRENT source is the modelled one, and it passes the check -------------------
   breaks when the output assignment moves before an error check, a stop_at_errors or a `?` is dropped, a new call appears,
   the driver writes before asking for the output, main stops exiting non-zero, or Report gains a way to drop messages *)
Theorem C03_shape_matches_source :
  decode_shape c03_assemble_pre c03_assemble_loop c03_assemble_post c03_err_arm = Some modelled_shape /\
  decode_driver c03_driver_steps = Some modelled_driver_shape /\
  c03_cli_returns_driver_result = true /\
  c03_main_exit_on_err <> 0%N /\
  report_ops_are_pushes c03_report_message_ops = true /\
  c03_print_line_reports = true /\ c03_driver_println_free = true /\ c03_print_all_ignores_write_errors = true.
Proof. exact tables_match_source. Qed.

Theorem C03_source_shape_ok : forall sh,
  decode_shape c03_assemble_pre c03_assemble_loop c03_assemble_post c03_err_arm = Some sh -> shape_ok sh = true.
Proof. exact source_shape_ok. Qed.

(* out_ok: whether the standard output can be written (permanent fault when false): every print goes through print_line(..)? .
   ---- the driver: drive = Ok => exit 0, no error, every group acted exactly once in order; drive = Err => exit status non-zero,
   an error in the report, and nothing was printed or written unless the error is an output that could not be written;
   anything is printed or written only after assemble returned an output with an error-free report *)
Theorem C03_driver : forall St (sem : pkind -> St -> report -> option St * report) loop_done (init : command -> St) fuel gs wr out_ok c,
  obligations St sem -> parse_command gs = COk c ->
  driver_statement gs c wr out_ok
    (drive modelled_driver_shape gs wr out_ok (fun c r => assemble St sem loop_done modelled_shape fuel (init c) r)).
Proof. exact driver_spec. Qed.

Theorem C03_driver_bad_command : forall gs wr out_ok asm e, parse_command gs = CErr e ->
  let out := drive modelled_driver_shape gs wr out_ok asm in
  d_result out = DrErr /\ d_acts out = [] /\ d_failed_write out = None /\ has_error (d_report out) = true /\ d_asm out = None.
Proof. exact driver_bad_command. Qed.

(* regression guard for F64: with println! in place of print_line(..)? an unwritable standard output is a PANIC in every printing
   path (--help, the progress lines, -q -p); the repaired shape ends in Err with an error in the report and nothing done *)
Theorem C03_println_driver_refuted :
  d_result (assemble_with_command println_driver_shape (ex_command false false true) (fun _ => true) false ex_asm_ok []) = DrPanic /\
  d_result (assemble_with_command println_driver_shape (ex_command false false false) (fun _ => true) false ex_asm_ok []) = DrPanic /\
  d_result (assemble_with_command println_driver_shape (ex_command true true false) (fun _ => true) false ex_asm_ok []) = DrPanic /\
  (forall q p h, let out := assemble_with_command modelled_driver_shape (ex_command q p h) (fun _ => true) false ex_asm_ok [] in
     (q = false \/ p = true \/ h = true) -> d_result out = DrErr /\ has_error (d_report out) = true /\ d_acts out = [] /\ d_failed_print out = true).
Proof. exact println_driver_refuted. Qed.

(* ---- regression guard: the PINNED shape (output stored before the unused-define check, no stop_at_errors after resolution)
   does not pass the check, and the statement of C03_ok_clean is FALSE for it: two instantiations satisfying every obligation
   deliver output together with an error (F1: a failing #assert; F31: an unused define) *)
Theorem C03_shape_refuted_pinned :
  shape_ok pinned_shape = false /\
  (exists sem, obligations unit sem /\ exists a r, assemble unit sem (fun _ => true) pinned_shape 1 tt [] = AReturn a r /\
      r_output a = true /\ r_error a = false /\ has_error r = true) /\
  (exists sem, obligations unit sem /\ exists a r, assemble unit sem (fun _ => true) pinned_shape 1 tt [] = AReturn a r /\
      r_output a = true /\ r_error a = true /\ has_error r = true).
Proof. exact (conj pinned_shape_not_ok pinned_refuted). Qed.

(* `has_error` is an error at ANY depth of a top-level message (what is printed as `error:`); Report::stop_at_errors reads the kind
   of the top-level messages only, and an error reported while the outermost open parent is a Note (eval_asm.rs, `match attempted`)
   is stored as a top-level Note.  Hence obligation T1 (top_on_continue): a phase satisfying L, Q and `infallible` but reporting such
   an error AND returning Ok gets the output delivered together with a printed error, on the repaired shape *)
Theorem C03_note_wrapped_needs_top_on_continue :
  loud_on_err unit sem_note_wrapped /\ quiet_on_ok unit sem_note_wrapped /\ infallible_ok unit sem_note_wrapped /\
  ~ top_on_continue unit sem_note_wrapped /\
  exists a r, assemble unit sem_note_wrapped (fun _ => true) modelled_shape 1 tt [] = AReturn a r /\
              r_output a = true /\ r_error a = false /\ has_error r = true /\ has_top_error r = false.
Proof. exact note_wrapped_escapes. Qed.

(* a driver that drops the `?` after write_bytes would report an error and still return Ok *)
Theorem C03_driver_without_try_refuted :
  exists c wr asm, (forall r, asm r = AReturn {| r_ast := true; r_decls := true; r_defs := true; r_iter := true; r_output := true; r_error := false |} r) /\
    let out := assemble_with_command [DHelp true; DVersion true; DNoInput; DProgress true; DAssemble; DNeedOutput; DUnwrap FDecls; DUnwrap FDefs; DUnwrap FIter;
                                      DGroups true false; DResolved true; DReturnOk] c wr true asm [] in
    d_result out = DrOk /\ has_error (d_report out) = true.
Proof. exact driver_without_try_refuted. Qed.

(* ---- non-vacuity: the repaired shape on the same two instantiations fails loudly; on a phase family that only pushes notes it
   succeeds cleanly; the driver writes once / fails on an unwritable output without having acted *)
Example C03_nonvacuous :
  assemble unit sem_assert_fails (fun _ => true) modelled_shape 1 tt [] =
    AReturn {| r_ast := true; r_decls := true; r_defs := true; r_iter := true; r_output := false; r_error := true |} [KError] /\
  assemble unit sem_unused_define (fun _ => true) modelled_shape 1 tt [] =
    AReturn {| r_ast := true; r_decls := true; r_defs := true; r_iter := true; r_output := false; r_error := true |} [KError] /\
  r_output (match assemble unit (fun _ _ _ => (Some tt, [KNote])) (fun _ => true) modelled_shape 1 tt [] with AReturn a _ => a | _ => empty_result end) = true.
Proof. repeat split; vm_compute; reflexivity. Qed.

(* ===== the line/directive parser model: fuel never changes an answer, it only allows one (no answer depends on the
   amount of fuel; sufficiency of the chosen fuel is monitored at run time: a FUEL answer is a violation) ===== *)
From CA Require Import Model.Lexer Model.Parser Model.AsmAst Model.AsmParser Proofs.AsmParserP.
Theorem C03_parse_total_partial : forall (t : text) (f f' : nat), (f <= f')%nat ->
  parse_lines f 0 false (start_walker t) nil <> PFuel ->
  parse_lines f' 0 false (start_walker t) nil = parse_lines f 0 false (start_walker t) nil.
Proof. exact AsmParserP.C03_parse_total_partial. Qed.
