(* C01 — Assembled bits equal the language definition (size-static programs).  Only statements.
   The language definition is Spec.Denote.denote (static layout, then constants, then every encoding once, then a
   strict self-consistency check). *)
From Coq Require Import NArith ZArith List Bool.
From CA Require Import Model.Lexer Model.Parser Model.BigIntOps Model.Matcher Model.Evaluator Model.Resolver Spec.Denote
  Proofs.ResolverFixP Proofs.ResolverTopP Proofs.CertifiedP Proofs.DenoteP
  Proofs.StaticSizeP Proofs.CertUniqueP Proofs.DenoteCompleteP Proofs.C01Sound
  Spec.Chain Proofs.C01CompleteP Proofs.C01CompleteSemP Proofs.C01Complete.
Import ListNotations.
Open Scope Z_scope.

(* for a program inside the size-static fragment, over a rule set that comes from text, the assembler's answer IS
   the definition's answer (bits and symbol values).  Conditions:
   - no_param_assign: no production assigns to one of its own parameters (NOT guaranteed by customasm; without it
     the statement is false, see C01_sound_unrestricted_refuted);
   - consts_acyclic: the constants can be ranked so that each reads only constants of lower rank;
   - syms_distinct / data_canonical: the node list is numbered the way the front end numbers it. *)
Theorem C01_sound : forall t indexed defs names ns budget out syms n,
  parse_defs t = Some defs -> no_param_assign defs = true ->
  syms_distinct ns -> consts_acyclic names ns -> data_canonical ns ->
  assemble indexed defs names ns budget = Some (out, syms, n) ->
  denote indexed defs names ns <> DUnsupported ->
  denote indexed defs names ns = DOk out syms.
Proof. exact C01_sound_parsed. Qed.

(* the same for arbitrary rule sets with the rule conditions stated explicitly *)
Theorem C01_sound_rules : forall indexed defs names ns budget out syms n,
  syms_distinct ns -> consts_acyclic names ns ->
  defs_ok defs = true -> pats_ok defs = true -> data_canonical ns ->
  assemble indexed defs names ns budget = Some (out, syms, n) ->
  denote indexed defs names ns <> DUnsupported ->
  denote indexed defs names ns = DOk out syms.
Proof. exact C01_sound'. Qed.

Theorem C01_rejects : forall t indexed defs names ns budget,
  parse_defs t = Some defs -> no_param_assign defs = true ->
  syms_distinct ns -> consts_acyclic names ns -> data_canonical ns ->
  denote indexed defs names ns = DReject ->
  assemble indexed defs names ns budget = None.
Proof. exact C01_rejects_parsed. Qed.

(* the former unrestricted statement is false: a production assigning to its typed parameter *)
Theorem C01_sound_unrestricted_refuted :
  exists indexed defs names ns budget out syms n,
    syms_distinct ns /\ consts_acyclic names ns /\
    assemble indexed defs names ns budget = Some (out, syms, n) /\
    denote indexed defs names ns <> DUnsupported /\
    denote indexed defs names ns <> DOk out syms.
Proof. exact C01Sound.C01_sound_unrestricted_refuted. Qed.

(* the static size guess is the size (or the value is unsized) *)
Theorem C01_static_size_sound : forall sizes e s pv ctx b ctx',
  no_assign (map fst sizes) e = true ->
  (forall n z, slk sizes n = Some z -> exists v, lookup ctx n = Some v /\ sized_as z v) ->
  static_size sizes e = Some s ->
  eval code_ops pv e ctx = EOk (VInt b, ctx') ->
  bsz b = None \/ bsz b = Some (Z.to_N s).
Proof. exact static_size_sound. Qed.

(* a size-static program with acyclic constants has at most one certified state per initial state *)
Theorem C01_certified_unique : forall names defs ns st0 st st',
  cert_ctx names defs ns st0 st -> cert_ctx names defs ns st0 st' ->
  (forall i v, nth_error (s_sym st0) i = Some v -> v = VUnknown) ->
  consts_acyclic names ns -> st = st'.
Proof. exact certified_unique. Qed.

(* and the definition computes it *)
Theorem C01_denote_complete : forall indexed defs names ns st0 st,
  init_state indexed defs (length names) ns = Some st0 ->
  cert_ctx names defs ns st0 st -> consts_acyclic names ns ->
  denote indexed defs names ns = DOk (build_output ns st) (s_sym st).
Proof. exact denote_complete. Qed.

Theorem C01_denote_certified : forall indexed defs names ns out syms,
  syms_distinct ns -> denote indexed defs names ns = DOk out syms ->
  exists st, Certified names defs ns st /\ out = build_output ns st /\ syms = s_sym st.
Proof. exact denote_certified. Qed.

(* non-vacuity: a program with a forward reference and an address-dependent constant *)
Example C01_nonvacuous :
  no_param_assign ex_defs = true /\ data_canonical ex_ns /\
  denote true ex_defs ex_names ex_ns = DOk (17614197753865, 48) [VInt (un 0); VInt (un 8); VInt (un 9)].
Proof. exact C01_sound_parsed_nonvacuous. Qed.

(* ---------- completeness ---------- *)
(* every size-static program the definition accepts is assembled, to the same bits and symbol values, as soon as the
   budget reaches Spec.Chain.budget_total = 3 + chain (chain = extra passes the constants need, computed by an abstract
   run of the passes on which symbols are known; length ns + 5 where that syntactic analysis gives up).  No
   condition on the constants is needed here; the pass count reported is within the bound. *)
Theorem C01_complete : forall t indexed defs names ns out syms b,
  parse_defs t = Some defs -> no_param_assign defs = true ->
  syms_distinct ns -> data_canonical ns ->
  denote indexed defs names ns = DOk out syms ->
  (budget_total names ns <= b)%nat ->
  exists n, assemble indexed defs names ns b = Some (out, syms, n) /\ (n <= budget_total names ns)%nat.
Proof. exact C01Complete.C01_complete_text. Qed.

Theorem C01_complete_rules : forall indexed defs names ns out syms b,
  syms_distinct ns -> defs_ok defs = true -> pats_ok defs = true -> data_canonical ns ->
  denote indexed defs names ns = DOk out syms ->
  (budget_total names ns <= b)%nat ->
  exists n, assemble indexed defs names ns b = Some (out, syms, n) /\ (n <= budget_total names ns)%nat.
Proof. exact C01Complete.C01_complete. Qed.

(* the bound is needed and tight: a program of chain 0 that fails at budget 2 = bound - 1 *)
Theorem C01_complete_needs_budget :
  exists indexed defs names ns out syms B, denote indexed defs names ns = DOk out syms /\
    budget_bound names ns = Some B /\ assemble indexed defs names ns (B - 1) = None.
Proof. exact C01Complete.C01_complete_needs_budget. Qed.
