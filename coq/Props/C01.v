(* C01 — Assembled bits equal the language definition (size-static programs).  Only statements.
   The language definition is Spec.Denote.denote (static layout, then constants, then every encoding once, then a
   strict self-consistency check). *)
From Coq Require Import NArith ZArith List Bool.
From CA Require Import Model.Lexer Model.Parser Model.BigIntOps Model.Matcher Model.Evaluator Model.Resolver Spec.Denote
  Proofs.ResolverFixP Proofs.ResolverTopP Proofs.DenoteP.
Import ListNotations.

(* the full statement: for a program inside the size-static fragment, the assembler's answer IS the definition's answer *)
Definition C01_sound_statement : Prop := forall indexed defs names ns budget out syms n,
  syms_distinct ns ->
  assemble indexed defs names ns budget = Some (out, syms, n) ->
  denote indexed defs names ns <> DUnsupported ->
  denote indexed defs names ns = DOk out syms.

(* proved part: the definition's answer is a certified state of the program, and so is the assembler's answer
   (same self-consistency predicate, same output function).  Missing for the full statement: uniqueness of the
   certified state of a size-static program (static sizes fix the layout, acyclic constants fix the valuation);
   that equality is decided on every run by the correspondence stream impl = model = denote. *)
Theorem C01_sound_partial : forall indexed defs names ns budget out syms n out' syms',
  syms_distinct ns ->
  assemble indexed defs names ns budget = Some (out, syms, n) ->
  denote indexed defs names ns = DOk out' syms' ->
  (exists st, Certified names defs ns st /\ out = build_output ns st /\ syms = s_sym st) /\
  (exists st', Certified names defs ns st' /\ out' = build_output ns st' /\ syms' = s_sym st').
Proof. exact sound_partial. Qed.

Theorem C01_denote_certified : forall indexed defs names ns out syms,
  syms_distinct ns -> denote indexed defs names ns = DOk out syms ->
  exists st, Certified names defs ns st /\ out = build_output ns st /\ syms = s_sym st.
Proof. exact denote_certified. Qed.
