(* C09 — The iteration budget decides whether a program assembles, never to what.  Only statements. *)
From Coq Require Import NArith ZArith List Bool.
From CA Require Import Model.Lexer Model.Parser Model.BigIntOps Model.Matcher Model.Evaluator Model.Resolver
  Proofs.ResolverFixP Proofs.ResolverMonoP Proofs.ResolverTopP.
Import ListNotations.

(* if a program assembles with budget b it assembles to the identical output and symbol values with every larger budget *)
Theorem C09_monotone : forall indexed defs names ns b b' out syms n,
  syms_distinct ns -> (1 <= b)%nat -> (b <= b')%nat ->
  assemble indexed defs names ns b = Some (out, syms, n) ->
  exists n', assemble indexed defs names ns b' = Some (out, syms, n').
Proof. exact assemble_budget_monotone. Qed.

(* the reported number of passes never exceeds the budget *)
Theorem C09_passes : forall indexed defs names ns budget out syms n,
  syms_distinct ns -> assemble indexed defs names ns budget = Some (out, syms, n) -> (n <= budget)%nat.
Proof.
  intros indexed defs names ns budget out syms n Hd H.
  destruct (assemble_certificate _ _ _ _ _ _ _ _ Hd H) as [st [_ [_ [_ Hn]]]]. exact Hn.
Qed.

(* mode agreement: a strict pass that is resolved is reproduced verbatim by the guessing pass *)
Theorem C09_mode_agree : forall names defs ns st pos st',
  pass names defs true ns st pos Resolved = EOk (st', Resolved) ->
  pass names defs false ns st pos Resolved = EOk (st', Resolved).
Proof. exact pass_agree. Qed.
