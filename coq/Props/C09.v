(* C09 — The iteration budget decides whether a program assembles, never to what.  Only statements. *)
From Coq Require Import NArith ZArith List Bool.
From CA Require Import Model.Lexer Model.Parser Model.BigIntOps Model.Matcher Model.Evaluator Model.Resolver
  Proofs.ResolverFixP Proofs.ResolverMonoP Proofs.ResolverTopP.
Import ListNotations.

(* if a program assembles with budget b it assembles to the identical output and symbol values with every larger budget *)
Theorem C09_monotone : forall indexed defs names ns b b' out syms n,
  syms_distinct ns -> (1 <= b)%nat -> (b <= b')%nat ->
  assemble indexed defs names ns b = Some (out, syms, n) ->
  exists n', assemble indexed defs names ns b' = Some (out, syms, n').
Proof. exact assemble_budget_monotone. Qed.

(* the reported number of passes never exceeds the budget *)
Theorem C09_passes : forall indexed defs names ns budget out syms n,
  syms_distinct ns -> assemble indexed defs names ns budget = Some (out, syms, n) -> (n <= budget)%nat.
Proof.
  intros indexed defs names ns budget out syms n Hd H.
  destruct (assemble_certificate _ _ _ _ _ _ _ _ Hd H) as [st [_ [_ [_ Hn]]]]. exact Hn.
Qed.

(* mode agreement: a strict pass that is resolved is reproduced verbatim by the guessing pass *)
Theorem C09_mode_agree : forall names defs ns st pos st',
  pass names defs true ns st pos Resolved = EOk (st', Resolved) ->
  pass names defs false ns st pos Resolved = EOk (st', Resolved).
Proof. exact pass_agree. Qed.

(* ===== the same theorems for the larger fragment of Model/Resolver2.v: #bankdef / #bank with per-bank cursors and
   checked position arithmetic, nested symbols declared and referenced by dot level and path ===== *)
From Coq Require Import NArith ZArith List Bool.
From CA Require Import Model.Lexer Model.Parser Model.BigIntOps Model.Matcher Model.Evaluator Model.Resolver
  Model.Resolver2 Spec.Certificate2 Proofs.Resolver2FixP Proofs.Resolver2MonoP Proofs.Resolver2TopP Proofs.Resolver2CertP
  Proofs.Certificate2P.
From CA Require Model.Overlap Model.Cursor Model.Output Model.Symbols Spec.OverlapSpec Spec.LayoutInv Proofs.OutputP.
Import ListNotations.
Open Scope Z_scope.

Theorem C09b_monotone : forall indexed defs ps b b' r,
  (1 <= b)%nat -> (b <= b')%nat ->
  assemble2 indexed defs ps b = Ok r ->
  exists n', assemble2 indexed defs ps b' = Ok (mkResult (r_bits r) (r_items r) (r_banks r) (r_syms r) n' (r_nodes r)).
Proof. exact assemble2_budget_monotone. Qed.

Theorem C09b_passes : forall indexed defs ps budget r,
  assemble2 indexed defs ps budget = Ok r -> (r_iters r <= budget)%nat.
Proof. exact assemble2_passes. Qed.

(* mode agreement, exact form: from a state on which the strict pass is resolved the guessing pass leaves the same state;
   it reports Resolved -- unless the program has an #assert directive, which reports Unresolved before the last pass by
   design (its condition is not even evaluated) *)
Theorem C09b_mode_agree : forall m banks defs mb ns st st',
  run_pass m banks defs mb true ns st = Ok (st', Resolved) ->
  run_pass m banks defs mb false ns st = Ok (st', if has_assert ns then Unresolved else Resolved).
Proof. exact run_pass_agree. Qed.

Theorem C09b_mode_agree_no_assert : forall m banks defs mb ns st st', has_assert ns = false ->
  run_pass m banks defs mb true ns st = Ok (st', Resolved) ->
  run_pass m banks defs mb false ns st = Ok (st', Resolved).
Proof. exact run_pass_agree_no_assert. Qed.

(* with an #assert directive the loop cannot stop early: a successful assembly reports exactly `budget` passes
   (monotonicity, C09b_monotone, and n <= budget, C09b_passes, hold with asserts unchanged) *)
Theorem C09b_assert_runs_to_budget : forall indexed defs ps budget r m ns banks st1,
  setup indexed defs ps = Some (m, ns, banks, st1) -> has_assert ns = true -> (1 <= budget)%nat ->
  assemble2 indexed defs ps budget = Ok r -> r_iters r = budget.
Proof. exact assemble2_assert_count. Qed.

Example C09b_assert_nonvacuous :
  (exists r, assemble2 true [] (ex_assert_addr 1) 3 = Ok r /\ r_iters r = 3%nat) /\
  assemble2 true [] (ex_assert_addr 2) 3 = Err /\ assemble2 true [] (ex_assert_addr 1) 1 = Err.
Proof. exact assert_address_nonvacuous. Qed.

Theorem C09b_address_mode_agree : forall mb b pos a,
  Cursor.eval_address mb b pos false = Ok a -> Cursor.eval_address mb b pos true = Ok a.
Proof. exact eval_address_mono. Qed.

Theorem C09b_loop_monotone : forall m banks defs mb ns b b' st st' n,
  labels_ok2 ns st -> syms_distinct2 ns -> (1 <= b)%nat -> (b <= b')%nat ->
  loop2 m banks defs mb ns b 0 b st = Ok (st', n) ->
  exists n', loop2 m banks defs mb ns b' 0 b' st = Ok (st', n').
Proof. exact budget_monotone2. Qed.

Example C09b_nonvacuous :
  assemble2 true [] ex_prog2 1 = Err /\ exists r, assemble2 true [] ex_prog2 2 = Ok r /\ r_iters r = 2%nat.
Proof. exact assemble2_budget_nonvacuous. Qed.

(* ---------------- for Props/C06.v ---------------- *)

(* ===== asm blocks and the budget (Model/AsmBlock.v, src/asm/resolver/eval_asm.rs as of /repo b4e61a4).  A VALUE a block
   yields is budget independent and nothing but Unknown leaves an unsettled block; WHETHER a guessing pass gets a value
   or Unknown does depend on the budget (refuted below), which is the channel of known finding F78: the whole-program
   extension of C09_monotone to programs with asm blocks is false of the code and is therefore not stated. ===== *)
From CA Require Import Model.AsmBlock Proofs.AsmBlockP Proofs.AsmBlockBudgetP.
Theorem C09_asm_block_no_leak : forall mr ao sub outer_last ns pos max ls ls1 x ls2,
  rounds mr ao sub outer_last ns pos max 0 max ls = BOk ls1 ->
  resolve_once mr ao sub false outer_last ns pos ls1 = BOk (x, true, ls2) ->
  resolve_iteratively mr ao sub outer_last ns pos max ls = if outer_last then BErr else BOk VUnknown.
Proof. exact no_leak. Qed.
Theorem C09_asm_block_budget_monotone : forall mr ao sub outer_last,
  (forall line pos ls enc, mr line pos ls false = EOk (Some enc) -> mr line pos ls true = EOk (Some enc)) ->
  forall depth raw pos n n' V, (n <= n')%nat ->
  eval_asm mr ao sub outer_last depth raw pos n = BOk (VInt V) ->
  eval_asm mr ao sub outer_last depth raw pos n' = BOk (VInt V).
Proof. exact eval_asm_budget_monotone. Qed.
Theorem C09_asm_block_budget_monotone_resolver : forall indexed defs names st sub outer_last depth raw pos n n' V,
  (n <= n')%nat ->
  eval_asm (resolver_line indexed defs names st) address_at sub outer_last depth raw pos n = BOk (VInt V) ->
  eval_asm (resolver_line indexed defs names st) address_at sub outer_last depth raw pos n' = BOk (VInt V).
Proof. exact resolver_block_budget_monotone. Qed.
Theorem C09_asm_block_guess_outcome_budget_independent_refuted :
  exists mr ao sub depth raw pos n n' V,
    (forall line p ls enc, mr line p ls false = EOk (Some enc) -> mr line p ls true = EOk (Some enc)) /\
    (n <= n')%nat /\
    eval_asm mr ao sub false depth raw pos n = BOk VUnknown /\
    eval_asm mr ao sub false depth raw pos n' = BOk (VInt V).
Proof. exact toy_block_outcome_depends_on_budget. Qed.
