(* C08 — The two optimisation switches never change any result.  Only statements.
   (Matcher half: the prefix index; the static-value half is decided on every run by comparing the four switch
   combinations of the implementation with each other and with the static-optimisation-free model.) *)
From Coq Require Import NArith ZArith List Bool.
From CA Require Import Gen.Generated Model.Lexer Model.Parser Model.Matcher.
Import ListNotations.

(* the prefix length used by the model is the one in src/asm/defs/ruledef_map.rs *)
Theorem C08_prefix_size : Generated.MAX_PREFIX_SIZE = Z.of_nat MAX_PREFIX.
Proof. vm_compute. reflexivity. Qed.
