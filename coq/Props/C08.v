(* C08 — The two optimisation switches never change any result.  Only statements.
   (Matcher half: the prefix index; the static-value half is decided on every run by comparing the four switch
   combinations of the implementation with each other and with the static-optimisation-free model.) *)
From Coq Require Import NArith ZArith List Bool Permutation.
From CA Require Import Gen.Generated Model.Lexer Model.Parser Model.Matcher
  Proofs.MatcherP Proofs.MatcherPermP Proofs.MatcherKeysP.
Import ListNotations.

(* the prefix length used by the model is the one in src/asm/defs/ruledef_map.rs *)
Theorem C08_prefix_size : Generated.MAX_PREFIX_SIZE = Z.of_nat MAX_PREFIX.
Proof. vm_compute. reflexivity. Qed.

(* the prefix index never loses a candidate: every rule (of any parsed rule set) that can match the instruction
   is among the rules the index returns for the instruction's key *)
Theorem C08_prefix_complete : forall t defs i j d r w,
  parse_defs t = Some defs ->
  nth_error defs i = Some d -> rd_sub d = false -> nth_error (rd_rules d) j = Some r ->
  match_with_rule (match_fuel defs (tail w)) defs r (rpat r) w true {| sf_rd := i; sf_ru := j; sf_args := [] |} <> [] ->
  In (i, j) (query_prefixed (map_entries defs) (instr_key MAX_PREFIX w)).
Proof. exact C08_prefix_complete_parsed. Qed.

(* ... and returns only real, non-sub rules, each at most once *)
Theorem C08_index_sound : forall defs key i j,
  In (i, j) (query_prefixed (map_entries defs) key) ->
  exists d r, nth_error defs i = Some d /\ rd_sub d = false /\ nth_error (rd_rules d) j = Some r.
Proof. exact MatcherP.C08_index_sound. Qed.
Theorem C08_index_nodup : forall defs key, NoDup (query_prefixed (map_entries defs) key).
Proof. exact MatcherP.C08_index_nodup. Qed.

(* hence, at equal fuel, the candidate matches found through the index are a permutation of those found by trying
   every rule; match_instr in either mode is finish_matches (de-duplication + literal-count filter) of these lists *)
Theorem C08_working_permutation : forall t defs fuel w,
  parse_defs t = Some defs ->
  Permutation (working_indexed fuel defs w) (working_brute fuel defs w).
Proof. exact C08_working_permutation_parsed. Qed.
Theorem C08_modes_are_finish_of_working : forall defs w,
  match_instr_at true defs w = finish_matches defs (working_indexed (match_fuel defs (tail w)) defs w) /\
  match_instr_at false defs w = finish_matches defs (working_brute (Nat.pred (match_fuel defs (tail w))) defs w).
Proof. intros defs w. split; [apply match_instr_at_indexed | apply match_instr_at_brute]. Qed.
(* at the actual fuels (they differ by one) nothing found by brute force is missing from the indexed candidates *)
Theorem C08_index_loses_nothing : forall t defs w, parse_defs t = Some defs ->
  incl (working_brute (Nat.pred (match_fuel defs (tail w))) defs w) (working_indexed (match_fuel defs (tail w)) defs w).
Proof. intros t defs w H. apply MatcherPermP.C08_index_loses_nothing. eapply parse_defs_keys_ok; eauto. Qed.

(* ===== static-value half: --debug-no-optimize-static (Model/StaticKnown.v = the analysis is_value_statically_known /
   get_match_statically_known and the per-item flags; Model/ResolverS.v = the resolver with the switch `opt` and the
   `resolved` flags; assembleS argcheck pccheck opt: argcheck = pccheck = true is the analysis of the code as it is) ===== *)
From Coq Require Import NArith ZArith List Bool.
From CA Require Import Model.Lexer Model.Parser Model.BigIntOps Model.Evaluator Model.Matcher Model.Resolver
  Model.StaticKnown Model.ResolverS Spec.StaticSpec
  Proofs.ResolverFixP Proofs.StaticKnownP Proofs.ResolverSSimP Proofs.ResolverSTopP Proofs.ResolverSRefuteP.
Import ListNotations.
Open Scope Z_scope.

(* static_known_sound, expressions: what is_value_statically_known accepts evaluates to the same result (value or
   error, and resulting locals) under any two variable providers -- resolver state, current address, guessing or last
   pass, pre-pass or main pass -- that agree on the variables the analysis calls known, from any locals that bind the
   parameters it calls known.  It may depend on: literals, built-in functions, the known parameters, the known globals. *)
Theorem static_known_sound : forall L G pv pv' e ctx,
  pv_agree G pv pv' -> asm_agree pv pv' -> covers L ctx -> expr_known L G e = true ->
  eval code_ops pv e ctx = eval code_ops pv' e ctx.
Proof. exact static_known_sound_expr. Qed.

(* ... constants and data elements (value_statically_known / encoding_statically_known: no variable is known): the
   result does not depend on the provider at all *)
Theorem static_known_sound_closed : forall pv pv' e ctx,
  asm_agree pv pv' -> const_known e = true -> eval code_ops pv e ctx = eval code_ops pv' e ctx.
Proof. exact closed_known_indep. Qed.

(* ... instruction matches (get_match_statically_known as of the repair of F72): the value of the match -- arguments,
   their type checks, nested matches, rule body -- depends only on the statically known globals *)
Theorem static_known_sound_match : forall defs G pv pv',
  pv_agree G pv pv' -> asm_agree pv pv' ->
  forall m, match_kinded defs m = true -> match_known true defs G m = true ->
  resolve_match defs pv m = resolve_match defs pv' m.
Proof. exact match_known_indep. Qed.

(* ... in the resolver: two states in which the statically known constants hold their values (which the pre-pass
   establishes) are indistinguishable for every known global, whatever the labels, guesses, position and pass mode *)
Theorem static_known_sound_state : forall names ns K,
  reserved_free names ->
  (forall i, nth_error (k_sym K) i = Some true -> exists e, In (NConst i e) ns /\ const_known e = true) ->
  forall st st' pos pos' cg cg', good ns st -> good ns st' ->
  pv_agree (global_known true names (k_sym K)) (pvar names st pos cg) (pvar names st' pos' cg') /\
  asm_agree (pvar names st pos cg) (pvar names st' pos' cg').
Proof. exact static_known_sound_states. Qed.

(* the all-arguments condition and the `$`/`pc` test of the analysis are needed: without either one the two settings of
   the switch assemble the same program to different bits (the programs of findings F72 and F73) *)
Theorem C08_static_argcheck_needed :
  exists indexed defs names ns b,
    reserved_free names /\ canonical (length names) ns /\ data_static_ok ns /\ consts_asm_free ns /\ matches_kinded indexed defs ns /\
    assembleS false true true indexed defs names ns b = Some (0, 24, [VInt (un 2); VInt (un 3)], 3%nat) /\
    assembleS false true false indexed defs names ns b = Some (4369, 32, [VInt (un 2); VInt (un 4)], 3%nat).
Proof. exact static_argcheck_needed. Qed.
Theorem C08_static_pccheck_needed :
  exists indexed defs names ns b,
    reserved_free names /\ canonical (length names) ns /\ data_static_ok ns /\ consts_asm_free ns /\ matches_kinded indexed defs ns /\
    assembleS true false true indexed defs names ns b = Some (0, 24, [VInt (un 5); VInt (un 3)], 3%nat) /\
    assembleS true false false indexed defs names ns b = Some (2, 24, [VInt (un 5); VInt (un 3)], 3%nat).
Proof. exact static_pccheck_needed. Qed.

(* with the optimisation off the model with flags IS the resolver model of C02 / C09 (assemble), including the pass count *)
Theorem C08_static_off_is_resolver : forall ac pc indexed defs names ns b,
  reserved_free names -> canonical (length names) ns ->
  assembleS ac pc false indexed defs names ns b = assemble indexed defs names ns b.
Proof. exact assembleS_off. Qed.

(* the switch theorem.  For every program and budget b exactly one of three things happens:
   the two settings give the identical answer (bits, symbols, pass count, or both fail);
   or the optimised run succeeds in ONE pass, with a certified result (a fixed point of the strict unoptimised pass), and
   the other run fails at budget 1 and gives the same bits and symbols in exactly two passes at every budget >= 2 (the
   situation of finding F70);
   or b >= 2 and both fail. *)
Theorem C08_static_switch : forall indexed defs names ns,
  reserved_free names -> canonical (length names) ns -> consts_asm_free ns -> matches_kinded indexed defs ns ->
  forall b,
  assembleS true true true indexed defs names ns b = assembleS true true false indexed defs names ns b \/
  (exists o s, (1 <= b)%nat /\ assembleS true true true indexed defs names ns b = Some (o, s, 1%nat) /\
               (b = 1%nat -> assembleS true true false indexed defs names ns b = None) /\
               ((2 <= b)%nat -> assembleS true true false indexed defs names ns b = Some (o, s, 2%nat)) /\
               exists st, Certified names defs ns st /\ s = s_sym st /\ o = build_output ns st) \/
  ((2 <= b)%nat /\ assembleS true true true indexed defs names ns b = None /\
   assembleS true true false indexed defs names ns b = None).
Proof. exact static_switch_cases. Qed.

(* hence: whenever both settings succeed they give identical bits and symbol values; the pass counts are equal or 1 and 2 *)
Theorem C08_static_switch_same_result : forall indexed defs names ns,
  reserved_free names -> canonical (length names) ns -> consts_asm_free ns -> matches_kinded indexed defs ns ->
  forall b o s n o' s' n',
  assembleS true true true indexed defs names ns b = Some (o, s, n) ->
  assembleS true true false indexed defs names ns b = Some (o', s', n') ->
  o = o' /\ s = s' /\ counts_ok n n'.
Proof. exact static_switch_same_result. Qed.

(* every success with the optimisation at a budget >= 2 is a success without it, same bits and symbols *)
Theorem C08_static_switch_fwd : forall indexed defs names ns,
  reserved_free names -> canonical (length names) ns -> consts_asm_free ns -> matches_kinded indexed defs ns ->
  forall b o s n, (2 <= b)%nat ->
  assembleS true true true indexed defs names ns b = Some (o, s, n) ->
  exists n', assembleS true true false indexed defs names ns b = Some (o, s, n') /\ counts_ok n n'.
Proof. exact static_switch_fwd. Qed.

(* every success without the optimisation is a success with it, at every budget, same bits and symbols *)
Theorem C08_static_switch_bwd : forall indexed defs names ns,
  reserved_free names -> canonical (length names) ns -> consts_asm_free ns -> matches_kinded indexed defs ns ->
  forall b o s n',
  assembleS true true false indexed defs names ns b = Some (o, s, n') ->
  exists n, assembleS true true true indexed defs names ns b = Some (o, s, n) /\ counts_ok n n'.
Proof. exact static_switch_bwd. Qed.

(* so for every budget >= 2 the same programs succeed and the same programs fail *)
Theorem C08_static_switch_success : forall indexed defs names ns,
  reserved_free names -> canonical (length names) ns -> consts_asm_free ns -> matches_kinded indexed defs ns ->
  forall b, (2 <= b)%nat ->
  (assembleS true true true indexed defs names ns b = None <-> assembleS true true false indexed defs names ns b = None).
Proof. exact static_switch_success. Qed.

(* at budget 1 the optimised run may succeed alone, and then in one pass *)
Theorem C08_static_switch_budget1 : forall indexed defs names ns,
  reserved_free names -> canonical (length names) ns -> consts_asm_free ns -> matches_kinded indexed defs ns ->
  forall o s n,
  assembleS true true true indexed defs names ns 1 = Some (o, s, n) ->
  assembleS true true false indexed defs names ns 1 = Some (o, s, n) \/
  (n = 1%nat /\ assembleS true true false indexed defs names ns 1 = None).
Proof. exact static_switch_budget1. Qed.

(* every success of the optimised run (any budget, including the lone success at budget 1) carries the certificate of
   C02: its final state is a fixed point of the strict pass of the UNoptimised resolver, from which the output is built *)
Theorem C08_static_on_certified : forall indexed defs names ns,
  reserved_free names -> canonical (length names) ns -> consts_asm_free ns -> matches_kinded indexed defs ns ->
  forall b o s n,
  assembleS true true true indexed defs names ns b = Some (o, s, n) ->
  exists st, Certified names defs ns st /\ s = s_sym st /\ o = build_output ns st.
Proof. exact static_on_certified. Qed.

(* the literal statement of C08 for this switch ("for every budget") is false: `#d8 1` at budget 1 (finding F70) *)
Theorem C08_static_switch_refuted :
  exists indexed defs names ns b r,
    reserved_free names /\ canonical (length names) ns /\ data_static_ok ns /\ consts_asm_free ns /\ matches_kinded indexed defs ns /\
    assembleS true true true indexed defs names ns b = Some r /\ assembleS true true false indexed defs names ns b = None.
Proof. exact static_switch_refuted. Qed.

(* non-vacuity: a program with a label-dependent instruction, three passes, hypotheses discharged *)
Example C08_static_switch_nonvacuous :
  assembleS true true true true a_defs a_names a_ns 3 = Some (4369, 32, [VInt (un 2); VInt (un 4)], 3%nat) /\
  assembleS true true false true a_defs a_names a_ns 3 = Some (4369, 32, [VInt (un 2); VInt (un 4)], 3%nat).
Proof. exact switch_nonvacuous. Qed.

(* the hypothesis matches_kinded holds for every rule set that comes from text (a matcher invariant) *)
From CA Require Import Proofs.MatcherKindP.
Theorem C08_static_matches_kinded_parsed : forall t defs indexed ns,
  parse_defs t = Some defs -> matches_kinded indexed defs ns.
Proof. exact parsed_matches_kinded. Qed.

(* a call can only be statically known if it calls one of the listed built-in functions (table obligation, compared with
   the source on every run: get_statically_known_value_builtin_fn / get_statically_known_builtin_fn); in particular a
   call of a user-defined function never is *)
Theorem C08_static_call_only_listed : forall L G f args, expr_known L G (ECall f args) = true ->
  exists n, f = EVar 0%N [n] /\ known_value_builtin n || known_asm_builtin n = true.
Proof. exact call_known_only_listed. Qed.
Theorem C08_static_listed_functions : forall n, known_value_builtin n || known_asm_builtin n = true ->
  In n [s_sizeof; s_le; s_ascii; s_utf8; s_utf16be; s_utf16le; s_utf32be; s_utf32le; s_strlen; s_incbin; s_incbinstr; s_inchexstr].
Proof. exact listed_functions. Qed.

(* ===== C08b: the static-value half on the fragment of Model/Resolver2.v (banks with per-bank cursors, nested symbols looked
   up by dot level and path in symbol contexts, #assert).  Model/ResolverS2.v = Resolver2 with the switch, the `resolved`
   flags, the matcher's scoped query_variable and the matcher's OWN scope walk (match_all). ===== *)
From CA Require Import Model.Resolver2 Model.ResolverS2 Proofs.ResolverS2P Proofs.ResolverS2TopP.
From CA Require Model.Paths Model.Symbols Model.Cursor.

(* the scope match_all's walk hands to the static analysis of an instruction is the scope the resolver iterator resolves
   it in, at every AST node that is not a symbol declaration *)
Theorem C08b_matcher_scope_is_node_scope : forall nodes m ctx cs,
  Symbols.node_ctxs m ctx nodes = Paths.ROk cs ->
  exists cs', matcher_ctxs m ctx nodes = Paths.ROk cs' /\ length cs' = length cs /\
    forall j, nth_error nodes j = Some Symbols.AOther -> nth_error cs' j = nth_error cs j.
Proof. exact matcher_scope_is_node_scope. Qed.

(* a walk that opens a scope at labels only (seeded change C15-6) is a different function: `a:` / x / `k = ..` / y gives y
   the scope [a] instead of [k] *)
Theorem C08b_labels_only_walk_refuted :
  exists m ast cs cs', Symbols.collect Symbols.mgr_new ex_scope_ast = Paths.ROk (m, ast) /\
    Symbols.node_ctxs m Symbols.ctx_global ast = Paths.ROk cs /\
    matcher_ctxs_labels_only m Symbols.ctx_global ast = Paths.ROk cs' /\
    nth_error ast 3 = Some Symbols.AOther /\ nth_error cs 3 = Some [ex_k] /\ nth_error cs' 3 = Some [ex_a].
Proof. exact labels_only_walk_refuted. Qed.

(* static_known_sound for scoped lookups: in one symbol context, two resolver states in which the statically known
   constants hold their values answer alike for every name the analysis calls known (whatever bank, position, pass mode) *)
Theorem C08b_static_known_sound_state : forall m ns K,
  reserved_free2 m ->
  (forall r, nth_error (k_sym K) r = Some true -> exists d0 e c, In (XConst r d0 e, c) ns /\ const_known e = true) ->
  forall c st st' addr addr' cg cg', good2 ns st -> good2 ns st' ->
  pv_agree (global_known2 true m c (k_sym K)) (pvar2 m st c addr cg) (pvar2 m st' c addr' cg') /\
  asm_agree (pvar2 m st c addr cg) (pvar2 m st' c addr' cg').
Proof. exact static_known_sound_scoped. Qed.

(* with the optimisation off ResolverS2 IS Resolver2 (result, pass count, errors and panics).  wf2: no symbol reachable under
   the name of an asm built-in function; statically known data elements pass their directive's checks *)
Theorem C08b_static_off_is_resolver2 : forall ac pc indexed defs ps b, wf2 false defs ps ->
  assembleS2 ac pc false indexed defs ps b = assemble2 indexed defs ps b.
Proof. exact assembleS2_off. Qed.

(* the switch theorem (same form as C08_static_switch): for every budget b, the two settings give the identical answer
   (result, pass count, error or panic), or the one-pass situation (b = 1: the unoptimised run fails and an optimised success
   reports 1 pass; b >= 2: the same result, 1 pass with and exactly 2 passes without the optimisation), or b >= 2 and
   neither run succeeds. *)
Theorem C08b_static_switch : forall indexed defs ps, wf2 true defs ps -> forall b,
  assembleS2 true true true indexed defs ps b = assemble2 indexed defs ps b \/
  (b = 1%nat /\ assemble2 indexed defs ps b = Overlap.Err /\ forall r, assembleS2 true true true indexed defs ps b = Overlap.Ok r -> r_iters r = 1%nat) \/
  ((2 <= b)%nat /\ exists r, assembleS2 true true true indexed defs ps b = Overlap.Ok r /\ r_iters r = 1%nat /\
                             assemble2 indexed defs ps b = Overlap.Ok (set_iters r 2)) \/
  ((2 <= b)%nat /\ (forall r, assembleS2 true true true indexed defs ps b <> Overlap.Ok r) /\
                   (forall r, assemble2 indexed defs ps b <> Overlap.Ok r)).
Proof. exact switch2_cases. Qed.

Theorem C08b_static_switch_same_result : forall indexed defs ps, wf2 true defs ps -> forall b r r',
  assembleS2 true true true indexed defs ps b = Overlap.Ok r -> assemble2 indexed defs ps b = Overlap.Ok r' ->
  set_iters r 0 = set_iters r' 0 /\ counts_ok (r_iters r) (r_iters r').
Proof. exact switch2_same_result. Qed.

Theorem C08b_static_switch_fwd : forall indexed defs ps, wf2 true defs ps -> forall b r, (2 <= b)%nat ->
  assembleS2 true true true indexed defs ps b = Overlap.Ok r ->
  exists n', assemble2 indexed defs ps b = Overlap.Ok (set_iters r n') /\ counts_ok (r_iters r) n'.
Proof. exact switch2_fwd. Qed.

(* every success without the optimisation is a success with it (same bits, symbols, banks, spans), at every budget *)
Theorem C08b_static_switch_bwd : forall indexed defs ps, wf2 true defs ps -> forall b r',
  assemble2 indexed defs ps b = Overlap.Ok r' ->
  exists r, assembleS2 true true true indexed defs ps b = Overlap.Ok r /\ set_iters r 0 = set_iters r' 0 /\ counts_ok (r_iters r) (r_iters r').
Proof. exact switch2_bwd. Qed.

(* from budget 2 on the two settings accept the same programs *)
Theorem C08b_static_switch_success : forall indexed defs ps, wf2 true defs ps -> forall b, (2 <= b)%nat ->
  ((exists r, assembleS2 true true true indexed defs ps b = Overlap.Ok r) <-> (exists r', assemble2 indexed defs ps b = Overlap.Ok r')).
Proof. exact switch2_success. Qed.

Example C08b_nonvacuous :
  exists r, assembleS2 true true true true ex2_defs ex2_ps 3 = Overlap.Ok r /\ assemble2 true ex2_defs ex2_ps 3 = Overlap.Ok r /\
            r_bits r = [false;false;false;true;false;false;false;false; false;false;false;false;false;true;false;true;
                        false;false;false;true;false;false;false;false; false;false;false;false;false;false;true;false].
Proof. exact switch2_nonvacuous. Qed.
