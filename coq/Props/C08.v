(* C08 — The two optimisation switches never change any result.  Only statements.
   (Matcher half: the prefix index; the static-value half is decided on every run by comparing the four switch
   combinations of the implementation with each other and with the static-optimisation-free model.) *)
From Coq Require Import NArith ZArith List Bool Permutation.
From CA Require Import Gen.Generated Model.Lexer Model.Parser Model.Matcher
  Proofs.MatcherP Proofs.MatcherPermP Proofs.MatcherKeysP.
Import ListNotations.

(* the prefix length used by the model is the one in src/asm/defs/ruledef_map.rs *)
Theorem C08_prefix_size : Generated.MAX_PREFIX_SIZE = Z.of_nat MAX_PREFIX.
Proof. vm_compute. reflexivity. Qed.

(* the prefix index never loses a candidate: every rule (of any parsed rule set) that can match the instruction
   is among the rules the index returns for the instruction's key *)
Theorem C08_prefix_complete : forall t defs i j d r w,
  parse_defs t = Some defs ->
  nth_error defs i = Some d -> rd_sub d = false -> nth_error (rd_rules d) j = Some r ->
  match_with_rule (match_fuel defs (tail w)) defs r (rpat r) w true {| sf_rd := i; sf_ru := j; sf_args := [] |} <> [] ->
  In (i, j) (query_prefixed (map_entries defs) (instr_key MAX_PREFIX w)).
Proof. exact C08_prefix_complete_parsed. Qed.

(* ... and returns only real, non-sub rules, each at most once *)
Theorem C08_index_sound : forall defs key i j,
  In (i, j) (query_prefixed (map_entries defs) key) ->
  exists d r, nth_error defs i = Some d /\ rd_sub d = false /\ nth_error (rd_rules d) j = Some r.
Proof. exact MatcherP.C08_index_sound. Qed.
Theorem C08_index_nodup : forall defs key, NoDup (query_prefixed (map_entries defs) key).
Proof. exact MatcherP.C08_index_nodup. Qed.

(* hence, at equal fuel, the candidate matches found through the index are a permutation of those found by trying
   every rule; match_instr in either mode is finish_matches (de-duplication + literal-count filter) of these lists *)
Theorem C08_working_permutation : forall t defs fuel w,
  parse_defs t = Some defs ->
  Permutation (working_indexed fuel defs w) (working_brute fuel defs w).
Proof. exact C08_working_permutation_parsed. Qed.
Theorem C08_modes_are_finish_of_working : forall defs w,
  match_instr_at true defs w = finish_matches defs (working_indexed (match_fuel defs (tail w)) defs w) /\
  match_instr_at false defs w = finish_matches defs (working_brute (Nat.pred (match_fuel defs (tail w))) defs w).
Proof. intros defs w. split; [apply match_instr_at_indexed | apply match_instr_at_brute]. Qed.
(* at the actual fuels (they differ by one) nothing found by brute force is missing from the indexed candidates *)
Theorem C08_index_loses_nothing : forall t defs w, parse_defs t = Some defs ->
  incl (working_brute (Nat.pred (match_fuel defs (tail w))) defs w) (working_indexed (match_fuel defs (tail w)) defs w).
Proof. intros t defs w H. apply MatcherPermP.C08_index_loses_nothing. eapply parse_defs_keys_ok; eauto. Qed.
