(* C11 — Every output format carries exactly the assembled bits.
   For each binary-data format F:   decode_F (format_F bits) = Some (pad g_F bits)   for ALL bit vectors
   (every length, no bound), where decode_F (Spec/Decoders.v) is written from the format's own rules and
   checks addresses, counts and checksums, format_F (Model/Formats.v) mirrors src/util/bitvec_format.rs,
   and pad g pads with zero bits to the format's granule g.
   Only statements; each closed by a lemma of Proofs/FormatsP*.v. *)
From Coq Require Import NArith List Bool.
From CA Require Import Model.Formats Spec.Decoders Proofs.FormatsP Proofs.FormatsP2 Proofs.FormatsP3 Proofs.FormatsP4 Proofs.FormatsP5.
Import ListNotations.
Open Scope N_scope.

Theorem C11_binary : forall bits, decode_binary (format_binary bits) = Some (pad 8 bits).
Proof. exact binary_roundtrip. Qed.

Theorem C11_binstr : forall bits, decode_binstr (format_binstr bits) = Some (pad 1 bits).
Proof. exact binstr_roundtrip. Qed.

Theorem C11_hexstr : forall bits, decode_hexstr (format_hexstr bits) = Some (pad 4 bits).
Proof. exact hexstr_roundtrip. Qed.

Theorem C11_mif : forall bits, decode_mif (format_mif bits) = Some (pad 8 bits).
Proof. exact mif_roundtrip. Qed.

Theorem C11_deccomma : forall bits, decode_comma false (format_deccomma bits) = Some (pad 8 bits).
Proof. exact deccomma_roundtrip. Qed.

Theorem C11_hexcomma : forall bits, decode_comma true (format_hexcomma bits) = Some (pad 8 bits).
Proof. exact hexcomma_roundtrip. Qed.

Theorem C11_decspace : forall bits, decode_space false (format_decspace bits) = Some (pad 8 bits).
Proof. exact decspace_roundtrip. Qed.

Theorem C11_hexspace : forall bits, decode_space true (format_hexspace bits) = Some (pad 8 bits).
Proof. exact hexspace_roundtrip. Qed.

Theorem C11_decc : forall bits, decode_c false (format_decc bits) = Some (pad 8 bits).
Proof. exact decc_roundtrip. Qed.

Theorem C11_hexc : forall bits, decode_c true (format_hexc bits) = Some (pad 8 bits).
Proof. exact hexc_roundtrip. Qed.

Theorem C11_logisim8 : forall bits, decode_logisim 8 (format_logisim8 bits) = Some (pad 8 bits).
Proof. exact logisim8_roundtrip. Qed.

Theorem C11_logisim16 : forall bits, decode_logisim 16 (format_logisim16 bits) = Some (pad 16 bits).
Proof. exact logisim16_roundtrip. Qed.

(* Intel HEX at every address unit, for an output written as one run of data from offset 0, under the side
   condition that every record address fits the 16-bit address field (length <= 65536 address units).
   The decoder verifies record lengths, the checksum of every record, the record types, the EOF record and
   that the record addresses follow each other from 0. *)
Theorem C11_intelhex : forall unit bits, unit = 8 \/ unit = 16 \/ unit = 32 -> blen bits <= 65536 * unit ->
  decode_intelhex unit (format_intelhex_blocks unit bits (whole_block bits)) = Some (pad 8 bits).
Proof. exact intelhex_roundtrip. Qed.

(* the same through BitVec::get_blocks, for the one span a gap-free output carries *)
Theorem C11_intelhex_span : forall unit bits, unit = 8 \/ unit = 16 \/ unit = 32 -> blen bits <= 65536 * unit ->
  decode_intelhex unit (format_intelhex unit bits [(Some 0, blen bits)]) = Some (pad 8 bits).
Proof. exact intelhex_roundtrip_span. Qed.

(* the text level of Intel HEX for ANY list of records (so also for several separated blocks): the file
   parses, with every checksum verified, to exactly the records (unit address, data) the layout produced *)
Theorem C11_intelhex_records : forall unit recs, Forall (rec_ok unit) recs ->
  decode_intelhex_records (concat (map (render_ihex_record unit) recs) ++ [58; 48; 48; 48; 48; 48; 48; 48; 49; 70; 70])
  = Some (map (fun r => (fst r / unit, snd r)) recs).
Proof. exact ihex_file. Qed.

(* beyond the side condition the property is FALSE of the code (known finding F24): data at byte address
   0x10000 is given address field 0000, so the file says byte 0 is 0x02 while the output's byte 0 is 0x01 *)
Theorem C11_intelhex_wrap_refuted :
  exists bits spans recs, decode_intelhex_records (format_intelhex 8 bits spans) = Some recs
    /\ image 8 recs 0 = Some 2 /\ firstn 8 bits = val_bits 8 1.
Proof. exists wrap_bits, wrap_spans. exact intelhex_wrap_witness. Qed.

(* a block that starts off an address-unit boundary is mis-framed (finding F45): `#d4 1` / `#res 1` / `#d4 2`
   gives a file that says byte 1 is 0x20 while the output's byte 1 is 0x02 *)
Theorem C11_intelhex_unaligned_refuted :
  exists bits spans recs, decode_intelhex_records (format_intelhex 8 bits spans) = Some recs
    /\ image 8 recs 1 = Some 32 /\ firstn 8 (skipn 8 bits) = val_bits 8 2.
Proof. exists unaligned_bits, unaligned_spans. exact intelhex_unaligned_witness. Qed.

(* ---- several blocks (BitVec::get_blocks + one record run per block) ----
   get_blocks neither loses nor invents a bit position, for ANY span list (no sortedness or disjointness
   assumed): a position lies in a block iff it lies in a span with an output offset. *)
Theorem C11_get_blocks_exact : forall spans i, in_block (get_blocks spans) i <-> in_span spans i.
Proof. exact get_blocks_exact. Qed.

(* For any blocks that start on address-unit boundaries (the hypothesis that excludes F45) and end within
   64 Ki address units (excludes F24): the text parses, every record length / checksum / type and the EOF record
   verified, to the records of the layout; a byte address is defined by the file iff it lies in a block
   (nothing outside a block is defined); and every defined byte is the output's own byte at that address
   (byte_at = the 8 bits from bit 8k on, zero past the end).  All block lists, all lengths, units 8/16/32. *)
Theorem C11_intelhex_blocks : forall unit bits blocks,
  unit = 8 \/ unit = 16 \/ unit = 32 -> blocks_ok unit blocks ->
  let recs := map (fun r => (fst r / unit, snd r)) (ihex_records bits blocks) in
  decode_intelhex_records (format_intelhex_blocks unit bits blocks) = Some recs
  /\ (forall k b, image unit recs k = Some b -> in_block_bytes blocks k /\ b = byte_at bits (8 * N.to_nat k))
  /\ (forall k, in_block_bytes blocks k -> image unit recs k <> None).
Proof. exact intelhex_blocks_roundtrip. Qed.

(* The same from the span list, on the bit level: if moreover every set bit of the output lies in a span (true of
   assembled outputs) and the blocks end inside the output, the memory image of the file (absent = 0) equals the
   padded output byte for byte and the file defines no byte outside the output or outside a block. *)
Theorem C11_intelhex_spans : forall unit bits spans,
  unit = 8 \/ unit = 16 \/ unit = 32 -> blocks_ok unit (get_blocks spans) -> spans_inside bits (get_blocks spans) ->
  (forall i, nth i bits false = true -> in_span spans (N.of_nat i)) ->
  exists recs, decode_intelhex_records (format_intelhex unit bits spans) = Some recs
    /\ (forall k, k < byte_num bits ->
          val_bits 8 (match image unit recs k with Some b => b | None => 0 end)
          = firstn 8 (skipn (8 * N.to_nat k) (pad 8 bits)))
    /\ (forall k b, image unit recs k = Some b -> k < byte_num bits /\ in_block_bytes (get_blocks spans) k).
Proof. exact intelhex_spans_roundtrip. Qed.

(* ---- the two dump formats, the whole text ----
   strict = true: besides the address column of every line (= line index * bytes per line, hexadecimal), the
   number of byte groups per line, the digits and the position of the first absent ('.') cell, the decoder also
   examines the ASCII gutter (a gutter character must be '.', a blank for a white-space byte, or the byte's own
   ASCII character; where the byte is absent it must be '.').  Both settings are proved. *)
Theorem C11_bindump : forall strict bits, decode_bindump strict (format_bindump bits) = Some (pad 1 bits).
Proof. exact bindump_roundtrip. Qed.

Theorem C11_hexdump : forall strict bits, decode_hexdump strict (format_hexdump bits) = Some (pad 4 bits).
Proof. exact hexdump_roundtrip. Qed.

(* column by column: the text is exactly, per line i,  " " hex(i * bytes_per_line) zero-padded to the width of the
   largest address, " | ", the digit groups, "| ", the gutter, " |", newline (line_body); every group has
   digits_per_byte in-range cells; the gutter cell of a byte is absent iff its group starts absent and
   otherwise holds exactly the value the group's digits denote (lines_ok / grel), printed by gutter_char. *)
Theorem C11_bindump_columns : forall bits,
  let lines := dump_lines (N.to_nat (dump_line_end (blen bits) 8 8)) 1 8 8 0 bits in
  let w := length (hex_lower ((dump_line_end (blen bits) 8 8 - 1) * 8)) in
  format_bindump bits = concat (map (fun ln => line_body w 8 ln ++ [10]) lines) /\ lines_ok 1 8 8 0 lines.
Proof. exact bindump_columns. Qed.

Theorem C11_hexdump_columns : forall bits,
  let lines := dump_lines (N.to_nat (dump_line_end (blen bits) 8 16)) 4 8 16 0 bits in
  let w := length (hex_lower ((dump_line_end (blen bits) 8 16 - 1) * 16)) in
  format_hexdump bits = concat (map (fun ln => line_body w 16 ln ++ [10]) lines) /\ lines_ok 4 2 16 0 lines.
Proof. exact hexdump_columns. Qed.

(* the empty output, every format, by evaluation (F4: no crash, well-formed and empty) *)
Theorem C11_empty :
  decode_binary (format_binary []) = Some [] /\ decode_binstr (format_binstr []) = Some [] /\
  decode_hexstr (format_hexstr []) = Some [] /\ decode_bindump true (format_bindump []) = Some [] /\
  decode_hexdump true (format_hexdump []) = Some [] /\ decode_mif (format_mif []) = Some [] /\
  decode_intelhex 8 (format_intelhex 8 [] []) = Some [] /\ decode_intelhex 16 (format_intelhex 16 [] []) = Some [] /\
  decode_intelhex 32 (format_intelhex 32 [] []) = Some [] /\
  decode_comma false (format_deccomma []) = Some [] /\ decode_comma true (format_hexcomma []) = Some [] /\
  decode_space false (format_decspace []) = Some [] /\ decode_space true (format_hexspace []) = Some [] /\
  decode_c false (format_decc []) = Some [] /\ decode_c true (format_hexc []) = Some [] /\
  decode_logisim 8 (format_logisim8 []) = Some [] /\ decode_logisim 16 (format_logisim16 []) = Some [].
Proof. exact all_empty. Qed.

(* non-vacuity: a 13-bit output in four formats, and the decoders reject damaged text *)
Example C11_nonvacuous :
  let b := [true; false; true; false; false; true; false; true; true; true; true; false; true] in
  format_hexstr b = [97; 53; 101; 56] /\
  decode_hexstr (format_hexstr b) = Some (b ++ [false; false; false]) /\
  decode_intelhex 8 (format_intelhex 8 b [(Some 0, 13)]) = Some (b ++ [false; false; false]) /\
  decode_hexdump true (format_hexdump b) = Some (b ++ [false; false; false]) /\
  decode_intelhex 8 [58; 48; 50; 48; 48; 48; 48; 48; 48; 65; 53; 69; 56; 55; 50; 10; 58; 48; 48; 48; 48; 48; 48; 48; 49; 70; 70] = None /\
  decode_mif (removelast (format_mif b)) = None.
Proof. exact nonvacuous. Qed.
