(* C11 — Every output format carries exactly the assembled bits.
   For each binary-data format F:   decode_F (format_F bits) = Some (pad g_F bits)   for ALL bit vectors
   (every length, no bound), where decode_F (Spec/Decoders.v) is written from the format's own rules and
   checks addresses, counts and checksums, format_F (Model/Formats.v) mirrors src/util/bitvec_format.rs,
   and pad g pads with zero bits to the format's granule g.
   Only statements; each closed by a lemma of Proofs/FormatsP*.v. *)
From Coq Require Import NArith List Bool.
From CA Require Import Model.Formats Spec.Decoders Proofs.FormatsP Proofs.FormatsP2 Proofs.FormatsP3 Proofs.FormatsP4.
Import ListNotations.
Open Scope N_scope.

Theorem C11_binary : forall bits, decode_binary (format_binary bits) = Some (pad 8 bits).
Proof. exact binary_roundtrip. Qed.

Theorem C11_binstr : forall bits, decode_binstr (format_binstr bits) = Some (pad 1 bits).
Proof. exact binstr_roundtrip. Qed.

Theorem C11_hexstr : forall bits, decode_hexstr (format_hexstr bits) = Some (pad 4 bits).
Proof. exact hexstr_roundtrip. Qed.

Theorem C11_mif : forall bits, decode_mif (format_mif bits) = Some (pad 8 bits).
Proof. exact mif_roundtrip. Qed.

Theorem C11_deccomma : forall bits, decode_comma false (format_deccomma bits) = Some (pad 8 bits).
Proof. exact deccomma_roundtrip. Qed.

Theorem C11_hexcomma : forall bits, decode_comma true (format_hexcomma bits) = Some (pad 8 bits).
Proof. exact hexcomma_roundtrip. Qed.

Theorem C11_decspace : forall bits, decode_space false (format_decspace bits) = Some (pad 8 bits).
Proof. exact decspace_roundtrip. Qed.

Theorem C11_hexspace : forall bits, decode_space true (format_hexspace bits) = Some (pad 8 bits).
Proof. exact hexspace_roundtrip. Qed.

Theorem C11_decc : forall bits, decode_c false (format_decc bits) = Some (pad 8 bits).
Proof. exact decc_roundtrip. Qed.

Theorem C11_hexc : forall bits, decode_c true (format_hexc bits) = Some (pad 8 bits).
Proof. exact hexc_roundtrip. Qed.

Theorem C11_logisim8 : forall bits, decode_logisim 8 (format_logisim8 bits) = Some (pad 8 bits).
Proof. exact logisim8_roundtrip. Qed.

Theorem C11_logisim16 : forall bits, decode_logisim 16 (format_logisim16 bits) = Some (pad 16 bits).
Proof. exact logisim16_roundtrip. Qed.

(* Intel HEX at every address unit, for an output written as one run of data from offset 0, under the side
   condition that every record address fits the 16-bit address field (length <= 65536 address units).
   The decoder verifies record lengths, the checksum of every record, the record types, the EOF record and
   that the record addresses follow each other from 0. *)
Theorem C11_intelhex : forall unit bits, unit = 8 \/ unit = 16 \/ unit = 32 -> blen bits <= 65536 * unit ->
  decode_intelhex unit (format_intelhex_blocks unit bits (whole_block bits)) = Some (pad 8 bits).
Proof. exact intelhex_roundtrip. Qed.

(* the same through BitVec::get_blocks, for the one span a gap-free output carries *)
Theorem C11_intelhex_span : forall unit bits, unit = 8 \/ unit = 16 \/ unit = 32 -> blen bits <= 65536 * unit ->
  decode_intelhex unit (format_intelhex unit bits [(Some 0, blen bits)]) = Some (pad 8 bits).
Proof. exact intelhex_roundtrip_span. Qed.

(* the text level of Intel HEX for ANY list of records (so also for several separated blocks): the file
   parses, with every checksum verified, to exactly the records (unit address, data) the layout produced *)
Theorem C11_intelhex_records : forall unit recs, Forall (rec_ok unit) recs ->
  decode_intelhex_records (concat (map (render_ihex_record unit) recs) ++ [58; 48; 48; 48; 48; 48; 48; 48; 49; 70; 70])
  = Some (map (fun r => (fst r / unit, snd r)) recs).
Proof. exact ihex_file. Qed.

(* beyond the side condition the property is FALSE of the code (known finding F24): data at byte address
   0x10000 is given address field 0000, so the file says byte 0 is 0x02 while the output's byte 0 is 0x01 *)
Theorem C11_intelhex_wrap_refuted :
  exists bits spans recs, decode_intelhex_records (format_intelhex 8 bits spans) = Some recs
    /\ image 8 recs 0 = Some 2 /\ firstn 8 bits = val_bits 8 1.
Proof. exists wrap_bits, wrap_spans. exact intelhex_wrap_witness. Qed.

(* a block that starts off an address-unit boundary is mis-framed (finding F45): `#d4 1` / `#res 1` / `#d4 2`
   gives a file that says byte 1 is 0x20 while the output's byte 1 is 0x02 *)
Theorem C11_intelhex_unaligned_refuted :
  exists bits spans recs, decode_intelhex_records (format_intelhex 8 bits spans) = Some recs
    /\ image 8 recs 1 = Some 32 /\ firstn 8 (skipn 8 bits) = val_bits 8 2.
Proof. exists unaligned_bits, unaligned_spans. exact intelhex_unaligned_witness. Qed.

(* NOT PROVED (checked on every run by the multi-block stream of tools/props/c11.py, which evaluates this
   predicate on the implementation's text): several separated blocks.  For aligned, in-range blocks and an
   output that is zero outside its blocks, the memory image of the file (later records win, absent = 0)
   equals the padded output byte for byte, and the file has no byte outside the output. *)
Definition C11_intelhex_blocks_statement : Prop :=
  forall unit bits spans, unit = 8 \/ unit = 16 \/ unit = 32 ->
  (forall off sz, In (off, sz) (get_blocks spans) -> off mod unit = 0 /\ off + sz <= blen bits /\ (off + sz - 1) / unit < 65536) ->
  (forall i, nth_error bits i = Some true ->
     exists off sz, In (off, sz) (get_blocks spans) /\ off <= N.of_nat i < off + sz) ->
  exists recs, decode_intelhex_records (format_intelhex unit bits spans) = Some recs
    /\ (forall k, k < byte_num bits ->
          val_bits 8 (match image unit recs k with Some b => b | None => 0 end)
          = firstn 8 (skipn (8 * N.to_nat k) (pad 8 bits)))
    /\ (forall k b, image unit recs k = Some b -> k < byte_num bits).

(* the two dump formats: the address column of every line, the number of byte groups per line, the digits and
   the position of the first absent ('.') cell are all checked by the decoder (flag false = the ASCII gutter
   is not examined) *)
Theorem C11_bindump_partial : forall bits, decode_bindump false (format_bindump bits) = Some (pad 1 bits).
Proof. exact bindump_roundtrip. Qed.

Theorem C11_hexdump_partial : forall bits, decode_hexdump false (format_hexdump bits) = Some (pad 4 bits).
Proof. exact hexdump_roundtrip. Qed.

(* full statements with the gutter examined too (flag true: a gutter character must be '.', a blank for a
   white-space byte, or the byte's own ASCII character).  NOT PROVED; the strict decoders are the ones run on
   the implementation's text for every generated vector. *)
Definition C11_bindump_statement : Prop := forall bits, decode_bindump true (format_bindump bits) = Some (pad 1 bits).
Definition C11_hexdump_statement : Prop := forall bits, decode_hexdump true (format_hexdump bits) = Some (pad 4 bits).

(* the empty output, every format, by evaluation (F4: no crash, well-formed and empty) *)
Theorem C11_empty :
  decode_binary (format_binary []) = Some [] /\ decode_binstr (format_binstr []) = Some [] /\
  decode_hexstr (format_hexstr []) = Some [] /\ decode_bindump true (format_bindump []) = Some [] /\
  decode_hexdump true (format_hexdump []) = Some [] /\ decode_mif (format_mif []) = Some [] /\
  decode_intelhex 8 (format_intelhex 8 [] []) = Some [] /\ decode_intelhex 16 (format_intelhex 16 [] []) = Some [] /\
  decode_intelhex 32 (format_intelhex 32 [] []) = Some [] /\
  decode_comma false (format_deccomma []) = Some [] /\ decode_comma true (format_hexcomma []) = Some [] /\
  decode_space false (format_decspace []) = Some [] /\ decode_space true (format_hexspace []) = Some [] /\
  decode_c false (format_decc []) = Some [] /\ decode_c true (format_hexc []) = Some [] /\
  decode_logisim 8 (format_logisim8 []) = Some [] /\ decode_logisim 16 (format_logisim16 []) = Some [].
Proof. exact all_empty. Qed.

(* non-vacuity: a 13-bit output in four formats, and the decoders reject damaged text *)
Example C11_nonvacuous :
  let b := [true; false; true; false; false; true; false; true; true; true; true; false; true] in
  format_hexstr b = [97; 53; 101; 56] /\
  decode_hexstr (format_hexstr b) = Some (b ++ [false; false; false]) /\
  decode_intelhex 8 (format_intelhex 8 b [(Some 0, 13)]) = Some (b ++ [false; false; false]) /\
  decode_hexdump true (format_hexdump b) = Some (b ++ [false; false; false]) /\
  decode_intelhex 8 [58; 48; 50; 48; 48; 48; 48; 48; 48; 65; 53; 69; 56; 55; 50; 10; 58; 48; 48; 48; 48; 48; 48; 48; 49; 70; 70] = None /\
  decode_mif (removelast (format_mif b)) = None.
Proof. exact nonvacuous. Qed.
