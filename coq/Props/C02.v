(* C02 — A successful result is a genuine fixed point, never a stale guess.  Only statements. *)
From Coq Require Import NArith ZArith List Bool.
From CA Require Import Model.Lexer Model.Parser Model.BigIntOps Model.Matcher Model.Evaluator Model.Resolver
  Proofs.ResolverFixP Proofs.ResolverTopP Proofs.CertifiedP.
Import ListNotations.
Open Scope Z_scope.

(* Whenever assembly succeeds (any budget, any matcher mode), the result is a state st from which a strict (last-mode)
   pass recomputes every label, constant, instruction, data element, reservation, alignment and address to exactly what
   st already holds, with nothing unknown; the output is built from that state, and the pass count is within budget. *)
Theorem C02_certificate : forall indexed defs names ns budget out syms n,
  syms_distinct ns ->
  assemble indexed defs names ns budget = Some (out, syms, n) ->
  exists st, Certified names defs ns st /\ syms = s_sym st /\ out = build_output ns st /\ (n <= budget)%nat.
Proof. exact assemble_certificate. Qed.

(* a pass that reports "resolved" has changed nothing: there is no stale guess behind a resolved pass *)
Theorem C02_resolved_pass_is_fixpoint : forall names defs last ns st st',
  labels_ok ns st -> pass names defs last ns st 0 Resolved = EOk (st', Resolved) -> st' = st.
Proof. exact pass_fix. Qed.

(* the only way to obtain output is through such a pass (every other path of the loop is an error) *)
Theorem C02_no_output_without_fixpoint : forall names defs ns budget st st' n,
  syms_distinct ns -> labels_ok ns st ->
  loop names defs ns budget 0 budget st = EOk (st', n) ->
  Certified names defs ns st' /\ (n <= budget)%nat.
Proof. exact certificate. Qed.

(* what the certificate says item by item *)
(* every label's final value is the address at which the item after it really lies *)
Theorem C02_label_is_address : forall names defs ns1 s ns2 st,
  labels_ok (ns1 ++ NLabel s :: ns2) st -> Certified names defs (ns1 ++ NLabel s :: ns2) st ->
  let pos := cursor ns1 st 0 in
  pos mod 8 = 0 /\ nth s (s_sym st) VUnknown = VInt (un (pos / 8)).
Proof. exact certified_label. Qed.

(* recomputing an instruction from the final symbol values at its own position selects exactly the emitted encoding ... *)
Theorem C02_instruction_recomputed : forall names defs ns1 i src ns2 st,
  labels_ok (ns1 ++ NInstr i src :: ns2) st -> Certified names defs (ns1 ++ NInstr i src :: ns2) st ->
  exists d, nth_error (s_instr st) i = Some d /\
    resolve_encoding defs (pvar names st (cursor ns1 st 0) false) false (i_matches d) = EOk (Some (i_enc d)).
Proof. exact certified_instruction. Qed.

(* ... and that selection is: among the rules that match and whose constraints hold, the unique smallest encoding *)
Theorem C02_unique_smallest : forall defs pv ms b,
  resolve_encoding defs pv false ms = EOk (Some b) ->
  exists rs, resolve_matches defs pv ms = EOk rs /\ In b (resolved_of rs) /\
    (forall b', In b' (resolved_of rs) -> size_of b <= size_of b') /\
    (filter (fun b' => size_of b' =? size_of b) (resolved_of rs) = [b]).
Proof. exact resolve_encoding_strict. Qed.
