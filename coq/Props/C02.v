(* C02 — A successful result is a genuine fixed point, never a stale guess.  Only statements. *)
From Coq Require Import NArith ZArith List Bool.
From CA Require Import Model.Lexer Model.Parser Model.BigIntOps Model.Matcher Model.Evaluator Model.Resolver
  Proofs.ResolverFixP Proofs.ResolverTopP Proofs.CertifiedP.
Import ListNotations.
Open Scope Z_scope.

(* Whenever assembly succeeds (any budget, any matcher mode), the result is a state st from which a strict (last-mode)
   pass recomputes every label, constant, instruction, data element, reservation, alignment and address to exactly what
   st already holds, with nothing unknown; the output is built from that state, and the pass count is within budget. *)
Theorem C02_certificate : forall indexed defs names ns budget out syms n,
  syms_distinct ns ->
  assemble indexed defs names ns budget = Some (out, syms, n) ->
  exists st, Certified names defs ns st /\ syms = s_sym st /\ out = build_output ns st /\ (n <= budget)%nat.
Proof. exact assemble_certificate. Qed.

(* a pass that reports "resolved" has changed nothing: there is no stale guess behind a resolved pass *)
Theorem C02_resolved_pass_is_fixpoint : forall names defs last ns st st',
  labels_ok ns st -> pass names defs last ns st 0 Resolved = EOk (st', Resolved) -> st' = st.
Proof. exact pass_fix. Qed.

(* the only way to obtain output is through such a pass (every other path of the loop is an error) *)
Theorem C02_no_output_without_fixpoint : forall names defs ns budget st st' n,
  syms_distinct ns -> labels_ok ns st ->
  loop names defs ns budget 0 budget st = EOk (st', n) ->
  Certified names defs ns st' /\ (n <= budget)%nat.
Proof. exact certificate. Qed.

(* what the certificate says item by item *)
(* every label's final value is the address at which the item after it really lies *)
Theorem C02_label_is_address : forall names defs ns1 s ns2 st,
  labels_ok (ns1 ++ NLabel s :: ns2) st -> Certified names defs (ns1 ++ NLabel s :: ns2) st ->
  let pos := cursor ns1 st 0 in
  pos mod 8 = 0 /\ nth s (s_sym st) VUnknown = VInt (un (pos / 8)).
Proof. exact certified_label. Qed.

(* recomputing an instruction from the final symbol values at its own position selects exactly the emitted encoding ... *)
Theorem C02_instruction_recomputed : forall names defs ns1 i src ns2 st,
  labels_ok (ns1 ++ NInstr i src :: ns2) st -> Certified names defs (ns1 ++ NInstr i src :: ns2) st ->
  exists d, nth_error (s_instr st) i = Some d /\
    resolve_encoding defs (pvar names st (cursor ns1 st 0) false) false (i_matches d) = EOk (Some (i_enc d)).
Proof. exact certified_instruction. Qed.

(* ... and that selection is: among the rules that match and whose constraints hold, the unique smallest encoding *)
Theorem C02_unique_smallest : forall defs pv ms b,
  resolve_encoding defs pv false ms = EOk (Some b) ->
  exists rs, resolve_matches defs pv ms = EOk rs /\ In b (resolved_of rs) /\
    (forall b', In b' (resolved_of rs) -> size_of b <= size_of b') /\
    (filter (fun b' => size_of b' =? size_of b) (resolved_of rs) = [b]).
Proof. exact resolve_encoding_strict. Qed.

(* ===== the same theorems for the larger fragment of Model/Resolver2.v: #bankdef / #bank with per-bank cursors and
   checked position arithmetic, nested symbols declared and referenced by dot level and path ===== *)
From Coq Require Import NArith ZArith List Bool.
From CA Require Import Model.Lexer Model.Parser Model.BigIntOps Model.Matcher Model.Evaluator Model.Resolver
  Model.Resolver2 Spec.Certificate2 Proofs.Resolver2FixP Proofs.Resolver2MonoP Proofs.Resolver2TopP Proofs.Resolver2CertP
  Proofs.Certificate2P.
From CA Require Model.Overlap Model.Cursor Model.Output Model.Symbols Spec.OverlapSpec Spec.LayoutInv Proofs.OutputP.
Import ListNotations.
Open Scope Z_scope.

Theorem C02b_certificate : forall indexed defs ps budget r,
  assemble2 indexed defs ps budget = Ok r ->
  exists m ns st1 st,
    setup indexed defs ps = Some (m, ns, r_banks r, st1) /\
    Certified2 m (r_banks r) defs max_bits ns st /\
    r_syms r = symbol_values m st /\
    out_nodes st ns = Ok (r_nodes r) /\
    Output.output_stage (Z.to_N max_bits) (r_banks r) (r_nodes r) = Ok (r_bits r, r_items r) /\
    (r_iters r <= budget)%nat.
Proof. exact assemble2_certificate. Qed.

Theorem C02b_resolved_pass_is_fixpoint : forall m banks defs mb last ns st st',
  labels_ok2 ns st -> run_pass m banks defs mb last ns st = Ok (st', Resolved) -> st' = st.
Proof. exact pass2_fix. Qed.

Theorem C02b_no_output_without_fixpoint : forall m banks defs mb ns budget st st' n,
  syms_distinct2 ns -> labels_ok2 ns st ->
  loop2 m banks defs mb ns budget 0 budget st = Ok (st', n) ->
  Certified2 m banks defs mb ns st' /\ (n <= budget)%nat.
Proof. exact certificate2. Qed.

Theorem C02b_symbol_indices_distinct : forall ps m ns, prepare ps = Some (m, ns) -> syms_distinct2 ns.
Proof. exact prepare_distinct. Qed.

Theorem C02b_label_is_address : forall m banks defs mb ns1 s d0 ctx ns2 st,
  labels_ok2 (ns1 ++ (XLabel s d0, ctx) :: ns2) st -> Certified2 m banks defs mb (ns1 ++ (XLabel s d0, ctx) :: ns2) st ->
  exists c0 p0 b pos,
    walk banks mb ns1 st (Cursor.init_cursor banks) None = Ok (c0, p0) /\ visit banks mb (XLabel s d0, ctx) c0 p0 = Ok (b, pos) /\
    (pos mod Cursor.bk_unit b = 0)%N /\
    nth s (s_sym st) VUnknown = VInt (un (Cursor.bk_addr b + Z.of_N (pos / Cursor.bk_unit b))).
Proof. exact certified2_label. Qed.

Theorem C02b_instruction_recomputed : forall m banks defs mb ns1 i src ctx ns2 st,
  labels_ok2 (ns1 ++ (XInstr i src, ctx) :: ns2) st -> Certified2 m banks defs mb (ns1 ++ (XInstr i src, ctx) :: ns2) st ->
  exists c0 p0 b pos d,
    walk banks mb ns1 st (Cursor.init_cursor banks) None = Ok (c0, p0) /\ visit banks mb (XInstr i src, ctx) c0 p0 = Ok (b, pos) /\
    nth_error (s_instr st) i = Some d /\
    resolve_encoding defs (pvar2 m st ctx (Cursor.eval_address mb b pos false) false) false (i_matches d) = EOk (Some (i_enc d)).
Proof. exact certified2_instruction. Qed.

Theorem C02b_output_is_layout_ok : forall indexed defs ps budget r,
  assemble2 indexed defs ps budget = Ok r ->
  LayoutInv.layout_ok (r_banks r) (r_items r) (r_bits r) = true /\ LayoutInv.windows_ok (r_banks r) = true.
Proof. exact Resolver2TopP.C02b_output_is_layout_ok. Qed.

Example C02b_nonvacuous :
  exists r, assemble2 true [] ex_prog2 3 = Ok r /\
    r_bits r = [false; false; false; true; false; false; false; false] /\ r_iters r = 2%nat /\
    map snd (r_syms r) = [VInt (un 16); VInt (un 16); VInt (un 17)] /\
    length (r_banks r) = 2%nat /\ Forall OutputP.no_empty_emit (r_nodes r).
Proof. exact assemble2_nonvacuous. Qed.

(* the executable checker run on the implementation's results decides the predicate of C02b_certificate *)

Theorem C02b_checker_sound : forall indexed defs ps claimed banks out,
  cert_check2 indexed defs ps claimed banks out = true ->
  exists m ns st vs items,
    prepare ps = Some (m, ns) /\
    s_sym st = map (fun d => lookup_claim claimed (Symbols.sd_name d)) (Symbols.m_decls m) /\
    Certified2 m banks defs max_bits ns st /\
    out_nodes st ns = Ok vs /\
    Output.output_stage (Z.to_N max_bits) banks vs = Ok (out, items).
Proof. exact cert_check2_sound. Qed.

(* ---------------- for Props/C09.v ---------------- *)

(* after the repair F77: a successful result holds no failed assertion in a constant, and every constant is its
   expression evaluated under the final state at the place the cursor walk reaches it *)
Theorem C02b_constant_not_failed : forall m banks defs mb ns1 s d0 e ctx ns2 st,
  labels_ok2 (ns1 ++ (XConst s d0 e, ctx) :: ns2) st -> Certified2 m banks defs mb (ns1 ++ (XConst s d0 e, ctx) :: ns2) st ->
  nth s (s_sym st) VUnknown <> VFailed /\
  exists c0 p0 b pos loc,
    walk banks mb ns1 st (Cursor.init_cursor banks) None = Ok (c0, p0) /\ visit banks mb (XConst s d0 e, ctx) c0 p0 = Ok (b, pos) /\
    eval code_ops (pvar2 m st ctx (Cursor.eval_address mb b pos false) false) e [] = EOk (nth s (s_sym st) VUnknown, loc).
Proof. exact certified2_const_not_failed. Qed.

(* ===== #assert directives (src/asm/resolver/assert.rs) in the Resolver2 fragment ===== *)
(* in the state behind a successful assembly every #assert condition evaluates to TRUE, in the directive's own symbol
   context, at the bank and position the cursor walk reaches it with *)
Theorem C02b_assert_holds : forall indexed defs ps budget r,
  assemble2 indexed defs ps budget = Ok r ->
  exists m ns st1 st,
    setup indexed defs ps = Some (m, ns, r_banks r, st1) /\ r_syms r = symbol_values m st /\
    Certified2 m (r_banks r) defs max_bits ns st /\
    forall ns1 e ctx ns2, ns = ns1 ++ (XAssert e, ctx) :: ns2 ->
      exists c0 p0 b pos loc,
        walk (r_banks r) max_bits ns1 st (Cursor.init_cursor (r_banks r)) None = Ok (c0, p0) /\
        visit (r_banks r) max_bits (XAssert e, ctx) c0 p0 = Ok (b, pos) /\
        eval code_ops (pvar2 m st ctx (Cursor.eval_address max_bits b pos false) false) e [] = EOk (VBool true, loc).
Proof. exact assemble2_asserts_hold. Qed.

Theorem C02b_assert_certified : forall m banks defs mb ns1 e ctx ns2 st,
  labels_ok2 (ns1 ++ (XAssert e, ctx) :: ns2) st -> Certified2 m banks defs mb (ns1 ++ (XAssert e, ctx) :: ns2) st ->
  exists c0 p0 b pos loc,
    walk banks mb ns1 st (Cursor.init_cursor banks) None = Ok (c0, p0) /\ visit banks mb (XAssert e, ctx) c0 p0 = Ok (b, pos) /\
    eval code_ops (pvar2 m st ctx (Cursor.eval_address mb b pos false) false) e [] = EOk (VBool true, loc).
Proof. exact certified2_assert. Qed.

(* a program with an assertion that is not true in ANY certified state never assembles, at any budget *)
Theorem C02b_false_assert_never_assembles : forall indexed defs ps m ns banks st1 ns1 e ctx ns2,
  setup indexed defs ps = Some (m, ns, banks, st1) -> ns = ns1 ++ (XAssert e, ctx) :: ns2 ->
  (forall st c0 p0 b pos loc,
     Certified2 m banks defs max_bits ns st ->
     walk banks max_bits ns1 st (Cursor.init_cursor banks) None = Ok (c0, p0) ->
     visit banks max_bits (XAssert e, ctx) c0 p0 = Ok (b, pos) ->
     eval code_ops (pvar2 m st ctx (Cursor.eval_address max_bits b pos false) false) e [] <> EOk (VBool true, loc)) ->
  forall budget r, assemble2 indexed defs ps budget <> Ok r.
Proof. exact assert_false_never_assembles. Qed.

Theorem C02b_unsatisfiable_assert_never_assembles : forall indexed defs ps m ns banks st1 ns1 e ctx ns2,
  setup indexed defs ps = Some (m, ns, banks, st1) -> ns = ns1 ++ (XAssert e, ctx) :: ns2 ->
  (forall pv loc, eval code_ops pv e [] <> EOk (VBool true, loc)) ->
  forall budget r, assemble2 indexed defs ps budget <> Ok r.
Proof. exact assert_unsatisfiable_never_assembles. Qed.

(* non-vacuity: a true, a false, an address-dependent and an unresolvable / ill-typed condition *)
Example C02b_assert_true_nonvacuous :
  assemble2 true [] [PData (Some 8%N) [ENum 7 None]; PAssert ex_true] 1 = Err /\
  (exists r, assemble2 true [] [PData (Some 8%N) [ENum 7 None]; PAssert ex_true] 2 = Ok r /\ r_iters r = 2%nat) /\
  (exists r, assemble2 true [] [PData (Some 8%N) [ENum 7 None]; PAssert ex_true] 5 = Ok r /\ r_iters r = 5%nat /\
             r_bits r = [false; false; false; false; false; true; true; true]).
Proof. exact assert_true_nonvacuous. Qed.
Example C02b_assert_false_nonvacuous :
  forallb (fun b => match assemble2 true [] [PData (Some 8%N) [ENum 7 None]; PAssert ex_false] b with Err => true | _ => false end)
          [1; 2; 3; 4]%nat = true.
Proof. exact assert_false_nonvacuous. Qed.
Example C02b_assert_address_nonvacuous :
  (exists r, assemble2 true [] (ex_assert_addr 1) 3 = Ok r /\ r_iters r = 3%nat) /\
  assemble2 true [] (ex_assert_addr 2) 3 = Err /\ assemble2 true [] (ex_assert_addr 1) 1 = Err.
Proof. exact assert_address_nonvacuous. Qed.
Example C02b_assert_unresolvable_nonvacuous :
  assemble2 true [] [PAssert (EVar 0 [[113%N]])] 3 = Err /\ assemble2 true [] [PAssert (ENum 5 None)] 3 = Err /\
  (exists r, assemble2 true [] [PAssert ex_true] 1 = Ok r /\ r_iters r = 1%nat).
Proof. exact assert_unresolvable_nonvacuous. Qed.
