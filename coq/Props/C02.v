(* C02 — A successful result is a genuine fixed point, never a stale guess.  Only statements. *)
From Coq Require Import NArith ZArith List Bool.
From CA Require Import Model.Lexer Model.Parser Model.BigIntOps Model.Matcher Model.Evaluator Model.Resolver
  Proofs.ResolverFixP Proofs.ResolverTopP.
Import ListNotations.

(* Whenever assembly succeeds (any budget, any matcher mode), the result is a state st from which a strict (last-mode)
   pass recomputes every label, constant, instruction, data element, reservation, alignment and address to exactly what
   st already holds, with nothing unknown; the output is built from that state, and the pass count is within budget. *)
Theorem C02_certificate : forall indexed defs names ns budget out syms n,
  syms_distinct ns ->
  assemble indexed defs names ns budget = Some (out, syms, n) ->
  exists st, Certified names defs ns st /\ syms = s_sym st /\ out = build_output ns st /\ (n <= budget)%nat.
Proof. exact assemble_certificate. Qed.

(* a pass that reports "resolved" has changed nothing: there is no stale guess behind a resolved pass *)
Theorem C02_resolved_pass_is_fixpoint : forall names defs last ns st st',
  labels_ok ns st -> pass names defs last ns st 0 Resolved = EOk (st', Resolved) -> st' = st.
Proof. exact pass_fix. Qed.

(* the only way to obtain output is through such a pass (every other path of the loop is an error) *)
Theorem C02_no_output_without_fixpoint : forall names defs ns budget st st' n,
  syms_distinct ns -> labels_ok ns st ->
  loop names defs ns budget 0 budget st = EOk (st', n) ->
  Certified names defs ns st' /\ (n <= budget)%nat.
Proof. exact certificate. Qed.
