(* C13 — Diagnostics point at the fault: the location arithmetic.
   Model: Model/CharCounter.v (util/char_counter.rs as repaired: byte-based; and the location part of
   diagn/report.rs).  Specification: Spec/LineCol.v.  Only statements; each closed by a lemma of
   Proofs/CharCounterP.v.  Text = list of Unicode scalar values, indices = byte offsets into its UTF-8 encoding;
   no hypothesis on the characters is needed (any code point, any mix of 1..4-byte characters). *)
From Coq Require Import NArith List Bool.
From CA Require Import Model.CharCounter Spec.LineCol Proofs.CharCounterP.
Import ListNotations.
Open Scope N_scope.

(* For every text and every byte index on a character boundary (the index after the prefix p), the model of
   get_line_column_at_index returns (number of '\n' in p, number of characters of p after its last '\n'). *)
Theorem C13_linecol : forall p s : text,
  get_line_column_at_index (p ++ s) (byte_len p) = (line_of p, col_of p).
Proof. exact linecol_correct. Qed.

(* the same against the executable specification that the check evaluates on the implementation's output *)
Theorem C13_linecol_exec : forall (t : text) (i : N),
  on_boundary t i -> spec_linecol t i = Some (get_line_column_at_index t i).
Proof. exact linecol_exec. Qed.

(* the executable specification is defined exactly on the character boundaries *)
Theorem C13_spec_domain : forall (t : text) (i : N), spec_linecol t i = None <-> ~ on_boundary t i.
Proof. exact spec_domain. Qed.

(* "characters since the last line feed": the executable suffix is the unique declarative last line *)
Theorem C13_last_line : forall p b : text, is_last_line p b <-> b = after_last_nl p.
Proof. exact last_line_iff. Qed.

(* line and column counters are bounded by the byte length of the text: the usize additions cannot overflow *)
Theorem C13_counters_bounded : forall (t : text) (i : N),
  let '(l, c) := get_line_column_at_index t i in l + c <= byte_len t.
Proof. exact linecol_bounded. Qed.

(* get_index_range_of_line n is the byte range of line n (its '\n' included; the empty range at the end of the
   text past the last line); both ends are on character boundaries inside the text, so the str::get of
   get_excerpt never fails and returns that line — for EVERY line number. *)
Theorem C13_line_range : forall (t : text) (n : N),
  let '(b, e) := get_index_range_of_line t n in
  (b, e) = spec_line_range t n /\ b <= e /\ e <= byte_len t /\ on_boundary t b /\ on_boundary t e /\
  get_excerpt t b e = Ok (line_or_empty t n).
Proof. exact line_range_total. Qed.

(* what spec_line_range speaks about: the lines concatenate to the text, there are get_line_count of them,
   every line but the last ends with its only '\n' and the last has none *)
Theorem C13_lines : forall t : text,
  concat (lines_nl t) = t /\ N.of_nat (length (lines_nl t)) = get_line_count t /\
  Forall (fun l => exists b, l = b ++ [NL] /\ ~ In NL b) (removelast (lines_nl t)) /\
  ~ In NL (last (lines_nl t) []).
Proof. exact lines_facts. Qed.

(* print_msg_src of a span that starts on a character boundary never panics and prints line+1 : col+1;
   every excerpt line it shows is a line of the file under its 1-based number *)
Theorem C13_print_total : forall (p s : text) (end_ : N) (short_excerpt : bool),
  exists xs, print_msg_src (p ++ s) (byte_len p) end_ short_excerpt = Ok (line_of p + 1, col_of p + 1, xs) /\
             Forall (fun '(n, x) => 1 <= n /\ x = line_or_empty (p ++ s) (n - 1)) xs.
Proof. exact print_total. Qed.

(* even for an arbitrary (invalid) span the printing code itself does not panic *)
Theorem C13_print_never_panics : forall (t : text) (start end_ : N) (short_excerpt : bool),
  print_msg_src t start end_ short_excerpt <> Panic.
Proof. exact print_never_panics. Qed.

(* ---- the PINNED algorithms (character-index loops applied to byte indices) do not have the property ---- *)
(* F3: wrong column after a multi-byte character ("e-acute LF a", index 3) *)
Theorem C13_linecol_refuted_pinned :
  exists (t : text) (i : N), on_boundary t i /\ spec_linecol t i <> Some (get_line_column_at_index_pinned t i).
Proof. exact pinned_linecol_wrong. Qed.

(* F2: the pinned line range is off a character boundary and slicing it panics ("; e'e'e'e' LF foo", line 0) *)
Theorem C13_line_range_refuted_pinned :
  exists (t : text) (n : N), n < get_line_count t /\
    (let '(b, e) := get_index_range_of_line_pinned t n in get_excerpt t b e) = Panic.
Proof. exact pinned_excerpt_panics. Qed.

Theorem C13_print_total_refuted_pinned :
  exists (t : text) (start end_ : N), on_boundary t start /\ on_boundary t end_ /\ start <= end_ /\
    print_msg_src_pinned t start end_ false = Panic.
Proof. exact pinned_print_panics. Qed.

(* non-vacuity, on "a e-acute LF hiragana-a emoji b LF" (1+2+1 + 3+4+1+1 = 13 bytes): byte 7, after the 3-byte
   character of the second line, is line 1 column 1 (0-based) and the diagnostic prints 2:2; byte 2 is inside the
   e-acute and has no line/column; line 1 is bytes 4..13; slicing 4..6 (inside a character) is the panic of str::get *)
Example C13_nonvacuous :
  let t := [97; 233; 10; 12354; 128512; 98; 10] in
  byte_len t = 13 /\
  get_line_column_at_index t 7 = (1, 1) /\ spec_linecol t 7 = Some (1, 1) /\ spec_linecol t 2 = None /\
  get_index_range_of_line t 0 = (0, 4) /\ get_index_range_of_line t 1 = (4, 13) /\
  get_index_range_of_line t 5 = (13, 13) /\
  get_excerpt t 4 13 = Ok [12354; 128512; 98; 10] /\ get_excerpt t 4 6 = Panic /\
  (exists xs, print_msg_src t 7 11 true = Ok (2, 2, xs) /\ length xs = 1%nat).
Proof. cbv zeta. repeat split. eexists. split; vm_compute; reflexivity. Qed.

(* ===== span validity for every node the line/directive parser model produces (Model/AsmParser.v, tied to
   asm::parser::parse by the astdump stream): every span lies inside the text, start <= end, both on character boundaries ===== *)
From CA Require Import Model.Lexer Model.Parser Model.AsmAst Model.AsmParser Proofs.AsmParserP.
Theorem C13_spans_valid : forall (t : text) (nodes : list anode) (w : walker) (n m : anode) (sp : span),
  parse_file t = POk nodes w -> In n nodes -> sub m n -> In sp (node_spans m) ->
  (fst sp <= snd sp /\ snd sp <= bytes_len t /\ on_boundary t (fst sp) /\ on_boundary t (snd sp))%N.
Proof. exact AsmParserP.C13_spans_valid. Qed.
Theorem C13_asm_spans_valid : forall (t : text) (nodes : list anode) (w : walker) (n m : anode) (e : xexpr) (asp : span) (body : list anode),
  parse_file t = POk nodes w -> In n nodes -> sub m n -> In e (exprs_of m) -> In (asp, body) (gexpr_payloads e) -> vspan t asp.
Proof. exact AsmParserP.C13_asm_spans_valid. Qed.
(* a token's byte length is the length of a non-empty prefix of the text: the walker only stops on character boundaries *)
Theorem C13_token_prefix : forall (t : list N) (k : tkind) (n : N), t <> nil -> decide_next_token t = (k, n) -> is_tok t n.
Proof. exact AsmParserP.decide_next_token_prefix. Qed.

(* ===== #bankdef field blocks (src/asm/parser/fields.rs, directive_bankdef.rs) with the span of the first error:
   Model/AsmFields.v, tied to the code by the `fields` stream of tools/props/ext_asmparser.py ===== *)
From CA Require Import Model.AsmFields Proofs.AsmFieldsP.
(* the located model is the unlocated one plus positions: same acceptance, same AST *)
Theorem C13_located_model_refines : forall t : text, erase (fparse_file t) = parse_file t.
Proof. exact AsmFieldsP.fparse_file_erase. Qed.
(* a field's span is exactly the token that spells its name (valid span; the text under it is the name): a running join
   of the fields' spans - seeded defect C13-4 - is excluded *)
Theorem C13_field_spans_exact : forall (t : text) (dup : bool) (fuel bd f ed g : nat) (w : walker) (l : list afield) (w' : walker),
  wf t w -> ffields dup (asm_hook fuel bd) f ed g w nil = FOk l w' ->
  Forall (fun x : afield => vspan t (snd (fst x)) /\ excerpt t (snd (fst x)) = fst (fst x)) l.
Proof. exact AsmFieldsP.C13_field_spans_exact. Qed.
(* fault localisation, for every block shape: with l the fields as written (source order), a repeated field name is
   reported at the NAME token of the first repeating field, otherwise an unknown field name at the NAME token of the
   first unknown field *)
Theorem C13_bankdef_field_fault_at_name :
  forall (t : text) (fuel bd f ed : nat) (header : span) (w : walker) (nm : span * text) (w1 : walker) (b : text) (w2 : walker)
         (l : list afield) (w3 : walker) (x : afield),
  wf t w ->
  fexpect_sp w TIdentifier = FOk nm w1 -> fexpect w1 TBraceOpen = FOk b w2 ->
  ffields false (asm_hook fuel bd) f ed f w2 nil = FOk l w3 ->
  (first_dup nil l = Some x \/ (first_dup nil l = None /\ first_unknown l = Some x)) ->
  fbankdef (asm_hook fuel bd) f ed header w = FErr (snd (fst x)) /\ In x l /\
  vspan t (snd (fst x)) /\ excerpt t (snd (fst x)) = fst (fst x).
Proof. exact AsmFieldsP.C13_bankdef_field_fault_at_name. Qed.
(* C13_spans_valid for the located model, and for the error span itself *)
Theorem C13_spans_valid_located : forall (t : text) (nodes : list anode) (w : walker) (n m : anode) (sp : span),
  fparse_file t = FOk nodes w -> In n nodes -> sub m n -> In sp (node_spans m) -> vspan t sp.
Proof. exact AsmFieldsP.C13_spans_valid_located. Qed.
Theorem C13_error_span_valid : forall (t : text) (sp : span), fparse_file t = FErr sp -> vspan t sp.
Proof. exact AsmFieldsP.C13_error_span_valid. Qed.
Example C13_bankdef_field_fault_nonvacuous :
  fparse_file fsample = FErr (37, 42)%N /\ excerpt fsample (37, 42)%N = (115 :: 105 :: 122 :: 101 :: 101 :: nil)%N /\ parse_file fsample = PErr.
Proof. exact AsmFieldsP.C13_bankdef_field_fault_nonvacuous. Qed.
