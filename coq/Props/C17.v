(* C17 — asm blocks and user functions mean what their expansion means.  Only statements.
   The asm-block theorems are about Model/AsmBlock.v, a STANDALONE model of src/asm/resolver/eval_asm.rs that is
   abstract over the one-line resolver (matcher + resolve_encoding) and over eval_address; the function theorems are
   about Model/UserFn.v (eval_fn.rs + the Call arm of expr/eval.rs) on top of Model/Evaluator.v.  Whole-program
   integration of asm blocks into Model/Resolver.v is not done: that the Rust code behaves like these models is the
   business of tools/props/c17.py (macro program = hand-inlined program on the implementation) and of reading. *)
From Coq Require Import NArith ZArith List Bool String.
From CA Require Import Model.Lexer Model.Parser Model.BigIntOps Model.Evaluator Model.Resolver Model.AsmBlock Model.UserFn
  Spec.Inline Proofs.AsmBlockP Proofs.AsmBlockBudgetP Proofs.UserFnP Gen.Generated.
Import ListNotations.
Open Scope Z_scope.

(* When the evaluation of an asm block returns a value V (in either mode of the enclosing pass), there is a valuation L
   of the block's labels, covering every label of the block, under which V is the in-place meaning of the block at the
   position of the call: every label is bound to exactly the address at which it lies, every line is the substituted
   text resolved at pos + (sizes of the lines before it) under L, and V is the concatenation (Spec.Inline). *)
Theorem asm_block_value_is_inplace : forall mr ao sub outer_last depth raw pos max V,
  eval_asm mr ao sub outer_last depth raw pos max = BOk (VInt V) ->
  exists ns ls0 L fin, prescan raw [] [] = EOk (ns, ls0) /\ covers ns L /\
    inline_block mr ao sub ns L (negb outer_last) pos = Some (V, fin).
Proof. exact eval_asm_value_inplace. Qed.

Theorem C17_block_inplace : forall mr ao sub outer_last depth raw pos max V,
  eval_asm mr ao sub outer_last depth raw pos max = BOk (VInt V) ->
  exists ns ls0 L fin, prescan raw [] [] = EOk (ns, ls0) /\ covers ns L /\
    inline_block mr ao sub ns L (negb outer_last) pos = Some (V, fin).
Proof. exact eval_asm_value_inplace. Qed.

(* Every successful outcome is either such a value — and then the confirming round was a fixed point of the label map:
   it returned the labels it was given — or Unknown, and Unknown only while the enclosing pass may still guess.
   Everything else is an error (or the position overflow of finding F62). *)
Theorem C17_block_no_stale : forall mr ao sub outer_last depth raw pos max v,
  eval_asm mr ao sub outer_last depth raw pos max = BOk v ->
  depth < EVAL_DEPTH_MAX /\
  exists ns ls0, prescan raw [] [] = EOk (ns, ls0) /\
  ((exists V L fin, v = VInt V /\ labels_wf L /\ covers ns L /\
                    inline_block mr ao sub ns L (negb outer_last) pos = Some (V, fin) /\
                    resolve_once mr ao sub false outer_last ns pos L = BOk (V, false, L))
   \/ (v = VUnknown /\ outer_last = false)).
Proof. exact eval_asm_outcomes. Qed.

(* in the strict mode (the enclosing pass is the last one) a success is always a value with the strict in-place meaning *)
Theorem C17_block_strict : forall mr ao sub depth raw pos max v,
  eval_asm mr ao sub true depth raw pos max = BOk v ->
  exists V ns ls0 L fin, v = VInt V /\ prescan raw [] [] = EOk (ns, ls0) /\
    inline_block mr ao sub ns L false pos = Some (V, fin).
Proof. exact eval_asm_strict. Qed.

(* perform_substitutions replaces exactly the listed `{name}` occurrences, left to right, and keeps all other text:
   the result is the concatenation of the pieces; an unknown name is an error.
   PARTIAL: stated for substitution lists that are in order and do not overlap (substs_wf); that
   parse_substitutions only produces such lists, one per `{identifier}` token triple outside strings and comments,
   is not proved (it is computed in the examples below and exercised by the macro stream of c17.py). *)
Theorem C17_subst_partial : forall get t ss,
  substs_wf 0 ss ->
  perform_substitutions get t ss = match pieces get t 0 ss with Some p => EOk p | None => EErr end.
Proof. exact perform_substitutions_pieces. Qed.

(* a call below the depth limit = lookup, argument count, then the body evaluated in the fresh context in which
   exactly the parameters are bound to the argument values, nested calls running one level deeper *)
Theorem C17_fn : forall O pvar fns depth name args,
  depth < EVAL_DEPTH_LIMIT ->
  eval_fn_at O pvar fns depth name args =
  match find_fn fns name with
  | None => EErr
  | Some (params, body) =>
    if Nat.eqb (List.length args) (List.length params)
    then value_of (evalx O pvar fns (eval_fn_at O pvar fns (depth + 1)) body (bind_params params args []))
    else EErr
  end.
Proof. exact eval_fn_unfold. Qed.

(* for a body that calls no further user function this is Model/Evaluator's eval of the body under those bindings *)
Theorem C17_fn_body_is_eval : forall O pvar fns depth name args params body,
  depth < EVAL_DEPTH_LIMIT ->
  find_fn fns name = Some (params, body) -> List.length args = List.length params -> callfree fns body = true ->
  eval_fn_at O pvar fns depth name args = value_of (eval O pvar body (bind_params params args [])).
Proof. exact eval_fn_body_eval. Qed.

(* the extended evaluator is Model/Evaluator's eval wherever no user function is called by name *)
Theorem C17_fn_conservative : forall O pvar fns call e ctx,
  callfree fns e = true -> evalx O pvar fns call e ctx = eval O pvar e ctx.
Proof. exact evalx_conservative. Qed.

Theorem C17_fn_only_parameters_bound : forall params args n,
  ~ In n params -> lookup (bind_params params args []) n = None.
Proof. exact bind_params_only_params. Qed.

Theorem C17_fn_wrong_count : forall O pvar fns depth name args params body,
  find_fn fns name = Some (params, body) -> List.length args <> List.length params ->
  eval_fn_at O pvar fns depth name args = EErr.
Proof. exact eval_fn_wrong_count. Qed.

(* recursion beyond the depth limit is an error, for asm blocks and for functions; one level per nested call *)
Theorem C17_depth : forall mr ao sub outer_last depth raw pos max,
  depth >= EVAL_DEPTH_MAX -> eval_asm mr ao sub outer_last depth raw pos max = BErr.
Proof. exact eval_asm_depth. Qed.

Theorem C17_depth_fn : forall O pvar fns depth name args,
  depth >= EVAL_DEPTH_LIMIT -> eval_fn_at O pvar fns depth name args = EErr.
Proof. exact eval_fn_depth. Qed.

Theorem C17_depth_step : forall depth, depth < EVAL_DEPTH_LIMIT -> remaining_of depth = S (remaining_of (depth + 1)).
Proof. exact remaining_step. Qed.

(* table obligation against the regenerated Gen/Generated.v: the limit both models use is the source's constant,
   and depth 0 (data, constants) is below it *)
Theorem C17_table_depth_limit :
  EVAL_DEPTH_MAX = Generated.EVAL_RECURSION_DEPTH_MAX /\ EVAL_DEPTH_LIMIT = Generated.EVAL_RECURSION_DEPTH_MAX /\
  (0 <? Generated.EVAL_RECURSION_DEPTH_MAX) = true.
Proof. repeat split. Qed.

(* ---------- non-vacuity ---------- *)
(* a block `j / n / l: / j` at position 16 with a forward and a backward reference to its own label: the label lies at
   address (16 + 16) / 8 = 4, the value is 04 00 04; in the strict mode, within 10 rounds *)
Example C17_block_nonvacuous :
  eval_asm toy_resolve toy_address (fun t => EOk t) true 1 toy_block 16 10 = BOk (VInt (mk 0x040004 (Some 24%N))) /\
  inline_block toy_resolve toy_address (fun t => EOk t)
    [AInstr (t_of "j"); AInstr (t_of "n"); ALabel (t_of "l"); AInstr (t_of "j")] [(t_of "l", VInt (un 4))] false 16
    = Some (mk 0x040004 (Some 24%N), 40) /\
  (* one round is not enough: Unknown while guessing, an error in the strict mode *)
  eval_asm toy_resolve toy_address (fun t => EOk t) false 1 toy_block 16 0 = BOk VUnknown /\
  eval_asm toy_resolve toy_address (fun t => EOk t) true 1 toy_block 16 0 = BErr /\
  eval_asm toy_resolve toy_address (fun t => EOk t) true Generated.EVAL_RECURSION_DEPTH_MAX toy_block 16 10 = BErr.
Proof. vm_compute. repeat split. Qed.

Example C17_subst_nonvacuous :
  substitute_line [(t_of "x", t_of "1 + 2")] [t_of "y"] (t_of "ld {x}, { y } ;* {z} *; + ""{x}""")
    = EOk (t_of "ld 1 + 2, __y ;* {z} *; + ""{x}""") /\
  substitute_line [(t_of "x", t_of "1 + 2")] [t_of "y"] (t_of "ld {z}") = EErr /\
  (exists ss, parse_substitutions (t_of "ld {x}, { y }") = EOk ss /\ substs_wf 0 ss /\ List.length ss = 2%nat).
Proof.
  split; [vm_compute; reflexivity|]. split; [vm_compute; reflexivity|].
  eexists. split; [vm_compute; reflexivity|]. split; [|reflexivity].
  cbn [substs_wf s_start s_end]. repeat split; vm_compute; discriminate.
Qed.

(* f(a, b) = a + b * 2;  cd(n) = n == 0 ? 0 : cd(n - 1) + 1 : 24 levels work from depth 0, 25 do not (limit 25) *)
Definition ex_fns : fn_table :=
  [ (t_of "f", ([t_of "a"; t_of "b"], EBin Add (EVar 0 [t_of "a"]) (EBin Mul (EVar 0 [t_of "b"]) (ENum 2 None))));
    (t_of "cd", ([t_of "n"], ETern (EBin Eq (EVar 0 [t_of "n"]) (ENum 0 None)) (ENum 0 None)
                               (EBin Add (ECall (EVar 0 [t_of "cd"]) [EBin Sub (EVar 0 [t_of "n"]) (ENum 1 None)]) (ENum 1 None)))) ].
Example C17_fn_nonvacuous :
  eval_at code_ops dummy_var ex_fns 0 (ECall (EVar 0 [t_of "f"]) [ENum 3 None; ENum 4 None]) [] = EOk (VInt (un 11), []) /\
  eval_at code_ops dummy_var ex_fns 0 (ECall (EVar 0 [t_of "f"]) [ENum 3 None]) [] = EErr /\
  eval_at code_ops dummy_var ex_fns 0 (ECall (EVar 0 [t_of "cd"]) [ENum 24 None]) [] = EOk (VInt (un 24), []) /\
  eval_at code_ops dummy_var ex_fns 0 (ECall (EVar 0 [t_of "cd"]) [ENum 25 None]) [] = EErr /\
  eval_at code_ops dummy_var ex_fns 1 (ECall (EVar 0 [t_of "cd"]) [ENum 24 None]) [] = EErr.
Proof. vm_compute. repeat split. Qed.

(* ===== the budget and the inner loop of an asm block (C09 for asm blocks; eval_asm.rs as of /repo b4e61a4) ===== *)

(* (a) no leak.  Whatever the rounds did: when the confirming round is not stable, the block's value is Unknown if the
   enclosing pass may guess and an error if it may not; the latest estimate x never leaves the block. *)
Theorem C17_block_no_leak : forall mr ao sub outer_last ns pos max ls ls1 x ls2,
  rounds mr ao sub outer_last ns pos max 0 max ls = BOk ls1 ->
  resolve_once mr ao sub false outer_last ns pos ls1 = BOk (x, true, ls2) ->
  resolve_iteratively mr ao sub outer_last ns pos max ls = if outer_last then BErr else BOk VUnknown.
Proof. exact no_leak. Qed.

(* every success of the whole entry point is a fixed point of the confirming round (labels in = labels out) or Unknown
   in a guessing pass *)
Theorem C17_block_success_is_fixpoint_or_unknown : forall mr ao sub outer_last depth raw pos n v,
  eval_asm mr ao sub outer_last depth raw pos n = BOk v ->
  (exists V ns ls0 L, v = VInt V /\ prescan raw [] [] = EOk (ns, ls0) /\
                      resolve_once mr ao sub false outer_last ns pos L = BOk (V, false, L))
  \/ (v = VUnknown /\ outer_last = false).
Proof. exact eval_asm_no_leak. Qed.

(* (b) budget independence of a value: under mode agreement of the one-line resolver (what the strict mode settles on,
   the guessing mode settles on too), a value obtained with round budget n is obtained with every larger budget *)
Theorem C17_block_budget_monotone : forall mr ao sub outer_last,
  (forall line pos ls enc, mr line pos ls false = EOk (Some enc) -> mr line pos ls true = EOk (Some enc)) ->
  forall depth raw pos n n' V, (n <= n')%nat ->
  eval_asm mr ao sub outer_last depth raw pos n = BOk (VInt V) ->
  eval_asm mr ao sub outer_last depth raw pos n' = BOk (VInt V).
Proof. exact eval_asm_budget_monotone. Qed.

(* the hypothesis holds for Model/Resolver.v's resolver (match_instr + resolve_encoding over pvar, the block's labels
   handed in through the variable provider), so for blocks over that resolver there is no hypothesis left *)
Theorem C17_resolver_line_mode_agree : forall indexed defs names st line pos ls enc,
  resolver_line indexed defs names st line pos ls false = EOk (Some enc) ->
  resolver_line indexed defs names st line pos ls true = EOk (Some enc).
Proof. exact resolver_line_mode_agree. Qed.

Theorem C17_block_budget_monotone_resolver : forall indexed defs names st sub outer_last depth raw pos n n' V,
  (n <= n')%nat ->
  eval_asm (resolver_line indexed defs names st) address_at sub outer_last depth raw pos n = BOk (VInt V) ->
  eval_asm (resolver_line indexed defs names st) address_at sub outer_last depth raw pos n' = BOk (VInt V).
Proof. exact resolver_block_budget_monotone. Qed.

(* REFUTED: "the outcome of a block in a guessing pass does not depend on the budget".  Values are budget independent
   (above), but WHETHER a guessing pass gets a value or Unknown is not: the toy block yields Unknown with budget 0 and
   its value with budget 10, with a line resolver that satisfies mode agreement.  This Unknown/value distinction is the
   channel of the defect reproduced on the real code (a slowly settling block + an instruction with two consistent
   encodings: success at -t 4, different bits at every larger budget); the whole-program extension of C09_monotone to
   programs with asm blocks is therefore false of the code and is not stated. *)
Theorem C17_block_guess_outcome_budget_independent_refuted :
  exists mr ao sub depth raw pos n n' V,
    (forall line p ls enc, mr line p ls false = EOk (Some enc) -> mr line p ls true = EOk (Some enc)) /\
    (n <= n')%nat /\
    eval_asm mr ao sub false depth raw pos n = BOk VUnknown /\
    eval_asm mr ao sub false depth raw pos n' = BOk (VInt V).
Proof. exact toy_block_outcome_depends_on_budget. Qed.

Example C17_block_budget_nonvacuous :
  eval_asm toy_resolve toy_address (fun t => EOk t) true 1 toy_block 16 2 = BOk (VInt (mk 0x040004 (Some 24%N))) /\
  eval_asm toy_resolve toy_address (fun t => EOk t) true 1 toy_block 16 30 = BOk (VInt (mk 0x040004 (Some 24%N))) /\
  eval_asm toy_resolve toy_address (fun t => EOk t) true 1 toy_block 16 1 = BErr.
Proof. vm_compute. repeat split. Qed.

(* ===== substitution hygiene across nesting levels (EvalContext::new_deepened starts from NO token substitutions) ===== *)

(* a context one level deeper knows no textual substitution at all: nothing of the caller's `{name}` map is inherited *)
Theorem C17_deepened_context_has_no_substitutions : forall parent n, ctx_token_subst (new_deepened parent) n = None.
Proof. exact deepened_forgets. Qed.

(* an inner binding shadows every outer textual substitution of the same name:
   a by-value local n of an inner rule is substituted by its hygienised name ... *)
Theorem C17_inner_local_shadows_outer_substitution : forall parent ps n v,
  ~ In n (map (fun p => fst (fst p)) ps) ->
  ctx_token_subst (ctx_set_local (rule_ctx parent ps) n v) n = Some (hygienize_name n).
Proof. exact inner_local_shadows_outer_subst. Qed.

(* ... a rule parameter by ITS argument text ... *)
Theorem C17_inner_parameter_shadows_outer_substitution : forall parent ps1 n v t ps2,
  ~ In n (map (fun p => fst (fst p)) ps2) ->
  ctx_token_subst (rule_ctx parent (ps1 ++ (n, v, t) :: ps2)) n = Some t.
Proof. exact inner_param_shadows_outer_subst. Qed.

(* ... and inside a function body a parameter is substituted BY VALUE, whatever the caller's context binds the name to *)
Theorem C17_fn_parameter_substituted_by_value : forall caller ps n,
  In n (map fst ps) -> ctx_token_subst (fn_ctx caller ps) n = Some (hygienize_name n).
Proof. exact fn_param_substituted_by_value. Qed.

Example C17_shadowing_nonvacuous :
  let outer := rule_ctx ctx_new [(t_of "a", VInt (un 5), t_of "5")] in
  ctx_token_subst outer (t_of "a") = Some (t_of "5") /\
  ctx_token_subst (ctx_set_local (rule_ctx outer [(t_of "b", VInt (un 10), t_of "{a} * 2")]) (t_of "a") (VInt (un 11))) (t_of "a") = Some (t_of "__a") /\
  ctx_token_subst (fn_ctx outer [(t_of "a", VInt (un 6))]) (t_of "a") = Some (t_of "__a").
Proof. vm_compute. repeat split. Qed.

(* ===== the unstable flag of a round is a DISJUNCTION over the node list ===== *)
(* once a label has moved (or a line had no encoding) the round stays unstable whatever the later nodes do: no later
   label can reset the flag *)
Theorem C17_block_unstable_monotone : forall mr ao sub first last ns pos res ls v u ls',
  resolve_nodes mr ao sub first last ns pos res true ls = BOk (v, u, ls') -> u = true.
Proof. exact unstable_mono. Qed.

(* hence a round that ends stable has moved NO label: the label map it returns is the one it was given, and its value
   is the in-place meaning under that map (every label, not just the last one, equals the address where it lies) *)
Theorem C17_block_stable_round_moves_no_label : forall mr ao sub first last ns pos res ls V ls',
  labels_wf ls -> covers ns ls ->
  resolve_nodes mr ao sub first last ns pos res false ls = BOk (V, false, ls') ->
  ls' = ls /\ exists fin, inline_nodes mr ao sub ns ls (negb last) pos res = Some (V, fin).
Proof. exact stable_round. Qed.
