(* C14 — File inclusion is relative, confined, acyclic and once-only where asked.
   Only statements; each closed by a lemma of Proofs/PathsP.v, Proofs/IncludesP.v, Proofs/IncFnsP.v.
   Model: Model/Paths.v (util::filename_navigate), Model/Includes.v (parse_and_resolve_includes over a
   file-system oracle), Model/IncFns.v (incbin / incbinstr / inchexstr).  Spec: Spec/PathSpec.v. *)
From Coq Require Import ZArith NArith List Bool.
From CA Require Import Model.Paths Model.Includes Model.IncFns Spec.PathSpec
  Proofs.PathsP Proofs.IncludesP Proofs.IncludesDetP Proofs.IncFnsP.
Import ListNotations.
Open Scope nat_scope.

(* ---------------------------------------------------------------- paths *)
(* navigate = the reference normaliser on component lists (both slash styles, `.`/empty dropped, `..` pops,
   leading separator restarts at the project root, rejected when `..` would pop past the start or nothing is
   named), for a relative current file whose directory part has no `.` component.  The two hypotheses are
   findings (next two theorems). *)
Theorem C14_navigate_spec : forall cur rel, absolute cur = false -> no_dot_dir cur = true ->
  navigate cur rel = match spec_navigate cur rel with Some p => ROk p | None => RErr end.
Proof. exact navigate_spec_rel. Qed.

(* finding F46: `./m` + `../a` is resolved to `a` (the `.` is what `..` pops) instead of being rejected *)
Theorem C14_navigate_dot_refuted :
  exists cur rel, absolute cur = false /\ spec_navigate cur rel = None /\ navigate cur rel = ROk [97%N].
Proof. exact navigate_dot_refuted. Qed.

(* finding F46 (absolute variant): `/m` + `../a` pops the leading empty component and yields the relative `a` *)
Theorem C14_navigate_abs_refuted :
  exists cur rel, no_dot_dir cur = true /\ spec_navigate cur rel = None /\ navigate cur rel = ROk [97%N].
Proof. exact navigate_abs_refuted. Qed.

(* confinement: whatever the spelling, a relative current file and a non-<std> path give a relative name
   without `..` and without empty components (hence, by induction over nested inclusions, every name handed to
   the file server stays below the working directory); without `.` in the current directory part the
   answer has no `.` component either *)
Theorem C14_confined : forall cur rel p,
  absolute cur = false -> is_std_path rel = false -> navigate cur rel = ROk p ->
  no_escape p = true /\ (no_dot_dir cur = true -> confined p = true).
Proof. exact navigate_confined. Qed.

(* `..` past the start is an error *)
Theorem C14_confined_escape_rejected : forall cur rel,
  absolute cur = false -> no_dot_dir cur = true -> is_std_path rel = false -> absolute rel = false ->
  (match walk [] (dir_components cur) with Some st => walk st (components rel) | None => None end) = None ->
  navigate cur rel = RErr.
Proof. exact navigate_escape_rejected. Qed.

Theorem C14_navigate_total : forall cur rel, navigate cur rel <> RPanic /\ navigate cur rel <> RFuel.
Proof. exact navigate_no_panic. Qed.

(* `<std>/` paths: passed verbatim to the file server (which answers them from the embedded table alone: C14_std_embedded_only) and never
   containing `..`; rejected otherwise *)
Theorem C14_std : forall cur rel, is_std_path rel = true ->
  (navigate cur rel = RErr /\ existsb (fun c => text_eqb c dotdot) (components rel) = true) \/
  (navigate cur rel = ROk rel /\ forallb (fun c => negb (text_eqb c dotdot)) (components rel) = true).
Proof. exact navigate_std. Qed.

(* `<std>/` names only ever name the embedded library: whatever is on disk (for instance a real directory
   called `<std>`), the real file server answers them from the embedded table alone *)
Theorem C14_std_embedded_only : forall (A : Type) (std : list (text * A)) disk name,
  is_std_path name = true -> real_lookup std disk name = assoc name std.
Proof. exact std_lookup_embedded_only. Qed.

(* every other name that is not in the table is answered with the content on disk, verbatim: what incbin & co.
   slice (C14_incbin ...) are the bytes on disk.  Tied to FileServerReal by the bytes-on-disk stream. *)
Theorem C14_real_lookup_verbatim : forall (A : Type) (std : list (text * A)) disk name,
  is_std_path name = false -> assoc name std = None -> real_lookup std disk name = disk name.
Proof. exact real_lookup_verbatim. Qed.

(* ---------------------------------------------------------------- include expansion *)
(* with fuel |files| + 2 the expansion never runs out of fuel and never panics, for every file system
   whose existing files are among `dom` *)
Theorem C14_terminates : forall fs dom, (forall n items, fs n = Some items -> In n dom) ->
  forall root, expand_root fs (length dom + 2) root <> RPanic /\ expand_root fs (length dom + 2) root <> RFuel.
Proof. exact expand_root_nopanic. Qed.

(* a cycle of inclusions is an error: if some file reachable from the root (through any files, with or
   without #once) starts an endless chain of inclusions through files that do not say #once — in a finite file
   system: lies on, or leads through such files to, a cycle of such files — the expansion reports an error
   (and by C14_terminates it never loops).  A cycle through a file that says #once is not endless: that file
   is skipped the second time (or, when it is not the root, reported as recursive; both are finite). *)
Theorem C14_cycle : forall fs dom root c,
  (forall n items, fs n = Some items -> In n dom) ->
  reach fs root c -> on_endless_path fs c ->
  expand_root fs (length dom + 2) root = RErr.
Proof. exact expand_cycle_err_general. Qed.

(* special case: the endless chain starts at the root itself *)
Theorem C14_cycle_from_root : forall fs dom (path : nat -> text),
  (forall n items, fs n = Some items -> In n dom) ->
  (forall i, once_free fs (path i) /\ inc_edge fs (path i) (path (S i))) ->
  expand_root fs (length dom + 2) (path 0) = RErr.
Proof. exact expand_cycle_err. Qed.

(* every file reachable from the root is opened by a successful expansion *)
Theorem C14_opens_reachable : forall fs fuel root ns o lg,
  expand_root fs fuel root = ROk (ns, o, lg) -> forall n, reach fs root n -> In n lg.
Proof. exact expand_root_opens_reachable. Qed.

(* a file that says #once is opened and expanded at most once in a whole expansion *)
Theorem C14_once : forall fs fuel root ns o lg n,
  expand_root fs fuel root = ROk (ns, o, lg) -> has_once fs n -> opened_count n lg <= 1.
Proof. exact expand_root_once. Qed.

(* what a successful expansion returns is the declarative splice-in-place expansion of Spec/PathSpec.v:
   the nodes of an included file stand exactly where the directive stood, every time, files in the
   once-set contributing nothing *)
Theorem C14_splice : forall fs fuel root ns o lg,
  expand_root fs fuel root = ROk (ns, o, lg) -> Exp fs root [] ns o.
Proof. exact expand_root_exp. Qed.

(* the splice expansion is a function: a file system, a root and a once-set determine at most one result.  With
   C14_splice this makes "the nodes stand exactly where the directive stood" a complete description of a success *)
Theorem C14_splice_unique : forall fs name once out o out' o',
  Exp fs name once out o -> Exp fs name once out' o' -> out = out' /\ o = o'.
Proof. exact Exp_det. Qed.

(* completeness: what the splice expansion yields is what the expansion returns, unless it reports an error *)
Theorem C14_splice_complete : forall fs dom root ns o,
  (forall n items, fs n = Some items -> In n dom) ->
  Exp fs root [] ns o ->
  expand_root fs (length dom + 2) root <> RErr ->
  exists lg, expand_root fs (length dom + 2) root = ROk (ns, o, lg).
Proof. exact expand_root_complete. Qed.

(* the amount of fuel never changes a successful result *)
Theorem C14_fuel_independent : forall fs f1 f2 root ns1 o1 lg1 ns2 o2 lg2,
  expand_root fs f1 root = ROk (ns1, o1, lg1) -> expand_root fs f2 root = ROk (ns2, o2, lg2) ->
  ns1 = ns2 /\ o1 = o2.
Proof. exact expand_root_fuel_indep. Qed.

(* an error has a cause: the expansion fails only because a reachable name does not exist, a reachable directive's
   file name is refused, or a reachable directive names a file that is being expanded (it reaches the including
   file again) -- never spuriously; and a finite file system without such a fault expands to its splice *)
Theorem C14_error_has_cause : forall fs fuel root, expand_root fs fuel root = RErr -> fault fs root.
Proof. exact expand_root_err_cause. Qed.

Theorem C14_no_fault_ok : forall fs dom root,
  (forall n items, fs n = Some items -> In n dom) -> ~ fault fs root ->
  exists ns o lg, expand_root fs (length dom + 2) root = ROk (ns, o, lg) /\ Exp fs root [] ns o.
Proof. exact expand_root_ok_of_no_fault. Qed.

(* ---------------------------------------------------------------- inclusion functions *)
Open Scope Z_scope.
(* exact characterisation: the requested bytes, and an error for every range that starts at or after the end,
   ends after it, or has a negative / non-usize bound.  (isize_max: no Rust allocation is larger.) *)
Theorem C14_incbin : forall bytes s n, Z.of_nat (length bytes) <= isize_max ->
  incbin bytes (A3 s n) =
    if (0 <=? s) && (s <? Z.of_nat (length bytes)) && (0 <=? n) && (s + n <=? Z.of_nat (length bytes))
    then ROk (firstn (Z.to_nat n) (skipn (Z.to_nat s) bytes)) else RErr.
Proof. exact incbin_A3. Qed.

Theorem C14_incbin_from : forall bytes s, Z.of_nat (length bytes) <= isize_max ->
  incbin bytes (A2 s) =
    if (0 <=? s) && (s <? Z.of_nat (length bytes)) then ROk (skipn (Z.to_nat s) bytes) else RErr.
Proof. exact incbin_A2. Qed.

Theorem C14_incbin_whole : forall bytes, incbin bytes A1 = ROk bytes.
Proof. exact incbin_A1. Qed.

Theorem C14_incbinstr : forall chars ds s n, read_digits 1 chars = Some ds ->
  Z.of_nat (length ds * 1) <= isize_max ->
  incbinstr chars (A3 s n) =
    if (0 <=? s) && (s <? Z.of_nat (length ds)) && (0 <=? n) && (s + n <=? Z.of_nat (length ds))
    then ROk (digits_bits 1 (firstn (Z.to_nat n) (skipn (Z.to_nat s) ds))) else RErr.
Proof. exact incbinstr_A3. Qed.

Theorem C14_inchexstr : forall chars ds s n, read_digits 4 chars = Some ds ->
  Z.of_nat (length ds * 4) <= isize_max ->
  inchexstr chars (A3 s n) =
    if (0 <=? s) && (s <? Z.of_nat (length ds)) && (0 <=? n) && (s + n <=? Z.of_nat (length ds))
    then ROk (digits_bits 4 (firstn (Z.to_nat n) (skipn (Z.to_nat s) ds))) else RErr.
Proof. exact inchexstr_A3. Qed.

(* start only / no range, for either digit width *)
Theorem C14_incstr_from : forall bpc chars ds s, (1 <= bpc)%nat -> read_digits bpc chars = Some ds ->
  Z.of_nat (length ds * bpc) <= isize_max ->
  incstr bpc chars (A2 s) =
    if (0 <=? s) && (s <? Z.of_nat (length ds)) then ROk (digits_bits bpc (skipn (Z.to_nat s) ds)) else RErr.
Proof. exact incstr_A2. Qed.

Theorem C14_incstr_whole : forall bpc chars ds, (1 <= bpc)%nat -> read_digits bpc chars = Some ds ->
  Z.of_nat (length ds * bpc) <= isize_max -> incstr bpc chars A1 = ROk (digits_bits bpc ds).
Proof. exact incstr_A1. Qed.

(* the digits are those of the non-blank characters (space, tab, CR, LF, `_` skipped); any other non-digit
   makes the call an error *)
Theorem C14_incstr_digits : forall bpc chars,
  read_digits bpc chars =
    let cs := filter (fun c => negb (is_blank c)) chars in
    if forallb (fun c => match to_digit (2 ^ N.of_nat bpc) c with Some _ => true | None => false end) cs
    then Some (flat_map (fun c => match to_digit (2 ^ N.of_nat bpc) c with Some d => [d] | None => [] end) cs)
    else None.
Proof. exact read_digits_spec. Qed.

Theorem C14_incstr_bad_content : forall bpc chars a, read_digits bpc chars = None -> incstr bpc chars a = RErr.
Proof. exact incstr_bad_content. Qed.

Theorem C14_incfns_total : forall bytes chars bpc a, Z.of_nat (length bytes) <= isize_max -> (1 <= bpc)%nat ->
  (forall ds, read_digits bpc chars = Some ds -> Z.of_nat (length ds * bpc) <= isize_max) ->
  (incbin bytes a <> RPanic /\ incbin bytes a <> RFuel) /\ (incstr bpc chars a <> RPanic /\ incstr bpc chars a <> RFuel).
Proof. exact incfns_no_panic. Qed.

(* ---------------------------------------------------------------- non-vacuity *)
Close Scope Z_scope.
Open Scope N_scope.
(* "d/m" + "..\\x//y" = "x/y" ; "m" + "../x" rejected ; "<std>/../x" rejected *)
Example C14_nonvacuous_paths :
  navigate [100; 47; 109] [46; 46; 92; 120; 47; 47; 121] = ROk [120; 47; 121] /\
  navigate [109] [46; 46; 47; 120] = RErr /\
  navigate [109] (std_prefix ++ [46; 46; 47; 120]) = RErr /\
  no_escape [120; 47; 121] = true /\ no_escape [46; 46; 47; 120] = false /\ no_escape [47; 120] = false.
Proof. repeat split. Qed.

(* files: m = [1; include a; include a; 2], a = [#once; 3; include m] : a is expanded once; without the #once
   (and without the back edge's target saying #once) the cycle m -> a -> m is an error *)
Example C14_nonvacuous_expand :
  expand_root (ex_fs true) 4 [109] = RErr /\
  expand_root (fun n => if text_eqb n [97] then Some [Once; Other 3] else ex_fs true n) 4 [109]
    = ROk ([1; 3; 2], [[97]], [[109]; [97]]) /\
  expand_root (ex_fs false) 4 [109] = RErr /\
  expand_root (ex_fs false) 1 [109] = RFuel.
Proof. repeat split. Qed.

(* the premises of C14_cycle are satisfiable: file `a` = [include a] is reachable from itself and endless *)
Example C14_nonvacuous_cycle :
  let fs := fun n => if text_eqb n [97] then Some [Include [97]] else None in
  reach fs [97] [97] /\ on_endless_path fs [97] /\ expand_root fs 3 [97] = RErr.
Proof. exact cycle_example. Qed.

(* premises of C14_no_fault_ok / C14_error_has_cause are satisfiable: a fault-free system and a faulty one *)
Example C14_nonvacuous_fault :
  let fs1 := fun n => if text_eqb n [109] then Some [Other 1] else None in
  let fs2 := fun n => if text_eqb n [97] then Some [Include [97]] else None in
  ~ fault fs1 [109] /\ fault fs2 [97] /\ expand_root fs1 3 [109] = ROk ([1], [], [[109]]).
Proof. exact fault_examples. Qed.

Example C14_nonvacuous_incfns :
  incbin [1; 2; 3] (A3 1 2) = ROk [2; 3] /\ incbin [1; 2; 3] (A3 1 3) = RErr /\ incbin [] (A3 0 0) = RErr /\
  incbin [1] (A3 1 18446744073709551615) = RErr /\
  inchexstr [97; 95; 70; 32; 51] (A3 1 1) = ROk [true; true; true; true] /\
  incbinstr [49; 50] A1 = RErr /\ incbinstr [] A1 = ROk [].
Proof. repeat split. Qed.
