(* C16 — Conditional assembly and command-line defines select exactly one world.
   Only statements; each closed by a lemma of Proofs/CondEvalP.v, Proofs/CondLoopP.v, Proofs/CondSelectP.v
   (the define parsing: Proofs/DriverP.v, shared with C18).
   Model: Model/Cond.v (first loop of asm::assemble).  Specification: Spec/Select.v (direct interpreter).
   `run optst ds tree = ROk (its, t)`: the loop ended, no `#if` is left, no define is unused; `its` is the final
   top-level node list, `t` the final symbol table, `lookup t` the final valuation. *)
From Coq Require Import ZArith NArith List Bool.
From CA Require Import Model.Driver Model.Cond Spec.Select Proofs.DriverP Proofs.CondEvalP Proofs.CondLoopP Proofs.CondSelectP Proofs.CondFixP Proofs.CondTotalP.
Import ListNotations.
Open Scope list_scope.

(* more constants known never changes a definite result (strict operators propagate Unknown, lazy operators decide
   on a definite left operand only) *)
Theorem eval_monotone : forall f g e v, le_lk f g -> eval f e = ROk v -> v <> VUnknown -> eval g e = ROk v.
Proof. exact eval_mono. Qed.

(* ... and an evaluation error is final as well *)
Theorem eval_error_monotone : forall f g e c, le_lk f g -> eval f e = RErr c -> exists c', eval g e = RErr c'.
Proof. exact eval_mono_err. Qed.

(* the final node list is the direct interpretation of the tree under the FINAL valuation: every #if was replaced by
   the first arm whose condition is true under it (else-arm, or nothing), to any depth *)
Theorem C16_consistent : forall optst ds tree its t, run optst ds tree = ROk (its, t) ->
  map forget its = select_all (lookup t) tree.
Proof. exact run_consistent. Qed.

(* nothing of an unselected arm is ever declared, defined or emitted: every node of the final list is a node of the
   selected world, every node of it is declared, and every declaration of the final table belongs to one of them *)
Theorem C16_invisible : forall optst ds tree its t, run optst ds tree = ROk (its, t) ->
  (forall n, In n (map forget its) <-> In n (select_all (lookup t) tree)) /\
  (forall lvl nm s d, In (ISym lvl nm s d) its -> exists p en, d = Some p /\ find_entry p t = Some en) /\
  (forall en, In en t -> exists lvl nm s, In (NSym lvl nm s) (select_all (lookup t) tree) /\
                                          In (ISym lvl nm s (Some (e_path en))) its /\ e_kind en = kind_of s).
Proof. exact run_invisible. Qed.

(* a condition on the selected path that is not a definite boolean under the final valuation => not accepted *)
Theorem C16_undecidable : forall optst ds tree its t, run optst ds tree = ROk (its, t) ->
  decided_all (lookup t) tree = true /\ existsb is_if its = false.
Proof. exact run_undecidable. Qed.

(* a define replaces the value of the constant with that full name ... *)
Theorem C16_define : forall optst ds tree its t, run optst ds tree = ROk (its, t) ->
  forall lvl nm e p v, In (ISym lvl nm (SConst e) (Some p)) its -> find_define (join_dot p) ds = Some v ->
  exists en, find_entry p t = Some en /\ e_value en = v.
Proof. exact run_define'. Qed.

(* ... before any use: in every state of the loop (the invariant `Good`) the value of such a constant is Unknown or the
   define's, never that of its own expression; and by monotonicity every condition decided meanwhile saw one of the two *)
Theorem C16_define_before_use : forall ds t its, Good ds t its ->
  forall lvl nm e p en v, In (ISym lvl nm (SConst e) (Some p)) its -> find_entry p t = Some en ->
  find_define (join_dot p) ds = Some v -> e_value en = VUnknown \/ e_value en = v.
Proof. exact good_define. Qed.

Theorem C16_loop_invariant : forall optst ds fuel t its prev itsF tF,
  loop fuel optst ds t its prev = ROk (itsF, tF) -> Good ds t its -> Good ds tF itsF /\ le_lk (lookup t) (lookup tF).
Proof. exact loop_invariant. Qed.

(* a define that names no declared constant (undeclared, a label, a name only an unselected arm declares) => not accepted *)
Theorem C16_unused : forall optst ds tree its t, run optst ds tree = ROk (its, t) ->
  forall n v, In (n, v) ds -> exists en, find_entry (split_on 46%N n) t = Some en /\ e_kind en = KConst.
Proof. exact run_unused. Qed.

(* the loop does not stop while a constant is still becoming known: its end test compares the number of constants in state
   Resolved -- INCLUDING those already final (literal constants, -d overrides) -- with the previous round's, so an equal
   count means no constant changed state; hence a constant still unknown at the end evaluates to Unknown under the FINAL
   valuation as well (the final valuation is a fixed point), for forward chains of any length.  A count that leaves out
   the already-final constants (seeded change C16-5) breaks exactly the step `prev <= C t its` of Proofs/CondFixP.round_count. *)
Theorem C16_loop_complete : forall optst ds tree its t, run optst ds tree = ROk (its, t) ->
  forall lvl nm e p en, In (ISym lvl nm (SConst e) (Some p)) its -> find_entry p t = Some en ->
    find_define (join_dot p) ds = None -> e_resolved en = false -> e_value en = VUnknown ->
    eval (lookup t) e = ROk VUnknown.
Proof. exact run_complete. Qed.

(* hierarchical names: the override (full name of the declaration) and the unused check (name split at '.') agree *)
Theorem C16_define_hierarchical : forall p, p <> [] -> (forall x, In x p -> x <> [] /\ ~ In 46%N x) ->
  split_on 46%N (join_dot p) = p.
Proof. exact split_join_dot. Qed.

(* NAME, NAME=true|false, NAME=[-]literal; empty value and a second '=' are errors (the C18 theorem, re-exported) *)
Theorem C16_define_parse : forall name, ~ In 61%N name ->
  parse_define name = COk (name, DBool true) /\
  parse_define (name ++ 61%N :: t_true) = COk (name, DBool true) /\
  parse_define (name ++ 61%N :: t_false) = COk (name, DBool false) /\
  parse_define (name ++ [61%N]) = CErr (EDefineValue name) /\
  parse_define (name ++ [61%N; 45%N]) = CErr (EDefineValue name).
Proof. exact define_parse_short. Qed.

(* totality.  The loop ends within  round_bound tree = (#if nodes, nested ones included) + (constants, ditto) + 1  rounds:
   every round but the last splices an #if or makes a constant known.  So any fuel >= round_bound gives the answer of `run`
   (whose own fuel, computed from the program, is >= round_bound), and that answer is never the fuel value ... *)
Theorem C16_fuel : forall optst ds tree fuel, round_bound tree <= fuel ->
  run_fuel fuel optst ds tree = run optst ds tree /\ run_fuel fuel optst ds tree <> RFuel.
Proof. exact run_fuel_bound. Qed.

(* ... and never a panic value: the `item_ref.unwrap()` and `defs.symbols.get(item_ref)` of resolve_constant_simple /
   next_simple (the only panic sites the model has) are unreachable, because collect + define_symbols run first in every
   round (every symbol of the flat list is declared and defined when the constants are visited). *)
Theorem C16_total : forall optst ds tree,
  (exists its t, run optst ds tree = ROk (its, t)) \/ (exists c, run optst ds tree = RErr c).
Proof. exact run_ok_or_err. Qed.

(* the same, for every state the loop can be in *)
Theorem C16_round_total : forall optst ds t its prev, Good ds t its ->
  round optst ds t its prev <> RPanic /\ round optst ds t its prev <> RFuel.
Proof. exact round_total. Qed.

(* a result does not depend on the fuel once it is not the fuel value (kept from the earlier partial statement) *)
Theorem C16_fuel_irrelevant : forall optst ds tree fuel k r,
  run_fuel fuel optst ds tree = r -> r <> RFuel -> run_fuel (fuel + k) optst ds tree = r.
Proof. exact run_fuel_mono. Qed.

(* ---- non-vacuity --------------------------------------------------------------------------------------------------- *)
From Coq Require Import String.
Open Scope string_scope.
Definition T (s : string) : text := txt s.
Definition v0 (s : string) : cexpr := CVar 0 [T s].
(*  #if y == 2 { #d8 7 } #elif y == 3 { #d8 8 } #else { #d8 9 }  /  #if x == 1 { y = 2 }  /  x = 1   *)
Definition ex_tree : list node :=
  [ NIf (CBin OEq (v0 "y") (CInt 2)) [NOther 7] (Some [NIf (CBin OEq (v0 "y") (CInt 3)) [NOther 8] (Some [NOther 9])]);
    NIf (CBin OEq (v0 "x") (CInt 1)) [NSym 0 (T "y") (SConst (CInt 2))] None;
    NSym 0 (T "x") (SConst (CInt 1)) ].
Definition outcome (r : er (list item * table)) : option (list N * list (text * cval)) :=
  match r with ROk (its, t) => Some (markers (map forget its), map (fun en => (join_dot (e_path en), e_value en)) t) | _ => None end.

Example C16_nonvacuous :
  outcome (run true [] ex_tree) = Some ([7%N], [(T "x", VInt 1); (T "y", VInt 2)]) /\
  outcome (run true [(T "y", VInt 3)] ex_tree) = Some ([8%N], [(T "x", VInt 1); (T "y", VInt 3)]) /\
  outcome (run false [(T "y", VInt 5)] ex_tree) = Some ([9%N], [(T "x", VInt 1); (T "y", VInt 5)]) /\
  run true [(T "x", VInt 0)] ex_tree = RErr ELeftover /\                 (* y is never declared: `y == 2` stays unknown *)
  run true [(T "z", VBool true)] ex_tree = RErr EUnused /\
  run true [] [NSym 0 (T "l") SLabel; NIf (CBin OEq (v0 "l") (CInt 0)) [NOther 1] None] = RErr ELeftover /\
  run true [(T "l", VInt 5)] [NSym 0 (T "l") SLabel] = RErr EUnused /\
  run true [] [NSym 0 (T "x") (SConst (CInt 1)); NIf (CBool true) [NSym 0 (T "x") (SConst (CInt 2))] None] = RErr EDup /\
  outcome (run true [] [NSym 0 (T "x") (SConst (CInt 1)); NIf (CBool false) [NSym 0 (T "x") (SConst (CInt 2)); NOther 1] None])
    = Some ([], [(T "x", VInt 1)]) /\
  (* lazy operators decide on a definite left operand only *)
  eval (fun _ _ => VUnknown) (CBin OLazyOr (CBool true) (v0 "g")) = ROk (VBool true) /\
  eval (fun _ _ => VUnknown) (CBin OLazyOr (v0 "g") (CBool true)) = ROk VUnknown /\
  (* hierarchical define *)
  outcome (run true [(T "a.b", VInt 5)] [NSym 0 (T "a") SLabel; NSym 1 (T "b") (SConst (CInt 2));
                                         NIf (CBin OEq (CVar 0 [T "a"; T "b"]) (CInt 5)) [NOther 1] (Some [NOther 2])])
    = Some ([1%N], [(T "a", VUnknown); (T "a.b", VInt 5)]) /\
  run true [(T "b", VInt 5)] [NSym 0 (T "a") SLabel; NSym 1 (T "b") (SConst (CInt 2))] = RErr EUnused.
Proof. vm_compute. repeat split. Qed.

(* a forward chain of constants three links long ending in a literal (or a define) reaches the condition, whatever the
   setting of the static switch *)
Definition ex_chain : list node :=
  [ NSym 0 (T "h0") (SConst (v0 "h1")); NSym 0 (T "h1") (SConst (v0 "h2")); NSym 0 (T "h2") (SConst (CInt 1));
    NIf (CBin OEq (v0 "h0") (CInt 1)) [NOther 17] (Some [NIf (CBin OEq (v0 "h0") (CInt 2)) [NOther 34] (Some [NOther 51])]) ].
Example C16_forward_chain :
  outcome (run true [] ex_chain) = Some ([17%N], [(T "h0", VInt 1); (T "h1", VInt 1); (T "h2", VInt 1)]) /\
  outcome (run false [] ex_chain) = Some ([17%N], [(T "h0", VInt 1); (T "h1", VInt 1); (T "h2", VInt 1)]) /\
  outcome (run true [(T "h2", VInt 2)] ex_chain) = Some ([34%N], [(T "h0", VInt 2); (T "h1", VInt 2); (T "h2", VInt 2)]) /\
  outcome (run true [(T "h2", VInt 7)] ex_chain) = Some ([51%N], [(T "h0", VInt 7); (T "h1", VInt 7); (T "h2", VInt 7)]).
Proof. vm_compute. repeat split. Qed.

(* the bound on the rounds is tight: `#if true { x = 1 }` needs 1 + 1 + 1 rounds (splice; x becomes known; nothing changes),
   a forward chain of three constants 0 + 3 + 1 *)
Example C16_round_bound_tight :
  let p := [NIf (CBool true) [NSym 0 (T "x") (SConst (CInt 1))] None] in
  round_bound p = 3 /\ run_fuel 2 true [] p = RFuel /\ outcome (run_fuel 3 true [] p) = Some ([], [(T "x", VInt 1)]) /\
  round_bound ex_chain = 6 /\ nodes_consts ex_chain = 3 /\
  run_fuel 3 true [] [NSym 0 (T "h0") (SConst (v0 "h1")); NSym 0 (T "h1") (SConst (v0 "h2")); NSym 0 (T "h2") (SConst (CInt 1))] = RFuel /\
  outcome (run_fuel 4 true [] [NSym 0 (T "h0") (SConst (v0 "h1")); NSym 0 (T "h1") (SConst (v0 "h2")); NSym 0 (T "h2") (SConst (CInt 1))])
    = Some ([], [(T "h0", VInt 1); (T "h1", VInt 1); (T "h2", VInt 1)]).
Proof. vm_compute. repeat split. Qed.

(* the known finding F55 in the model: the nested symbol keeps the parent it had when it was declared *)
Example C16_nested_symbol_across_if :
  outcome (run true [] [NSym 0 (T "a") SLabel; NIf (CBool true) [NSym 0 (T "b") SLabel] None; NSym 1 (T "x") (SConst (CInt 1))])
    = Some ([], [(T "a", VUnknown); (T "a.x", VInt 1); (T "b", VUnknown)]) /\
  world_names [] [] (select_all (fun _ _ => VUnknown)
     [NSym 0 (T "a") SLabel; NIf (CBool true) [NSym 0 (T "b") SLabel] None; NSym 1 (T "x") (SConst (CInt 1))])
    = Some [([T "a"], KLabel); ([T "b"], KLabel); ([T "b"; T "x"], KConst)].
Proof. vm_compute. repeat split. Qed.
