(* C16 (under construction) *)
From Coq Require Import List.
From CA Require Import Model.Driver Model.Cond Spec.Select.
Import ListNotations.
Example C16_placeholder : run true [] [] = ROk ([], []).
Proof. reflexivity. Qed.
