(* C12 — Listings and symbol tables tell the truth about the output.
   Models: Model/Listing.v (format_annotated, format_tcgame, format_addrspan of src/util/bitvec_format.rs, as in
   /repo after the repair of F53) and Model/SymFormat.v (format_default, format_mesen_mlb of
   src/util/symbol_format.rs).  Specification: Spec/ListingSpec.v (checkers that READ a listing / symbol file and
   compare it with bits, spans, files and the symbol table; they are extracted and run on the implementation's
   text on every check).  Only statements; each closed by a lemma of Proofs/ListingP*.v, Proofs/SymFormatP.v.

   The theorems are proved for ALL bit vectors, span lists (any recording order), file sets and symbol trees,
   at the LAYOUT level: the rows (records) the formatter computes, which its text is the rendering of, list every
   span exactly once in output order and agree field by field with the output.  The character level (column
   widths, padding, separators: parse (render rows) = rows) is not proved; its full statements are the
   Definitions C12_text_*_statement below, and they are evaluated on every generated case by the check. *)
From Coq Require Import ZArith NArith List Bool.
From CA Require Import Model.Formats Spec.Decoders Model.CharCounter Spec.LineCol Model.Listing Model.SymFormat
  Spec.ListingSpec Proofs.ListingP2 Proofs.SymFormatP Proofs.ListingP3.
Import ListNotations.
Open Scope N_scope.

(* annotated: whenever the formatter returns a text, that text is the header followed by the rendering of rows
   such that (rows_truthful): the rows are the layout of the spans sorted by output position; row i names the
   position of the i-th sorted span as (offset / group_bits, offset mod group_bits); and listed_in_order holds:
   positions never decrease, and at every position the rows are, one for one and in emission order, the spans
   recorded there, each row having the span's address, digits whose expansion in the base is the item's bits
   at that position zero-padded to whole digits, in groups of `group`, and the span's source text. *)
Theorem C12_rows_annotated : forall fs base g bs spans t,
  listing_params_ok base g = true ->
  format_annotated fs base g bs spans = Ok t ->
  exists rows, rows_truthful fs base g bs spans rows
    /\ t = header [] base (widths_of (bits_per_digit base) g (sort_lspans spans))
           ++ concat (map (render_row_annotated g (widths_of (bits_per_digit base) g (sort_lspans spans))) rows).
Proof. exact annotated_truthful. Qed.

Theorem C12_rows_tcgame : forall fs base g bs spans t,
  listing_params_ok base g = true ->
  format_tcgame fs base g bs spans = Ok t ->
  (base = 2 \/ base = 16) /\
  exists rows, rows_truthful fs base g bs spans rows
    /\ t = header [35] base (widths_of (bits_per_digit base) g (sort_lspans spans))
           ++ concat (map (render_row_tcgame base g (widths_of (bits_per_digit base) g (sort_lspans spans))) rows).
Proof. exact tcgame_truthful. Qed.

(* addrspan: position (offset / 8, offset mod 8), address, file name and the 0-based line/column of both ends of
   the span as defined by the specification of C13 — for spans whose ends are on character boundaries *)
Theorem C12_rows_addrspan : forall fs spans t,
  Forall (loc_on_boundaries fs) spans ->
  format_addrspan fs spans = Ok t ->
  exists rows, layout_addrspan fs spans = Ok rows
    /\ Forall2 (fun s r => pos_key 8 (a_pos r) = Some (ls_offset s)) (sort_lspans spans) rows
    /\ listed_in_order (arow_ok fs) (keyed_arows spans rows) spans = true
    /\ t = addrspan_header ++ concat (map render_arow rows).
Proof. exact addrspan_truthful. Qed.

(* digits: for every accepted base (2,4,8,16,32,64,128) and group size, base = 2^k with k = bits per digit in 1..7;
   the digits of an item are below the base, their characters decode back to them, their expansion (k bits
   each, most significant first) is exactly the item's bits followed by zero bits up to a whole digit, and the
   groups are `group` digits each but possibly the last *)
Theorem C12_digits : forall base g bs off size, listing_params_ok base g = true ->
  let k := bits_per_digit base in
  let ds := span_digits overshoot_fixed bs off size k in
  base = 2 ^ k /\ 1 <= k <= 7
  /\ Forall (fun d => d < base) ds
  /\ map_opt (digit_of_char (N.to_nat k)) (map (digit_char false) ds) = Some ds
  /\ bits_of_vals (N.to_nat k) ds = pad (N.to_nat k) (bits_at bs off size)
  /\ concat (groups_of g ds) = ds /\ groups_ok (N.to_nat g) (groups_of g ds) = true.
Proof. exact digits_roundtrip. Qed.

(* before the repair of F53 the last digit of an item whose size is not a multiple of k was filled with the bits
   of the FOLLOWING item; the text then fails the specification (regression witness, `#d3 5` listed as `b`) *)
Theorem C12_partial_digit_refuted_pinned :
  exists t, format_annotated_gen false ex_files 16 2 ex_bits ex_spans = Ok t
    /\ nth_error t 69 = Some 98 /\ nth_error t 91 = Some 99
    /\ rows_ok_annotated ex_files 16 2 ex_bits ex_spans t = false.
Proof. exact pinned_witness. Qed.

(* symbols: the file is the rendering `name = 0x<hex>` of listed_entries; an entry is listed iff it is the entry
   of a declared symbol (at any depth, under the dotted names of its ancestors) that has an integer value and is
   not noemit, with that value; and at every level of the tree the children are taken in the order of their
   declaration index, each exactly once (whatever the hash order of the children map) *)
Theorem C12_symbols : forall globals,
  format_default globals = concat (map render_default (listed_entries globals))
  /\ (forall e, In e (listed_entries globals) <-> exists h x, declared [] globals h x /\ sym_entry h x = Some e)
  /\ (forall l : list sym, nondecreasing (map sym_key (sort_by sym_key l)) = true
        /\ forall i, filter (fun s => sym_index s =? i) (sort_by sym_key l) = filter (fun s => sym_index s =? i) l).
Proof. exact symbols_truthful. Qed.

(* mesen-mlb: a `P:` line is printed only for a non-constant symbol of a bank with an output offset, its number is
   addr - addr_start + outp/8 - 16 and is never negative; within usize it is printed exactly when that number
   is >= 0 (F22: no wrapped offsets); banks without output give `R:<value>`; constants and symbols outside every
   bank give nothing *)
Theorem C12_mesen : forall globals,
  format_mesen_mlb globals = concat (map render_mesen (listed_entries globals))
  /\ (forall e o, mesen_entry e = Some (MPrg o) ->
        e_kind e <> KConstant /\
        exists b outp, e_bank e = Some b /\ b_outp b = Some outp /\ o = mesen_offset e b outp /\ (0 <= o)%Z)
  /\ (forall e b outp, e_kind e <> KConstant -> e_bank e = Some b -> b_outp b = Some outp ->
        (0 <= b_addr_start b <= e_value e)%Z -> (e_value e <= usize_max)%Z ->
        (e_value e - b_addr_start b + Z.of_N (outp / 8) <= usize_max)%Z ->
        mesen_entry e = if (0 <=? mesen_offset e b outp)%Z then Some (MPrg (mesen_offset e b outp)) else None)
  /\ (forall e b, e_kind e <> KConstant -> e_bank e = Some b -> b_outp b = None -> mesen_entry e = Some (MReg (e_value e)))
  /\ (forall e, e_kind e = KConstant \/ e_bank e = None -> mesen_entry e = None).
Proof. exact mesen_truthful. Qed.

(* NOT PROVED: the character level.  The extracted checkers read the text itself; these statements say that the
   model's own text always passes them.  They are evaluated by tools/props/c12.py on every generated case (on the
   IMPLEMENTATION's text, which the same run shows equal to the model's text). *)
Definition C12_text_annotated_statement : Prop := forall fs base g bs spans t,
  listing_params_ok base g = true -> format_annotated fs base g bs spans = Ok t ->
  rows_ok_annotated fs base g bs spans t = true.
Definition C12_text_tcgame_statement : Prop := forall fs base g bs spans t,
  listing_params_ok base g = true -> format_tcgame fs base g bs spans = Ok t ->
  rows_ok_tcgame fs base g bs spans t = true.
Definition C12_text_addrspan_statement : Prop := forall fs spans t,
  Forall (loc_on_boundaries fs) spans -> format_addrspan fs spans = Ok t -> rows_ok_addrspan fs spans t = true.
(* sibling names are distinct keys of a map and contain no blank, dot or line break; indices are distinct *)
Definition C12_text_symbols_statement : Prop := forall globals,
  (forall h l h' x, declared h globals h' x -> l = sym_children x ->
     NoDup (map sym_index l) /\ NoDup (map sym_name l)) ->
  (forall h' x, declared [] globals h' x -> forallb (fun c => negb ((c =? 32) || (c =? 46) || (c =? 10))) (sym_name x) = true) ->
  NoDup (map sym_index globals) -> NoDup (map sym_name globals) ->
  symbols_ok_default globals (format_default globals) = true
  /\ symbols_ok_mesen globals (format_mesen_mlb globals) = true.

(* non-vacuity: a bit-granular program whose spans were recorded out of output order, in three formats; the
   checkers accept the true text and reject a wrong digit, a wrong position and a wrong address *)
Example C12_nonvacuous_listing :
  format_annotated ex_files 16 2 ex_bits ex_spans = Ok ex_text
  /\ rows_ok_annotated ex_files 16 2 ex_bits ex_spans ex_text = true
  /\ rows_ok_annotated ex_files 16 2 ex_bits ex_spans (set_nth 69 98 ex_text) = false
  /\ rows_ok_annotated ex_files 16 2 ex_bits ex_spans (set_nth 80 50 ex_text) = false
  /\ rows_ok_annotated ex_files 16 2 ex_bits ex_spans (set_nth 87 50 ex_text) = false
  /\ (exists t, format_tcgame ex_files 2 3 ex_bits ex_spans = Ok t /\ rows_ok_tcgame ex_files 2 3 ex_bits ex_spans t = true)
  /\ (exists t, format_addrspan ex_files ex_spans = Ok t /\ rows_ok_addrspan ex_files ex_spans t = true).
Proof. exact example_listing. Qed.

(* a symbol tree in a shuffled hash order with a nested label, a negative nested constant, a noemit constant and a
   label before the 16-byte header *)
Example C12_nonvacuous_symbols :
  format_default ex_syms
  = [97; 32; 61; 32; 48; 120; 56; 48; 48; 48; 10; 97; 46; 121; 32; 61; 32; 48; 120; 56; 48; 48; 52; 10;
     97; 46; 122; 32; 61; 32; 48; 120; 45; 51; 10; 98; 32; 61; 32; 48; 120; 56; 48; 48; 54; 10; 104; 100; 32; 61; 32; 48; 120; 50; 10]
  /\ symbols_ok_default ex_syms (format_default ex_syms) = true
  /\ format_mesen_mlb ex_syms = [80; 58; 48; 58; 97; 10; 80; 58; 52; 58; 97; 95; 121; 10; 80; 58; 54; 58; 98; 10]
  /\ symbols_ok_mesen ex_syms (format_mesen_mlb ex_syms) = true
  /\ symbols_ok_default ex_syms (format_default ex_syms ++ [104; 32; 61; 32; 48; 120; 55; 10]) = false
  /\ symbols_ok_mesen ex_syms (format_mesen_mlb ex_syms ++ [80; 58; 102; 102; 58; 104; 100; 10]) = false.
Proof. exact example_symbols. Qed.

(* the check also compares every span's address with the bank layout (Spec/ListingSpec.v addresses_ok: address =
   addr_start + (offset - outp) / unit of the bank whose window holds the offset); this part of the property is
   NOT a theorem (the model takes the spans as given), it is an executable specification evaluated on every
   generated program *)
Example C12_nonvacuous_addresses :
  let banks := [mk_bankw 0 0%Z 8 (Some 0) None; mk_bankw 1 256%Z 12 (Some 0) (Some 1200)] in
  addresses_ok banks [mk_lspan (Some 0) 0 256%Z 0 None; mk_lspan (Some 12) 12 257%Z 0 None; mk_lspan (Some 1200) 0 356%Z 0 None] = true
  /\ addresses_ok banks [mk_lspan (Some 12) 12 259%Z 0 None] = false
  /\ addresses_ok banks [mk_lspan (Some 12) 12 1%Z 0 None] = false.
Proof. exact example_addresses. Qed.

(* ===== the address and "one item per row" clauses over the WHOLE pipeline (Model/Resolver2.assemble2: constants
   pre-pass, #bankdef / #bank with per-bank cursors, iterative resolver, confirming pass, check_bank_overlap,
   build_output).  The spans are the items build_output records (Model/Output.v: offset, size, address, and the
   bank and encoding the Rust struct does not keep); source locations are not modelled by Resolver2. ===== *)
From CA Require Import Model.Resolver2 Proofs.SpanOriginP Proofs.ListingPipeP.
From CA Require Model.Overlap Model.Cursor Model.Output Spec.OverlapSpec Spec.LayoutInv.
Open Scope N_scope.

(* (1) for every successful assembly, every recorded span lies at a position pos of a usable bank b, with offset
   outp + pos and address addr_start + pos / unit — for a label this is the label's own value (C02b_label_is_address)
   at the place build_output visits it — and so the span list passes the address specification the check evaluates
   on the implementation's spans: the address every listing prints is the one the bank layout assigns *)
Theorem C12_pipeline_addresses : forall indexed defs ps budget r, assemble2 indexed defs ps budget = Overlap.Ok r ->
  Forall (located (r_banks r)) (r_items r)
  /\ addresses_ok (bankws (r_banks r)) (map lspan_of_item (r_items r)) = true.
Proof. exact pipeline_addresses. Qed.

(* (2) a span has the size of its item's encoding and the output bits under it are exactly that encoding; spans
   with bits are pairwise disjoint; a span without encoding (a label) has no bits *)
Theorem C12_pipeline_one_item : forall indexed defs ps budget r, assemble2 indexed defs ps budget = Overlap.Ok r ->
  (forall it o enc, In it (r_items r) -> Output.it_off it = Some o -> Output.it_enc it = Some enc ->
     Output.it_size it = N.of_nat (length enc) /\ bits_at (r_bits r) o (Output.it_size it) = enc)
  /\ OverlapSpec.pairwise_disjointb (LayoutInv.ranges (r_items r)) = true
  /\ (forall it, In it (r_items r) -> Output.it_enc it = None -> Output.it_size it = 0).
Proof. exact pipeline_one_item. Qed.

(* (3) hence the digits a listing row shows for a span (C12_digits) are the digits of that one item's encoding,
   zero-padded to whole digits *)
Theorem C12_pipeline_row_digits : forall indexed defs ps budget r base g, assemble2 indexed defs ps budget = Overlap.Ok r ->
  listing_params_ok base g = true ->
  forall it o enc, In it (r_items r) -> Output.it_off it = Some o -> Output.it_enc it = Some enc ->
    let k := bits_per_digit base in
    bits_of_vals (N.to_nat k) (span_digits overshoot_fixed (r_bits r) o (Output.it_size it) k) = pad (N.to_nat k) enc.
Proof. exact pipeline_row_digits. Qed.

(* a bank with 12-bit units at 0x100 and output offset 8: data, a label, data *)
Example C12_nonvacuous_pipeline :
  exists r, assemble2 true [] ex_pipe 3 = Overlap.Ok r
    /\ map (fun it => (Output.it_off it, Output.it_size it, Output.it_addr it)) (r_items r)
       = [(Some 8, 12, 256%Z); (Some 20, 12, 257%Z); (Some 32, 0, 258%Z); (Some 32, 12, 258%Z)]
    /\ addresses_ok (bankws (r_banks r)) (map lspan_of_item (r_items r)) = true
    /\ addresses_ok (bankws (r_banks r)) [mk_lspan (Some 20) 12 259%Z 0 None] = false.
Proof. exact pipeline_nonvacuous. Qed.
