(* C12 — placeholder while the streams are brought up *)
From Coq Require Import NArith List.
From CA Require Import Model.Listing.
Theorem C12_stub : overshoot_fixed = true.
Proof. reflexivity. Qed.
