From Coq Require Import ExtrOcamlBasic ZArith NArith.
From CA Require Import Model.Support Model.Lexer Model.Parser Model.Matcher.
Extraction "../ocaml/gen/matcher_model.ml" support_types parse_defs match_instr.
