From Coq Require Import ExtrOcamlBasic ZArith NArith.
From CA Require Import Model.Support Model.Lexer Model.Parser Model.Literal Model.Matcher Model.AsmAst Model.AsmParser Model.AsmFields.
Extraction "../ocaml/gen/asmparser_model.ml" support_types parse_file parse_lines start_walker file_fuel string_contents fparse_file.
