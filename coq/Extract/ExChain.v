From Coq Require Import ExtrOcamlBasic ZArith NArith.
From CA Require Import Model.Support Model.Lexer Model.Parser Model.Matcher Model.Evaluator Model.Resolver Spec.Chain.
Extraction "../ocaml/gen/chain_model.ml" support_types parse_full budget_bound budget_total.
