From Coq Require Import ExtrOcamlBasic ZArith NArith.
From CA Require Import Model.Support Model.Paths Model.Includes Model.IncFns Spec.PathSpec.
Extraction "../ocaml/gen/paths_model.ml" support_types navigate spec_navigate no_escape confined no_dot_dir
  expand_root expand_roots real_lookup incbin incbinstr inchexstr.
