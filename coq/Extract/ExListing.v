From Coq Require Import ExtrOcamlBasic NArith ZArith List.
From CA Require Import Model.Support Model.Formats Model.CharCounter Model.Listing Model.SymFormat Spec.ListingSpec.
Extraction "../ocaml/gen/listing_model.ml" support_types
  format_annotated format_annotated_gen format_tcgame format_tcgame_gen format_addrspan
  format_default format_mesen_mlb listed_entries
  rows_ok_annotated rows_ok_tcgame rows_ok_addrspan symbols_ok_default symbols_ok_mesen expected_symbols addresses_ok.
