From Coq Require Import ExtrOcamlBasic ZArith.
From CA Require Import Model.Support Model.CliTables Model.Driver Spec.Cli.
Extraction "../ocaml/gen/cli_model.ml" support_types parse_output_format derive_output_filename parse_define
  file_name_split parse_command run_command action_of spec_format usage_entry_ok usage_example_ok cli_usage_formats cli_usage_examples.
