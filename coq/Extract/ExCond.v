From Coq Require Import ExtrOcamlBasic ZArith NArith.
From CA Require Import Model.Support Model.Driver Model.Cond Spec.Select.
Extraction "../ocaml/gen/cond_model.ml" support_types parse_define dval run loop fuel_for inject forget join_dot split_on lookup
  select_all decided_all world_names markers.
