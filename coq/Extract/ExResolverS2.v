From Coq Require Import ExtrOcamlBasic ZArith NArith.
From CA Require Import Model.Support Model.Lexer Model.Parser Model.Matcher Model.Evaluator Model.Resolver Model.Resolver2 Model.StaticKnown Model.ResolverS Model.ResolverS2.
Extraction "../ocaml/gen/resolvers2_model.ml" support_types parse_defs parse_full assembleS2.
