From Coq Require Import ExtrOcamlBasic ZArith NArith.
From CA Require Import Model.Support Model.Lexer Model.Parser Model.Matcher Model.Evaluator Model.Resolver Model.StaticKnown Model.ResolverS.
Extraction "../ocaml/gen/resolvers_model.ml" support_types parse_defs parse_full assembleS static_report known_value_builtin known_asm_builtin.
