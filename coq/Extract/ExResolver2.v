From Coq Require Import ExtrOcamlBasic ZArith NArith.
From CA Require Import Model.Support Model.Lexer Model.Parser Model.Matcher Model.Evaluator Model.Resolver Model.Resolver2 Spec.Certificate2.
Extraction "../ocaml/gen/resolver2_model.ml" support_types parse_defs parse_full assemble2 cert_check2.
