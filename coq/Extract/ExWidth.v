From Coq Require Import ExtrOcamlBasic ZArith.
From CA Require Import Model.Support Model.TypeRange.
Extraction "../ocaml/gen/width_model.ml" support_types typed_result data_result min_size.
