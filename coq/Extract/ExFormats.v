From Coq Require Import ExtrOcamlBasic NArith.
From CA Require Import Model.Support Model.Formats Spec.Decoders.
Extraction "../ocaml/gen/fmt_model.ml" support_types
  format_binary format_binstr format_hexstr format_bindump format_hexdump format_mif
  format_intelhex format_intelhex_blocks whole_block get_blocks
  format_deccomma format_hexcomma format_decspace format_hexspace format_decc format_hexc
  format_logisim8 format_logisim16
  pad decode_binary decode_binstr decode_hexstr decode_bindump decode_hexdump decode_mif
  decode_intelhex decode_intelhex_records decode_comma decode_space decode_c decode_logisim.
