From Coq Require Import ExtrOcamlBasic ZArith NArith.
From CA Require Import Model.Support Model.Lexer Model.Parser Model.Literal Model.BigIntOps Model.Evaluator Spec.Sem Spec.SemEval.
Extraction "../ocaml/gen/expr_model.ml" support_types decide_next_token run code_ops math_ops string_contents parse_text.
