From Coq Require Import ExtrOcamlBasic ZArith NArith.
From CA Require Import Model.Support Model.Overlap Model.Cursor Model.Output Model.OutputTop Spec.OverlapSpec Spec.LayoutInv.
Extraction "../ocaml/gen/layout_model.ml" support_types trace trace_pinned pairwise_disjointb
  output_stage_top label_address_top item_ok ranges unwritten_zero length_exact layout_ok content_ok windows_ok.
