From Coq Require Import ExtrOcamlBasic ZArith NArith.
From CA Require Import Model.Support Model.Lexer Model.Parser Spec.Printer.
Extraction "../ocaml/gen/printer_model.ml" support_types print_min print_full printable depth_min depth_full parse_text.
