From Coq Require Import ExtrOcamlBasic ZArith NArith.
From CA Require Import Model.Support Model.Paths Model.Symbols Model.ConstPass Model.SymResolve Spec.Scope.
Extraction "../ocaml/gen/symbols_model.ml" support_types collect node_ctxs try_get_by_name format_symbols
  define_symbols resolve_constants_simple prepass assemble_sym
  build enclosing_at scope_insert scope_resolve enclosing skips_level duplicate_in_scope path_of.
