From Coq Require Import ExtrOcamlBasic NArith List.
From CA Require Import Model.Support Model.CharCounter Spec.LineCol.
Extraction "../ocaml/gen/linecol_model.ml" support_types byte_len is_char_boundary get_line_count
  get_line_column_at_index get_line_column_at_index_pinned
  get_index_range_of_line get_index_range_of_line_pinned get_excerpt
  print_msg_src print_msg_src_pinned spec_linecol spec_line_range.
