From Coq Require Import ExtrOcamlBasic ZArith NArith.
From CA Require Import Model.Support Model.Lexer Model.Parser Model.Matcher Model.Evaluator Model.Resolver Spec.Certificate Spec.Denote.
Extraction "../ocaml/gen/resolver_model.ml" support_types parse_defs parse_full assemble cert_check denote.
