(* A pass that reports Resolved leaves the state unchanged (every node compares its recomputed value with the stored
   one by value AND size), hence every successful result of resolve_iteratively is a fixed point of the last-mode
   pass: the certificate of C02.  Also: the reported number of passes never exceeds the budget. *)
From Coq Require Import NArith ZArith List Bool Lia.
From CA Require Import Model.Lexer Model.Parser Model.Literal Model.BigIntOps Model.Evaluator Model.Matcher Model.Resolver.
Import ListNotations.
Open Scope Z_scope.

Lemma set_nth_same {A} (l : list A) i d : set_nth l i (nth i l d) = l.
Proof.
  revert i; induction l as [|a l IH]; intros [|i]; cbn; try reflexivity.
  now rewrite IH.
Qed.

Lemma text_eqb_eq a b : text_eqb a b = true -> a = b.
Proof.
  revert b; induction a as [|x a IH]; intros [|y b]; cbn; try discriminate; try reflexivity.
  intro H. apply andb_prop in H. destruct H as [H1 H2]. apply N.eqb_eq in H1. subst. f_equal. auto.
Qed.

Lemma bigint_identical_eq a b : bigint_identical a b = true -> a = b.
Proof.
  unfold bigint_identical. destruct a as [va sa], b as [vb sb]; cbn.
  intro H. apply andb_prop in H. destruct H as [H1 H2]. apply Z.eqb_eq in H1. subst.
  destruct sa, sb; cbn in H2; try discriminate; try reflexivity.
  apply N.eqb_eq in H2. now subst.
Qed.

Lemma value_identical_eq a b : value_identical a b = true -> a = b.
Proof.
  destruct a, b; cbn; try discriminate; try reflexivity; intro H.
  - f_equal. now apply bigint_identical_eq.
  - apply andb_prop in H. destruct H as [H1 H2]. apply text_eqb_eq in H1. apply N.eqb_eq in H2. now subst.
  - f_equal. now apply Bool.eqb_prop.
  - f_equal. now apply text_eqb_eq.
Qed.

(* labels hold unsized integers (or are still unknown): the only writer is the label resolver *)
Definition label_value_ok (v : value) : Prop := v = VUnknown \/ exists a, v = VInt (un a).
Definition labels_ok (ns : list node) (st : state) : Prop :=
  forall s, In (NLabel s) ns -> label_value_ok (nth s (s_sym st) VUnknown).
(* a symbol index is either a label or a constant *)
Definition syms_distinct (ns : list node) : Prop :=
  forall s e, In (NLabel s) ns -> ~ In (NConst s e) ns.

Lemma merge_resolved a b : merge a b = Resolved -> a = Resolved /\ b = Resolved.
Proof. destruct a, b; cbn; intro H; try discriminate; auto. Qed.

Section Fix.
Variable names : list text.
Variable defs : list ruledef.
Variable last : bool.

Lemma data_go_fix width :
  forall elems st pos acc st' pos',
  data_go names last width elems st pos acc = EOk (st', Resolved, pos') -> st' = st /\ acc = Resolved.
Proof.
  induction elems as [|[d e] r IH]; intros st pos acc st' pos' H; cbn [data_go] in H.
  - inversion H; subst. auto.
  - cbv zeta in H.
    destruct (eval code_ops (pvar names st pos (negb last)) e []) as [[v c]|]; [|discriminate].
    destruct (expect_error_or_bigint v) as [v'|]; [|discriminate].
    destruct (match v' with VInt b => EOk (Some b) | _ => if last then EErr else EOk None end) as [menc|]; [|discriminate].
    match type of H with (if negb ?c then _ else _) = _ => destruct c; cbn [negb] in H; [|discriminate] end.
    destruct menc as [b|].
    + apply IH in H. destruct H as [Hs Hm]. apply merge_resolved in Hm. destruct Hm as [Ha Hst].
      match type of Hst with (if ?c then _ else _) = _ => destruct c eqn:E; [|discriminate] end.
      apply bigint_identical_eq in E. split; [|exact Ha].
      subst st'. rewrite <- E. rewrite set_nth_same. destruct st; reflexivity.
    + apply IH in H. destruct H as [Hs Hm]. apply merge_resolved in Hm. destruct Hm as [_ Hst]. discriminate.
Qed.

(* one node *)
Lemma resolve_node_fix ns n st pos st' pos' :
  labels_ok ns st -> In n ns ->
  resolve_node names defs last n st pos = EOk (st', Resolved, pos') -> st' = st.
Proof.
  intros Hl Hin H. destruct n as [s|s e|i src|width elems|r e|a e|a e]; cbn [resolve_node] in H.
  - (* label *)
    destruct (address_at pos (negb last)) as [a|]; [|discriminate].
    destruct (value_eqv (VInt (un a)) (nth s (s_sym st) VUnknown)) eqn:E; [|discriminate].
    inversion H; subst; clear H.
    destruct (Hl s Hin) as [Hu|[a' Ha]].
    + rewrite Hu in E. discriminate.
    + rewrite Ha in E. cbn in E. unfold bigint_eqv in E. cbn in E. apply Z.eqb_eq in E. subst a'.
      rewrite <- Ha. rewrite set_nth_same. destruct st; reflexivity.
  - (* constant *)
    destruct (eval code_ops (pvar names st pos (negb last)) e []) as [[v c]|]; [|discriminate].
    destruct (last && match v with VFailed => true | _ => false end); [discriminate|].
    destruct (value_identical v (nth s (s_sym st) VUnknown)) eqn:E; [|discriminate].
    inversion H; subst; clear H. apply value_identical_eq in E. rewrite E.
    rewrite set_nth_same. destruct st; reflexivity.
  - (* instruction *)
    destruct (nth_error (s_instr st) i) as [d|] eqn:Hd; [|discriminate].
    destruct (resolve_encoding defs (pvar names st pos (negb last)) (negb last) (i_matches d)) as [[b|]|]; try discriminate.
    + destruct (bigint_identical (i_enc d) b) eqn:E; [|discriminate].
      inversion H; subst; clear H. apply bigint_identical_eq in E. subst b.
      assert ({| i_matches := i_matches d; i_enc := i_enc d |} = d) as -> by (destruct d; reflexivity).
      assert (set_nth (s_instr st) i d = s_instr st) as ->.
      { clear -Hd. revert i Hd. induction (s_instr st) as [|x l IH]; intros [|i] Hd; cbn in *; try discriminate.
        - now inversion Hd. - f_equal. auto. }
      destruct st; reflexivity.
  - (* data *)
    apply data_go_fix in H. tauto.
  - (* res *)
    destruct (eval code_ops (pvar names st pos (negb last)) e []) as [[v c]|]; [|discriminate].
    destruct (expect_error_or_bigint v) as [v'|]; [|discriminate].
    match type of H with match ?x with EErr => _ | EOk _ => _ end = _ => destruct x as [z|]; [|discriminate] end.
    destruct (z * 8 =? nth r (s_res st) 0) eqn:E; [|discriminate].
    inversion H; subst; clear H. apply Z.eqb_eq in E. rewrite E. rewrite set_nth_same. destruct st; reflexivity.
  - (* align *)
    destruct (eval code_ops (pvar names st pos (negb last)) e []) as [[v c]|]; [|discriminate].
    match type of H with match ?x with EErr => _ | EOk _ => _ end = _ => destruct x as [z|]; [|discriminate] end.
    destruct (z =? nth a (s_align st) 0) eqn:E; cbn [negb] in H; [|discriminate].
    apply Z.eqb_eq in E.
    destruct (last && (z =? 0)); [discriminate|].
    inversion H; subst; clear H. rewrite set_nth_same. destruct st; reflexivity.
  - (* addr *)
    destruct (eval code_ops (pvar names st pos (negb last)) e []) as [[v c]|]; [|discriminate].
    destruct (expect_error_or_bigint v) as [v'|]; [|discriminate].
    cbv zeta in H.
    match type of H with (if negb (?z =? ?p) then _ else _) = _ => destruct (z =? p) eqn:E; cbn [negb] in H; [|discriminate] end.
    apply Z.eqb_eq in E.
    match type of H with (if ?c then _ else _) = _ => destruct c; [discriminate|] end.
    match type of H with (if ?c then _ else _) = _ => destruct c; [discriminate|] end.
    inversion H; subst; clear H. rewrite E. rewrite set_nth_same. destruct st; reflexivity.
Qed.

Lemma pass_unresolved_sticky ns st pos st' :
  pass names defs last ns st pos Unresolved = EOk (st', Resolved) -> False.
Proof.
  revert st pos; induction ns as [|n ns IH]; intros st pos H; cbn [pass] in H.
  - discriminate.
  - destruct (resolve_node names defs last n st pos) as [[[s r] p]|]; [|discriminate].
    destruct r; cbn [merge] in H; eauto.
Qed.

Lemma pass_fix_gen all ns st pos st' :
  (forall n, In n ns -> In n all) -> labels_ok all st ->
  pass names defs last ns st pos Resolved = EOk (st', Resolved) -> st' = st.
Proof.
  revert st pos; induction ns as [|n ns IH]; intros st pos Hsub Hl H; cbn [pass] in H.
  - now inversion H.
  - destruct (resolve_node names defs last n st pos) as [[[s r] p]|] eqn:E; [|discriminate].
    destruct r; cbn [merge] in H.
    + apply resolve_node_fix with (ns := all) in E; [|exact Hl|apply Hsub; now left]. subst s.
      apply IH in H; auto. intros m Hm. apply Hsub. now right.
    + exfalso. eapply pass_unresolved_sticky; eauto.
Qed.

Theorem pass_fix ns st st' :
  labels_ok ns st -> pass names defs last ns st 0 Resolved = EOk (st', Resolved) -> st' = st.
Proof. intros Hl H. eapply pass_fix_gen with (all := ns); eauto. Qed.
End Fix.

(* ---- the labels_ok invariant is preserved by every pass ---- *)
Lemma nth_set_nth_other {A} (l : list A) i j x d : i <> j -> nth i (set_nth l j x) d = nth i l d.
Proof.
  revert i j; induction l as [|a l IH]; intros [|i] [|j] H; cbn; try reflexivity; try congruence.
  apply IH. congruence.
Qed.
Lemma nth_set_nth_same {A} (l : list A) i x d : nth i (set_nth l i x) d = x \/ nth i (set_nth l i x) d = nth i l d.
Proof.
  revert i; induction l as [|a l IH]; intros [|i]; cbn; auto.
Qed.


(* ---- the symbol table is only written by label and constant nodes ---- *)
Lemma data_go_syms names last width : forall elems st pos acc st' r pos',
  data_go names last width elems st pos acc = EOk (st', r, pos') -> s_sym st' = s_sym st.
Proof.
  induction elems as [|[d e] rest IH]; intros st pos acc st' r pos' H; cbn [data_go] in H.
  - now inversion H.
  - cbv zeta in H.
    destruct (eval code_ops (pvar names st pos (negb last)) e []) as [[v c]|]; [|discriminate].
    destruct (expect_error_or_bigint v) as [v'|]; [|discriminate].
    destruct (match v' with VInt b => EOk (Some b) | _ => if last then EErr else EOk None end) as [menc|]; [|discriminate].
    match type of H with (if negb ?c then _ else _) = _ => destruct c; cbn [negb] in H; [|discriminate] end.
    apply IH in H. rewrite H. destruct menc; reflexivity.
Qed.

Lemma resolve_node_labels_ok names defs last ns n st pos st' r pos' :
  syms_distinct ns -> labels_ok ns st -> In n ns ->
  resolve_node names defs last n st pos = EOk (st', r, pos') -> labels_ok ns st'.
Proof.
  intros Hd Hl Hin H.
  assert (Hsame : s_sym st' = s_sym st -> labels_ok ns st').
  { intros E s Hs. rewrite E. apply Hl, Hs. }
  destruct n as [s|s e|i src|width elems|k e|k e|k e]; cbn [resolve_node] in H.
  - destruct (address_at pos (negb last)) as [a|]; [|discriminate].
    inversion H; subst; clear H. intros s0 Hs0. cbn [s_sym].
    destruct (Nat.eq_dec s0 s) as [->|Hne].
    + destruct (nth_set_nth_same (s_sym st) s (VInt (un a)) VUnknown) as [E|E]; rewrite E.
      * right. eauto. * apply Hl, Hs0.
    + rewrite nth_set_nth_other by exact Hne. apply Hl, Hs0.
  - destruct (eval code_ops (pvar names st pos (negb last)) e []) as [[v c]|]; [|discriminate].
    destruct (last && match v with VFailed => true | _ => false end); [discriminate|].
    inversion H; subst; clear H. intros s0 Hs0. cbn [s_sym].
    assert (s0 <> s) by (intro; subst; eapply Hd; eauto).
    rewrite nth_set_nth_other by assumption. apply Hl, Hs0.
  - destruct (nth_error (s_instr st) i) as [d|]; [|discriminate].
    destruct (resolve_encoding defs (pvar names st pos (negb last)) (negb last) (i_matches d)) as [chosen|]; [|discriminate].
    inversion H; subst; clear H. apply Hsame. reflexivity.
  - apply data_go_syms in H. apply Hsame, H.
  - destruct (eval code_ops (pvar names st pos (negb last)) e []) as [[v c]|]; [|discriminate].
    destruct (expect_error_or_bigint v) as [v'|]; [|discriminate].
    match type of H with match ?x with EErr => _ | EOk _ => _ end = _ => destruct x as [z|]; [|discriminate] end.
    inversion H; subst; clear H. apply Hsame. reflexivity.
  - destruct (eval code_ops (pvar names st pos (negb last)) e []) as [[v c]|]; [|discriminate].
    match type of H with match ?x with EErr => _ | EOk _ => _ end = _ => destruct x as [z|]; [|discriminate] end.
    destruct (negb (z =? nth k (s_align st) 0)); [inversion H; subst; apply Hsame; reflexivity|].
    destruct (last && (z =? 0)); [discriminate|]. inversion H; subst. apply Hsame. reflexivity.
  - destruct (eval code_ops (pvar names st pos (negb last)) e []) as [[v c]|]; [|discriminate].
    destruct (expect_error_or_bigint v) as [v'|]; [|discriminate].
    cbv zeta in H.
    match type of H with (if negb ?c then _ else _) = _ => destruct (negb c); [inversion H; subst; apply Hsame; reflexivity|] end.
    match type of H with (if ?c then _ else _) = _ => destruct c; [discriminate|] end.
    match type of H with (if ?c then _ else _) = _ => destruct c; [discriminate|] end.
    inversion H; subst. apply Hsame. reflexivity.
Qed.

Lemma pass_labels_ok_gen names defs last all : syms_distinct all ->
  forall ns st pos acc st' r, (forall n, In n ns -> In n all) -> labels_ok all st ->
  pass names defs last ns st pos acc = EOk (st', r) -> labels_ok all st'.
Proof.
  intros Hd. induction ns as [|n ns IH]; intros st pos acc st' r Hsub Hl H; cbn [pass] in H.
  - now inversion H; subst.
  - destruct (resolve_node names defs last n st pos) as [[[s q] p]|] eqn:E; [|discriminate].
    eapply IH; [| |exact H].
    + intros m Hm. apply Hsub. now right.
    + eapply resolve_node_labels_ok; eauto. apply Hsub. now left.
Qed.

Lemma pass_labels_ok names defs last ns st st' r : syms_distinct ns -> labels_ok ns st ->
  pass names defs last ns st 0 Resolved = EOk (st', r) -> labels_ok ns st'.
Proof. intros Hd Hl H. eapply pass_labels_ok_gen with (ns := ns); eauto. Qed.

(* ---- resolve_iteratively ---- *)
Section Loop.
Variable names : list text.
Variable defs : list ruledef.
Variable ns : list node.
Hypothesis Hd : syms_distinct ns.

Notation P last st := (pass names defs last ns st 0 Resolved).

Lemma loop_inv k i max st st' n : labels_ok ns st ->
  loop names defs ns k i max st = EOk (st', n) -> (k + i = max)%nat ->
  labels_ok ns st' /\ P true st' = EOk (st', Resolved) /\ (n <= max)%nat.
Proof.
  revert i st. induction k as [|k IH]; intros i st Hl H E; cbn [loop] in H.
  - destruct (P true st) as [[s r]|] eqn:Q; [|discriminate]. destruct r; [|discriminate].
    assert (s = st) by (eapply pass_fix; eauto). subst s.
    inversion H; subst st' n.
    split; [exact Hl|]. split; [exact Q|lia].
  - destruct (P (Nat.eqb (S i) max) st) as [[s r]|] eqn:Q; [|discriminate].
    pose proof (pass_labels_ok _ _ _ _ _ _ _ Hd Hl Q) as Hls.
    destruct r.
    + assert (s = st) by (eapply pass_fix; eauto). subst s.
      destruct (Nat.eqb (S i) max) eqn:L.
      * inversion H; subst st' n. apply Nat.eqb_eq in L. split; [exact Hl|]. split; [exact Q|lia].
      * destruct (P true st) as [[s2 r2]|] eqn:Q2; [|discriminate]. destruct r2; [|discriminate].
        assert (s2 = st) by (eapply pass_fix; eauto). subst s2.
        inversion H; subst st' n.
        split; [exact Hl|]. split; [exact Q2|]. apply Nat.eqb_neq in L. lia.
    + destruct (Nat.eqb (S i) max) eqn:L; [discriminate|].
      apply IH in H; [exact H|exact Hls|lia].
Qed.
End Loop.

(* The certificate of a result: a last-mode pass from it changes nothing and reports everything resolved, i.e.
   every label equals the address of the cursor that reaches it, every instruction's stored encoding is the
   unique smallest one among its resolved candidates evaluated under this very state, every data element,
   reservation, alignment and address equals its expression under this state. *)
Definition Certified (names : list text) (defs : list ruledef) (ns : list node) (st : state) : Prop :=
  pass names defs true ns st 0 Resolved = EOk (st, Resolved).

Theorem certificate names defs ns budget st st' n :
  syms_distinct ns -> labels_ok ns st ->
  loop names defs ns budget 0 budget st = EOk (st', n) ->
  Certified names defs ns st' /\ (n <= budget)%nat.
Proof.
  intros Hd Hl H. destruct (loop_inv names defs ns Hd budget 0 budget st st' n Hl H ltac:(lia)) as [_ [Hc Hn]].
  split; assumption.
Qed.
