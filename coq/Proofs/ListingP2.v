(* C12 lemmas, part 2: every row of the layout agrees with its span (position, address, digits = the item's bits
   zero-padded to whole digits, source text), and the layout lists every span exactly once in output order. *)
From Coq Require Import ZArith NArith List Bool Lia ZifyBool Arith.
From CA Require Import Model.Formats Spec.Decoders Proofs.FmtBase Model.CharCounter Spec.LineCol Proofs.CharCounterP
  Model.Listing Spec.ListingSpec Proofs.ListingP.
Import ListNotations.
Open Scope N_scope.

Ltac Zify.zify_post_hook ::= Z.div_mod_to_equations.

(* ------------------------------------------------------------------ listed exactly once, in output order *)
Lemma forallb2_filter {R} (ok : R -> lspan -> bool) o : forall sorted rows,
  Forall2 (fun s r => ok r s = true) sorted rows ->
  forallb2 ok (map snd (filter (fun r : okey * R => okey_eqb (fst r) o) (combine (map ls_offset sorted) rows)))
              (filter (fun s => okey_eqb (ls_offset s) o) sorted) = true.
Proof.
  intros sorted rows F. induction F as [|s r ss rs Hok _ IH]; [reflexivity|].
  cbn [map combine filter fst]. destruct (okey_eqb (ls_offset s) o); [|exact IH].
  cbn [map snd forallb2]. now rewrite Hok, IH.
Qed.

Lemma map_fst_combine {X Y} (a : list X) : forall (b : list Y), length a = length b -> map fst (combine a b) = a.
Proof.
  induction a as [|x a IH]; intros [|y b] H; cbn in *; try reflexivity; try discriminate.
  f_equal. apply IH. lia.
Qed.

Lemma Forall2_len {X Y} (P : X -> Y -> Prop) a b : Forall2 P a b -> length a = length b.
Proof. induction 1; cbn; congruence. Qed.

Lemma Forall2_imp {X Y} (P Q : X -> Y -> Prop) a b : (forall x y, P x y -> Q x y) -> Forall2 P a b -> Forall2 Q a b.
Proof. intro H. induction 1; constructor; auto. Qed.

Lemma listed_in_order_intro {R} (ok : R -> lspan -> bool) spans rows :
  Forall2 (fun s r => ok r s = true) (sort_lspans spans) rows ->
  listed_in_order ok (combine (map ls_offset (sort_lspans spans)) rows) spans = true.
Proof.
  intro F. unfold listed_in_order.
  rewrite map_fst_combine by (rewrite map_length; exact (Forall2_len _ _ _ F)).
  apply andb_true_iff. split; [apply sort_by_sorted|].
  apply forallb_forall. intros o _.
  change (filter (fun s => okey_eqb (ls_offset s) o) spans) with (filter (at_key ls_offset o) spans).
  rewrite <- (sort_by_filter ls_offset spans o).
  apply (forallb2_filter ok o (sort_lspans spans) rows F).
Qed.

(* ------------------------------------------------------------------ map_cres *)
Lemma map_cres_ok {A B} (f : A -> cres B) : forall l ys, map_cres f l = Ok ys -> Forall2 (fun x y => f x = Ok y) l ys.
Proof.
  induction l as [|x r IH]; intros ys H; cbn [map_cres] in H.
  - injection H as <-. constructor.
  - destruct (f x) as [y|] eqn:E; [|discriminate].
    destruct (map_cres f r) as [ys'|] eqn:E2; [|discriminate].
    injection H as <-. constructor; [exact E|now apply IH].
Qed.

(* ------------------------------------------------------------------ bits *)
Lemma count_from_nseq n : forall a, count_from a n = nseq a n.
Proof. induction n as [|n IH]; intro a; cbn; [reflexivity|now rewrite IH]. Qed.

Lemma read_bit_out_bit bs i : read_bit bs i = out_bit bs i.
Proof.
  unfold read_bit, out_bit. generalize (N.to_nat i) as n. clear i.
  induction bs as [|b t IH]; intros [|n]; cbn; try reflexivity. apply IH.
Qed.

Lemma nseq_length a n : length (nseq a n) = n.
Proof. revert a. induction n as [|n IH]; intro a; cbn; [reflexivity|now rewrite IH]. Qed.

Lemma nseq_app n m : forall a, nseq a (n + m) = nseq a n ++ nseq (a + N.of_nat n) m.
Proof.
  induction n as [|n IH]; intro a.
  - cbn [plus nseq app]. now rewrite N.add_0_r.
  - cbn [plus nseq app]. rewrite IH. replace (a + 1 + N.of_nat n) with (a + N.of_nat (S n)) by lia. reflexivity.
Qed.

Lemma nseq_shift n : forall a c, map (fun x => c + x) (nseq a n) = nseq (c + a) n.
Proof.
  induction n as [|n IH]; intros a c; cbn [nseq map]; [reflexivity|].
  rewrite IH. replace (c + (a + 1)) with (c + a + 1) by lia. reflexivity.
Qed.

Lemma fold_bits_val {X} (f : X -> bool) (l : list X) : forall acc,
  fold_left (fun d x => 2 * d + b2n (f x)) l acc = bits_val (map f l) acc.
Proof.
  unfold bits_val. induction l as [|x r IH]; intro acc; cbn [fold_left map]; [reflexivity|apply IH].
Qed.

Lemma map_shift_nseq {B} (f : N -> B) c n : map (fun bi => f (c + bi)) (nseq 0 n) = map f (nseq c n).
Proof. rewrite <- (map_map (fun x => c + x) f), nseq_shift, N.add_0_r. reflexivity. Qed.

Lemma digit_val_bits fixed bs off size k di :
  digit_val fixed bs off size k di
  = bits_val (map (span_bit fixed bs off size) (nseq (di * k) (N.to_nat k))) 0.
Proof.
  unfold digit_val. rewrite (fold_bits_val (fun bi => span_bit fixed bs off size (di * k + bi))).
  f_equal. apply map_shift_nseq.
Qed.

Lemma digit_val_lt fixed bs off size k di : digit_val fixed bs off size k di < 2 ^ k.
Proof.
  rewrite digit_val_bits.
  pose proof (bits_val_lt (map (span_bit fixed bs off size) (nseq (di * k) (N.to_nat k)))) as H.
  rewrite map_length, nseq_length, N2Nat.id in H. exact H.
Qed.

(* the digits of a span, expanded again, are the bits the loops read, in order *)
Lemma digits_expand fixed bs off size k n : forall from,
  bits_of_vals (N.to_nat k) (map (digit_val fixed bs off size k) (nseq from n))
  = map (span_bit fixed bs off size) (nseq (from * k) (n * N.to_nat k)).
Proof.
  unfold bits_of_vals. induction n as [|n IH]; intro from; [reflexivity|].
  cbn [nseq map concat]. rewrite IH.
  replace (S n * N.to_nat k)%nat with (N.to_nat k + n * N.to_nat k)%nat by lia.
  rewrite nseq_app, map_app. f_equal.
  - rewrite digit_val_bits.
    rewrite <- (nseq_length (from * k) (N.to_nat k)) at 1.
    rewrite <- (map_length (span_bit fixed bs off size)).
    apply val_bits_bits_val.
  - do 2 f_equal. lia.
Qed.

Lemma map_ext_nseq {B} (f g : N -> B) n : forall a, (forall j, a <= j < a + N.of_nat n -> f j = g j) ->
  map f (nseq a n) = map g (nseq a n).
Proof.
  induction n as [|n IH]; intros a H; [reflexivity|].
  cbn [nseq map]. f_equal; [apply H; lia|]. apply IH. intros j Hj. apply H. lia.
Qed.

Lemma map_const_nseq {B} (f : N -> B) c n : forall a, (forall j, a <= j < a + N.of_nat n -> f j = c) ->
  map f (nseq a n) = repeat c n.
Proof.
  induction n as [|n IH]; intros a H; [reflexivity|].
  cbn [nseq map repeat]. f_equal; [apply H; lia|]. apply IH. intros j Hj. apply H. lia.
Qed.

Lemma digit_num_bounds k size : 0 < k ->
  size <= digit_num k size * k < size + k.
Proof.
  intro Hk. unfold digit_num.
  pose proof (N.div_mod size k ltac:(lia)) as D. pose proof (N.mod_lt size k ltac:(lia)) as M.
  set (q := size / k) in *. set (r := size mod k) in *.
  destruct (N.eqb_spec r 0); nia.
Qed.

Lemma pad_as_repeat k (x : list bool) m : (0 < k)%nat -> (length x <= m < length x + k)%nat -> (m mod k = 0)%nat ->
  pad k x = x ++ repeat false (m - length x).
Proof.
  intros Hk Hm Hmod. unfold pad. f_equal. f_equal.
  apply Nat.mod_divides in Hmod; [|lia]. destruct Hmod as [c Hc].
  assert (length x mod k < k)%nat by (apply Nat.mod_upper_bound; lia).
  pose proof (Nat.div_mod (length x) k ltac:(lia)) as D.
  destruct (Nat.eq_dec (length x mod k) 0) as [E|E].
  - rewrite E, Nat.sub_0_r, Nat.mod_same by lia.
    assert (length x / k = c)%nat by nia. nia.
  - rewrite Nat.mod_small by lia.
    assert (c = length x / k + 1)%nat by nia. nia.
Qed.

(* the repaired reading: the digits are the item's own bits, zero-padded to whole digits *)
Lemma span_digits_pad bs off size k : 0 < k ->
  bits_of_vals (N.to_nat k) (span_digits true bs off size k) = pad (N.to_nat k) (bits_at bs off size).
Proof.
  intro Hk. unfold span_digits. rewrite digits_expand. rewrite N.mul_0_l.
  pose proof (digit_num_bounds k size Hk) as B.
  set (n := digit_num k size) in *.
  assert (length (bits_at bs off size) = N.to_nat size) as L
    by (unfold bits_at; change (count_from 0 (N.to_nat size)) with (nseq 0 (N.to_nat size)); now rewrite map_length, nseq_length).
  rewrite (pad_as_repeat (N.to_nat k) _ (N.to_nat n * N.to_nat k)); rewrite ?L; try lia.
  - replace (N.to_nat n * N.to_nat k)%nat with (N.to_nat size + (N.to_nat n * N.to_nat k - N.to_nat size))%nat at 1 by lia.
    rewrite nseq_app, map_app. f_equal.
    + unfold bits_at. change (count_from 0 (N.to_nat size)) with (nseq 0 (N.to_nat size)). apply map_ext_nseq. intros j Hj.
      unfold span_bit. rewrite read_bit_out_bit.
      destruct (N.ltb_spec j size); [reflexivity|lia].
    + apply map_const_nseq. intros j Hj. unfold span_bit.
      destruct (N.ltb_spec j size); [lia|reflexivity].
  - now rewrite Nat.mod_mul by lia.
Qed.

(* the behaviour before the repair of F53: the same, provided the bits that follow the item up to the digit
   boundary are zero *)
Lemma span_digits_pad_pinned bs off size k : 0 < k ->
  (forall j, size <= j < digit_num k size * k -> read_bit bs (off + j) = false) ->
  bits_of_vals (N.to_nat k) (span_digits false bs off size k) = pad (N.to_nat k) (bits_at bs off size).
Proof.
  intros Hk Hz. rewrite <- span_digits_pad by exact Hk.
  unfold span_digits. rewrite !digits_expand. rewrite N.mul_0_l.
  apply map_ext_nseq. intros j Hj. unfold span_bit.
  destruct (N.ltb_spec j size); [reflexivity|]. cbn [andb]. apply Hz. lia.
Qed.

(* ------------------------------------------------------------------ groups *)
(* the groups the blanks of the data column delimit: `group` digits each, the last one possibly shorter *)
Fixpoint chunk (fuel g : nat) (l : list N) : list (list N) :=
  match l with
  | [] => []
  | _ :: _ => match fuel with O => [] | S f => firstn g l :: chunk f g (skipn g l) end
  end.
Definition groups_of (g : N) (ds : list N) : list (list N) := chunk (length ds) (N.to_nat g) ds.

Lemma chunk_spec g : (0 < g)%nat -> forall fuel l, (length l <= fuel)%nat ->
  concat (chunk fuel g l) = l /\ groups_ok g (chunk fuel g l) = true.
Proof.
  intros Hg fuel. induction fuel as [|f IH]; intros l Hl.
  - destruct l; [split; reflexivity|cbn in Hl; lia].
  - destruct l as [|x t]; [split; reflexivity|].
    cbn [chunk].
    assert (length (skipn g (x :: t)) <= f)%nat as Hf
      by (pose proof (skipn_length_lt g (x :: t) Hg ltac:(congruence)); cbn [length] in *; lia).
    destruct (IH _ Hf) as [C G]. split.
    + cbn [concat]. rewrite C. apply firstn_skipn.
    + destruct (chunk f g (skipn g (x :: t))) as [|y r] eqn:E.
      * cbn [groups_ok]. rewrite firstn_length. cbn [length].
        apply andb_true_iff. split; [apply Nat.ltb_lt|apply Nat.leb_le]; lia.
      * cbn [groups_ok] in *. fold (groups_ok g (y :: r)). rewrite G, andb_true_r.
        apply Nat.eqb_eq. rewrite firstn_length.
        destruct (le_lt_dec g (length (x :: t))); [lia|].
        rewrite skipn_all2 in E by lia. destruct f; discriminate.
Qed.

(* ------------------------------------------------------------------ source text *)
Lemma excerpt_spec chars a b x : get_excerpt chars a b = Ok x -> spec_excerpt chars a b = Some x.
Proof.
  unfold get_excerpt, spec_excerpt. destruct (b <? a) eqn:E; [discriminate|].
  destruct (split_at chars a) as [[p rest]|] eqn:E1; [|discriminate].
  destruct (split_at rest (b - a)) as [[y z]|] eqn:E2; [|discriminate].
  intro H. injection H as <-.
  apply split_at_some in E1. apply split_at_some in E2. destruct E1 as [-> E1], E2 as [-> E2].
  rewrite <- E1 at 1. rewrite prefix_at_app.
  replace b with (byte_len (p ++ y)) at 1 by (rewrite byte_len_app; lia).
  rewrite app_assoc, prefix_at_app.
  destruct (N.leb_spec a b); [|lia].
  rewrite skipn_app, skipn_all, Nat.sub_diag. reflexivity.
Qed.

Lemma span_source_spec fs s x : span_excerpt fs s = Ok x -> span_source fs s = Some x.
Proof.
  unfold span_excerpt, span_source. destruct (file_at fs (ls_file s)) as [[nm chars]|]; [|discriminate].
  destruct (ls_loc s) as [[a b]|]; [|discriminate]. apply excerpt_spec.
Qed.

(* ------------------------------------------------------------------ one row *)
Definition parsed_row (g : N) (r : row) : prow :=
  mk_prow (r_pos r) (r_addr r) (groups_of g (r_digits r)) (r_src r).

Lemma pos_key_div gb off : gb <> 0 -> pos_key gb (Some (off / gb, off mod gb)) = Some (Some off).
Proof.
  intro H. unfold pos_key. destruct (N.ltb_spec (off mod gb) gb) as [_|C].
  - do 2 f_equal. pose proof (N.div_mod off gb H). lia.
  - pose proof (N.mod_lt off gb H). lia.
Qed.

Lemma bools_eqb_refl l : bools_eqb l l = true.
Proof. induction l as [|b t IH]; [reflexivity|]. cbn. now rewrite Bool.eqb_reflx, IH. Qed.

(* the condition under which the unrepaired reading is truthful for a span *)
Definition tail_clean (fixed : bool) (k : N) (bs : bits) (s : lspan) : Prop :=
  fixed = true \/
  match ls_offset s with
  | Some off => forall j, ls_size s <= j < digit_num k (ls_size s) * k -> read_bit bs (off + j) = false
  | None => True
  end.

Lemma layout_row_ok fixed fs k g bs s r : 0 < g ->
  tail_clean fixed k bs s ->
  layout_row fixed fs k g bs s = Ok r ->
  pos_key (g * k) (r_pos r) = Some (ls_offset s)
  /\ row_ok fs (N.to_nat k) (N.to_nat g) bs (parsed_row g r) s = true.
Proof.
  intros Hg Hc. unfold layout_row.
  destruct (N.eqb_spec k 0) as [|Hk]; [discriminate|].
  destruct (span_excerpt fs s) as [src|] eqn:Ex; [|discriminate].
  apply span_source_spec in Ex.
  unfold row_ok, parsed_row.
  destruct (ls_offset s) as [off|] eqn:Eo.
  - destruct (N.eqb_spec (g * k) 0) as [|Hgb]; [discriminate|].
    intro H. injection H as <-. cbn [r_pos r_addr r_digits r_src p_addr p_groups p_src].
    split; [now apply pos_key_div|].
    rewrite Z.eqb_refl, Ex, text_eqb_refl. cbn [andb]. rewrite andb_true_r.
    unfold groups_of.
    destruct (chunk_spec (N.to_nat g) ltac:(lia) (length (span_digits fixed bs off (ls_size s) k))
                         (span_digits fixed bs off (ls_size s) k) (le_n _)) as [C G].
    rewrite G. cbn [andb]. unfold digits_ok. rewrite C.
    apply andb_true_iff. split.
    + apply forallb_forall. intros d Hd. unfold span_digits in Hd. apply in_map_iff in Hd.
      destruct Hd as (di & <- & _). apply N.ltb_lt. rewrite N2Nat.id. apply digit_val_lt.
    + assert (bits_of_vals (N.to_nat k) (span_digits fixed bs off (ls_size s) k)
              = pad (N.to_nat k) (bits_at bs off (ls_size s))) as ->; [|apply bools_eqb_refl].
      destruct Hc as [->|Hc]; [apply span_digits_pad; lia|].
      destruct fixed; [apply span_digits_pad; lia|]. rewrite Eo in Hc. apply span_digits_pad_pinned; [lia|exact Hc].
  - destruct (digit_num k (ls_size s) =? 0); [|discriminate].
    intro H. injection H as <-. cbn [r_pos r_addr r_digits r_src p_addr p_groups p_src].
    split; [reflexivity|].
    rewrite Z.eqb_refl, Ex, text_eqb_refl. reflexivity.
Qed.

(* ------------------------------------------------------------------ the whole listing (layout level) *)
Definition keyed_rows (g : N) (spans : list lspan) (rows : list row) : list (okey * prow) :=
  combine (map ls_offset (sort_lspans spans)) (map (parsed_row g) rows).

Lemma in_sort_lspans spans s : In s (sort_lspans spans) -> In s spans.
Proof.
  intro H. pose proof (sort_by_filter ls_offset spans (ls_offset s)) as F.
  assert (In s (filter (at_key ls_offset (ls_offset s)) (sort_lspans spans))) as Hin
    by (apply filter_In; split; [exact H|apply okey_eqb_refl]).
  unfold sort_lspans in Hin. rewrite F in Hin. apply filter_In in Hin. tauto.
Qed.

Lemma layout_rows_truthful fixed fs k g bs spans rows : 0 < g ->
  Forall (tail_clean fixed k bs) spans ->
  layout_rows fixed fs k g bs spans = Ok rows ->
  Forall2 (fun s r => pos_key (g * k) (r_pos r) = Some (ls_offset s)) (sort_lspans spans) rows
  /\ listed_in_order (row_ok fs (N.to_nat k) (N.to_nat g) bs) (keyed_rows g spans rows) spans = true.
Proof.
  intros Hg Hc H. unfold layout_rows in H. apply map_cres_ok in H.
  assert (Forall2 (fun s r => pos_key (g * k) (r_pos r) = Some (ls_offset s)
                             /\ row_ok fs (N.to_nat k) (N.to_nat g) bs (parsed_row g r) s = true)
                  (sort_lspans spans) rows) as F.
  { rewrite Forall_forall in Hc.
    assert (forall s, In s (sort_lspans spans) -> tail_clean fixed k bs s) as Hc'
      by (intros s Hs; apply Hc; now apply in_sort_lspans).
    clear Hc. induction H as [|s r ss rs Hr _ IH]; [constructor|].
    constructor.
    - apply (layout_row_ok fixed fs k g bs s r Hg); [apply Hc'; now left|exact Hr].
    - apply IH. intros x Hx. apply Hc'. now right. }
  split.
  - eapply Forall2_imp; [|exact F]. cbn. tauto.
  - unfold keyed_rows. apply listed_in_order_intro.
    clear -F. induction F as [|s r ss rs [_ Hr] _ IH]; [constructor|]. cbn [map]. constructor; assumption.
Qed.

(* ------------------------------------------------------------------ addrspan *)
Definition parsed_arow (r : arow) : parow := mk_parow (a_pos r) (a_addr r) (a_file r) (a_lc r).

(* the span's two byte offsets are on character boundaries of its file (true of every span the tokenizer makes) *)
Definition loc_on_boundaries (fs : fileset) (s : lspan) : Prop :=
  match file_at fs (ls_file s), ls_loc s with
  | Some (_, chars), Some (a, b) => on_boundary chars a /\ on_boundary chars b
  | _, _ => True
  end.

Lemma layout_arow_ok fs s r : loc_on_boundaries fs s -> layout_arow fs s = Ok r ->
  pos_key 8 (a_pos r) = Some (ls_offset s) /\ arow_ok fs (parsed_arow r) s = true.
Proof.
  unfold layout_arow, loc_on_boundaries, arow_ok.
  destruct (file_at fs (ls_file s)) as [[nm chars]|]; [|discriminate].
  assert (pos_key 8 match ls_offset s with Some off => Some (off / 8, off mod 8) | None => None end
          = Some (ls_offset s)) as Hp
    by (destruct (ls_offset s); [apply pos_key_div; lia|reflexivity]).
  destruct (ls_loc s) as [[a b]|].
  - intros [Ba Bb].
    destruct (get_line_column_at_index chars a) as [l1 c1] eqn:E1.
    destruct (get_line_column_at_index chars b) as [l2 c2] eqn:E2.
    intro H. injection H as <-. cbn [a_pos a_addr a_file a_lc parsed_arow pa_pos pa_addr pa_file pa_lc].
    split; [exact Hp|].
    rewrite Z.eqb_refl, text_eqb_refl, (linecol_exec _ _ Ba), (linecol_exec _ _ Bb), E1, E2.
    now rewrite !N.eqb_refl.
  - intros _ H. injection H as <-. cbn [a_pos a_addr a_file a_lc parsed_arow pa_pos pa_addr pa_file pa_lc].
    split; [exact Hp|]. now rewrite Z.eqb_refl.
Qed.

Definition keyed_arows (spans : list lspan) (rows : list arow) : list (okey * parow) :=
  combine (map ls_offset (sort_lspans spans)) (map parsed_arow rows).

Lemma layout_addrspan_truthful fs spans rows :
  Forall (loc_on_boundaries fs) spans ->
  layout_addrspan fs spans = Ok rows ->
  Forall2 (fun s r => pos_key 8 (a_pos r) = Some (ls_offset s)) (sort_lspans spans) rows
  /\ listed_in_order (arow_ok fs) (keyed_arows spans rows) spans = true.
Proof.
  intros Hc H. unfold layout_addrspan in H. apply map_cres_ok in H.
  assert (Forall2 (fun s r => pos_key 8 (a_pos r) = Some (ls_offset s) /\ arow_ok fs (parsed_arow r) s = true)
                  (sort_lspans spans) rows) as F.
  { rewrite Forall_forall in Hc.
    assert (forall s, In s (sort_lspans spans) -> loc_on_boundaries fs s) as Hc'
      by (intros s Hs; apply Hc; now apply in_sort_lspans).
    clear Hc. induction H as [|s r ss rs Hr _ IH]; [constructor|].
    constructor.
    - apply layout_arow_ok; [apply Hc'; now left|exact Hr].
    - apply IH. intros x Hx. apply Hc'. now right. }
  split.
  - eapply Forall2_imp; [|exact F]. cbn. tauto.
  - unfold keyed_arows. apply listed_in_order_intro.
    clear -F. induction F as [|s r ss rs [_ Hr] _ IH]; [constructor|]. cbn [map]. constructor; assumption.
Qed.
