(* C01_complete, the fall-back bound that needs no syntactic condition on the constants: the symbol table after a
   guessing pass is a monotone function (in the information order: Unknown below everything) of the symbol table
   before it; the language definition's own sweeps are dominated by the assembler's passes; hence after
   length ns + 3 passes every symbol is right. *)
From Coq Require Import NArith ZArith List Bool Lia.
From CA Require Import Model.Lexer Model.Parser Model.Literal Model.BigIntOps Model.Evaluator Model.Matcher Model.Resolver
  Spec.Denote Spec.Chain Proofs.EvalSemP Proofs.EvalMonoP Proofs.ResolverFixP Proofs.ResolverMonoP Proofs.ResolverTopP
  Proofs.CertifiedP Proofs.DenoteP Proofs.StaticSizeP Proofs.CertUniqueP Proofs.DenoteCompleteP Proofs.C01CompleteP.
Import ListNotations.
Open Scope Z_scope.

(* ---------- the definition's own pipeline stays inside the frame of the initial state ---------- *)
Lemma layout_frame all : forall ns st pos st', (forall n, In n ns -> In n all) ->
  layout ns st pos = Some st' -> frame all st st'.
Proof.
  induction ns as [|n ns IH]; intros st pos st' Hsub H; cbn [layout] in H.
  - inversion H; subst. apply frame_refl.
  - assert (Hsub' : forall m, In m ns -> In m all) by (intros m Hm; apply Hsub; now right).
    assert (Hn : In n all) by (apply Hsub; now left).
    destruct n as [s|s e|i src|w el|k e|k e|k e]; try (eapply IH; eauto; fail).
    + destruct (negb (pos mod 8 =? 0)); [discriminate|].
      eapply frame_trans; [|eapply IH; eauto]. apply frame_sym. eapply in_ids_label; eauto.
    + eapply frame_trans; [|eapply IH; eauto]. apply frame_res. eapply in_ids_res; eauto.
    + eapply frame_trans; [|eapply IH; eauto]. apply frame_align. eapply in_ids_align; eauto.
    + eapply frame_trans; [|eapply IH; eauto]. apply frame_addr. eapply in_ids_addr; eauto.
Qed.

Lemma const_sweep_frame names all : forall ns st pos st', (forall n, In n ns -> In n all) ->
  const_sweep names ns st pos = Some st' -> frame all st st'.
Proof.
  induction ns as [|n ns IH]; intros st pos st' Hsub H; cbn [const_sweep] in H.
  - inversion H; subst. apply frame_refl.
  - assert (Hsub' : forall m, In m ns -> In m all) by (intros m Hm; apply Hsub; now right).
    assert (Hn : In n all) by (apply Hsub; now left).
    destruct n as [s|s e|i src|w el|k e|k e|k e]; try (eapply IH; eauto; fail).
    destruct (eval code_ops (pvar names st pos true) e []) as [[v c]|]; [|discriminate].
    eapply frame_trans; [|eapply IH; eauto]. apply frame_sym. eapply in_ids_const; eauto.
Qed.

Lemma const_sweeps_frame names ns : forall fuel st st', const_sweeps fuel names ns st = Some st' -> frame ns st st'.
Proof.
  induction fuel as [|f IH]; intros st st' H; cbn [const_sweeps] in H.
  - inversion H; subst. apply frame_refl.
  - destruct (const_sweep names ns st 0) as [s|] eqn:E; [|discriminate].
    eapply frame_trans; [eapply const_sweep_frame; [|exact E]; auto|eapply IH; eauto].
Qed.


Definition mkst (l : list value) : state :=
  {| s_sym := l; s_instr := []; s_data := []; s_res := []; s_align := []; s_addr := [] |}.

Section Sem.
Variable names : list text.
Variable defs : list ruledef.
Variable ns : list node.
Variables st0 st : state.
Hypothesis HX : cert_ctx names defs ns st0 st.
Let HF := cx_frame _ _ _ _ _ HX.
Let Hd := cx_distinct _ _ _ _ _ HX.

(* what one node does to the symbol table (lab: labels are written, as the passes do; the sweeps do not) *)
Definition sstep (lab : bool) (n : node) (pos : Z) (l : list value) : list value :=
  match n with
  | NLabel s => if lab then set_nth l s (VInt (un (pos / 8))) else l
  | NConst s e => match eval code_ops (pvar names (mkst l) pos true) e [] with
                  | EOk (v, _) => set_nth l s v
                  | EErr => l end
  | _ => l
  end.
Fixpoint sfold (lab : bool) (ns2 ns1 : list node) (l : list value) : list value :=
  match ns2 with
  | [] => l
  | n :: r => sfold lab r (ns1 ++ [n]) (sstep lab n (cursor ns1 st 0) l)
  end.

Lemma eval_mkst cur pos e : eval code_ops (pvar names cur pos true) e [] = eval code_ops (pvar names (mkst (s_sym cur)) pos true) e [].
Proof. apply eval_ext. intros l p _. apply pvar_same. reflexivity. Qed.

Lemma resolve_node_syms n cur pos cur' r p' :
  resolve_node names defs false n cur pos = EOk (cur', r, p') -> s_sym cur' = sstep true n pos (s_sym cur).
Proof.
  intro H. destruct n as [s|s e|i src|width elems|k e|k e|k e]; cbn [resolve_node negb sstep] in *.
  - unfold address_at in H. cbn [negb] in H. rewrite andb_false_r in H. inversion H; subst. reflexivity.
  - rewrite <- eval_mkst. destruct (eval code_ops (pvar names cur pos true) e []) as [[v c]|]; [|discriminate].
    cbn [andb] in H. inversion H; subst. reflexivity.
  - destruct (nth_error (s_instr cur) i) as [d|]; [|discriminate].
    destruct (resolve_encoding defs _ true (i_matches d)) as [chosen|]; [|discriminate].
    inversion H; subst. reflexivity.
  - apply data_go_syms in H. exact H.
  - destruct (eval code_ops _ e []) as [[v c]|]; [|discriminate].
    destruct (expect_error_or_bigint v) as [v'|]; [|discriminate].
    match type of H with match ?x with EErr => _ | EOk _ => _ end = _ => destruct x as [z|]; [|discriminate] end.
    inversion H; subst. reflexivity.
  - destruct (eval code_ops _ e []) as [[v c]|]; [|discriminate].
    match type of H with match ?x with EErr => _ | EOk _ => _ end = _ => destruct x as [z|]; [|discriminate] end.
    destruct (negb (z =? nth k (s_align cur) 0)); [inversion H; subst; reflexivity|].
    cbn [andb] in H. inversion H; subst. reflexivity.
  - destruct (eval code_ops _ e []) as [[v c]|]; [|discriminate].
    destruct (expect_error_or_bigint v) as [v'|]; [|discriminate].
    cbv zeta in H.
    match type of H with (if negb ?c then _ else _) = _ => destruct (negb c); [inversion H; subst; reflexivity|] end.
    cbn [andb] in H. inversion H; subst. reflexivity.
Qed.

(* the symbol table after a guessing pass from an under-informed state *)
Lemma pass_weak_syms : forall ns2 ns1 K o cur acc cur' r, ns = ns1 ++ ns2 -> winv ns st K ns1 o cur ->
  pass names defs false ns2 cur (cursor ns1 st 0) acc = EOk (cur', r) -> s_sym cur' = sfold true ns2 ns1 (s_sym cur).
Proof.
  induction ns2 as [|n ns2 IH]; intros ns1 K o cur acc cur' r E I H; cbn [pass sfold] in *.
  - inversion H; subst. reflexivity.
  - destruct (node_weak names defs ns st0 st HX _ _ _ _ _ _ E I) as [c1 [res [H1 I1]]]. rewrite H1 in H.
    rewrite <- (resolve_node_syms _ _ _ _ _ _ H1). rewrite <- (cursor_snoc ns1 n st 0) in H.
    eapply IH; [rewrite <- app_assoc; exact E|exact I1|exact H].
Qed.

(* ---------- the information order on symbol tables ---------- *)
Record wk (l : list value) : Prop := {
  wk_len : length l = length (s_sym st);
  wk_weak : forall i, nth_error l i = nth_error (s_sym st) i \/ nth_error l i = Some VUnknown }.
Definition le (l l' : list value) : Prop := forall i, nth_error l i = nth_error (s_sym st) i -> nth_error l' i = nth_error (s_sym st) i.

Lemma wk_set l s v' : wk l -> (v' = nth s (s_sym st) VUnknown \/ v' = VUnknown) -> wk (set_nth l s v').
Proof.
  intros [HL W] Hv. constructor; [now rewrite set_nth_length|].
  intro i. destruct (Nat.eq_dec i s) as [->|Hne]; [|rewrite nth_error_set_nth_other by exact Hne; apply W].
  destruct (nth_error l s) as [z|] eqn:El.
  - rewrite (nth_error_set_nth_same _ _ _ _ El). destruct Hv as [->| ->]; [left|now right].
    rewrite nth_nth_error. destruct (nth_error (s_sym st) s) eqn:Et; [reflexivity|]. apply nth_error_None in Et.
    assert (s < length l)%nat by (apply nth_error_Some; congruence). lia.
  - rewrite nth_error_set_nth_none by exact El. apply W.
Qed.

Lemma pv_wk l pos : wk l -> forall lv p,
  pvar names (mkst l) pos true lv p = pvar names st pos true lv p \/ pvar names (mkst l) pos true lv p = EOk VUnknown.
Proof. intros W lv p. apply pvar_weak. cbn [s_sym mkst]. apply (wk_weak _ W). Qed.

Lemma pv_le l l' pos : wk l -> le l l' -> forall lv p,
  pvar names (mkst l) pos true lv p = pvar names (mkst l') pos true lv p \/ pvar names (mkst l) pos true lv p = EOk VUnknown.
Proof.
  intros W L lv p. unfold pvar. destruct lv; [|now left]. destruct p as [|first rest]; [now left|].
  destruct (text_eqb first s_dollar || text_eqb first s_pc); [now left|].
  destruct rest; [|now left]. destruct (find_sym names first 0) as [i|]; [|now left]. cbn [s_sym mkst].
  destruct (wk_weak _ W i) as [E|E].
  - left. rewrite (L i E), E. reflexivity.
  - right. rewrite E. reflexivity.
Qed.

(* evaluating a constant under an under-informed table: its certified value or Unknown, never an error *)
Lemma const_eval_wk l ns1 s e ns2 : ns = ns1 ++ NConst s e :: ns2 -> wk l ->
  exists v' c', eval code_ops (pvar names (mkst l) (cursor ns1 st 0) true) e [] = EOk (v', c') /\
    (v' = nth s (s_sym st) VUnknown \/ v' = VUnknown).
Proof.
  intros E W. destruct (const_at names defs ns st0 st HX _ _ _ _ E) as [v [c [Hev Hv]]].
  pose proof (eval_mono code_ops _ _ (pvar_mono names st _) _ _ _ Hev) as Hev'.
  destruct (eval_sou _ _ (pv_wk l (cursor ns1 st 0) W) e []) as [Q|[c' Q]]; rewrite Q.
  - rewrite Hev'. exists v, c. split; [reflexivity|left; now symmetry].
  - exists VUnknown, c'. split; [reflexivity|now right].
Qed.

Lemma sstep_mono b ns1 n ns2 l l' : ns = ns1 ++ n :: ns2 -> wk l -> wk l' -> le l l' ->
  wk (sstep b n (cursor ns1 st 0) l) /\ wk (sstep true n (cursor ns1 st 0) l') /\
  le (sstep b n (cursor ns1 st 0) l) (sstep true n (cursor ns1 st 0) l').
Proof.
  intros E W W' L. set (pos := cursor ns1 st 0).
  destruct n as [s|s e|i src|w el|k e|k e|k e]; cbn [sstep]; auto.
  - destruct (label_at names defs ns st0 st HX _ _ _ E) as [_ Hv]. fold pos in Hv.
    assert (Wl' : wk (set_nth l' s (VInt (un (pos / 8))))) by (apply wk_set; [exact W'|left; now symmetry]).
    assert (R' : nth_error (set_nth l' s (VInt (un (pos / 8)))) s = nth_error (s_sym st) s)
      by (rewrite <- Hv; apply set_nth_target; exact (wk_len _ W')).
    destruct b.
    + split; [apply wk_set; [exact W|left; now symmetry]|]. split; [exact Wl'|].
      intros i Hi. destruct (Nat.eq_dec i s) as [->|Hne]; [exact R'|].
      rewrite nth_error_set_nth_other in Hi |- * by exact Hne. apply L, Hi.
    + split; [exact W|]. split; [exact Wl'|].
      intros i Hi. destruct (Nat.eq_dec i s) as [->|Hne]; [exact R'|].
      rewrite nth_error_set_nth_other by exact Hne. apply L, Hi.
  - destruct (const_eval_wk l _ _ _ _ E W) as [v1 [c1 [E1 H1]]]. fold pos in E1.
    destruct (const_eval_wk l' _ _ _ _ E W') as [v2 [c2 [E2 H2]]]. fold pos in E2.
    rewrite E1, E2. split; [apply wk_set; assumption|]. split; [apply wk_set; assumption|].
    intros i Hi. destruct (Nat.eq_dec i s) as [->|Hne]; [|rewrite nth_error_set_nth_other in Hi |- * by exact Hne; apply L, Hi].
    destruct (nth_error l s) as [z|] eqn:El.
    + rewrite (nth_error_set_nth_same _ _ _ _ El) in Hi.
      assert (Hin' : exists z', nth_error l' s = Some z').
      { destruct (nth_error l' s) eqn:Q; [eauto|]. apply nth_error_None in Q.
        assert (s < length l)%nat by (apply nth_error_Some; congruence). pose proof (wk_len _ W). pose proof (wk_len _ W'). lia. }
      destruct Hin' as [z' El']. rewrite (nth_error_set_nth_same _ _ _ _ El'). rewrite <- Hi. f_equal.
      (* v1 is the certified value; show v2 = v1 *)
      assert (Hv1 : v1 = nth s (s_sym st) VUnknown) by (rewrite nth_nth_error, <- Hi; reflexivity).
      destruct (eval_sou _ _ (pv_le l l' pos W L) e []) as [Q|[c' Q]]; rewrite E1 in Q.
      * rewrite E2 in Q. congruence.
      * injection Q as -> _. destruct H2 as [->| ->]; [now symmetry|reflexivity].
    + rewrite nth_error_set_nth_none in Hi by exact El. rewrite El in Hi.
      assert (El' : nth_error l' s = None).
      { symmetry in Hi. apply nth_error_None in Hi. apply nth_error_None. pose proof (wk_len _ W'). lia. }
      rewrite nth_error_set_nth_none by exact El'. now rewrite El'.
Qed.

Lemma sfold_mono b : forall ns2 ns1 l l', ns = ns1 ++ ns2 -> wk l -> wk l' -> le l l' ->
  wk (sfold b ns2 ns1 l) /\ wk (sfold true ns2 ns1 l') /\ le (sfold b ns2 ns1 l) (sfold true ns2 ns1 l').
Proof.
  induction ns2 as [|n ns2 IH]; intros ns1 l l' E W W' L; cbn [sfold]; [auto|].
  destruct (sstep_mono b _ _ _ _ _ E W W' L) as [A [B C]].
  apply IH; [rewrite <- app_assoc; exact E|exact A|exact B|exact C].
Qed.

(* after a full pass every label is right *)
Lemma sfold_labels : forall ns2 ns1 l, ns = ns1 ++ ns2 -> wk l ->
  (forall s, In s (label_ids ns1) -> nth_error l s = nth_error (s_sym st) s) ->
  forall s, In s (label_ids ns) -> nth_error (sfold true ns2 ns1 l) s = nth_error (s_sym st) s.
Proof.
  induction ns2 as [|n ns2 IH]; intros ns1 l E W Hl s Hs; cbn [sfold].
  - rewrite app_nil_r in E. subst ns1. apply Hl, Hs.
  - destruct (sstep_mono true _ _ _ _ _ E W W (fun i H => H)) as [A _].
    apply (IH (ns1 ++ [n])); [rewrite <- app_assoc; exact E|exact A| |exact Hs].
    intros s' Hs'. unfold label_ids in Hs'. rewrite flat_map_app, in_app_iff in Hs'. fold (label_ids ns1) in Hs'.
    destruct n as [s0|s0 e|i src|w el|k e|k e|k e]; cbn [sstep flat_map app In] in *;
      try (destruct Hs' as [Hs'|[]]; apply Hl, Hs').
    + destruct (label_at names defs ns st0 st HX _ _ _ E) as [_ Hv].
      destruct (Nat.eq_dec s' s0) as [->|Hne].
      * rewrite <- Hv. apply set_nth_target. exact (wk_len _ W).
      * rewrite nth_error_set_nth_other by exact Hne. destruct Hs' as [Hs'|[Hs'|[]]]; [apply Hl, Hs'|congruence].
    + destruct Hs' as [Hs'|[]].
      destruct (eval code_ops _ e []) as [[v c]|]; [|apply Hl, Hs'].
      assert (s' <> s0).
      { intro; subst s0. apply (Hd s' e).
        - rewrite E. apply in_or_app. left. unfold label_ids in Hs'. apply in_flat_map in Hs'.
          destruct Hs' as [m [Hm Hin]]. destruct m; try contradiction. destruct Hin as [<-|[]]. exact Hm.
        - rewrite E. apply in_or_app. right. now left. }
      rewrite nth_error_set_nth_other by assumption. apply Hl, Hs'.
Qed.

(* ---------- the sweeps of the definition, on symbol tables ---------- *)
Record sq (ref : state) : Prop := {
  sq_instr : s_instr ref = s_instr st0;
  sq_data : s_data ref = s_data st0;
  sq_res : s_res ref = s_res st;
  sq_align : s_align ref = s_align st;
  sq_addr : s_addr ref = s_addr st }.

Lemma sz_agree_sq ref : sq ref -> sz_agree ns st ref.
Proof.
  intros Q. apply (sz_agree_either names defs ns st0 st HX).
  - intro i. right. now rewrite (sq_instr _ Q). - intro i. right. now rewrite (sq_data _ Q).
Qed.

Lemma sweep_syms : forall ns2 ns1 ref ref', ns = ns1 ++ ns2 -> sq ref ->
  const_sweep names ns2 ref (cursor ns1 st 0) = Some ref' ->
  s_sym ref' = sfold false ns2 ns1 (s_sym ref) /\ sq ref'.
Proof.
  induction ns2 as [|n ns2 IH]; intros ns1 ref ref' E Q H; cbn [const_sweep sfold] in *.
  - inversion H; subst. auto.
  - assert (E' : ns = (ns1 ++ [n]) ++ ns2) by (rewrite <- app_assoc; exact E).
    assert (Hin : In n ns) by (rewrite E; apply in_or_app; right; now left).
    assert (Adv : advance ref n (cursor ns1 st 0) = advance st n (cursor ns1 st 0)).
    { apply (advance_agree ns st ref _ _ Hin (sz_agree_sq _ Q)); intros;
        [now rewrite (sq_res _ Q)|now rewrite (sq_align _ Q)|now rewrite (sq_addr _ Q)]. }
    destruct n as [s|s e|i src|w el|k e|k e|k e]; cbn [sstep].
    + apply (IH _ _ _ E' Q). rewrite cursor_snoc. exact H.
    + rewrite <- eval_mkst. destruct (eval code_ops (pvar names ref (cursor ns1 st 0) true) e []) as [[v c]|]; [|discriminate].
      assert (Q' : sq {| s_sym := set_nth (s_sym ref) s v; s_instr := s_instr ref; s_data := s_data ref;
                        s_res := s_res ref; s_align := s_align ref; s_addr := s_addr ref |}) by (destruct Q; constructor; assumption).
      apply (IH (ns1 ++ [NConst s e]) _ _ E' Q'). rewrite cursor_snoc. exact H.
    + apply (IH _ _ _ E' Q). rewrite cursor_snoc, <- Adv. exact H.
    + apply (IH _ _ _ E' Q). rewrite cursor_snoc, <- Adv. exact H.
    + apply (IH _ _ _ E' Q). rewrite cursor_snoc, <- Adv. exact H.
    + apply (IH _ _ _ E' Q). rewrite cursor_snoc, <- Adv. exact H.
    + apply (IH _ _ _ E' Q). rewrite cursor_snoc. cbn [advance]. cbv zeta.
      destruct (addr_at names defs ns st0 st HX _ _ _ _ E) as [b [c [_ [Hv Hr]]]].
      rewrite (sq_addr _ Q), Hv in H. rewrite Hv.
      destruct (bv b >=? 0); [|exact H].
      destruct (bv b >? usize_max) eqn:G2; [|exact H]. rewrite Z.gtb_ltb in G2. apply Z.ltb_lt in G2. lia.
Qed.

Hypothesis Hsym0 : forall i v, nth_error (s_sym st0) i = Some v -> v = VUnknown.

Lemma symok_wk K l : symok ns st K l -> wk l.
Proof. intros [A B _]. constructor; assumption. Qed.

Lemma pinv_weaken K c : pinv ns st0 st K c -> pinv ns st0 st [] c.
Proof.
  intros [[A B C] M Z L F Lb]. constructor; try assumption. constructor; try assumption.
  intros i Hi. apply C. unfold sym_known in *. cbn in Hi. rewrite Hi. apply orb_true_r.
Qed.

Lemma winv_init K o : pinv ns st0 st K o -> winv ns st K [] o o.
Proof.
  intros [S M Z L F Lb]. constructor; try assumption; apply upd_rel_init.
  - rewrite <- (proj1 (f_res _ _ _ F)). exact (proj1 (f_res _ _ _ HF)).
  - rewrite <- (proj1 (f_align _ _ _ F)). exact (proj1 (f_align _ _ _ HF)).
  - rewrite <- (proj1 (f_addr _ _ _ F)). exact (proj1 (f_addr _ _ _ HF)).
Qed.

(* one pass of the assembler, with its effect on the symbol table *)
Lemma pass_step_syms a : pinv ns st0 st [] a ->
  exists c, guess_iter names defs ns 1 a = EOk c /\ pinv ns st0 st [] c /\
    s_res c = s_res st /\ s_align c = s_align st /\ s_addr c = s_addr st /\
    s_sym c = sfold true ns [] (s_sym a).
Proof.
  intro I. destruct (pass_step names defs ns st0 st HX [] a I) as [c [r [H [Ic [Er [Ea Ed]]]]]].
  exists c. cbn [guess_iter]. rewrite H. split; [reflexivity|]. split; [eapply pinv_weaken; exact Ic|].
  repeat (split; [assumption|]).
  eapply (pass_weak_syms ns [] [] a a Resolved c r eq_refl (winv_init _ _ I)). exact H.
Qed.

Lemma guess_iter_add : forall m k a b c, guess_iter names defs ns m a = EOk b -> guess_iter names defs ns k b = EOk c ->
  guess_iter names defs ns (m + k) a = EOk c.
Proof.
  induction m as [|m IH]; intros k a b c H1 H2; cbn [guess_iter Nat.add] in *.
  - injection H1 as ->. exact H2.
  - destruct (pass names defs false ns a 0 Resolved) as [[a2 r]|]; [|discriminate]. eapply IH; eauto.
Qed.

(* the sweeps of the definition are dominated, sweep by sweep, by the passes of the assembler *)
Lemma lock : forall fuel ref ref' a, const_sweeps fuel names ns ref = Some ref' ->
  sq ref -> wk (s_sym ref) -> pinv ns st0 st [] a -> le (s_sym ref) (s_sym a) ->
  exists a', guess_iter names defs ns fuel a = EOk a' /\ pinv ns st0 st [] a' /\
    sq ref' /\ wk (s_sym ref') /\ le (s_sym ref') (s_sym a').
Proof.
  induction fuel as [|f IH]; intros ref ref' a H Q W I L; cbn [const_sweeps] in H.
  - injection H as <-. exists a. cbn [guess_iter]. auto.
  - destruct (const_sweep names ns ref 0) as [r1|] eqn:E1; [|discriminate].
    destruct (sweep_syms ns [] ref r1 eq_refl Q E1) as [S1 Q1].
    destruct (pass_step_syms a I) as [c [Hc [Ic [_ [_ [_ Sc]]]]]].
    destruct (sfold_mono false ns [] (s_sym ref) (s_sym a) eq_refl W (symok_wk _ _ (p_sym _ _ _ _ _ I)) L) as [W1 [_ L1]].
    rewrite <- S1 in W1, L1. rewrite <- Sc in L1.
    destruct (IH r1 ref' c H Q1 W1 Ic L1) as [a' [Ha' R]].
    exists a'. split; [|exact R]. change (S f) with (1 + f)%nat. eapply guess_iter_add; eauto.
Qed.

(* the language definition's run, and what it says about the assembler's *)
Theorem reach_sem d1 d2 r3 a0 :
  layout ns st0 0 = Some d1 -> const_sweeps (S (length ns)) names ns d1 = Some d2 ->
  pass names defs false ns d2 0 Resolved = EOk (st, r3) ->
  pinv ns st0 st [] a0 ->
  guess_iter names defs ns (length ns + 4) a0 = EOk st.
Proof.
  intros E1 E2 E3 I0.
  (* the state after the layout *)
  destruct (layout_ok names defs ns st0 st HX ns [] st0 eq_refl (linv_init names defs ns st0 st HX)) as [d1' [E1' L1]].
  cbn [cursor fold_left] in E1'. rewrite E1 in E1'. injection E1' as <-.
  destruct (linv_final names defs ns st0 st HX _ L1) as [Hi [Hdt [Hr [Hal [Had Hs]]]]].
  assert (Q1 : sq d1) by (constructor; assumption).
  assert (W1 : wk (s_sym d1)).
  { constructor; [exact (proj1 Hs)|]. intro i. destruct (upd_rel_either _ _ _ _ i Hs) as [E|E]; [now left|].
    destruct (nth_error (s_sym st0) i) as [v|] eqn:E0.
    - right. rewrite E. f_equal. eapply Hsym0; eauto.
    - left. rewrite E. symmetry. eapply nth_error_None_len; [|exact E0]. exact (proj1 (f_sym _ _ _ HF)). }
  (* first pass of the assembler: the labels *)
  destruct (pass_step_syms a0 I0) as [a1 [H1 [I1 [_ [_ [_ S1]]]]]].
  pose proof (symok_wk _ _ (p_sym _ _ _ _ _ I0)) as Wa0.
  pose proof (symok_wk _ _ (p_sym _ _ _ _ _ I1)) as Wa1.
  assert (L01 : le (s_sym d1) (s_sym a1)).
  { intros i Hi'. destruct (in_dec Nat.eq_dec i (label_ids ns)) as [Hl|Hl].
    - rewrite S1. apply (sfold_labels ns [] (s_sym a0) eq_refl Wa0); [intros s []|exact Hl].
    - destruct (wk_weak _ Wa1 i) as [Q|Q]; [exact Q|]. rewrite Q.
      rewrite (proj2 (proj2 Hs i) Hl) in Hi'.
      destruct (nth_error (s_sym st0) i) as [v|] eqn:E0.
      + rewrite <- Hi'. f_equal. symmetry. eapply Hsym0; eauto.
      + exfalso. symmetry in Hi'. apply nth_error_None in Hi'. pose proof (wk_len _ Wa1).
        assert (i < length (s_sym a1))%nat by (apply nth_error_Some; congruence). lia. }
  (* the sweeps *)
  destruct (lock _ _ _ _ E2 Q1 W1 I1 L01) as [a2 [H2 [I2 [Q2 [W2 L2]]]]].
  (* the definition's own guessing pass from d2 *)
  assert (Id2 : pinv ns st0 st [] d2).
  { assert (F2 : frame ns st0 d2).
    { eapply frame_trans; [eapply layout_frame; [|exact E1]; auto|eapply const_sweeps_frame; exact E2]. }
    constructor.
    - constructor; [exact (wk_len _ W2)|exact (wk_weak _ W2)|].
      intros i Hk. unfold sym_known in Hk. cbn in Hk. apply negb_true_iff in Hk.
      rewrite <- (proj2 (f_sym _ _ _ F2) i), (proj2 (f_sym _ _ _ HF) i); try reflexivity;
        intro Hin; apply memb_In in Hin; change (decl_ids ns) with (sym_ids ns) in Hk; congruence.
    - rewrite (sq_instr _ Q2). exact (f_match _ _ _ HF).
    - apply sz_agree_sq. exact Q2.
    - rewrite (sq_data _ Q2). exact (proj1 (f_data _ _ _ HF)).
    - exact F2.
    - eapply const_sweeps_labels_ok; [exact Hd| |exact E2]. eapply layout_labels_ok; [exact Hd| |exact E1].
      intros s _. left. destruct (nth_error (s_sym st0) s) as [v|] eqn:E0.
      + rewrite (nth_error_nth' _ _ VUnknown _ E0). eapply Hsym0; eauto.
      + rewrite nth_nth_error, E0. reflexivity. }
  pose proof (pass_weak_syms ns [] [] d2 d2 Resolved st r3 eq_refl (winv_init _ _ Id2) E3) as Sst.
  (* one more pass of the assembler: every symbol *)
  destruct (pass_step_syms a2 I2) as [a3 [H3 [I3 [Er [Ea [Ed S3]]]]]].
  pose proof (symok_wk _ _ (p_sym _ _ _ _ _ I2)) as Wa2.
  destruct (sfold_mono true ns [] (s_sym d2) (s_sym a2) eq_refl W2 Wa2 L2) as [_ [_ L3]].
  rewrite <- Sst, <- S3 in L3.
  assert (Hs3 : s_sym a3 = s_sym st).
  { apply nth_error_ext; [exact (wk_len _ (symok_wk _ _ (p_sym _ _ _ _ _ I3)))|]. intro i. apply L3. reflexivity. }
  (* and the pass that lands on the certified state *)
  destruct (final_pass names defs ns st0 st a3 HX Hs3 Er Ea Ed (p_match _ _ _ _ _ I3)) with (acc := Resolved) as [rf Hrf].
  - eapply fr_between; [exact (f_instr _ _ _ (p_frame _ _ _ _ _ I3))|exact (f_instr _ _ _ HF)].
  - eapply fr_between; [exact (f_data _ _ _ (p_frame _ _ _ _ _ I3))|exact (f_data _ _ _ HF)].
  - replace (length ns + 4)%nat with (1 + (S (length ns) + (1 + 1)))%nat by lia.
    eapply guess_iter_add; [exact H1|]. eapply guess_iter_add; [exact H2|]. eapply guess_iter_add; [exact H3|].
    cbn [guess_iter]. rewrite Hrf. reflexivity.
Qed.
End Sem.
