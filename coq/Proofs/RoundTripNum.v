(* C05 round trip, number spellings: the decimal / `0x` spelling of Spec/Printer.print_num is one Number token and
   the literal reader of the model gives back the value and the size. *)
From Coq Require Import NArith List Bool Arith Lia ZifyBool.
From CA Require Import Model.Lexer Model.Parser Spec.LiteralSpec Spec.Printer Proofs.LiteralP Proofs.RoundTripLex.
Import ListNotations.
Open Scope N_scope.

Lemma digits_app radix a : forall b acc cnt,
  digits radix (a ++ b) acc cnt =
  match digits radix a acc cnt with Some (acc', cnt') => digits radix b acc' cnt' | None => None end.
Proof.
  induction a as [|c a IH]; intros b acc cnt; [reflexivity|].
  cbn [app digits]. destruct (c =? 95); [apply IH|].
  destruct (digit_val c) as [d|]; [|reflexivity]. destruct (d <? radix); [apply IH|reflexivity].
Qed.

Lemma hex_char_facts d : d < 16 ->
  is_ident_mid (hex_char d) = true /\ (hex_char d =? 95) = false /\ digit_val (hex_char d) = Some d.
Proof.
  intros H. unfold hex_char, digit_val, is_ident_mid, is_ident_start, is_lower, is_upper, is_digit, in_range.
  destruct (N.ltb_spec d 10).
  - repeat split; try lia.
    replace ((48 <=? 48 + d) && (48 + d <=? 57)) with true by lia. f_equal. lia.
  - repeat split; try lia.
    replace ((48 <=? 87 + d) && (87 + d <=? 57)) with false by lia.
    replace ((97 <=? 87 + d) && (87 + d <=? 122)) with true by lia. f_equal. lia.
Qed.

Lemma mod16_lt v : v mod 16 < 16.
Proof. apply N.mod_lt. discriminate. Qed.

Lemma hex_digits_mid k : forall v, forallb is_ident_mid (hex_digits k v) = true.
Proof.
  induction k as [|k IH]; intro v; [reflexivity|]. cbn [hex_digits]. rewrite forallb_app, IH. cbn [forallb].
  destruct (hex_char_facts (v mod 16) (mod16_lt v)) as (-> & _). reflexivity.
Qed.

Lemma digits_hex k : forall v acc cnt, v < 16 ^ N.of_nat k ->
  digits 16 (hex_digits k v) acc cnt = Some (acc * 16 ^ N.of_nat k + v, cnt + N.of_nat k).
Proof.
  induction k as [|k IH]; intros v acc cnt Hv.
  - cbn [hex_digits digits]. change (N.of_nat 0) with 0 in *. rewrite N.pow_0_r in *. apply f_equal. apply f_equal2; lia.
  - cbn [hex_digits]. rewrite Nat2N.inj_succ, N.pow_succ_r' in *.
    assert (Hq : v / 16 < 16 ^ N.of_nat k) by (apply N.div_lt_upper_bound; lia).
    rewrite digits_app, (IH (v / 16) acc cnt Hq). cbn [digits].
    destruct (hex_char_facts (v mod 16) (mod16_lt v)) as (_ & -> & ->).
    pose proof (mod16_lt v) as Hm. destruct (N.ltb_spec (v mod 16) 16); [|lia].
    pose proof (N.div_mod' v 16) as Hdm. apply f_equal. apply f_equal2; lia.
Qed.

Lemma dec_char_facts d : d < 10 -> is_digit (48 + d) = true /\ (48 + d =? 95) = false /\ digit_val (48 + d) = Some d.
Proof.
  intros H. unfold digit_val, is_digit, in_range. repeat split; try lia.
  replace ((48 <=? 48 + d) && (48 + d <=? 57)) with true by lia. f_equal. lia.
Qed.

Lemma dec_digits_digit f : forall v, v < 2 ^ N.of_nat f -> forallb is_digit (dec_digits f v) = true.
Proof.
  induction f as [|f IH]; intros v Hv.
  - change (N.of_nat 0) with 0 in Hv. rewrite N.pow_0_r in Hv. cbn [dec_digits forallb].
    destruct (dec_char_facts v) as (-> & _); [lia|reflexivity].
  - cbn [dec_digits]. destruct (N.ltb_spec v 10).
    + cbn [forallb]. destruct (dec_char_facts v) as (-> & _); [lia|reflexivity].
    + rewrite Nat2N.inj_succ, N.pow_succ_r' in Hv. rewrite forallb_app, IH.
      * cbn [forallb]. destruct (dec_char_facts (v mod 10)) as (-> & _); [apply N.mod_lt; discriminate|reflexivity].
      * apply N.div_lt_upper_bound; [discriminate|]. lia.
Qed.

Lemma digits_dec f : forall v acc cnt, v < 2 ^ N.of_nat f ->
  exists m, digits 10 (dec_digits f v) acc cnt = Some (acc * 10 ^ m + v, cnt + m) /\ 0 < m.
Proof.
  induction f as [|f IH]; intros v acc cnt Hv.
  - change (N.of_nat 0) with 0 in Hv. rewrite N.pow_0_r in Hv. exists 1. cbn [dec_digits digits].
    destruct (dec_char_facts v) as (_ & -> & ->); [lia|]. destruct (N.ltb_spec v 10); [|lia].
    split; [|lia]. rewrite N.pow_1_r. reflexivity.
  - cbn [dec_digits]. destruct (N.ltb_spec v 10) as [Hlt|Hge].
    + exists 1. cbn [digits]. destruct (dec_char_facts v) as (_ & -> & ->); [lia|]. destruct (N.ltb_spec v 10); [|lia].
      split; [|lia]. rewrite N.pow_1_r. reflexivity.
    + rewrite Nat2N.inj_succ, N.pow_succ_r' in Hv.
      assert (Hq : v / 10 < 2 ^ N.of_nat f) by (apply N.div_lt_upper_bound; [discriminate|lia]).
      destruct (IH (v / 10) acc cnt Hq) as (m & E & Hm). exists (m + 1). rewrite digits_app, E. cbn [digits].
      assert (Hmod : v mod 10 < 10) by (apply N.mod_lt; discriminate).
      destruct (dec_char_facts (v mod 10) Hmod) as (_ & -> & ->). destruct (N.ltb_spec (v mod 10) 10); [|lia].
      pose proof (N.div_mod' v 10) as Hdm. split; [|lia]. rewrite N.pow_add_r, N.pow_1_r. apply f_equal. apply f_equal2; lia.
Qed.

Lemma forallb_imp {A} (P Q : A -> bool) l : (forall x, P x = true -> Q x = true) -> forallb P l = true -> forallb Q l = true.
Proof.
  intros H. induction l as [|x l IH]; [reflexivity|]. cbn [forallb]. intro E. apply andb_prop in E. destruct E as [E1 E2].
  rewrite (H x E1), (IH E2). reflexivity.
Qed.

Lemma size_bound v : v < 2 ^ N.of_nat (N.to_nat (N.size v)).
Proof. rewrite N2Nat.id. apply N.size_gt. Qed.

Lemma bin_digits_mid k : forall v, forallb is_ident_mid (bin_digits k v) = true.
Proof.
  induction k as [|k IH]; intro v; [reflexivity|]. cbn [bin_digits]. rewrite forallb_app, IH. cbn [forallb].
  assert (H : v mod 2 < 2) by (apply N.mod_lt; discriminate). generalize dependent (v mod 2). intros m H.
  replace (is_ident_mid (48 + m)) with true; [reflexivity|].
  unfold is_ident_mid, is_ident_start, is_lower, is_upper, is_digit, in_range. lia.
Qed.

Lemma digits_bin k : forall v acc cnt, v < 2 ^ N.of_nat k ->
  digits 2 (bin_digits k v) acc cnt = Some (acc * 2 ^ N.of_nat k + v, cnt + N.of_nat k).
Proof.
  induction k as [|k IH]; intros v acc cnt Hv.
  - cbn [bin_digits digits]. change (N.of_nat 0) with 0 in *. rewrite N.pow_0_r in *. apply f_equal. apply f_equal2; lia.
  - cbn [bin_digits]. rewrite Nat2N.inj_succ, N.pow_succ_r' in *.
    assert (Hq : v / 2 < 2 ^ N.of_nat k) by (apply N.div_lt_upper_bound; lia).
    rewrite digits_app, (IH (v / 2) acc cnt Hq). cbn [digits].
    assert (Hm : v mod 2 < 2) by (apply N.mod_lt; discriminate).
    destruct (dec_char_facts (v mod 2) ltac:(lia)) as (_ & -> & ->).
    destruct (N.ltb_spec (v mod 2) 2); [|lia].
    pose proof (N.div_mod' v 2) as Hdm. apply f_equal. apply f_equal2; lia.
Qed.

(* the shape of a printed number *)
Lemma print_num_shape v sz : printable (ENum v sz) = true ->
  exists d s, print_num v sz = d :: s /\ is_digit d = true /\ forallb is_ident_mid s = true.
Proof.
  intros Hw. destruct sz as [s|]; cbn [print_num].
  - destruct (s mod 4 =? 0).
    + exists 48, (120 :: hex_digits (N.to_nat (s / 4)) v). repeat split. cbn [forallb]. rewrite hex_digits_mid. reflexivity.
    + exists 48, (98 :: bin_digits (N.to_nat s) v). repeat split. cbn [forallb]. rewrite bin_digits_mid. reflexivity.
  - pose proof (dec_digits_digit _ v (size_bound v)) as Hd.
    destruct (dec_digits (N.to_nat (N.size v)) v) as [|d s] eqn:E.
    + destruct (digits_dec _ v 0 0 (size_bound v)) as (m & Em & Hm). rewrite E in Em. cbn [digits] in Em.
      inversion Em. lia.
    + cbn [forallb] in Hd. apply andb_prop in Hd. destruct Hd as [Hd Hs]. exists d, s. repeat split; [exact Hd|].
      apply (forallb_imp is_digit); [|exact Hs]. intros x Hx. unfold is_ident_mid. rewrite Hx. apply orb_true_r.
Qed.

Lemma num_lex v sz rest : printable (ENum v sz) = true -> sep rest -> Lex (print_num v sz) rest TNumber.
Proof.
  intros Hw Hr. destruct (print_num_shape v sz Hw) as (d & s & -> & Hd & Hs). apply lex_number; assumption.
Qed.

Lemma num_literal v sz : printable (ENum v sz) = true -> number_literal (print_num v sz) = Some (v, sz).
Proof.
  intros Hw. destruct sz as [s|]; cbn [print_num printable] in *.
  - apply andb_prop in Hw. destruct Hw as [Hs Hv]. destruct (s mod 4 =? 0) eqn:Hm.
    2:{ set (k := N.to_nat s). assert (Ek : N.of_nat k = s) by (unfold k; apply N2Nat.id).
        assert (Hv' : v < 2 ^ N.of_nat k) by (rewrite Ek; lia).
        change (number_literal ([48; 98] ++ bin_digits k v)) with
          (match digits 2 (bin_digits k v) 0 0 with
           | Some (v0, cnt) => if cnt =? 0 then None
                               else Some (v0, if 2 =? 2 then Some cnt else if 2 =? 8 then Some (3 * cnt) else if 2 =? 16 then Some (4 * cnt) else None)
           | None => None end).
        rewrite (digits_bin k v 0 0 Hv'). rewrite Ek.
        destruct (N.eqb_spec (0 + s) 0); [lia|]. change (2 =? 2) with true. cbv iota.
        apply f_equal. apply f_equal2; [lia|]. apply f_equal. lia. }
    assert (E4 : s = 4 * (s / 4)).
    { pose proof (N.div_mod' s 4). apply N.eqb_eq in Hm. lia. }
    set (k := N.to_nat (s / 4)). assert (Ek : N.of_nat k = s / 4) by (unfold k; apply N2Nat.id).
    assert (Hv' : v < 16 ^ N.of_nat k).
    { rewrite Ek. change 16 with (2 ^ 4). rewrite <- N.pow_mul_r, <- E4. lia. }
    change (number_literal ([48; 120] ++ hex_digits k v)) with
      (match digits 16 (hex_digits k v) 0 0 with
       | Some (v0, cnt) => if cnt =? 0 then None
                           else Some (v0, if 16 =? 2 then Some cnt else if 16 =? 8 then Some (3 * cnt) else if 16 =? 16 then Some (4 * cnt) else None)
       | None => None end).
    rewrite (digits_hex k v 0 0 Hv'). rewrite Ek.
    destruct (N.eqb_spec (0 + s / 4) 0); [lia|]. change (16 =? 2) with false. change (16 =? 8) with false.
    change (16 =? 16) with true. cbv iota. apply f_equal. apply f_equal2; [lia|]. apply f_equal. lia.
  - pose proof (dec_digits_digit _ v (size_bound v)) as Hd.
    assert (Hp : has_prefix (dec_digits (N.to_nat (N.size v)) v) = false).
    { apply decimal_no_prefix. apply (forallb_imp is_digit); [|exact Hd]. intros x Hx. rewrite Hx. reflexivity. }
    destruct literal_prefixes as (_ & _ & _ & _ & _ & H10). rewrite (H10 _ Hp).
    rewrite <- number_body_spec by tauto. unfold number_body.
    destruct (digits_dec _ v 0 0 (size_bound v)) as (m & -> & Hm).
    destruct (N.eqb_spec (0 + m) 0); [lia|]. change (10 =? 2) with false. change (10 =? 8) with false.
    change (10 =? 16) with false. cbv iota. apply f_equal. apply f_equal2; [lia|reflexivity].
Qed.
