(* The per-bit loops of BigInt::slice / concat, the byte-complement `!` and the byte-reversing `le`
   equal their closed mathematical forms. *)
From Coq Require Import ZArith NArith List Bool Lia.
From CA Require Import Model.BigIntOps Spec.Sem.
Import ListNotations.
Open Scope Z_scope.

Lemma set_bit_spec x i b j : 0 <= j ->
  Z.testbit (set_bit x i b) j = if Z.eqb j (Z.of_N i) then b else Z.testbit x j.
Proof.
  intros Hj. unfold set_bit. destruct b.
  - rewrite Z.setbit_eqb by lia. destruct (Z.eqb_spec j (Z.of_N i)); subst.
    + rewrite Z.eqb_refl. reflexivity.
    + replace (Z.of_N i =? j) with false by (symmetry; apply Z.eqb_neq; lia). reflexivity.
  - rewrite Z.clearbit_eqb by lia. destruct (Z.eqb_spec j (Z.of_N i)); subst.
    + rewrite Z.eqb_refl. cbn. apply andb_false_r.
    + replace (Z.of_N i =? j) with false by (symmetry; apply Z.eqb_neq; lia). rewrite andb_true_r. reflexivity.
Qed.

Lemma slice_loop_spec x right k acc j : 0 <= j ->
  Z.testbit (slice_loop x right k acc) j =
  if j <? Z.of_nat k then Z.testbit x (Z.of_N right + j) else Z.testbit acc j.
Proof.
  revert acc. induction k as [|k IH]; intros acc Hj; cbn [slice_loop].
  - destruct (Z.ltb_spec j (Z.of_nat 0)); [lia|reflexivity].
  - rewrite IH by assumption.
    destruct (Z.ltb_spec j (Z.of_nat k)); destruct (Z.ltb_spec j (Z.of_nat (S k))); try lia; try reflexivity.
    + rewrite set_bit_spec by assumption.
      assert (j = Z.of_nat k) by lia. subst j.
      rewrite nat_N_Z, Z.eqb_refl. unfold get_bit. f_equal. lia.
    + rewrite set_bit_spec by assumption.
      replace (j =? Z.of_N (N.of_nat k)) with false by (symmetry; apply Z.eqb_neq; lia). reflexivity.
Qed.

Theorem slice_bits_spec x left right : slice_bits x left right = sem_slice_bits x left right.
Proof.
  apply Z.bits_inj'. intros j Hj. unfold slice_bits, sem_slice_bits.
  rewrite slice_loop_spec by assumption. rewrite N_nat_Z.
  destruct (Z.ltb_spec j (Z.of_N (left - right))).
  - rewrite Z.mod_pow2_bits_low by lia. rewrite Z.div_pow2_bits by lia. f_equal. lia.
  - rewrite Z.mod_pow2_bits_high by lia. apply Z.bits_0.
Qed.

Theorem slice_spec x left right : slice x left right = sem_slice x left right.
Proof. unfold slice, sem_slice. rewrite slice_bits_spec. reflexivity. Qed.

Lemma copy_loop_spec src so d k acc j : 0 <= j ->
  Z.testbit (copy_loop src so d k acc) j =
  if (Z.of_N d <=? j) && (j <? Z.of_N d + Z.of_nat k) then Z.testbit src (Z.of_N so + (j - Z.of_N d)) else Z.testbit acc j.
Proof.
  revert acc. induction k as [|k IH]; intros acc Hj; cbn [copy_loop].
  - destruct (Z.leb_spec (Z.of_N d) j); destruct (Z.ltb_spec j (Z.of_N d + Z.of_nat 0)); cbn; try lia; reflexivity.
  - rewrite IH by assumption.
    destruct (Z.leb_spec (Z.of_N d) j); cbn [andb].
    2:{ rewrite set_bit_spec by assumption. replace (j =? Z.of_N (d + N.of_nat k)) with false by (symmetry; apply Z.eqb_neq; lia). reflexivity. }
    destruct (Z.ltb_spec j (Z.of_N d + Z.of_nat k)); destruct (Z.ltb_spec j (Z.of_N d + Z.of_nat (S k))); try lia; try reflexivity.
    + rewrite set_bit_spec by assumption.
      assert (j = Z.of_N (d + N.of_nat k)) as -> by lia. rewrite Z.eqb_refl. unfold get_bit. f_equal. lia.
    + rewrite set_bit_spec by assumption.
      replace (j =? Z.of_N (d + N.of_nat k)) with false by (symmetry; apply Z.eqb_neq; lia). reflexivity.
Qed.

Lemma disjoint_add_lor x y : Z.land x y = 0 -> x + y = Z.lor x y.
Proof. intro H. rewrite Z.add_nocarry_lxor by assumption. apply Z.lxor_lor. assumption. Qed.

Theorem concat_bits_spec a asz b bsz : concat_bits a asz b bsz = sem_concat_bits a asz b bsz.
Proof.
  unfold sem_concat_bits.
  set (A := a mod 2 ^ Z.of_N asz). set (B := b mod 2 ^ Z.of_N bsz).
  assert (HA : forall j, 0 <= j -> Z.testbit A j = if j <? Z.of_N asz then Z.testbit a j else false).
  { intros j Hj. unfold A. destruct (Z.ltb_spec j (Z.of_N asz)).
    - apply Z.mod_pow2_bits_low; lia. - apply Z.mod_pow2_bits_high; lia. }
  assert (HB : forall j, 0 <= j -> Z.testbit B j = if j <? Z.of_N bsz then Z.testbit b j else false).
  { intros j Hj. unfold B. destruct (Z.ltb_spec j (Z.of_N bsz)).
    - apply Z.mod_pow2_bits_low; lia. - apply Z.mod_pow2_bits_high; lia. }
  rewrite <- Z.shiftl_mul_pow2 by lia.
  rewrite disjoint_add_lor.
  2:{ apply Z.bits_inj'. intros j Hj. rewrite Z.land_spec, Z.bits_0, HB by assumption.
      destruct (Z.ltb_spec j (Z.of_N bsz)).
      - rewrite Z.shiftl_spec_low by lia. reflexivity.
      - apply andb_false_r. }
  apply Z.bits_inj'. intros j Hj. unfold concat_bits.
  rewrite copy_loop_spec by assumption. rewrite N_nat_Z. rewrite Z.lor_spec, HB by assumption.
  change (Z.of_N 0) with 0. rewrite Z.add_0_l.
  destruct (Z.ltb_spec j (Z.of_N bsz)).
  - rewrite Z.shiftl_spec_low by lia. rewrite orb_false_l.
    replace (0 <=? j) with true by (symmetry; apply Z.leb_le; lia). cbn [andb]. f_equal; lia.
  - rewrite andb_false_r.
    rewrite copy_loop_spec by assumption. rewrite N_nat_Z, orb_false_r.
    rewrite Z.shiftl_spec by assumption. rewrite Z.add_0_l.
    destruct (Z.leb_spec (Z.of_N bsz) j); [|lia]. cbn [andb].
    rewrite HA by lia.
    destruct (Z.ltb_spec j (Z.of_N bsz + Z.of_N asz)); destruct (Z.ltb_spec (j - Z.of_N bsz) (Z.of_N asz)); try lia.
    + reflexivity.
    + apply Z.bits_0.
Qed.

Theorem concat_spec a asz b bsz : concat a asz b bsz = sem_concat a asz b bsz.
Proof. unfold concat, sem_concat. rewrite concat_bits_spec. reflexivity. Qed.

(* ---------------- bytes ---------------- *)
Lemma pow256 n : 0 <= n -> 2 ^ (8 * n) = 256 ^ n.
Proof. intro H. rewrite Z.pow_mul_r by lia. reflexivity. Qed.

Lemma from_bytes_be_app bs c : from_bytes_be (bs ++ [c]) = from_bytes_be bs * 256 + c.
Proof. unfold from_bytes_be. rewrite fold_left_app. reflexivity. Qed.

(* little-endian reading *)
Fixpoint le_value (bs : list Z) : Z := match bs with [] => 0 | b :: r => b + 256 * le_value r end.

Lemma from_bytes_le_value bs : from_bytes_le bs = le_value bs.
Proof.
  unfold from_bytes_le. induction bs as [|b r IH]; [reflexivity|].
  cbn [rev le_value]. rewrite from_bytes_be_app, IH. lia.
Qed.

Lemma le_value_bytes_le v n : 0 <= v -> le_value (bytes_le v n) = v mod 256 ^ Z.of_nat n.
Proof.
  revert v; induction n as [|n IH]; intros v Hv.
  - cbn. now rewrite Z.mod_1_r.
  - cbn [bytes_le le_value]. rewrite IH by (apply Z.div_pos; lia).
    rewrite Nat2Z.inj_succ, Z.pow_succ_r by lia.
    rewrite (Z.rem_mul_r v 256 (256 ^ Z.of_nat n)) by (try apply Z.pow_pos_nonneg; lia). reflexivity.
Qed.

Lemma bytes_le_length v n : length (bytes_le v n) = n.
Proof. revert v; induction n; intros; cbn; [reflexivity|]. now rewrite IHn. Qed.

Lemma le_value_app a b : le_value (a ++ b) = le_value a + 256 ^ Z.of_nat (length a) * le_value b.
Proof.
  induction a as [|x a IH]; cbn [app le_value length].
  - change (Z.of_nat 0) with 0. rewrite Z.pow_0_r. lia.
  - rewrite IH. rewrite Nat2Z.inj_succ, Z.pow_succ_r by lia. lia.
Qed.

Lemma le_value_compl bs : (forall b, In b bs -> 0 <= b < 256) ->
  le_value (map (fun b => 255 - b) bs) = 256 ^ Z.of_nat (length bs) - 1 - le_value bs.
Proof.
  induction bs as [|b r IH]; intro H; cbn [map le_value length].
  - reflexivity.
  - rewrite IH by (intros; apply H; now right).
    rewrite Nat2Z.inj_succ, Z.pow_succ_r by lia. lia.
Qed.

Lemma bytes_le_range v n b : In b (bytes_le v n) -> 0 <= b < 256.
Proof.
  revert v; induction n as [|n IH]; intros v; cbn; [tauto|].
  intros [<-|H]; [apply Z.mod_pos_bound; lia | eauto].
Qed.

Lemma le_value_bound bs : (forall b, In b bs -> 0 <= b < 256) -> 0 <= le_value bs < 256 ^ Z.of_nat (length bs).
Proof.
  induction bs as [|b r IH]; intro H; cbn [le_value length].
  - change (Z.of_nat 0) with 0. rewrite Z.pow_0_r. lia.
  - specialize (IH (fun x Hx => H x (or_intror Hx))). specialize (H b (or_introl eq_refl)).
    rewrite Nat2Z.inj_succ, Z.pow_succ_r by lia. lia.
Qed.

(* top byte of a little-endian byte list decides the sign *)
Lemma top_byte_ge bs t : (forall b, In b (bs ++ [t]) -> 0 <= b < 256) ->
  (t >=? 128) = (le_value (bs ++ [t]) >=? 256 ^ Z.of_nat (length (bs ++ [t])) / 2).
Proof.
  intro H. rewrite le_value_app. cbn [le_value]. rewrite app_length. cbn [length].
  assert (Hb := le_value_bound bs (fun x Hx => H x (in_or_app _ _ _ (or_introl Hx)))).
  assert (Ht : 0 <= t < 256) by (apply H; apply in_or_app; right; now left).
  replace (Z.of_nat (length bs + 1)) with (Z.succ (Z.of_nat (length bs))) by lia.
  rewrite Z.pow_succ_r by lia. set (P := 256 ^ Z.of_nat (length bs)) in *.
  assert (0 < P) by (apply Z.pow_pos_nonneg; lia).
  replace (256 * P / 2) with (128 * P) by (apply Z.div_unique_exact; lia).
  destruct (Z.geb_spec t 128); destruct (Z.geb_spec (le_value bs + P * (t + 256 * 0)) (128 * P)); try reflexivity; nia.
Qed.

Lemma from_signed_le_spec bs : bs <> [] -> (forall b, In b bs -> 0 <= b < 256) ->
  from_signed_bytes_le bs =
    let u := le_value bs in let M := 256 ^ Z.of_nat (length bs) in if u >=? M / 2 then u - M else u.
Proof.
  intros Hne Hr. unfold from_signed_bytes_le. rewrite from_bytes_le_value.
  destruct (exists_last Hne) as [pre [t ->]].
  rewrite rev_app_distr. cbn [rev app].
  rewrite (top_byte_ge pre t Hr). cbv zeta.
  rewrite pow256 by lia. reflexivity.
Qed.

(* the signed width really bounds the value *)
Lemma bits_spec m : 0 < m -> 2 ^ (bits m - 1) <= m < 2 ^ bits m.
Proof.
  intro H. unfold bits. rewrite Z.abs_eq by lia.
  destruct (Z.eqb_spec m 0); [lia|].
  replace (Z.log2 m + 1 - 1) with (Z.log2 m) by lia.
  destruct (Z.log2_spec m H). rewrite <- Z.add_1_r in *. lia.
Qed.

Lemma bits_nonneg m : 0 <= bits m.
Proof. unfold bits. destruct (Z.abs m =? 0); [lia|]. pose proof (Z.log2_nonneg (Z.abs m)). lia. Qed.

Lemma bits_pos m : m <> 0 -> 1 <= bits m.
Proof. intro H. unfold bits. destruct (Z.eqb_spec (Z.abs m) 0); [lia|]. pose proof (Z.log2_nonneg (Z.abs m)). lia. Qed.

Lemma signed_width_range v : - 2 ^ (signed_width v - 1) <= v < 2 ^ (signed_width v - 1).
Proof.
  unfold signed_width. destruct (Z.eqb_spec v 0); [subst; cbn; lia|].
  destruct (Z.ltb_spec v 0).
  - destruct (Z.eq_dec v (-1)) as [->|]. { cbn. lia. }
    pose proof (bits_spec (-(v+1)) ltac:(lia)).
    replace (bits (- (v + 1)) + 1 - 1) with (bits (-(v+1))) by lia.
    assert (0 < 2 ^ bits (- (v + 1))) by (apply Z.pow_pos_nonneg; [lia|apply bits_nonneg]).
    lia.
  - pose proof (bits_spec v ltac:(lia)). replace (bits v + 1 - 1) with (bits v) by lia.
    assert (0 < 2 ^ bits v) by lia. lia.
Qed.

Lemma signed_width_pos v : 1 <= signed_width v.
Proof.
  unfold signed_width. pose proof (bits_nonneg v). pose proof (bits_nonneg (-(v+1))).
  destruct (v =? 0); [lia|]. destruct (v <? 0); lia.
Qed.

Lemma signed_len_range v : let n := Z.of_nat (signed_len v) in
  1 <= n /\ - 2 ^ (8 * n - 1) <= v < 2 ^ (8 * n - 1).
Proof.
  cbv zeta. unfold signed_len. pose proof (signed_width_pos v) as Hp.
  pose proof (signed_width_range v) as Hr.
  set (w := signed_width v) in *.
  assert (Hq : 1 <= (w + 7) / 8) by (apply Z.div_le_lower_bound; lia).
  rewrite Z2Nat.id by lia. split; [exact Hq|].
  assert (w <= 8 * ((w + 7) / 8)) by (pose proof (Z.mul_div_le (w+7) 8 ltac:(lia)); pose proof (Z.mod_pos_bound (w+7) 8 ltac:(lia)); pose proof (Z.div_mod (w+7) 8 ltac:(lia)); lia).
  assert (2 ^ (w - 1) <= 2 ^ (8 * ((w + 7) / 8) - 1)) by (apply Z.pow_le_mono_r; lia).
  lia.
Qed.

Theorem not_bytes_spec v : not_bytes v = sem_not v.
Proof.
  unfold not_bytes, sem_not, to_signed_bytes_le.
  destruct (signed_len_range v) as [Hn Hr]. set (n := signed_len v) in *.
  assert (HP : 2 ^ (8 * Z.of_nat n) = 2 * 2 ^ (8 * Z.of_nat n - 1)).
  { rewrite <- Z.pow_succ_r by lia. f_equal. lia. }
  assert (Hpos : 0 < 2 ^ (8 * Z.of_nat n - 1)) by (apply Z.pow_pos_nonneg; lia).
  set (P := 2 ^ (8 * Z.of_nat n)) in *.
  set (bs := bytes_le (v mod P) n).
  assert (Hbs : forall b, In b bs -> 0 <= b < 256) by (intros b; apply bytes_le_range).
  assert (Hval : le_value bs = v mod P).
  { unfold bs. rewrite le_value_bytes_le by (apply Z.mod_pos_bound; lia).
    unfold P. rewrite pow256 by lia. apply Z.mod_small.
    rewrite <- pow256 by lia. apply Z.mod_pos_bound. lia. }
  assert (Hlen : length bs = n) by apply bytes_le_length.
  destruct (Z.leb_spec 0 v) as [Hv|Hv].
  - (* non-negative: a zero byte is appended *)
    rewrite from_signed_le_spec.
    2:{ destruct bs; discriminate. }
    2:{ intros b Hb. apply in_map_iff in Hb. destruct Hb as [x [<- Hx]].
        apply in_app_or in Hx. destruct Hx as [Hx|[<-|[]]]; [specialize (Hbs x Hx)|]; lia. }
    cbv zeta. rewrite map_length, app_length, Hlen. cbn [length].
    rewrite le_value_compl.
    2:{ intros b Hb. apply in_app_or in Hb. destruct Hb as [Hx|[<-|[]]]; [apply Hbs; exact Hx|lia]. }
    rewrite app_length, Hlen. cbn [length]. rewrite le_value_app, Hlen, Hval. cbn [le_value].
    rewrite Z.mod_small by lia.
    replace (Z.of_nat (n + 1)) with (Z.succ (Z.of_nat n)) by lia. rewrite Z.pow_succ_r by lia.
    rewrite <- pow256 by lia. fold P.
    replace (256 * P / 2) with (128 * P) by (apply Z.div_unique_exact; lia).
    destruct (Z.geb_spec (256 * P - 1 - (v + P * (0 + 256 * 0))) (128 * P)); lia.
  - (* negative *)
    assert (Hm : v mod P = v + P).
    { symmetry. apply (Z.mod_unique v P (-1)); lia. }
    assert (bs <> []) by (intro E; rewrite E in Hlen; cbn in Hlen; lia).
    rewrite from_signed_le_spec.
    2:{ destruct bs; [congruence|discriminate]. }
    2:{ intros b Hb. apply in_map_iff in Hb. destruct Hb as [x [<- Hx]]. specialize (Hbs x Hx). lia. }
    cbv zeta. rewrite map_length, Hlen. rewrite le_value_compl by exact Hbs.
    rewrite Hlen, Hval, Hm. rewrite <- pow256 by lia. fold P.
    replace (P / 2) with (2 ^ (8 * Z.of_nat n - 1)) by (apply Z.div_unique_exact; lia).
    destruct (Z.geb_spec (P - 1 - (v + P)) (2 ^ (8 * Z.of_nat n - 1))); lia.
Qed.

(* ---------------- le ---------------- *)
Lemma from_bytes_be_le_value bs : from_bytes_be bs = le_value (rev bs).
Proof. rewrite <- from_bytes_le_value. unfold from_bytes_le. now rewrite rev_involutive. Qed.

Lemma reverse_bytes_spec v k : 0 <= v -> from_bytes_be (bytes_le v k) = reverse_bytes v k.
Proof.
  revert v; induction k as [|k IH]; intros v Hv; [reflexivity|].
  cbn [bytes_le reverse_bytes]. rewrite from_bytes_be_le_value. cbn [rev].
  rewrite le_value_app. cbn [le_value]. rewrite rev_length, bytes_le_length.
  rewrite <- from_bytes_be_le_value, IH by (apply Z.div_pos; lia). lia.
Qed.

Lemma bytes_le_zero_tail v n m : 0 <= v -> v < 256 ^ Z.of_nat n -> (n <= m)%nat ->
  from_bytes_be (bytes_le v m) = from_bytes_be (bytes_le v n) * 256 ^ Z.of_nat (m - n).
Proof.
  intros Hv Hlt Hle. rewrite !reverse_bytes_spec by assumption.
  revert v m Hv Hlt Hle. induction n as [|n IH]; intros v m Hv Hlt Hle.
  - cbn in Hlt. assert (v = 0) as -> by lia. cbn [reverse_bytes].
    clear. rewrite Z.mul_0_l. induction m as [|m IHm]; [reflexivity|]. cbn [reverse_bytes].
    rewrite Z.mod_0_l, Z.div_0_l by lia. lia.
  - destruct m as [|m]; [lia|]. cbn [reverse_bytes].
    rewrite Nat2Z.inj_succ, Z.pow_succ_r in Hlt by lia.
    rewrite (IH (v / 256) m) by (try apply Z.div_pos; try apply Z.div_lt_upper_bound; lia).
    replace (S m - S n)%nat with (m - n)%nat by lia.
    replace (Z.of_nat m) with (Z.of_nat n + Z.of_nat (m - n)) by lia.
    rewrite Z.pow_add_r by lia. lia.
Qed.

(* magnitude length: the value fits in that many bytes *)
Lemma magnitude_len_fits v : 0 <= v -> v < 256 ^ Z.of_nat (magnitude_len v).
Proof.
  intro Hv. unfold magnitude_len. destruct (Z.eqb_spec v 0); [subst; cbn; lia|].
  pose proof (bits_spec v ltac:(lia)) as [_ Hb].
  assert (Hbp : 1 <= bits v) by (apply bits_pos; lia).
  assert (1 <= (bits v + 7) / 8) by (apply Z.div_le_lower_bound; lia).
  rewrite Z2Nat.id by lia. rewrite <- pow256 by lia.
  assert (bits v <= 8 * ((bits v + 7) / 8)) by (pose proof (Z.div_mod (bits v + 7) 8 ltac:(lia)); pose proof (Z.mod_pos_bound (bits v + 7) 8 ltac:(lia)); lia).
  assert (2 ^ bits v <= 2 ^ (8 * ((bits v + 7) / 8))) by (apply Z.pow_le_mono_r; lia). lia.
Qed.

Lemma sem_slice_full_range x size : wf x -> bsz x = Some size ->
  0 <= bv (sem_slice x size 0) < 2 ^ Z.of_N size.
Proof.
  intros Hwf Hs. unfold sem_slice. rewrite Hs.
  destruct ((0 <=? bv x) && (size =? size)%N && (0 =? 0)%N) eqn:E.
  - apply andb_prop in E. destruct E as [E _]. apply andb_prop in E. destruct E as [E _].
    apply Z.leb_le in E. unfold wf in Hwf. rewrite Hs in Hwf. split; [exact E|auto].
  - cbn [bv mk]. unfold sem_slice_bits. rewrite N.sub_0_r. apply Z.mod_pos_bound. apply Z.pow_pos_nonneg; lia.
Qed.

(* `le` on a well-formed value whose size is a multiple of 8 is the reversal of its size/8 bytes *)
Theorem convert_le_spec x size : wf x -> bsz x = Some size -> (size mod 8 = 0)%N ->
  convert_le x size = sem_le x size.
Proof.
  intros Hwf Hs Hm. unfold convert_le, sem_le. rewrite slice_spec.
  pose proof (sem_slice_full_range x size Hwf Hs) as [H0 H1]. set (v := bv (sem_slice x size 0)) in *.
  f_equal.
  set (k := N.to_nat (size / 8)).
  assert (Hk : Z.of_N size = 8 * Z.of_nat k).
  { unfold k. rewrite N_nat_Z. rewrite (N.div_mod size 8) at 1 by lia. rewrite Hm. lia. }
  rewrite Hk, pow256 in H1 by lia.
  destruct (Nat.max_spec (magnitude_len v) k) as [[Hlt ->]|[Hge ->]].
  - apply reverse_bytes_spec. exact H0.
  - (* magnitude_len v > k is impossible unless equal after padding: v < 256^k so both readings agree *)
    rewrite (bytes_le_zero_tail v k (magnitude_len v) H0 H1 Hge).
    assert (magnitude_len v <= Nat.max 1 k)%nat as Hml.
    { unfold magnitude_len. destruct (Z.eqb_spec v 0); [lia|].
      pose proof (bits_spec v ltac:(lia)) as [Hlo _].
      assert (Hbp : 1 <= bits v) by (apply bits_pos; lia).
      assert (bits v <= 8 * Z.of_nat k).
      { destruct (Z_le_gt_dec (bits v) (8 * Z.of_nat k)); [assumption|].
        assert (2 ^ (8 * Z.of_nat k) <= 2 ^ (bits v - 1)) by (apply Z.pow_le_mono_r; lia).
        rewrite pow256 in * by lia. lia. }
      assert ((bits v + 7) / 8 < Z.of_nat k + 1) by (apply Z.div_lt_upper_bound; lia).
      lia. }
    destruct k as [|k'].
    + (* size = 0: v = 0 *)
      cbn in H1. assert (v = 0) as -> by lia. unfold magnitude_len. cbn. reflexivity.
    + assert (magnitude_len v = S k') as -> by lia. rewrite Nat.sub_diag. cbn [Z.of_nat Z.pow]. rewrite Z.mul_1_r.
      apply reverse_bytes_spec. exact H0.
Qed.
