(* C11, part 5: Intel HEX for several blocks (BitVec::get_blocks + the per-block record loop). *)
From Coq Require Import Ascii String ZArith NArith List Bool Lia ZifyBool Arith.
From CA Require Import Model.Formats Spec.Decoders Proofs.FmtBase Proofs.FormatsP Proofs.FormatsP2.
Import ListNotations.
Open Scope N_scope.
Ltac Zify.zify_post_hook ::= Z.to_euclidean_division_equations.

(* ------------------------------------------------------------------ bytes of the vector *)
(* the octet that starts at bit position p (zero bits past the end), as the code reads it *)
Definition byte_at (bs : list bool) (p : nat) : N := bits_val (first_bits 8 (skipn p bs)) 0.

(* the data of a record is the vector's own bytes from the record's bit index on *)
Definition data_true (bs : list bool) (idx : N) (d : list N) : Prop :=
  d = map (fun j => byte_at bs (N.to_nat idx + 8 * j)) (seq 0 (length d)).

Lemma skipn_skipn' {A} a : forall b (l : list A), skipn a (skipn b l) = skipn (a + b) l.
Proof.
  intros b l. revert l. induction b as [|b IH]; intro l.
  - now rewrite Nat.add_0_r.
  - rewrite Nat.add_succ_r. destruct l as [|x t]; [now rewrite !skipn_nil|]. cbn [skipn]. apply IH.
Qed.

Lemma byte_at_lt bs p : byte_at bs p < 256.
Proof. unfold byte_at. pose proof (bits_val_lt (first_bits 8 (skipn p bs))) as H. now rewrite first_bits_length in H. Qed.

Lemma data_true_bound bs idx d : data_true bs idx d -> Forall (fun b => b < 256) d.
Proof.
  intro H. rewrite H. apply Forall_forall. intros x Hx. apply in_map_iff in Hx.
  destruct Hx as (j & <- & _). apply byte_at_lt.
Qed.

Lemma data_true_snoc bs idx d : data_true bs idx d ->
  data_true bs idx (d ++ [byte_at bs (N.to_nat idx + 8 * length d)]).
Proof.
  unfold data_true. intro H. rewrite app_length. cbn [length]. rewrite Nat.add_1_r, seq_S, map_app.
  cbn [map Nat.add]. now rewrite <- H.
Qed.

Lemma data_true_nth bs idx d j b : data_true bs idx d -> nth_error d j = Some b ->
  b = byte_at bs (N.to_nat idx + 8 * j).
Proof.
  intros H Hn. assert (j < length d)%nat as Hj by (apply nth_error_Some; congruence).
  rewrite H in Hn. rewrite nth_error_map in Hn.
  rewrite (nth_error_nth' _ 0%nat) in Hn by (rewrite seq_length; exact Hj).
  rewrite seq_nth in Hn by exact Hj. cbn [option_map Nat.add] in Hn. congruence.
Qed.

(* ------------------------------------------------------------------ the record loop of one block *)
Lemma ihex_block_done fuel ri end_ ai accum l : end_ <= ri -> ihex_block fuel ri end_ ai accum l = flush ai accum.
Proof. intro H. destruct fuel; cbn [ihex_block]; destruct (N.ltb_spec ri end_); (lia || reflexivity). Qed.

Lemma ihex_block_true bs end_ : forall fuel ri ai accum,
  (N.to_nat (end_ - ri) <= 8 * fuel)%nat ->
  ri = ai + 8 * N.of_nat (length accum) -> (length accum < 32)%nat ->
  (accum <> [] -> ai < end_) -> data_true bs ai accum ->
  recs_chain end_ ai (ihex_block fuel ri end_ ai accum (skipn (N.to_nat ri) bs))
  /\ Forall (fun r => data_true bs (fst r) (snd r)) (ihex_block fuel ri end_ ai accum (skipn (N.to_nat ri) bs))
  /\ N.of_nat (length (concat (map snd (ihex_block fuel ri end_ ai accum (skipn (N.to_nat ri) bs)))))
     = N.of_nat (length accum) + (end_ - ri + 7) / 8.
Proof.
  assert (forall ri ai accum, end_ <= ri -> (length accum < 32)%nat -> (accum <> [] -> ai < end_) ->
          data_true bs ai accum ->
          recs_chain end_ ai (flush ai accum)
          /\ Forall (fun r => data_true bs (fst r) (snd r)) (flush ai accum)
          /\ N.of_nat (length (concat (map snd (flush ai accum)))) = N.of_nat (length accum) + (end_ - ri + 7) / 8) as Hflush.
  { intros ri ai accum Hr Hl Ha T. rewrite flush_data.
    replace (end_ - ri) with 0 by lia. change ((0 + 7) / 8) with 0. rewrite N.add_0_r.
    destruct accum as [|x t]; [repeat split; constructor|]. cbn [flush recs_chain].
    repeat split; [congruence|cbn [length] in *; lia|apply Ha; congruence|congruence|].
    constructor; [exact T|constructor]. }
  induction fuel as [|f IH]; intros ri ai accum Hf Hri Hacc Hai T.
  - rewrite ihex_block_done by lia. apply Hflush; (assumption || lia).
  - destruct (N.le_gt_cases end_ ri) as [Hdone|Hlt].
    + rewrite ihex_block_done by exact Hdone. now apply Hflush.
    + cbn [ihex_block]. destruct (N.ltb_spec ri end_); [|lia].
      rewrite take_val_spec. fold (byte_at bs (N.to_nat ri)).
      rewrite skipn_skipn'. replace (8 + N.to_nat ri)%nat with (N.to_nat (ri + 8)) by lia.
      assert (N.to_nat ri = N.to_nat ai + 8 * length accum)%nat as Eri by lia.
      rewrite Eri.
      pose proof (data_true_snoc bs ai accum T) as T'.
      set (v := byte_at bs (N.to_nat ai + 8 * length accum)) in *.
      rewrite app_length. cbn [length].
      destruct (Nat.leb_spec 32 (length accum + 1)) as [Hfull|Hnot].
      * destruct (IH (ri + 8) (ri + 8) [] ltac:(lia) ltac:(cbn [length]; lia) ltac:(cbn [length]; lia)
                   ltac:(congruence) ltac:(reflexivity)) as (C & TT & CNT).
        assert (accum ++ [v] <> []) as NEa by (intro E; apply app_eq_nil in E; destruct E; congruence).
        destruct (accum ++ [v]) as [|a0 at_] eqn:Ea; [congruence|]. rewrite <- Ea in *.
        assert (flush ai (accum ++ [v]) = [(ai, accum ++ [v])]) as Efl by (rewrite Ea; reflexivity).
        rewrite Efl. cbn [app map concat snd recs_chain].
        repeat split.
        -- exact NEa.
        -- rewrite app_length. cbn [length]. lia.
        -- lia.
        -- intros _. rewrite app_length. cbn [length]. lia.
        -- replace (ai + 256) with (ri + 8) by lia. exact C.
        -- constructor; [exact T'|exact TT].
        -- rewrite app_length, Nat2N.inj_add, CNT, app_length. cbn [length]. lia.
      * destruct (IH (ri + 8) ai (accum ++ [v]) ltac:(lia)
                   ltac:(rewrite app_length; cbn [length]; lia) ltac:(rewrite app_length; cbn [length]; lia)
                   ltac:(intros _; lia) T') as (C & TT & CNT).
        repeat split; [exact C|exact TT|]. rewrite CNT, app_length. cbn [length]. lia.
Qed.

(* ------------------------------------------------------------------ memory image of a record list *)
Lemma place_some d : forall base k b, place base d k = Some b ->
  exists j, k = base + N.of_nat j /\ nth_error d j = Some b.
Proof.
  induction d as [|x t IH]; intros base k b H; [discriminate|]. cbn [place] in H.
  destruct (N.eqb_spec k base) as [->|Hne].
  - exists 0%nat. split; [lia|]. cbn. congruence.
  - destruct (IH _ _ _ H) as (j & -> & Hj). exists (S j). split; [lia|exact Hj].
Qed.

Lemma place_none d : forall base k, place base d k = None ->
  forall j, (j < length d)%nat -> k <> base + N.of_nat j.
Proof.
  induction d as [|x t IH]; intros base k H j Hj; [cbn in Hj; lia|]. cbn [place] in H.
  destruct (N.eqb_spec k base) as [E|Hne]; [discriminate|].
  destruct j as [|j]; [lia|]. cbn [length] in Hj. specialize (IH _ _ H j ltac:(lia)). lia.
Qed.

Lemma image_some unit recs : forall k b, image unit recs k = Some b ->
  exists a d j, In (a, d) recs /\ k = a * (unit / 8) + N.of_nat j /\ nth_error d j = Some b.
Proof.
  induction recs as [|[a d] r IH]; intros k b H; [discriminate|]. cbn [image] in H.
  destruct (image unit r k) as [b'|] eqn:E.
  - destruct (IH k b' E) as (a' & d' & j & Hin & Hk & Hn). exists a', d', j. repeat split; [now right|exact Hk|congruence].
  - destruct (place_some _ _ _ _ H) as (j & Hk & Hn). exists a, d, j. repeat split; [now left|exact Hk|exact Hn].
Qed.

Lemma image_none unit recs : forall k, image unit recs k = None ->
  forall a d j, In (a, d) recs -> (j < length d)%nat -> k <> a * (unit / 8) + N.of_nat j.
Proof.
  induction recs as [|[a d] r IH]; intros k H a' d' j Hin Hj; [destruct Hin|]. cbn [image] in H.
  destruct (image unit r k) as [b'|] eqn:E; [discriminate|].
  destruct Hin as [Heq|Hin].
  - inversion Heq; subst. now apply (place_none d' _ _ H).
  - now apply (IH k E a' d' j).
Qed.

Lemma unit_addr unit idx : unit = 8 \/ unit = 16 \/ unit = 32 -> idx mod unit = 0 -> idx / unit * (unit / 8) = idx / 8.
Proof.
  intros [ -> | [ -> | -> ] ] H.
  - change (8 / 8) with 1. lia.
  - change (16 / 8) with 2. pose proof (N.div_mod idx 16 ltac:(lia)) as E. rewrite H, N.add_0_r in E.
    rewrite E at 2. replace (16 * (idx / 16)) with (idx / 16 * 2 * 8) by lia. now rewrite N.div_mul by lia.
  - change (32 / 8) with 4. pose proof (N.div_mod idx 32 ltac:(lia)) as E. rewrite H, N.add_0_r in E.
    rewrite E at 2. replace (32 * (idx / 32)) with (idx / 32 * 4 * 8) by lia. now rewrite N.div_mul by lia.
Qed.

(* ------------------------------------------------------------------ what a chain of records covers *)
Lemma chain_facts end_ recs : forall next, recs_chain end_ next recs ->
  Forall (fun r => (exists t, fst r = next + 256 * t) /\ snd r <> [] /\ (length (snd r) <= 32)%nat /\ fst r < end_) recs.
Proof.
  induction recs as [|[idx d] r IH]; intros next C; [constructor|]. cbn [recs_chain] in C.
  destruct C as (-> & NE & Hl & Hlt & _ & C). constructor.
  - cbn [fst snd]. repeat split; try assumption. exists 0. lia.
  - specialize (IH _ C). eapply Forall_impl; [|exact IH]. cbn beta. intros r0 ((t & Ht) & H2). split; [|exact H2].
    exists (t + 1). lia.
Qed.

Lemma chain_cover end_ recs : forall next, next mod 8 = 0 -> recs_chain end_ next recs ->
  forall k, (exists r j, In r recs /\ (j < length (snd r))%nat /\ k = fst r / 8 + N.of_nat j)
            <-> next / 8 <= k < next / 8 + N.of_nat (length (concat (map snd recs))).
Proof.
  induction recs as [|[idx d] r IH]; intros next H8 C k.
  - cbn. split; [intros (r & j & [] & _)|lia].
  - cbn [recs_chain] in C. destruct C as (-> & NE & Hl & Hlt & H32 & C).
    cbn [map concat snd]. rewrite app_length, Nat2N.inj_add.
    specialize (IH (next + 256) ltac:(lia) C k).
    assert ((next + 256) / 8 = next / 8 + 32) as E256 by lia.
    split.
    + intros (r0 & j & [<-|Hin] & Hj & ->).
      * cbn [fst snd] in *. lia.
      * assert (r <> []) as NEr by (intros ->; destruct Hin). specialize (H32 NEr).
        destruct IH as [IH _]. specialize (IH (ex_intro _ r0 (ex_intro _ j (conj Hin (conj Hj eq_refl))))). lia.
    + intros Hk. destruct (N.lt_ge_cases k (next / 8 + N.of_nat (length d))) as [Hh|Ht].
      * exists (next, d), (N.to_nat (k - next / 8)). cbn [fst snd]. repeat split; [now left|lia|lia].
      * assert (r <> []) as NEr by (intros ->; cbn in Hk; lia). specialize (H32 NEr).
        destruct IH as [_ IH]. destruct (IH ltac:(lia)) as (r0 & j & Hin & Hj & Ek).
        exists r0, j. repeat split; [now right|exact Hj|exact Ek].
Qed.

(* ------------------------------------------------------------------ all blocks *)
Definition block_recs (bs : list bool) (b : N * N) : list (N * list N) :=
  let (off, sz) := b in ihex_block (S (N.to_nat sz)) off (off + sz) off [] (skipn (N.to_nat off) bs).

Lemma ihex_records_blocks bs blocks : ihex_records bs blocks = concat (map (block_recs bs) blocks).
Proof. reflexivity. Qed.

Lemma block_recs_spec bs off sz :
  recs_chain (off + sz) off (block_recs bs (off, sz))
  /\ Forall (fun r => data_true bs (fst r) (snd r)) (block_recs bs (off, sz))
  /\ N.of_nat (length (concat (map snd (block_recs bs (off, sz))))) = (sz + 7) / 8.
Proof.
  unfold block_recs.
  destruct (ihex_block_true bs (off + sz) (S (N.to_nat sz)) off off []) as (C & T & CNT);
    try (cbn [length]; lia); try congruence; try reflexivity.
  repeat split; [exact C|exact T|]. rewrite CNT. cbn [length]. replace (off + sz - off) with sz by lia. reflexivity.
Qed.

(* byte addresses that lie in a block *)
Definition in_block_bytes (blocks : list (N * N)) (k : N) : Prop :=
  exists off sz, In (off, sz) blocks /\ off / 8 <= k < off / 8 + (sz + 7) / 8.

Definition blocks_ok (unit : N) (blocks : list (N * N)) : Prop :=
  forall off sz, In (off, sz) blocks -> off mod unit = 0 /\ off + sz <= 65536 * unit.

Lemma in_records bs blocks r : In r (ihex_records bs blocks) ->
  exists off sz, In (off, sz) blocks /\ In r (block_recs bs (off, sz)).
Proof.
  rewrite ihex_records_blocks. intro H. apply in_concat in H. destruct H as (l & Hl & Hr).
  apply in_map_iff in Hl. destruct Hl as ([off sz] & <- & Hb). now exists off, sz.
Qed.

Lemma records_in bs blocks off sz r : In (off, sz) blocks -> In r (block_recs bs (off, sz)) ->
  In r (ihex_records bs blocks).
Proof.
  intros Hb Hr. rewrite ihex_records_blocks. apply in_concat. exists (block_recs bs (off, sz)). split; [|exact Hr].
  apply in_map_iff. now exists (off, sz).
Qed.

Lemma unit_pos unit : unit = 8 \/ unit = 16 \/ unit = 32 -> 0 < unit /\ 256 mod unit = 0 /\ unit mod 8 = 0.
Proof. intros [ -> | [ -> | -> ] ]; repeat split; reflexivity. Qed.

Lemma mod_unit_8 unit x : unit = 8 \/ unit = 16 \/ unit = 32 -> x mod unit = 0 -> x mod 8 = 0.
Proof. intros [ -> | [ -> | -> ] ] H; lia. Qed.

Lemma mod_unit_256 unit x t : unit = 8 \/ unit = 16 \/ unit = 32 -> x mod unit = 0 -> (x + 256 * t) mod unit = 0.
Proof. intros [ -> | [ -> | -> ] ] H; lia. Qed.

(* every record of every block: well-formed for the text level, unit-aligned, true to the vector *)
Lemma record_facts unit bs blocks r : unit = 8 \/ unit = 16 \/ unit = 32 -> blocks_ok unit blocks ->
  In r (ihex_records bs blocks) ->
  rec_ok unit r /\ fst r mod unit = 0 /\ data_true bs (fst r) (snd r)
  /\ exists off sz, In (off, sz) blocks /\ In r (block_recs bs (off, sz)).
Proof.
  intros U OK Hin. destruct (in_records _ _ _ Hin) as (off & sz & Hb & Hr).
  destruct (OK off sz Hb) as [Hal Hrange].
  destruct (block_recs_spec bs off sz) as (C & T & _).
  pose proof (chain_facts _ _ _ C) as CF. rewrite Forall_forall in CF, T.
  destruct (CF r Hr) as ((t & Ht) & NE & Hl & Hlt). specialize (T r Hr).
  destruct (unit_pos unit U) as (Hu & _ & _).
  repeat split.
  - exact NE.
  - exact Hl.
  - now apply (data_true_bound bs (fst r)).
  - apply N.div_lt_upper_bound; lia.
  - rewrite Ht. now apply mod_unit_256.
  - exact T.
  - now exists off, sz.
Qed.

Theorem intelhex_blocks_roundtrip unit bs blocks :
  unit = 8 \/ unit = 16 \/ unit = 32 -> blocks_ok unit blocks ->
  let recs := map (fun r => (fst r / unit, snd r)) (ihex_records bs blocks) in
  decode_intelhex_records (format_intelhex_blocks unit bs blocks) = Some recs
  /\ (forall k b, image unit recs k = Some b -> in_block_bytes blocks k /\ b = byte_at bs (8 * N.to_nat k))
  /\ (forall k, in_block_bytes blocks k -> image unit recs k <> None).
Proof.
  intros U OK recs. split; [|split].
  - unfold format_intelhex_blocks. apply ihex_file. apply Forall_forall. intros r Hr.
    now destruct (record_facts unit bs blocks r U OK Hr).
  - intros k b H. destruct (image_some _ _ _ _ H) as (a & d & j & Hin & Hk & Hn).
    subst recs. apply in_map_iff in Hin. destruct Hin as (r & Er & Hr). inversion Er; subst a d. clear Er.
    destruct (record_facts unit bs blocks r U OK Hr) as (_ & Hal & T & off & sz & Hb & Hrb).
    rewrite (unit_addr unit (fst r) U Hal) in Hk.
    pose proof (mod_unit_8 unit _ U Hal) as H8.
    split.
    + exists off, sz. split; [exact Hb|].
      destruct (block_recs_spec bs off sz) as (C & _ & CNT).
      destruct (OK off sz Hb) as [Hoff _]. pose proof (mod_unit_8 unit _ U Hoff) as Ho8.
      rewrite <- CNT. apply (chain_cover _ _ _ Ho8 C k).
      exists r, j. repeat split; [exact Hrb| |exact Hk]. apply nth_error_Some. congruence.
    + rewrite (data_true_nth bs (fst r) (snd r) j b T Hn). f_equal. lia.
  - intros k (off & sz & Hb & Hk) Hnone.
    destruct (block_recs_spec bs off sz) as (C & _ & CNT).
    destruct (OK off sz Hb) as [Hoff _]. pose proof (mod_unit_8 unit _ U Hoff) as Ho8.
    rewrite <- CNT in Hk. apply (chain_cover _ _ _ Ho8 C k) in Hk. destruct Hk as (r & j & Hrb & Hj & Ek).
    pose proof (records_in bs blocks off sz r Hb Hrb) as Hr.
    destruct (record_facts unit bs blocks r U OK Hr) as (_ & Hal & _).
    apply (image_none unit recs k Hnone (fst r / unit) (snd r) j); [|exact Hj|].
    + subst recs. apply in_map_iff. now exists r.
    + now rewrite (unit_addr unit (fst r) U Hal).
Qed.

(* ------------------------------------------------------------------ get_blocks: blocks and spans cover the same bits *)
Definition in_span (spans : list span) (i : N) : Prop :=
  exists off sz, In (Some off, sz) spans /\ off <= i < off + sz.
Definition in_block (blocks : list (N * N)) (i : N) : Prop :=
  exists off sz, In (off, sz) blocks /\ off <= i < off + sz.

Lemma insert_span_in s l x : In x (insert_span s l) <-> x = s \/ In x l.
Proof.
  induction l as [|h t IH]; cbn [insert_span].
  - cbn. intuition.
  - destruct (offset_leb (fst h) (fst s)); cbn [In]; [rewrite IH|]; intuition.
Qed.

Lemma sort_spans_in l x : In x (sort_spans l) <-> In x l.
Proof.
  unfold sort_spans. assert (forall acc, In x (fold_left (fun a s => insert_span s a) l acc) <-> In x acc \/ In x l) as G.
  { induction l as [|s t IH]; intro acc; cbn [fold_left In]; [intuition|]. rewrite IH, insert_span_in. intuition. }
  rewrite G. cbn. intuition.
Qed.

Lemma push_block_in o s i : o <= i < o + s -> in_block (push_block o s) i.
Proof. intro H. unfold push_block. destruct (N.eqb_spec s 0); [lia|]. exists o, s. split; [now left|exact H]. Qed.

Lemma in_block_app a b i : in_block (a ++ b) i <-> in_block a i \/ in_block b i.
Proof.
  unfold in_block. split.
  - intros (o & s & Hin & H). apply in_app_or in Hin. destruct Hin; [left|right]; eauto.
  - intros [(o & s & Hin & H)|(o & s & Hin & H)]; exists o, s; (split; [apply in_or_app; auto|exact H]).
Qed.

Lemma blocks_loop_cover l : forall origin size i,
  (exists o, origin = Some o /\ o <= i < o + size) \/ in_span l i ->
  in_block (blocks_loop l origin size) i.
Proof.
  induction l as [|[[off|] sz] r IH]; intros origin size i H.
  - destruct H as [(o & -> & Hi)|(off & sz & [] & _)]. cbn [blocks_loop]. now apply push_block_in.
  - cbn [blocks_loop].
    assert (in_span ((Some off, sz) :: r) i -> off <= i < off + sz \/ in_span r i) as Hs.
    { intros (o & s & [E|Hin] & Hi); [inversion E; subst; now left|right; now exists o, s]. }
    destruct origin as [o|].
    + destruct (N.eqb_spec off (o + size)) as [E|NE]; cbn [negb].
      * apply IH. destruct H as [(o' & Eo & Hi)|H]; [inversion Eo; subst o'; left; exists o; split; [reflexivity|lia]|].
        destruct (Hs H) as [Hi|Hr]; [left; exists o; split; [reflexivity|lia]|now right].
      * apply in_block_app. destruct H as [(o' & Eo & Hi)|H].
        -- inversion Eo; subst o'. left. now apply push_block_in.
        -- right. apply IH. destruct (Hs H) as [Hi|Hr]; [left; exists off; split; [reflexivity|lia]|now right].
    + apply IH. destruct H as [(o' & Eo & _)|H]; [discriminate|].
      destruct (Hs H) as [Hi|Hr]; [left; exists off; split; [reflexivity|lia]|now right].
  - cbn [blocks_loop]. apply IH. destruct H as [H|(o & s & [E|Hin] & Hi)]; [now left|discriminate|right; now exists o, s].
Qed.

Lemma blocks_loop_sound l : forall origin size i, in_block (blocks_loop l origin size) i ->
  (exists o, origin = Some o /\ o <= i < o + size) \/ in_span l i.
Proof.
  assert (forall o s i, in_block (push_block o s) i -> o <= i < o + s) as Hp.
  { intros o s i (o' & s' & Hin & Hi). unfold push_block in Hin. destruct (s =? 0); [destruct Hin|].
    destruct Hin as [E|[]]. inversion E; subst. exact Hi. }
  induction l as [|[[off|] sz] r IH]; intros origin size i H.
  - cbn [blocks_loop] in H. destruct origin as [o|]; [left; exists o; split; [reflexivity|now apply Hp]|].
    destruct H as (? & ? & [] & _).
  - assert (forall j, off <= j < off + sz \/ in_span r j -> in_span ((Some off, sz) :: r) j) as Hs.
    { intros j [Hj|(o & s & Hin & Hj)]; [exists off, sz; split; [now left|exact Hj]|exists o, s; split; [now right|exact Hj]]. }
    cbn [blocks_loop] in H. destruct origin as [o|].
    + destruct (N.eqb_spec off (o + size)) as [E|NE]; cbn [negb] in H.
      * destruct (IH _ _ _ H) as [(o' & Eo & Hi)|Hr]; [|right; apply Hs; now right].
        inversion Eo; subst o'. destruct (N.lt_ge_cases i (o + size)); [left; exists o; split; [reflexivity|lia]|right; apply Hs; left; lia].
      * apply in_block_app in H. destruct H as [H|H]; [left; exists o; split; [reflexivity|now apply Hp]|].
        destruct (IH _ _ _ H) as [(o' & Eo & Hi)|Hr]; [inversion Eo; subst o'; right; apply Hs; left; lia|right; apply Hs; now right].
    + destruct (IH _ _ _ H) as [(o' & Eo & Hi)|Hr]; [inversion Eo; subst o'; right; apply Hs; left; lia|right; apply Hs; now right].
  - cbn [blocks_loop] in H. destruct (IH _ _ _ H) as [Hl|(o & s & Hin & Hi)]; [now left|right; exists o, s; split; [now right|exact Hi]].
Qed.

Lemma in_span_sort spans i : in_span (sort_spans spans) i <-> in_span spans i.
Proof. unfold in_span. split; intros (o & s & Hin & Hi); exists o, s; (split; [now apply sort_spans_in|exact Hi]). Qed.

(* BitVec::get_blocks neither loses nor invents a bit position, for ANY span list *)
Theorem get_blocks_exact spans i : in_block (get_blocks spans) i <-> in_span spans i.
Proof.
  unfold get_blocks. rewrite <- in_span_sort. split.
  - intro H. destruct (blocks_loop_sound _ _ _ _ H) as [(o & Eo & _)|Hs]; [discriminate|exact Hs].
  - intro H. apply blocks_loop_cover. now right.
Qed.

(* ------------------------------------------------------------------ from bytes of the vector to the padded bit sequence *)
Lemma val_bits_byte_at bs p : val_bits 8 (byte_at bs p) = first_bits 8 (skipn p bs).
Proof. unfold byte_at. rewrite <- (first_bits_length 8 (skipn p bs)) at 1. apply val_bits_bits_val. Qed.

Lemma firstn_app_repeat_ge {A} (x : A) k : forall t m, (k <= length t + m)%nat ->
  firstn k (t ++ repeat x m) = firstn k (t ++ repeat x k).
Proof.
  induction k as [|k IH]; intros t m H; [reflexivity|].
  destruct t as [|y t]; cbn [app length] in *.
  - destruct m as [|m]; [lia|]. cbn [repeat firstn]. f_equal. apply (IH [] m). cbn [length]. lia.
  - cbn [firstn]. f_equal. rewrite (IH t m) by lia. symmetry. apply firstn_app_repeat. lia.
Qed.

Lemma first_bits_S k x t : first_bits (S k) (x :: t) = x :: first_bits k t.
Proof. unfold first_bits. cbn [app firstn]. f_equal. apply firstn_app_repeat. lia. Qed.

Lemma first_bits_false k : forall l, (forall t, (t < k)%nat -> nth t l false = false) -> first_bits k l = repeat false k.
Proof.
  induction k as [|k IH]; intros l H; [reflexivity|]. destruct l as [|x t].
  - unfold first_bits. cbn [app]. apply firstn_repeat_le. lia.
  - rewrite first_bits_S. cbn [repeat]. f_equal.
    + apply (H 0%nat). lia.
    + apply IH. intros j Hj. apply (H (S j)). lia.
Qed.

Lemma nth_skipn' {A} (d : A) p : forall l t, nth t (skipn p l) d = nth (p + t) l d.
Proof.
  induction p as [|p IH]; intros l t; [reflexivity|]. destruct l as [|x l]; [now destruct t|]. cbn [skipn Nat.add nth]. apply IH.
Qed.

Lemma byte_of_pad bs k : k < byte_num bs ->
  first_bits 8 (skipn (8 * N.to_nat k) bs) = firstn 8 (skipn (8 * N.to_nat k) (pad 8 bs)).
Proof.
  intro Hk. unfold byte_num, blen in Hk. set (n := length bs) in *. set (p := (8 * N.to_nat k)%nat).
  assert (p < n)%nat as Hp by (subst p; destruct (N.eqb_spec (N.of_nat n mod 8) 0); lia).
  unfold pad. fold n. rewrite skipn_app. replace (p - length bs)%nat with 0%nat by (fold n; lia). cbn [skipn].
  unfold first_bits. symmetry. apply firstn_app_repeat_ge. rewrite skipn_length. fold n.
  subst p. pose proof (Nat.mod_upper_bound n 8 ltac:(lia)).
  destruct (Nat.eq_dec (n mod 8) 0) as [E|E].
  - rewrite E. cbn. pose proof (Nat.div_mod n 8 ltac:(lia)). lia.
  - rewrite (Nat.mod_small (8 - n mod 8) 8) by lia. pose proof (Nat.div_mod n 8 ltac:(lia)). lia.
Qed.

Definition spans_inside (bs : list bool) (blocks : list (N * N)) : Prop :=
  forall off sz, In (off, sz) blocks -> off + sz <= blen bs.

(* The multi-block round trip on the bit level.  Hypotheses: every block starts on an address-unit boundary
   (excludes F45) and ends within 64 Ki units (excludes F24) and within the output; every set bit of the
   output lies in a span (true of assembled outputs: only span-carrying items write bits). *)
Theorem intelhex_spans_roundtrip unit bs spans :
  unit = 8 \/ unit = 16 \/ unit = 32 -> blocks_ok unit (get_blocks spans) -> spans_inside bs (get_blocks spans) ->
  (forall i, nth i bs false = true -> in_span spans (N.of_nat i)) ->
  exists recs, decode_intelhex_records (format_intelhex unit bs spans) = Some recs
    /\ (forall k, k < byte_num bs ->
          val_bits 8 (match image unit recs k with Some b => b | None => 0 end)
          = firstn 8 (skipn (8 * N.to_nat k) (pad 8 bs)))
    /\ (forall k b, image unit recs k = Some b -> k < byte_num bs /\ in_block_bytes (get_blocks spans) k).
Proof.
  intros U OK IN Z. unfold format_intelhex.
  destruct (intelhex_blocks_roundtrip unit bs (get_blocks spans) U OK) as (D & S & C).
  eexists. split; [exact D|]. split.
  - intros k Hk. rewrite <- byte_of_pad by exact Hk.
    destruct (image unit _ k) as [b|] eqn:E.
    + destruct (S k b E) as [_ ->]. apply val_bits_byte_at.
    + change (val_bits 8 0) with (repeat false 8). symmetry. apply first_bits_false. intros t Ht.
      rewrite nth_skipn'. destruct (nth (8 * N.to_nat k + t) bs false) eqn:Eb; [|reflexivity]. exfalso.
      apply Z in Eb. apply get_blocks_exact in Eb. destruct Eb as (off & sz & Hb & Hi).
      apply (C k); [|exact E]. exists off, sz. split; [exact Hb|].
      destruct (OK off sz Hb) as [Hal _]. pose proof (mod_unit_8 unit off U Hal). lia.
  - intros k b E. destruct (S k b E) as [(off & sz & Hb & Hk) _]. split; [|now exists off, sz].
    specialize (IN off sz Hb). destruct (OK off sz Hb) as [Hal _]. pose proof (mod_unit_8 unit off U Hal).
    unfold byte_num. destruct (N.eqb_spec (blen bs mod 8) 0); lia.
Qed.
