(* C17, user functions: Model/UserFn.v's evaluator is a conservative extension of Model/Evaluator.v's `eval`
   (identical on every expression that does not call a user function by name), the unfolding of a call, the argument
   count check and the depth limit. *)
From Coq Require Import NArith ZArith List Bool Lia ZifyBool.
From CA Require Import Model.Lexer Model.Parser Model.Literal Model.BigIntOps Model.Evaluator Model.UserFn Proofs.EvalSemP Gen.Generated.
Import ListNotations.
Open Scope Z_scope.

(* the callee expression names a user function *)
Definition names_fn (fns : fn_table) (f : expr) : bool :=
  match f with
  | EVar 0%N [n] => match find_fn fns n with Some _ => true | None => false end
  | _ => false
  end.

(* no call, anywhere in e, whose callee names a user function *)
Fixpoint callfree (fns : fn_table) (e : expr) {struct e} : bool :=
  match e with
  | ENum _ _ | EBool _ | EStr _ | EVar _ _ => true
  | EUn _ a => callfree fns a
  | EBin _ a b => callfree fns a && callfree fns b
  | ETern c t f => callfree fns c && callfree fns t && callfree fns f
  | ESlice l r a => callfree fns l && callfree fns r && callfree fns a
  | EShort s a => callfree fns s && callfree fns a
  | EBlock es => (fix go (es : list expr) : bool := match es with [] => true | x :: r => callfree fns x && go r end) es
  | ECall f args => negb (names_fn fns f) && callfree fns f &&
                    (fix go (es : list expr) : bool := match es with [] => true | x :: r => callfree fns x && go r end) args
  end.

Section Conservative.
Variable O : ops.
Variable pvar : N -> list text -> eres value.
Variable fns : fn_table.
Variable call : text -> list value -> eres value.

Lemma user_callee_none : forall f ctx, names_fn fns f = false -> user_callee fns f ctx = None.
Proof.
  intros f ctx H. destruct f; try reflexivity. cbn [user_callee names_fn] in *.
  destruct level; [|reflexivity]. destruct path as [|n [|? ?]]; try reflexivity.
  destruct (is_builtin n); [reflexivity|]. destruct (lookup ctx n); [reflexivity|].
  destruct (find_fn fns n); [discriminate|reflexivity].
Qed.

Definition agrees (e : expr) : Prop :=
  callfree fns e = true -> forall ctx, evalx O pvar fns call e ctx = eval O pvar e ctx.

Ltac split_cf H :=
  repeat match type of H with
         | _ && _ = true => let H1 := fresh "Hc" in apply andb_true_iff in H; destruct H as [H H1]
         end.

Ltac use_ih :=
  match goal with
  | IH : agrees ?e, Hc : callfree fns ?e = true |- context [evalx O pvar fns call ?e ?c] => rewrite (IH Hc c)
  end.

Ltac crunch :=
  repeat first
    [ reflexivity
    | use_ih
    | match goal with |- match ?s with _ => _ end = _ => destruct s end ].

Lemma evalx_agrees : forall e, agrees e.
Proof.
  induction e using expr_ind'; unfold agrees in *; intros Hcf ctx; cbn [callfree] in Hcf; fold (agrees) in *.
  - reflexivity.
  - reflexivity.
  - reflexivity.
  - reflexivity.
  - cbn [evalx eval]. unfold agrees in *. rewrite (IHe Hcf ctx). reflexivity.
  - split_cf Hcf. unfold agrees in *.
    assert (E1 : forall c, evalx O pvar fns call e1 c = eval O pvar e1 c) by (intro; apply IHe1; assumption).
    assert (E2 : forall c, evalx O pvar fns call e2 c = eval O pvar e2 c) by (intro; apply IHe2; assumption).
    destruct o; cbn [evalx eval];
      repeat first [ reflexivity | rewrite E1 | rewrite E2
                   | match goal with |- match ?s with _ => _ end = _ => destruct s end ].
  - split_cf Hcf. unfold agrees in *.
    assert (E1 : forall c, evalx O pvar fns call e1 c = eval O pvar e1 c) by (intro; apply IHe1; assumption).
    assert (E2 : forall c, evalx O pvar fns call e2 c = eval O pvar e2 c) by (intro; apply IHe2; assumption).
    assert (E3 : forall c, evalx O pvar fns call e3 c = eval O pvar e3 c) by (intro; apply IHe3; assumption).
    cbn [evalx eval].
    repeat first [ reflexivity | rewrite E1 | rewrite E2 | rewrite E3
                 | match goal with |- match ?s with _ => _ end = _ => destruct s end ].
  - split_cf Hcf. unfold agrees in *.
    assert (E1 : forall c, evalx O pvar fns call e1 c = eval O pvar e1 c) by (intro; apply IHe1; assumption).
    assert (E2 : forall c, evalx O pvar fns call e2 c = eval O pvar e2 c) by (intro; apply IHe2; assumption).
    assert (E3 : forall c, evalx O pvar fns call e3 c = eval O pvar e3 c) by (intro; apply IHe3; assumption).
    cbn [evalx eval].
    repeat first [ reflexivity | rewrite E1 | rewrite E2 | rewrite E3
                 | match goal with |- match ?s with _ => _ end = _ => destruct s end ].
  - split_cf Hcf. unfold agrees in *.
    assert (E1 : forall c, evalx O pvar fns call e1 c = eval O pvar e1 c) by (intro; apply IHe1; assumption).
    assert (E2 : forall c, evalx O pvar fns call e2 c = eval O pvar e2 c) by (intro; apply IHe2; assumption).
    cbn [evalx eval].
    repeat first [ reflexivity | rewrite E1 | rewrite E2
                 | match goal with |- match ?s with _ => _ end = _ => destruct s end ].
  - (* EBlock *)
    cbn [evalx eval]. revert ctx Hcf. generalize VVoid as last.
    induction H as [|x rest Hx Hrest IH]; intros last ctx Hcf; [reflexivity|].
    apply andb_true_iff in Hcf. destruct Hcf as [Hx' Hr'].
    unfold agrees in Hx. rewrite (Hx Hx' ctx).
    destruct (eval O pvar x ctx) as [[v c]|]; [|reflexivity].
    destruct (should_propagate v); [reflexivity|]. apply IH. exact Hr'.
  - (* ECall *)
    apply andb_true_iff in Hcf. destruct Hcf as [Hcf Hargs]. apply andb_true_iff in Hcf. destruct Hcf as [Hn Hf].
    apply negb_true_iff in Hn.
    cbn [evalx eval]. rewrite (user_callee_none _ ctx Hn).
    unfold agrees in IHe. rewrite (IHe Hf ctx).
    destruct (eval O pvar e ctx) as [[fv c]|]; [|reflexivity].
    destruct (should_propagate fv); [reflexivity|].
    revert c Hargs. generalize (@nil value) as acc.
    induction H as [|x rest Hx Hrest IH]; intros acc c Hargs; [reflexivity|].
    apply andb_true_iff in Hargs. destruct Hargs as [Hx' Hr'].
    unfold agrees in Hx. rewrite (Hx Hx' c).
    destruct (eval O pvar x c) as [[v c']|]; [|reflexivity].
    destruct (should_propagate v); [reflexivity|]. apply IH. exact Hr'.
Qed.

End Conservative.

Theorem evalx_conservative : forall O pvar fns call e ctx,
  callfree fns e = true -> evalx O pvar fns call e ctx = eval O pvar e ctx.
Proof. intros. apply evalx_agrees. assumption. Qed.

(* ---------- the call ---------- *)
Definition value_of (r : eres (value * locals)) : eres value := match r with EOk (v, _) => EOk v | EErr => EErr end.

(* a call at a depth below the limit: lookup, argument count, then the body under exactly the parameter bindings,
   nested calls one level deeper *)
Theorem eval_fn_unfold : forall O pvar fns depth name args,
  depth < EVAL_DEPTH_LIMIT ->
  eval_fn_at O pvar fns depth name args =
  match find_fn fns name with
  | None => EErr
  | Some (params, body) =>
    if Nat.eqb (length args) (length params)
    then value_of (evalx O pvar fns (eval_fn_at O pvar fns (depth + 1)) body (bind_params params args []))
    else EErr
  end.
Proof.
  intros O pvar fns depth name args Hd. unfold eval_fn_at, remaining_of.
  replace (Z.to_nat (EVAL_DEPTH_LIMIT - depth)) with (S (Z.to_nat (EVAL_DEPTH_LIMIT - (depth + 1)))) by lia.
  cbn [eval_fn]. destruct (find_fn fns name) as [[params body]|]; [|reflexivity].
  destruct (Nat.eqb (length args) (length params)); [|reflexivity]. reflexivity.
Qed.

(* ... which for a body without further user calls is Model/Evaluator's eval of the body *)
Theorem eval_fn_body_eval : forall O pvar fns depth name args params body,
  depth < EVAL_DEPTH_LIMIT ->
  find_fn fns name = Some (params, body) -> length args = length params -> callfree fns body = true ->
  eval_fn_at O pvar fns depth name args = value_of (eval O pvar body (bind_params params args [])).
Proof.
  intros O pvar fns depth name args params body Hd Hf Hl Hc.
  rewrite eval_fn_unfold by assumption. rewrite Hf. rewrite Hl, Nat.eqb_refl.
  rewrite evalx_conservative by assumption. reflexivity.
Qed.

Theorem eval_fn_wrong_count : forall O pvar fns depth name args params body,
  find_fn fns name = Some (params, body) -> length args <> length params ->
  eval_fn_at O pvar fns depth name args = EErr.
Proof.
  intros O pvar fns depth name args params body Hf Hl. unfold eval_fn_at.
  destruct (remaining_of depth) as [|rem]; [reflexivity|]. cbn [eval_fn]. rewrite Hf.
  destruct (Nat.eqb (length args) (length params)) eqn:E; [apply Nat.eqb_eq in E; contradiction|reflexivity].
Qed.

Theorem eval_fn_depth : forall O pvar fns depth name args,
  depth >= EVAL_DEPTH_LIMIT -> eval_fn_at O pvar fns depth name args = EErr.
Proof.
  intros. unfold eval_fn_at, remaining_of. replace (Z.to_nat (EVAL_DEPTH_LIMIT - depth)) with 0%nat by lia. reflexivity.
Qed.

(* the counter goes up by exactly one per nested call *)
Theorem remaining_step : forall depth, depth < EVAL_DEPTH_LIMIT -> remaining_of depth = S (remaining_of (depth + 1)).
Proof. intros. unfold remaining_of. lia. Qed.

(* the parameters are bound to the argument values, and nothing else is in the fresh context *)
Lemma bind_params_fresh_aux : forall params args ctx n,
  lookup ctx n = None -> ~ In n params -> lookup (bind_params params args ctx) n = None.
Proof.
  induction params as [|p pr IH]; intros args ctx n Hl Hn; cbn [bind_params]; [exact Hl|].
  destruct args as [|a ar]; [exact Hl|]. apply IH.
  - cbn [lookup]. destruct (text_eqb p n) eqn:E; [|exact Hl].
    exfalso. apply Hn. left.
    clear - E. revert n E. induction p as [|x p IHp]; destruct n as [|y n]; cbn [text_eqb]; intro E; try discriminate; [reflexivity|].
    apply andb_true_iff in E. destruct E as [E1 E2]. apply N.eqb_eq in E1. subst. rewrite (IHp _ E2). reflexivity.
  - intro Hin. apply Hn. right. exact Hin.
Qed.

Theorem bind_params_only_params : forall params args n,
  ~ In n params -> lookup (bind_params params args []) n = None.
Proof. intros. apply bind_params_fresh_aux; [reflexivity|assumption]. Qed.
