(* C10 — table obligation: the ambient state found in /repo/src on this run (statics, lazily initialised globals, interior
   mutability, time, randomness, environment, process, hashers, addresses, threads, directory listings, unsafe, Debug /
   pointer formatting; tools/translate_c10.py AMBIENT) is exactly the justified list of Spec/HashOrderSpec.v. *)
From Coq Require Import List String.
From CA Require Import Model.C10Tables Spec.HashOrderSpec.

Lemma no_ambient_state : c10_ambient = allowed_ambient.
Proof. vm_compute. reflexivity. Qed.

