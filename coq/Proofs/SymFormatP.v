(* C12 lemmas, part 3: symbol files (Model/SymFormat.v). *)
From Coq Require Import ZArith NArith List Bool Lia ZifyBool Arith.
From CA Require Import Model.Formats Spec.Decoders Proofs.FmtBase Model.Listing Model.SymFormat Spec.ListingSpec
  Proofs.ListingP.
Import ListNotations.
Open Scope N_scope.

(* ------------------------------------------------------------------ mesen-mlb: the offset formula and its guard *)
Definition mesen_offset (e : entry) (b : bankinfo) (outp : N) : Z :=
  (e_value e - b_addr_start b + Z.of_N (outp / 8) - 16)%Z.

(* a P: line is only ever printed for a non-constant symbol of a bank with an output offset, its number is
   addr - addr_start + outp/8 - 16, and that number is not negative *)
Lemma mesen_arith v start c :
  match to_usize v with
  | None => None
  | Some addr =>
    match to_usize start with
    | None => None
    | Some addr_start =>
      match and_then (and_then (checked_sub addr addr_start) (fun x => checked_add x c)) (fun x => checked_sub x 16) with
      | Some o => Some (MPrg o)
      | None => None
      end
    end
  end
  = if ((0 <=? v) && (v <=? usize_max) && (0 <=? start) && (start <=? usize_max) && (start <=? v)
        && (v - start + c <=? usize_max) && (16 <=? v - start + c))%Z
    then Some (MPrg (v - start + c - 16)%Z) else None.
Proof.
  unfold to_usize, checked_sub, checked_add, and_then.
  destruct (0 <=? v)%Z; cbn [andb]; [|reflexivity].
  destruct (v <=? usize_max)%Z; cbn [andb]; [|reflexivity].
  destruct (0 <=? start)%Z; cbn [andb]; [|reflexivity].
  destruct (start <=? usize_max)%Z; cbn [andb]; [|reflexivity].
  destruct (start <=? v)%Z; cbn [andb]; [|reflexivity].
  destruct (v - start + c <=? usize_max)%Z; cbn [andb]; [|reflexivity].
  destruct (16 <=? v - start + c)%Z; reflexivity.
Qed.

Lemma mesen_prg_sound e o : mesen_entry e = Some (MPrg o) ->
  e_kind e <> KConstant /\
  exists b outp, e_bank e = Some b /\ b_outp b = Some outp /\ o = mesen_offset e b outp /\ (0 <= o)%Z.
Proof.
  unfold mesen_entry, mesen_offset.
  assert (forall b outp,
    match to_usize (e_value e) with
    | None => None
    | Some addr =>
      match to_usize (b_addr_start b) with
      | None => None
      | Some addr_start =>
        match and_then (and_then (checked_sub addr addr_start) (fun x => checked_add x (Z.of_N (outp / 8)))) (fun x => checked_sub x 16) with
        | Some o => Some (MPrg o)
        | None => None
        end
      end
    end = Some (MPrg o) ->
    o = (e_value e - b_addr_start b + Z.of_N (outp / 8) - 16)%Z /\ (0 <= o)%Z) as A.
  { intros b outp. rewrite mesen_arith.
    destruct ((0 <=? e_value e) && (e_value e <=? usize_max) && (0 <=? b_addr_start b) && (b_addr_start b <=? usize_max)
              && (b_addr_start b <=? e_value e) && (e_value e - b_addr_start b + Z.of_N (outp / 8) <=? usize_max)
              && (16 <=? e_value e - b_addr_start b + Z.of_N (outp / 8)))%Z eqn:C; [|discriminate].
    intro H. injection H as <-. split; [reflexivity|].
    repeat (apply andb_true_iff in C; destruct C as [C ?]). set (c := Z.of_N (outp / 8)) in *. lia. }
  destruct (e_kind e) eqn:K; try discriminate;
  (destruct (e_bank e) as [b|]; [|discriminate]);
  (destruct (b_outp b) as [outp|] eqn:O; [|discriminate]);
  intro H; apply A in H; (split; [congruence|]); exists b, outp; tauto.
Qed.

(* within the range of usize the line is printed exactly when the offset is not negative *)
Lemma mesen_prg_complete e b outp :
  e_kind e <> KConstant -> e_bank e = Some b -> b_outp b = Some outp ->
  (0 <= b_addr_start b <= e_value e)%Z -> (e_value e <= usize_max)%Z ->
  (e_value e - b_addr_start b + Z.of_N (outp / 8) <= usize_max)%Z ->
  mesen_entry e = if (0 <=? mesen_offset e b outp)%Z then Some (MPrg (mesen_offset e b outp)) else None.
Proof.
  intros K B O H1 H2 H3. unfold mesen_entry, mesen_offset. rewrite B, O.
  assert (forall X : option mesen_line, match e_kind e with KConstant => None | _ => X end = X) as EK
    by (intro X; destruct (e_kind e); congruence).
  rewrite EK, mesen_arith. set (c := Z.of_N (outp / 8)) in *.
  destruct (0 <=? e_value e - b_addr_start b + c - 16)%Z eqn:G.
  - replace ((0 <=? e_value e) && (e_value e <=? usize_max) && (0 <=? b_addr_start b) && (b_addr_start b <=? usize_max)
              && (b_addr_start b <=? e_value e) && (e_value e - b_addr_start b + c <=? usize_max)
              && (16 <=? e_value e - b_addr_start b + c))%Z with true; [reflexivity|].
    symmetry. repeat (apply andb_true_iff; split); lia.
  - replace (16 <=? e_value e - b_addr_start b + c)%Z with false by lia. now rewrite andb_false_r.
Qed.

(* a symbol of a bank without output is listed with its value *)
Lemma mesen_reg e b : e_kind e <> KConstant -> e_bank e = Some b -> b_outp b = None ->
  mesen_entry e = Some (MReg (e_value e)).
Proof. intros K B O. unfold mesen_entry. rewrite B, O. destruct (e_kind e); congruence. Qed.

(* constants and symbols outside every bank are never listed *)
Lemma mesen_skip e : e_kind e = KConstant \/ e_bank e = None -> mesen_entry e = None.
Proof. intros [K|B]; unfold mesen_entry; [now rewrite K|]. rewrite B. destruct (e_kind e); reflexivity. Qed.

(* ------------------------------------------------------------------ the order within every level *)
Lemma sym_level_sorted (l : list sym) : nondecreasing (map sym_key (sort_by sym_key l)) = true.
Proof. apply sort_by_sorted. Qed.

Lemma sym_level_complete (l : list sym) i :
  filter (fun s => sym_index s =? i) (sort_by sym_key l) = filter (fun s => sym_index s =? i) l.
Proof. apply (sort_by_filter sym_key l (Some i)). Qed.

(* membership is not changed by the sort *)
Lemma in_sort_by {A} (key : A -> option N) l x : In x (sort_by key l) <-> In x l.
Proof.
  pose proof (sort_by_filter key l (key x)) as F.
  split; intro H.
  - assert (In x (filter (at_key key (key x)) (sort_by key l))) as Hin
      by (apply filter_In; split; [exact H|apply okey_eqb_refl]).
    rewrite F in Hin. apply filter_In in Hin. tauto.
  - assert (In x (filter (at_key key (key x)) l)) as Hin
      by (apply filter_In; split; [exact H|apply okey_eqb_refl]).
    rewrite <- F in Hin. apply filter_In in Hin. tauto.
Qed.

(* ------------------------------------------------------------------ induction over the tree *)
Fixpoint sym_ind' (P : sym -> Prop)
    (H : forall i n k v e b cs, Forall P cs -> P (Sym i n k v e b cs)) (s : sym) : P s :=
  match s with
  | Sym i n k v e b cs =>
    H i n k v e b cs ((fix go (l : list sym) : Forall P l :=
                         match l with [] => Forall_nil P | c :: r => Forall_cons c (sym_ind' P H c) (go r) end) cs)
  end.

(* ------------------------------------------------------------------ exactly the emitted symbols *)
(* s is declared under the names h (the names of its ancestors, outermost first) in the forest l *)
Inductive declared : list (list N) -> list sym -> list (list N) -> sym -> Prop :=
| decl_here h l s : In s l -> declared h l h s
| decl_below h l p h' s : In p l -> declared (h ++ [sym_name p]) (sym_children p) h' s -> declared h l h' s.

Definition sym_entry (h : list (list N)) (s : sym) : option entry :=
  match s with
  | Sym _ n k v e b _ => if e then None else match v with Some z => Some (mk_entry (dotted (h ++ [n])) k z b) | None => None end
  end.

Lemma entries_of_head h s : forall e, In e (entries_of h s) <->
  sym_entry h s = Some e \/ In e (concat (map (entries_of (h ++ [sym_name s])) (sym_children s))).
Proof.
  destruct s as [i n k v ne b cs]. intro e. cbn [entries_of sym_entry sym_name sym_children].
  rewrite in_app_iff. destruct ne; cbn [negb]; [|destruct v as [z|]]; cbn [In]; intuition (try congruence).
Qed.

(* the listing of an (already ordered) forest is exactly its emitted declared symbols *)
Lemma entries_declared s : forall h e,
  In e (entries_of h s) <-> exists h' x, declared h [s] h' x /\ sym_entry h' x = Some e.
Proof.
  induction s as [i n k v ne b cs IH] using sym_ind'. intros h e.
  rewrite entries_of_head. cbn [sym_name sym_children].
  rewrite in_concat. setoid_rewrite in_map_iff.
  split.
  - intros [H|(l & (c & <- & Hc) & He)].
    + exists h, (Sym i n k v ne b cs). split; [apply decl_here; now left|exact H].
    + rewrite Forall_forall in IH. apply (IH c Hc) in He. destruct He as (h' & x & D & E).
      exists h', x. split; [|exact E].
      apply (decl_below h [Sym i n k v ne b cs] (Sym i n k v ne b cs)); [now left|]. cbn [sym_name sym_children].
      clear -D Hc. remember [c] as one. induction D as [h0 l s Hs|h0 l p h1 s Hp D' IHD]; subst l.
      * destruct Hs as [<-|[]]. now apply decl_here.
      * destruct Hp as [<-|[]]. eapply decl_below; [exact Hc|exact D'].
  - intros (h' & x & D & E).
    remember [Sym i n k v ne b cs] as one. destruct D as [h0 l s Hs|h0 l p h1 s Hp D']; subst l.
    + destruct Hs as [<-|[]]. now left.
    + destruct Hp as [<-|[]]. cbn [sym_name sym_children] in D'. right.
      (* the symbol is declared below one of the children *)
      assert (exists c, In c cs /\ exists h2 y, declared (h0 ++ [n]) [c] h2 y /\ sym_entry h2 y = Some e) as (c & Hc & W).
      { clear IH. remember (h0 ++ [n]) as hh. clear Heqhh.
        destruct D' as [h3 l s Hs|h3 l p h4 s Hp D''].
        - exists s. split; [exact Hs|]. exists h3, s. split; [apply decl_here; now left|exact E].
        - exists p. split; [exact Hp|]. exists h4, s. split; [|exact E].
          eapply decl_below; [now left|exact D'']. }
      exists (entries_of (h0 ++ [n]) c). split; [exists c; split; [reflexivity|exact Hc]|].
      rewrite Forall_forall in IH. apply (IH c Hc). exact W.
Qed.

Lemma declared_forest h l h' x : declared h l h' x <-> exists s, In s l /\ declared h [s] h' x.
Proof.
  split.
  - intro D. destruct D as [h0 l0 s Hs|h0 l0 p h1 s Hp D'].
    + exists s. split; [exact Hs|]. apply decl_here. now left.
    + exists p. split; [exact Hp|]. eapply decl_below; [now left|exact D'].
  - intros (s & Hs & D). remember [s] as one. destruct D as [h0 l0 y Hy|h0 l0 p h1 y Hp D']; subst l0.
    + destruct Hy as [<-|[]]. now apply decl_here.
    + destruct Hp as [<-|[]]. eapply decl_below; [exact Hs|exact D'].
Qed.

Lemma forest_entries l h e :
  In e (concat (map (entries_of h) l)) <-> exists h' x, declared h l h' x /\ sym_entry h' x = Some e.
Proof.
  rewrite in_concat. setoid_rewrite in_map_iff. split.
  - intros (t & (s & <- & Hs) & He). apply entries_declared in He. destruct He as (h' & x & D & E).
    exists h', x. split; [|exact E]. apply declared_forest. now exists s.
  - intros (h' & x & D & E). apply declared_forest in D. destruct D as (s & Hs & D).
    exists (entries_of h s). split; [now exists s|]. apply entries_declared. now exists h', x.
Qed.

(* sorting the levels does not change what is declared (only the order) *)
Lemma sort_tree_shape s : sym_name (sort_tree s) = sym_name s /\ forall h, sym_entry h (sort_tree s) = sym_entry h s.
Proof. destruct s. split; reflexivity. Qed.

Lemma declared_sorted : forall l h h' x,
  declared h (sort_forest l) h' x -> exists y, declared h l h' y /\ x = sort_tree y.
Proof.
  intros l h h' x D. remember (sort_forest l) as sl. revert l Heqsl.
  induction D as [h0 l0 s Hs|h0 l0 p h1 s Hp D' IHD]; intros l ->.
  - unfold sort_forest in Hs. apply in_sort_by in Hs. apply in_map_iff in Hs. destruct Hs as (y & <- & Hy).
    exists y. split; [now apply decl_here|reflexivity].
  - unfold sort_forest in Hp. apply in_sort_by in Hp. apply in_map_iff in Hp. destruct Hp as (q & <- & Hq).
    destruct q as [i n k v ne b cs]. cbn [sort_tree sym_name sym_children] in *.
    destruct (IHD cs eq_refl) as (y & Dy & ->).
    exists y. split; [|reflexivity].
    eapply decl_below; [exact Hq|]. exact Dy.
Qed.

Lemma sorted_declared : forall h l h' y,
  declared h l h' y -> declared h (sort_forest l) h' (sort_tree y).
Proof.
  intros h l h' y D. induction D as [h0 l0 s Hs|h0 l0 p h1 s Hp D' IHD].
  - apply decl_here. unfold sort_forest. apply in_sort_by. apply in_map. exact Hs.
  - apply (decl_below h0 (sort_forest l0) (sort_tree p)).
    + unfold sort_forest. apply in_sort_by. apply in_map. exact Hp.
    + destruct p as [i n k v ne b cs]. cbn [sort_tree sym_name sym_children] in *. exact IHD.
Qed.

(* format_default / format_mesen_mlb consider exactly the declared symbols that have an integer value and are
   not suppressed, each under the dotted names of its ancestors *)
Theorem listed_exactly globals e :
  In e (listed_entries globals) <-> exists h x, declared [] globals h x /\ sym_entry h x = Some e.
Proof.
  unfold listed_entries. rewrite forest_entries. split.
  - intros (h & x & D & E). apply declared_sorted in D. destruct D as (y & Dy & ->).
    exists h, y. split; [exact Dy|]. now rewrite <- (proj2 (sort_tree_shape y)).
  - intros (h & y & D & E). exists h, (sort_tree y). split; [now apply sorted_declared|].
    now rewrite (proj2 (sort_tree_shape y)).
Qed.
