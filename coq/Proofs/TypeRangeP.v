From Coq Require Import ZArith List Bool Lia ZifyBool.
From CA Require Import Model.TypeRange.
Import ListNotations.
Open Scope Z_scope.

Lemma bits_le m n : 0 < m -> 0 <= n -> (bits m <= n <-> m < 2^n).
Proof.
  intros Hm Hn. unfold bits. destruct (m =? 0) eqn:E; [lia|].
  split; intro H.
  - apply Z.log2_lt_pow2; lia.
  - apply Z.log2_lt_pow2 in H; lia.
Qed.

Ltac ifs := repeat match goal with |- context[if ?b then _ else _] => destruct b eqn:? end.
Lemma pow_pos n : 0 <= n -> 0 < 2^n. Proof. intro; apply Z.pow_pos_nonneg; lia. Qed.

Lemma min_size_range v n : 1 <= n -> (min_size v <= n <-> - 2^(n-1) <= v < 2^n).
Proof.
  intro Hn. pose proof (pow_pos (n-1) ltac:(lia)) as Hp. pose proof (pow_pos n ltac:(lia)) as Hp2.
  assert (2 ^ n = 2 * 2 ^ (n - 1)) as E2 by (rewrite <- Z.pow_succ_r by lia; f_equal; lia).
  unfold min_size.
  destruct (Z_lt_le_dec 0 v) as [Hv|Hv].
  - pose proof (bits_le v n Hv ltac:(lia)) as B. ifs; lia.
  - destruct (Z.eq_dec v 0) as [->|Hz]. { cbn. lia. }
    destruct (Z.eq_dec v (-1)) as [->|Hm]. { cbn. lia. }
    pose proof (bits_le (-(v+1)) (n-1) ltac:(lia) ltac:(lia)) as B. ifs; lia.
Qed.

Theorem unsigned_range n v : 1 <= n -> (accepts (U n) v = true <-> 0 <= v < 2^n).
Proof.
  intro Hn. pose proof (pow_pos n ltac:(lia)) as Hp.
  unfold accepts, fails, sign, min_size.
  destruct (Z_lt_le_dec 0 v) as [Hv|Hv].
  - pose proof (bits_le v n Hv ltac:(lia)) as B. ifs; lia.
  - ifs; lia.
Qed.

Theorem signed_range n v : 1 <= n -> (accepts (S n) v = true <-> - 2^(n-1) <= v < 2^(n-1)).
Proof.
  intro Hn. pose proof (pow_pos (n-1) ltac:(lia)) as Hp.
  unfold accepts, fails, sign, min_size.
  destruct (Z_lt_le_dec 0 v) as [Hv|Hv].
  - pose proof (bits_le v (n-1) Hv ltac:(lia)) as B. ifs; lia.
  - destruct (Z.eq_dec v 0) as [->|Hz]. { cbn. lia. }
    destruct (Z.eq_dec v (-1)) as [->|Hm]. { cbn. lia. }
    pose proof (bits_le (-(v+1)) (n-1) ltac:(lia) ltac:(lia)) as B. ifs; lia.
Qed.

Theorem integer_range n v : 1 <= n -> (accepts (I n) v = true <-> - 2^(n-1) <= v < 2^n).
Proof.
  intro Hn. unfold accepts, fails. rewrite <- (min_size_range v n Hn).
  destruct (min_size v >? n) eqn:E; cbn; lia.
Qed.

Theorem width0 t v : width t = 0 -> accepts t v = false.
Proof.
  destruct t; cbn [width]; intros ->; unfold accepts, fails, sign, min_size, bits;
  destruct (Z_lt_le_dec 0 v); try (pose proof (Z.log2_nonneg v));
  try (pose proof (Z.log2_nonneg (-(v+1)))); ifs; lia.
Qed.

Theorem data_unsized_range n v : 1 <= n ->
  (data_accepts n v None = true <-> - 2^(n-1) <= v < 2^n).
Proof.
  intro Hn. unfold data_accepts, size_or_min_size. rewrite <- (min_size_range v n Hn).
  destruct (min_size v >? n) eqn:E; cbn; lia.
Qed.

Theorem data_sized_range n v m : data_accepts n v (Some m) = true <-> m <= n.
Proof. unfold data_accepts, size_or_min_size. destruct (m >? n) eqn:E; cbn; lia. Qed.

(* ---- emitted bits ---- *)
Lemma fold_acc l a : fold_left (fun a b => 2 * a + Z.b2z b) l a
  = a * 2 ^ Z.of_nat (length l) + fold_left (fun a b => 2 * a + Z.b2z b) l 0.
Proof.
  revert a; induction l as [|b l IH]; intro a; cbn [fold_left length].
  - cbn. lia.
  - rewrite IH. rewrite (IH (2 * 0 + Z.b2z b)).
    rewrite Nat2Z.inj_succ, Z.pow_succ_r by lia. lia.
Qed.

Lemma emit_nat_length k v : length (emit_nat k v) = k.
Proof. induction k; cbn; congruence. Qed.

Lemma unsigned_emit_nat k v : unsigned_of_bits (emit_nat k v) = v mod 2 ^ Z.of_nat k.
Proof.
  unfold unsigned_of_bits. induction k as [|k IH].
  - cbn. now rewrite Z.mod_1_r.
  - cbn [emit_nat fold_left]. rewrite fold_acc, emit_nat_length, IH.
    rewrite Nat2Z.inj_succ, Z.pow_succ_r by lia.
    rewrite (Z.mul_comm 2 (2 ^ Z.of_nat k)).
    rewrite Z.rem_mul_r by (try apply Z.pow_nonzero; lia).
    rewrite Z.testbit_spec' by lia. lia.
Qed.

Theorem emit_length n v : 0 <= n -> Z.of_nat (length (emit n v)) = n.
Proof. intro H. unfold emit. rewrite emit_nat_length. lia. Qed.

Theorem emit_bit n v i : (i < Z.to_nat n)%nat ->
  nth_error (emit n v) i = Some (Z.testbit v (n - 1 - Z.of_nat i)).
Proof.
  unfold emit. intro Hi.
  assert (forall k j, (j < k)%nat -> nth_error (emit_nat k v) j = Some (Z.testbit v (Z.of_nat k - 1 - Z.of_nat j))) as G.
  { induction k as [|k IH]; intros j Hj; [lia|]. destruct j as [|j]; cbn [emit_nat nth_error].
    - f_equal. f_equal. lia.
    - rewrite IH by lia. f_equal. f_equal. lia. }
  rewrite G by exact Hi. f_equal. f_equal. lia.
Qed.

Theorem emit_unsigned n v : 0 <= n -> unsigned_of_bits (emit n v) = v mod 2 ^ n.
Proof. intro H. unfold emit. rewrite unsigned_emit_nat. now rewrite Z2Nat.id. Qed.

(* accepted unsigned values are recovered exactly from the emitted bits *)
Theorem no_truncation_unsigned n v : 1 <= n -> accepts (U n) v = true ->
  unsigned_of_bits (emit n v) = v.
Proof.
  intros Hn Ha. apply unsigned_range in Ha; [|exact Hn].
  rewrite emit_unsigned by lia. apply Z.mod_small. lia.
Qed.

Lemma emit_head n v : 1 <= n -> exists tl, emit n v = Z.testbit v (n - 1) :: tl.
Proof.
  intro Hn. unfold emit. destruct (Z.to_nat n) as [|k] eqn:E; [lia|].
  cbn [emit_nat]. eexists. f_equal. f_equal. lia.
Qed.

Lemma signed_reading n v : 1 <= n -> - 2^(n-1) <= v < 2^(n-1) ->
  v mod 2 ^ n - (if Z.testbit v (n - 1) then 2 ^ n else 0) = v.
Proof.
  intros Hn Hr. pose proof (pow_pos (n-1) ltac:(lia)) as Hp.
  assert (2 ^ n = 2 * 2 ^ (n - 1)) as E2 by (rewrite <- Z.pow_succ_r by lia; f_equal; lia).
  destruct (Z_lt_le_dec v 0) as [Hneg|Hpos].
  - assert (Z.testbit v (n-1) = true) as ->.
    { rewrite Z.testbit_true by lia.
      assert (v / 2^(n-1) = -1) as -> by (symmetry; apply (Z.div_unique v (2^(n-1)) (-1) (v + 2^(n-1))); lia).
      reflexivity. }
    assert (v mod 2^n = v + 2^n) as ->; [|lia].
    symmetry. apply (Z.mod_unique v (2^n) (-1) (v + 2^n)); lia.
  - assert (Z.testbit v (n-1) = false) as ->.
    { rewrite Z.testbit_false by lia. rewrite Z.div_small by lia. reflexivity. }
    rewrite Z.mod_small by lia. lia.
Qed.

Theorem no_truncation_signed n v : 1 <= n -> accepts (S n) v = true ->
  signed_of_bits (emit n v) = v.
Proof.
  intros Hn Ha. apply signed_range in Ha; [|exact Hn].
  destruct (emit_head n v Hn) as [tl E].
  unfold signed_of_bits. rewrite E. rewrite <- E.
  rewrite emit_unsigned by lia. rewrite emit_length by lia.
  apply signed_reading; assumption.
Qed.

(* an `i` value is recovered by the unsigned reading when non-negative and by the signed one when negative *)
Theorem no_truncation_integer n v : 1 <= n -> accepts (I n) v = true ->
  (0 <= v -> unsigned_of_bits (emit n v) = v) /\ (v < 0 -> signed_of_bits (emit n v) = v).
Proof.
  intros Hn Ha. apply integer_range in Ha; [|exact Hn]. split; intro Hs.
  - rewrite emit_unsigned by lia. apply Z.mod_small. lia.
  - destruct (emit_head n v Hn) as [tl E].
    unfold signed_of_bits. rewrite E. rewrite <- E.
    rewrite emit_unsigned by lia. rewrite emit_length by lia.
    pose proof (pow_pos (n-1) ltac:(lia)).
    apply signed_reading; [assumption|lia].
Qed.
