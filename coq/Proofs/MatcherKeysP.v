(* C08: the side condition rule_key_ok of C08_prefix_complete holds for EVERY rule set produced by parse_defs
   (a pattern token never contains NUL, blank, tab, CR, ';' or LF).  No axioms. *)
From Coq Require Import NArith ZArith List Bool Lia ZifyBool Permutation.
Import ListNotations.
From CA Require Import Model.Lexer Model.Parser Model.Matcher Proofs.MatcherP Proofs.MatcherPermP.
Open Scope N_scope.

Definition char_ok (c : N) : Prop := key_char_ok (to_lower c) = true.
Definition part_ok (p : part) : Prop := match p with PExact c | PGlued c => char_ok c | _ => True end.
Definition rule_ok (r : rule) : Prop := Forall part_ok (rpat r).

Lemma rule_key_ok_of_parts : forall k pat, Forall part_ok pat -> forallb key_char_ok (rule_key k pat) = true.
Proof.
  induction k as [|k IH]; intros pat H; [reflexivity|].
  destruct pat as [|[|c|c|i] rest]; try reflexivity; inversion H; subst; cbn [rule_key forallb];
    (apply andb_true_iff; split; [assumption | apply IH; assumption]).
Qed.

(* ---- characters of a pattern token ---- *)
Lemma take_bytes_0 : forall t, take_bytes 0 t = [].
Proof. intros [|c r]; reflexivity. Qed.

Lemma take_bytes_cons : forall c n r, take_bytes (utf8_len c + n) (c :: r) = c :: take_bytes n r.
Proof.
  intros c n r. cbn [take_bytes]. pose proof (utf8_len_pos c).
  destruct (utf8_len c + n =? 0) eqn:E; [lia|]. f_equal. f_equal. lia.
Qed.

Lemma span_take : forall (p : N -> bool) t, Forall (fun c => p c = true) (take_bytes (fst (span_while p t)) t).
Proof.
  intros p. induction t as [|c r IH]; [constructor|]. cbn [span_while].
  destruct (p c) eqn:E; [|cbn [fst]; rewrite take_bytes_0; constructor].
  destruct (span_while p r) as [n rest]. cbn [fst] in *. rewrite take_bytes_cons. constructor; assumption.
Qed.

Lemma starts_with_take : forall p t, starts_with p t = true -> take_bytes (bytes_len p) t = p.
Proof.
  induction p as [|a p IH]; intros t H; [apply take_bytes_0|].
  destruct t as [|b t]; cbn [starts_with] in H; [discriminate|]. apply andb_true_iff in H. destruct H as [H1 H2].
  apply N.eqb_eq in H1. subst b. cbn [bytes_len]. rewrite take_bytes_cons. f_equal. apply IH. exact H2.
Qed.

Lemma ident_mid_ok : forall c, is_ident_mid c = true -> char_ok c.
Proof.
  intros c. unfold char_ok, key_char_ok, to_lower, is_ident_mid, is_ident_start, is_lower, is_upper, is_digit, in_range, is_whitespace.
  split_ifs; lia.
Qed.
Lemma hex_mid_ok : forall c, is_hex_mid c = true -> char_ok c.
Proof.
  intros c. unfold char_ok, key_char_ok, to_lower, is_hex_mid, is_digit, in_range, is_whitespace. split_ifs; lia.
Qed.
Lemma bin_mid_ok : forall c, is_bin_mid c = true -> char_ok c.
Proof.
  intros c. unfold char_ok, key_char_ok, to_lower, is_bin_mid, in_range, is_whitespace. split_ifs; lia.
Qed.

Lemma Forall_impl_ok (p : N -> bool) : (forall c, p c = true -> char_ok c) ->
  forall l, Forall (fun c => p c = true) l -> Forall char_ok l.
Proof. intros H l Hl. eapply Forall_impl; [|exact Hl]. exact H. Qed.

Lemma span_ok (p : N -> bool) : (forall c, p c = true -> char_ok c) -> forall t n rest,
  span_while p t = (n, rest) -> Forall char_ok (take_bytes n t).
Proof.
  intros H t n rest E. pose proof (span_take p t) as S. rewrite E in S. cbn [fst] in S.
  eapply Forall_impl_ok; eassumption.
Qed.

Lemma dollar_ok : char_ok 36. Proof. reflexivity. Qed.
Lemma percent_ok : char_ok 37. Proof. reflexivity. Qed.

Lemma check_number_chars : forall t k n, check_number t = Some (k, n) -> Forall char_ok (take_bytes n t).
Proof.
  intros t k n. unfold check_number. destruct t as [|c r]; [discriminate|].
  destruct (is_number_start c) eqn:E1.
  { destruct (span_while is_number_mid (c :: r)) as [m rest] eqn:Es. intros H. injection H as _ <-.
    eapply (span_ok is_number_mid); [exact ident_mid_ok | exact Es]. }
  destruct (c =? 36) eqn:E2.
  { apply N.eqb_eq in E2. subst c. destruct (span_while is_hex_mid r) as [m rest] eqn:Es.
    destruct m as [|m]; [discriminate|]. intros H.
    assert (Hn : 1 + N.pos m = n) by (injection H as _ Hx; exact Hx). rewrite <- Hn.
    change 1 with (utf8_len 36). rewrite take_bytes_cons. constructor; [exact dollar_ok|].
    eapply (span_ok is_hex_mid); [exact hex_mid_ok | exact Es]. }
  destruct (c =? 37) eqn:E3; [|discriminate].
  apply N.eqb_eq in E3. subst c. destruct (span_while is_bin_mid r) as [m rest] eqn:Es.
  destruct m as [|m]; [discriminate|]. intros H.
  assert (Hn : 1 + N.pos m = n) by (injection H as _ Hx; exact Hx). rewrite <- Hn.
  change 1 with (utf8_len 37). rewrite take_bytes_cons. constructor; [exact percent_ok|].
  eapply (span_ok is_bin_mid); [exact bin_mid_ok | exact Es].
Qed.

Lemma check_identifier_chars : forall t k n, check_identifier t = Some (k, n) -> Forall char_ok (take_bytes n t).
Proof.
  intros t k n. unfold check_identifier. destruct t as [|c r]; [discriminate|].
  destruct (c =? 36) eqn:E2.
  { apply N.eqb_eq in E2. subst c. intros H. injection H as _ <-.
    change 1 with (utf8_len 36 + 0). rewrite take_bytes_cons, take_bytes_0. constructor; [exact dollar_ok | constructor]. }
  destruct (is_ident_start c); [|discriminate].
  destruct (span_while is_ident_mid (c :: r)) as [m rest] eqn:Es.
  assert (Forall char_ok (take_bytes m (c :: r))) by (eapply (span_ok is_ident_mid); [exact ident_mid_ok | exact Es]).
  destruct (text_eqb _ kw_asm); [intros H'; injection H' as _ <-; assumption|].
  destruct (text_eqb _ kw_true); [intros H'; injection H' as _ <-; assumption|].
  destruct (text_eqb _ kw_false); intros H'; injection H' as _ <-; assumption.
Qed.

(* side condition checked on the concrete table: every special that may appear in a pattern consists of key-safe characters *)
Lemma specials_allowed_chars : forall p k, In (p, k) specials -> is_allowed_pattern_token k = true -> Forall char_ok p.
Proof.
  assert (H : forallb (fun pk : text * tkind => negb (is_allowed_pattern_token (snd pk)) ||
                                              forallb (fun c => key_char_ok (to_lower c)) (fst pk)) specials = true)
    by (vm_compute; reflexivity).
  intros p k Hin Hk. rewrite forallb_forall in H. specialize (H _ Hin). cbn [fst snd] in H.
  rewrite Hk in H. cbn [negb orb] in H. apply Forall_forall. intros c Hc. rewrite forallb_forall in H. apply H. exact Hc.
Qed.

Lemma token_chars_ok : forall t k n, decide_next_token t = (k, n) -> is_allowed_pattern_token k = true ->
  Forall char_ok (take_bytes n t).
Proof.
  intros t k n. unfold decide_next_token, orelse.
  destruct (check_whitespace t) as [[k1 n1]|] eqn:E1.
  { intros H Hi. injection H as <- <-. unfold check_whitespace in E1.
    destruct (span_while is_whitespace t) as [m rest]. destruct m; [discriminate|]. injection E1 as <- _. discriminate. }
  destruct (check_comment t) as [[k2 n2]|] eqn:E2.
  { intros H Hi. injection H as <- <-. unfold check_comment in E2. revert E2. break_matches; intros E2; try discriminate;
      injection E2 as <- _; discriminate. }
  destruct (check_number t) as [[k3 n3]|] eqn:E3.
  { intros H _. injection H as <- <-. eapply check_number_chars. exact E3. }
  destruct (check_identifier t) as [[k4 n4]|] eqn:E4.
  { intros H _. injection H as <- <-. eapply check_identifier_chars. exact E4. }
  destruct (check_special_in specials t) as [[k5 n5]|] eqn:E5.
  { intros H Hi. injection H as <- <-. destruct (check_special_in_some _ _ _ _ E5) as [p [Hin [Hs ->]]].
    rewrite (starts_with_take _ _ Hs). eapply specials_allowed_chars; eassumption. }
  destruct (check_string t) as [[k6 n6]|] eqn:E6.
  { intros H Hi. injection H as <- <-. rewrite (check_string_some _ _ _ E6) in Hi. discriminate. }
  intros H Hi. injection H as <- _. discriminate.
Qed.

Lemma lower_glued_ok : forall t, Forall char_ok t -> Forall part_ok (lower_glued t).
Proof.
  induction t as [|c r IH]; intros H; [constructor|]. inversion H; subst. cbn [lower_glued]. constructor; [|auto].
  unfold part_ok, char_ok in *. rewrite to_lower_idem. assumption.
Qed.
Lemma lower_exacts_ok : forall t, Forall char_ok t -> Forall part_ok (lower_exacts t).
Proof.
  intros [|c r] H; [constructor|]. inversion H; subst. cbn [lower_exacts]. constructor; [|apply lower_glued_ok; assumption].
  unfold part_ok, char_ok in *. rewrite to_lower_idem. assumption.
Qed.

(* ---- the pattern parser ---- *)
Ltac break_hyps :=
  repeat match goal with
         | H : context [match ?x with _ => _ end] |- _ => destruct x eqn:?
         end.

Lemma parse_pattern_ok : forall fuel is_sub w pat params w' pat' params' e,
  parse_pattern fuel is_sub w pat params = Some (w', pat', params', e) -> Forall part_ok pat -> Forall part_ok pat'.
Proof.
  induction fuel as [|f IH]; intros is_sub w pat params w' pat' params' e H Hp; [discriminate|].
  cbn [parse_pattern] in H.
  destruct (is_over w || next_useful_is w THeavyArrowRight) eqn:E0.
  { injection H as _ <- _ _. apply Forall_rev. exact Hp. }
  apply orb_false_iff in E0. destruct E0 as [Eo _].
  destruct (token_here w) as [k n] eqn:Et.
  destruct (tkind_eqb k TBraceOpen) eqn:Eb.
  - assert (Hrev : Forall part_ok (rev pat)) by (apply Forall_rev; exact Hp).
    assert (Hnext : forall w0 nm ty, parse_pattern f is_sub w0 (PParam (length params) :: pat) ((nm, ty) :: params)
                                   = Some (w', pat', params', e) -> Forall part_ok pat').
    { intros w0 nm ty H0. eapply IH; [exact H0|]. constructor; [exact I | exact Hp]. }
    clear IH Hp Et Eb Eo.
    break_hyps; try discriminate;
      try (injection H as _ <- _ _; exact Hrev);
      try (eapply Hnext; eassumption).
  - destruct (is_allowed_pattern_token k) eqn:Ea.
    + eapply IH; [exact H|]. apply Forall_app. split; [|exact Hp]. apply Forall_rev. apply lower_exacts_ok.
      unfold token_here in Et. unfold is_over in Eo. rewrite Eo in Et. eapply token_chars_ok; eassumption.
    + destruct (tkind_eqb k TWhitespace); [|discriminate].
      eapply IH; [exact H|]. constructor; [exact I | exact Hp].
Qed.

Lemma parse_rule_ok : forall is_sub w r w', parse_rule is_sub w = Some (r, w') -> rule_ok r.
Proof.
  intros is_sub w r w' H. unfold parse_rule in H.
  destruct (parse_pattern _ is_sub _ [] []) as [[[[w1 pat] params] es]|] eqn:Ep; [|discriminate].
  assert (Hp : Forall part_ok pat) by (eapply parse_pattern_ok; [exact Ep | constructor]).
  clear Ep. break_hyps; try discriminate; injection H as <- _; exact Hp.
Qed.

Lemma parse_rules_ok : forall fuel is_sub w acc rs w', parse_rules fuel is_sub w acc = Some (rs, w') ->
  Forall rule_ok acc -> Forall rule_ok rs.
Proof.
  induction fuel as [|f IH]; intros is_sub w acc rs w' H Ha; [discriminate|]. cbn [parse_rules] in H.
  destruct (next_useful_is w TBraceClose).
  { injection H as <- _. apply Forall_rev. exact Ha. }
  destruct (parse_rule is_sub w) as [[r w1]|] eqn:Er; [|discriminate].
  destruct (next_linebreak (fuel_of w1) w1) as [w2|]; [|discriminate].
  eapply IH; [exact H|]. constructor; [eapply parse_rule_ok; exact Er | exact Ha].
Qed.

Definition ruledef_ok (d : ruledef) : Prop := Forall rule_ok (rd_rules d).

Lemma parse_ruledefs_ok : forall fuel w acc ds, parse_ruledefs fuel w acc = Some ds ->
  Forall ruledef_ok acc -> Forall ruledef_ok ds.
Proof.
  induction fuel as [|f IH]; intros w acc ds H Ha; [discriminate|]. cbn [parse_ruledefs] in H.
  destruct (is_over _).
  { injection H as <-. apply Forall_rev. exact Ha. }
  assert (Hnext : forall w0 is_sub name rules w1,
             parse_rules (fuel_of w1) is_sub w1 [] = Some (rules, w0) ->
             forall w2, parse_ruledefs f w2 ({| rd_sub := is_sub; rd_name := name; rd_rules := rules |} :: acc) = Some ds ->
             Forall ruledef_ok ds).
  { intros w0 is_sub name rules w1 Hr w2 H0. eapply IH; [exact H0|]. constructor; [|exact Ha].
    unfold ruledef_ok. cbn [rd_rules]. eapply parse_rules_ok; [exact Hr | constructor]. }
  clear IH Ha.
  break_hyps; try discriminate; eapply Hnext; eassumption.
Qed.

Theorem parse_defs_parts_ok : forall t defs, parse_defs t = Some defs -> Forall ruledef_ok defs.
Proof. intros t defs H. unfold parse_defs in H. eapply parse_ruledefs_ok; [exact H | constructor]. Qed.

(* every rule of every parsed rule set satisfies the side condition of C08_prefix_complete *)
Theorem parse_defs_keys_ok : forall t defs, parse_defs t = Some defs -> all_keys_ok defs.
Proof.
  intros t defs H i d j r Hd _ Hr. pose proof (parse_defs_parts_ok _ _ H) as Hall.
  rewrite Forall_forall in Hall. specialize (Hall d (nth_error_In _ _ Hd)). unfold ruledef_ok in Hall.
  rewrite Forall_forall in Hall. specialize (Hall r (nth_error_In _ _ Hr)).
  unfold rule_key_ok. apply rule_key_ok_of_parts. exact Hall.
Qed.

(* C08_prefix_complete and the permutation theorem for parsed rule sets, without side condition *)
Theorem C08_prefix_complete_parsed : forall t defs i j d r w, parse_defs t = Some defs ->
  nth_error defs i = Some d -> rd_sub d = false -> nth_error (rd_rules d) j = Some r ->
  match_with_rule (match_fuel defs (tail w)) defs r (rpat r) w true {| sf_rd := i; sf_ru := j; sf_args := [] |} <> [] ->
  In (i, j) (query_prefixed (map_entries defs) (instr_key MAX_PREFIX w)).
Proof.
  intros t defs i j d r w Hp Hd Hs Hr Hm. eapply C08_prefix_complete; try eassumption.
  eapply parse_defs_keys_ok; eassumption.
Qed.

Theorem C08_working_permutation_parsed : forall t defs fuel w, parse_defs t = Some defs ->
  Permutation (working_indexed fuel defs w) (working_brute fuel defs w).
Proof. intros t defs fuel w Hp. apply C08_working_permutation. eapply parse_defs_keys_ok. exact Hp. Qed.
