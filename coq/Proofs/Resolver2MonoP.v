(* Resolver2: mode agreement (a resolved last-mode pass is reproduced by the guessing pass -- also through the
   CHECKED address arithmetic, which can return Err: strict-mode success gives the same result in guessing mode)
   and budget monotonicity of resolve_iteratively (C09) for the fragment with banks and nested symbols. *)
From Coq Require Import NArith ZArith List Bool Lia.
From CA Require Import Model.Lexer Model.Parser Model.Literal Model.BigIntOps Model.Evaluator Model.Matcher Model.Resolver
  Model.Resolver2 Proofs.EvalMonoP Proofs.ResolverFixP Proofs.ResolverMonoP Proofs.Resolver2FixP.
From CA Require Model.Paths Model.Overlap Model.Cursor Model.LastPass Model.Output Model.Symbols.
Import ListNotations.
Open Scope Z_scope.

(* eval_address: a definite address of the strict mode is the address the guessing mode computes *)
Lemma eval_address_mono mb b pos a :
  Cursor.eval_address mb b pos false = Ok a -> Cursor.eval_address mb b pos true = Ok a.
Proof.
  unfold Cursor.eval_address. destruct (Cursor.bk_unit b =? 0)%N; [discriminate|].
  cbn [negb]. rewrite andb_true_r, andb_false_r.
  destruct (negb (pos mod Cursor.bk_unit b =? 0)%N); [discriminate|auto].
Qed.

Lemma pvar2_mono m st ctx mb b pos :
  pv_le (pvar2 m st ctx (Cursor.eval_address mb b pos false) false)
        (pvar2 m st ctx (Cursor.eval_address mb b pos true) true).
Proof.
  intros l p v. unfold pvar2.
  assert (L : match Symbols.get_by_name m ctx (N.to_nat l) p with
              | Paths.ROk r => match nth_error (s_sym st) r with
                               | Some VUnknown => EErr
                               | Some v0 => EOk v0
                               | None => EErr end
              | _ => EErr end = EOk v ->
              match Symbols.get_by_name m ctx (N.to_nat l) p with
              | Paths.ROk r => match nth_error (s_sym st) r with
                               | Some VUnknown => EOk VUnknown
                               | Some v0 => EOk v0
                               | None => EErr end
              | _ => EErr end = EOk v).
  { destruct (Symbols.get_by_name m ctx (N.to_nat l) p) as [r| | |]; auto.
    destruct (nth_error (s_sym st) r) as [[]|]; auto; discriminate. }
  destruct l; [|exact L]. destruct p as [|first rest]; [exact L|].
  destruct (is_pc first); [|exact L].
  destruct (Cursor.eval_address mb b pos false) as [a| |] eqn:E; try discriminate.
  rewrite (eval_address_mono _ _ _ _ E). auto.
Qed.

(* #assert nodes report Unresolved before the last pass BY DESIGN (their condition is not even evaluated), so the
   guessing pass that reproduces a resolved strict pass reports Unresolved exactly when the program has an #assert *)
Definition is_assert (n : xnode) : bool := match n with XAssert _ => true | _ => false end.
Definition has_assert (ns : list cnode) : bool := existsb (fun n => is_assert (fst n)) ns.
Definition guess_res (a : bool) : resolution := if a then Unresolved else Resolved.

Lemma merge_resolved_r a : merge a Resolved = a.
Proof. destruct a; reflexivity. Qed.

Section Agree.
Variable m : Symbols.mgr.
Variable banks : list Cursor.bank.
Variable defs : list ruledef.
Variable mb : Z.

Lemma resolve_node2_agree n ctx st b pos st' :
  resolve_node2 m defs mb true n ctx st b pos = Ok (st', Resolved) ->
  resolve_node2 m defs mb false n ctx st b pos = Ok (st', guess_res (is_assert n)).
Proof.
  intro H. unfold resolve_node2 in *. cbv zeta in *. cbn [negb] in *.
  pose proof (pvar2_mono m st ctx mb b pos) as Hpv.
  destruct n as [s d0|s d0 e|i src|width d e|k e|k e|k e|bi|e]; cbn [is_assert guess_res].
  - destruct (Cursor.eval_address mb b pos false) as [a| |] eqn:E; try discriminate.
    rewrite (eval_address_mono _ _ _ _ E). exact H.
  - match type of H with match ?x with EOk _ => _ | EErr => _ end = _ => destruct x as [[v c]|] eqn:E; [|discriminate] end.
    rewrite (eval_mono code_ops _ _ Hpv _ _ _ E). cbn [andb] in *.
    match type of H with (if ?c then _ else _) = _ => destruct c; [discriminate|] end. exact H.
  - destruct (nth_error (s_instr st) i) as [d|]; [|discriminate].
    match type of H with match ?x with EOk _ => _ | EErr => _ end = _ => destruct x as [[e|]|] eqn:E; try discriminate end.
    rewrite (resolve_encoding_mono defs _ _ Hpv _ _ E). exact H.
  - match type of H with match ?x with EOk _ => _ | EErr => _ end = _ => destruct x as [[v c]|] eqn:E; [|discriminate] end.
    rewrite (eval_mono code_ops _ _ Hpv _ _ _ E).
    destruct (expect_error_or_bigint v) as [v'|]; [|discriminate].
    destruct v'; try discriminate.
    (* only the integer case survives in last mode *)
    match type of H with (if negb ?c then _ else _) = _ => destruct c; cbn [negb] in H; [|discriminate] end.
    cbn [negb]. exact H.
  - match type of H with match ?x with EOk _ => _ | EErr => _ end = _ => destruct x as [[v c]|] eqn:E; [|discriminate] end.
    rewrite (eval_mono code_ops _ _ Hpv _ _ _ E). exact H.
  - match type of H with match ?x with EOk _ => _ | EErr => _ end = _ => destruct x as [[v c]|] eqn:E; [|discriminate] end.
    rewrite (eval_mono code_ops _ _ Hpv _ _ _ E).
    match type of H with match ?x with EErr => _ | EOk _ => _ end = _ => destruct x as [z|]; [|discriminate] end.
    destruct (negb (z =? nth k (s_align st) 0)); [exact H|].
    cbn [andb] in *. destruct (z =? 0); [discriminate|exact H].
  - match type of H with match ?x with EOk _ => _ | EErr => _ end = _ => destruct x as [[v c]|] eqn:E; [|discriminate] end.
    rewrite (eval_mono code_ops _ _ Hpv _ _ _ E).
    destruct (expect_error_or_bigint v) as [v'|]; [|discriminate].
    match type of H with (if negb ?c then _ else _) = _ => destruct (negb c); [exact H|] end.
    match type of H with match ?x with Ok _ => _ | Err => _ | Panic => _ end = _ => destruct x; try discriminate end.
    exact H.
  - exact H.
  - (* #assert: resolved on the strict pass means the state is untouched; the guessing pass does not evaluate it *)
    match type of H with match ?x with EOk _ => _ | EErr => _ end = _ => destruct x as [[v c]|]; [|discriminate] end.
    destruct v as [| | | | |[|]|]; try discriminate. inversion H; subst. reflexivity.
Qed.

Lemma step2_agree nc st c prev st' c' prev' :
  step2 m banks defs mb true nc st c prev = Ok (st', Resolved, c', prev') ->
  step2 m banks defs mb false nc st c prev = Ok (st', guess_res (is_assert (fst nc)), c', prev').
Proof.
  unfold step2. intro H.
  destruct (Cursor.advance mb banks c prev) as [c1| |]; try discriminate.
  destruct (Cursor.enter mb banks c1 (shape (fst nc))) as [c2| |]; try discriminate.
  destruct (Cursor.cur_bank banks c2) as [[b pos]| |]; try discriminate.
  destruct (resolve_node2 m defs mb true (fst nc) (snd nc) st b pos) as [[s r]| |] eqn:E; try discriminate.
  inversion H; subst; clear H.
  rewrite (resolve_node2_agree _ _ _ _ _ _ E). reflexivity.
Qed.

Lemma pass2_agree ns st c prev st' :
  pass2 m banks defs mb true ns st c prev Resolved = Ok (st', Resolved) ->
  forall acc, pass2 m banks defs mb false ns st c prev acc = Ok (st', merge acc (guess_res (has_assert ns))).
Proof.
  revert st c prev. induction ns as [|n ns IH]; intros st c prev H acc; cbn [pass2] in *.
  - destruct (Cursor.advance mb banks c prev); try discriminate. inversion H; subst.
    cbn [has_assert existsb guess_res]. now rewrite merge_resolved_r.
  - destruct (step2 m banks defs mb true n st c prev) as [[[[s r] c'] p']| |] eqn:E; try discriminate.
    destruct r.
    + rewrite (step2_agree _ _ _ _ _ _ _ E). cbn [merge] in H. rewrite (IH _ _ _ H).
      f_equal. f_equal. cbn [has_assert existsb]. fold (has_assert ns).
      destruct acc, (is_assert (fst n)), (has_assert ns); reflexivity.
    + cbn [merge] in H. exfalso. eapply pass2_unresolved_sticky; eauto.
Qed.

(* mode agreement, exact form: the guessing pass from a state on which the strict pass is resolved leaves the same
   state, and reports Resolved unless the program contains an #assert *)
Lemma run_pass_agree ns st st' :
  run_pass m banks defs mb true ns st = Ok (st', Resolved) ->
  run_pass m banks defs mb false ns st = Ok (st', guess_res (has_assert ns)).
Proof. intro H. unfold run_pass. rewrite (pass2_agree _ _ _ _ _ H). destruct (has_assert ns); reflexivity. Qed.

Lemma run_pass_agree_no_assert ns st st' : has_assert ns = false ->
  run_pass m banks defs mb true ns st = Ok (st', Resolved) ->
  run_pass m banks defs mb false ns st = Ok (st', Resolved).
Proof. intros Ha H. rewrite (run_pass_agree _ _ _ H), Ha. reflexivity. Qed.

(* a pass before the last one never reports Resolved when the program has an #assert *)
Lemma pass2_guess_assert ns : has_assert ns = true -> forall st c prev acc st' r,
  pass2 m banks defs mb false ns st c prev acc = Ok (st', r) -> r = Unresolved.
Proof.
  induction ns as [|n ns IH]; intros Ha st c prev acc st' r H; cbn [has_assert existsb] in Ha; [discriminate|].
  cbn [pass2] in H.
  destruct (step2 m banks defs mb false n st c prev) as [[[[s q] c'] p']| |] eqn:E; try discriminate.
  destruct (is_assert (fst n)) eqn:A.
  - assert (q = Unresolved).
    { unfold step2 in E.
      destruct (Cursor.advance mb banks c prev) as [c1| |]; try discriminate.
      destruct (Cursor.enter mb banks c1 (shape (fst n))) as [c2| |]; try discriminate.
      destruct (Cursor.cur_bank banks c2) as [[b pos]| |]; try discriminate.
      destruct (fst n); try discriminate A. cbn in E. now inversion E. }
    subst q. destruct r; [|reflexivity]. exfalso.
    replace (merge acc Unresolved) with Unresolved in H by (destruct acc; reflexivity).
    eapply pass2_unresolved_sticky; eauto.
  - cbn [orb] in Ha. eapply IH; eauto.
Qed.
End Agree.

(* ---- budget monotonicity ---- *)
Section Budget.
Variable m : Symbols.mgr.
Variable banks : list Cursor.bank.
Variable defs : list ruledef.
Variable mb : Z.
Variable ns : list cnode.
Notation P last st := (run_pass m banks defs mb last ns st).

(* once on a fixed point, every longer run stays there (with an #assert: keeps going until its own last pass) *)
Lemma sit2 k i max s : P true s = Ok (s, Resolved) -> (k + i = max)%nat ->
  exists n, loop2 m banks defs mb ns k i max s = Ok (s, n).
Proof.
  revert i. induction k as [|k IH]; intros i Hfix E; cbn [loop2].
  - rewrite Hfix. eauto.
  - destruct (Nat.eqb (S i) max) eqn:L.
    + rewrite Hfix. eauto.
    + rewrite (run_pass_agree _ _ _ _ _ _ _ Hfix). destruct (has_assert ns); cbn [guess_res].
      * apply IH; [exact Hfix|lia].
      * rewrite Hfix. eauto.
Qed.

Lemma mono2 k k' i max max' st st' n : labels_ok2 ns st -> syms_distinct2 ns ->
  loop2 m banks defs mb ns k i max st = Ok (st', n) -> (k + i = max)%nat -> (k' + i = max')%nat -> (max <= max')%nat -> (1 <= k)%nat ->
  exists n', loop2 m banks defs mb ns k' i max' st = Ok (st', n').
Proof.
  intros Hl Hd. revert k' i st Hl. induction k as [|k IH]; intros k' i st Hl H E E' Hle Hk; [lia|].
  destruct k' as [|k']; [lia|]. cbn [loop2] in *.
  destruct (Nat.eqb (S i) max) eqn:L.
  - (* pass S i is the last one under budget max *)
    destruct (P true st) as [[s r]| |] eqn:Q; try discriminate.
    destruct r; [|discriminate]. inversion H; subst s n; clear H.
    assert (st' = st) by (eapply pass2_fix; eauto). subst st'.
    destruct (Nat.eqb (S i) max') eqn:L'.
    + rewrite Q. eauto.
    + rewrite (run_pass_agree _ _ _ _ _ _ _ Q). destruct (has_assert ns); cbn [guess_res].
      * apply sit2; [exact Q|lia].
      * rewrite Q. eauto.
  - apply Nat.eqb_neq in L.
    assert (Nat.eqb (S i) max' = false) as L' by (apply Nat.eqb_neq; lia).
    rewrite L'.
    destruct (P false st) as [[s r]| |] eqn:Q; try discriminate.
    destruct r.
    + eauto.
    + eapply IH; eauto; try lia. eapply pass2_labels_ok; eauto.
Qed.

Theorem budget_monotone2 b b' st st' n : labels_ok2 ns st -> syms_distinct2 ns ->
  (1 <= b)%nat -> (b <= b')%nat ->
  loop2 m banks defs mb ns b 0 b st = Ok (st', n) ->
  exists n', loop2 m banks defs mb ns b' 0 b' st = Ok (st', n').
Proof. intros Hl Hd Hb Hle H. eapply mono2; eauto; lia. Qed.

(* with an #assert the loop never stops early: the reported pass count is the budget itself *)
Lemma loop2_assert_count : has_assert ns = true -> forall k i max st st' n,
  loop2 m banks defs mb ns k i max st = Ok (st', n) -> (k + i = max)%nat -> (1 <= k)%nat -> n = max.
Proof.
  intros Ha. induction k as [|k IH]; intros i max st st' n H E Hk; [lia|]. cbn [loop2] in H.
  destruct (Nat.eqb (S i) max) eqn:L.
  - destruct (P true st) as [[s r]| |]; try discriminate. destruct r; [|discriminate].
    inversion H; subst. apply Nat.eqb_eq in L. exact L.
  - destruct (P false st) as [[s r]| |] eqn:Q; try discriminate.
    unfold run_pass in Q. rewrite (pass2_guess_assert _ _ _ _ _ Ha _ _ _ _ _ _ Q) in H.
    apply Nat.eqb_neq in L. eapply IH; eauto; lia.
Qed.
End Budget.
