(* C11 base lemmas: bits <-> chunk values, numbers <-> digits, text splitting. *)
From Coq Require Import Ascii String ZArith NArith List Bool Lia ZifyBool Arith.
From CA Require Import Model.Formats Spec.Decoders.
Import ListNotations.
Open Scope N_scope.

(* ------------------------------------------------------------------ option plumbing *)
Lemma map_opt_map {A B C} (f : B -> option C) (g : A -> B) (h : A -> C) (l : list A) :
  (forall x, In x l -> f (g x) = Some (h x)) -> map_opt f (map g l) = Some (map h l).
Proof.
  induction l as [|x r IH]; intro H; cbn [map map_opt]; [reflexivity|].
  rewrite (H x (or_introl eq_refl)), IH; [reflexivity|]. intros y Hy. apply H. right. exact Hy.
Qed.

Lemma map_opt_id {A} (f : A -> option A) (l : list A) :
  (forall x, In x l -> f x = Some x) -> map_opt f l = Some l.
Proof.
  intro H. rewrite <- (map_id l) at 1. rewrite (map_opt_map f (fun x => x) (fun x => x)); [now rewrite map_id|exact H].
Qed.

Lemma below_ok k v : v < 2 ^ N.of_nat k -> below k v = Some v.
Proof. intro H. unfold below. destruct (N.ltb_spec v (2 ^ N.of_nat k)); [reflexivity|lia]. Qed.

(* ------------------------------------------------------------------ bit lists and their values *)
Definition bits_val (l : list bool) (acc : N) : N := fold_left (fun a b => 2 * a + b2n b) l acc.

(* the k bits read from l, zero past the end *)
Definition first_bits (k : nat) (l : list bool) : list bool := firstn k (l ++ repeat false k).

Lemma first_bits_length k l : length (first_bits k l) = k.
Proof. unfold first_bits. rewrite firstn_length, app_length, repeat_length. lia. Qed.

Lemma firstn_app_repeat {A} (x : A) k : forall t m, (k <= m)%nat ->
  firstn k (t ++ repeat x m) = firstn k (t ++ repeat x k).
Proof.
  induction k as [|k IH]; intros t m Hm; [reflexivity|].
  destruct t as [|y t]; cbn [app].
  - destruct m as [|m]; [lia|]. cbn [repeat firstn]. f_equal.
    apply (IH [] m). lia.
  - cbn [firstn]. f_equal. rewrite (IH t m) by lia. symmetry. apply IH. lia.
Qed.

Lemma take_val_spec k : forall l acc,
  take_val k l acc = (bits_val (first_bits k l) acc, skipn k l).
Proof.
  induction k as [|k IH]; intros l acc.
  - reflexivity.
  - destruct l as [|b t]; cbn [take_val]; rewrite IH; unfold first_bits.
    + cbn [app repeat firstn skipn bits_val fold_left b2n].
      rewrite N.add_0_r. f_equal. now destruct k.
    + cbn [app firstn skipn bits_val fold_left].
      rewrite (firstn_app_repeat false k t (S k)) by lia. reflexivity.
Qed.

Lemma bits_val_acc l : forall acc, bits_val l acc = acc * 2 ^ N.of_nat (length l) + bits_val l 0.
Proof.
  induction l as [|b t IH]; intro acc; cbn [bits_val fold_left length].
  - cbn. lia.
  - fold (bits_val t (2 * acc + b2n b)). fold (bits_val t (2 * 0 + b2n b)).
    rewrite IH. rewrite (IH (2 * 0 + b2n b)).
    rewrite Nat2N.inj_succ, N.pow_succ_r'. lia.
Qed.

Lemma bits_val_lt l : bits_val l 0 < 2 ^ N.of_nat (length l).
Proof.
  induction l as [|b t IH]; cbn [bits_val fold_left length].
  - cbn. lia.
  - fold (bits_val t (2 * 0 + b2n b)). rewrite bits_val_acc.
    rewrite Nat2N.inj_succ, N.pow_succ_r'. destruct b; cbn [b2n]; lia.
Qed.

Lemma val_bits_high k : forall a r, r < 2 ^ N.of_nat k -> val_bits k (a * 2 ^ N.of_nat k + r) = val_bits k r.
Proof.
  induction k as [|k IH]; intros a r Hr; cbn [val_bits]; [reflexivity|].
  rewrite Nat2N.inj_succ, N.pow_succ_r' in *.
  f_equal.
  - (* bit k *)
    apply eq_true_iff_eq. rewrite !N.testbit_true.
    replace (a * (2 * 2 ^ N.of_nat k) + r) with (r + (2 * a) * 2 ^ N.of_nat k) by lia.
    rewrite N.div_add by (apply N.pow_nonzero; lia).
    replace (r / 2 ^ N.of_nat k + 2 * a) with (r / 2 ^ N.of_nat k + a * 2) by lia.
    rewrite N.mod_add by lia. reflexivity.
  - destruct (N.lt_ge_cases r (2 ^ N.of_nat k)) as [Hlt|Hge].
    + replace (a * (2 * 2 ^ N.of_nat k) + r) with ((2 * a) * 2 ^ N.of_nat k + r) by lia. now apply IH.
    + replace (a * (2 * 2 ^ N.of_nat k) + r) with ((2 * a + 1) * 2 ^ N.of_nat k + (r - 2 ^ N.of_nat k)) by lia.
      rewrite IH by lia.
      replace r with (1 * 2 ^ N.of_nat k + (r - 2 ^ N.of_nat k)) at 2 by lia.
      rewrite IH by lia. reflexivity.
Qed.

Lemma val_bits_bits_val l : val_bits (length l) (bits_val l 0) = l.
Proof.
  induction l as [|b t IH]; [reflexivity|].
  cbn [length val_bits bits_val fold_left]. fold (bits_val t (2 * 0 + b2n b)).
  rewrite bits_val_acc. pose proof (bits_val_lt t) as Hlt.
  f_equal.
  - apply eq_true_iff_eq. rewrite N.testbit_true.
    replace ((2 * 0 + b2n b) * 2 ^ N.of_nat (length t) + bits_val t 0)
      with (bits_val t 0 + b2n b * 2 ^ N.of_nat (length t)) by lia.
    rewrite N.div_add by (apply N.pow_nonzero; lia).
    rewrite N.div_small by exact Hlt. destruct b; cbn; split; congruence.
  - rewrite val_bits_high by exact Hlt. exact IH.
Qed.

(* ------------------------------------------------------------------ the chunk loop *)
(* consecutive indices *)
Fixpoint number_from (idx step : N) (vs : list N) : list (N * N) :=
  match vs with [] => [] | v :: r => (idx, v) :: number_from (idx + step) step r end.

Lemma number_from_snd idx step vs : map snd (number_from idx step vs) = vs.
Proof. revert idx; induction vs as [|v r IH]; intro idx; cbn; [reflexivity|now rewrite IH]. Qed.

Lemma skipn_length_lt {A} k (l : list A) : (0 < k)%nat -> l <> [] -> (length (skipn k l) < length l)%nat.
Proof. intros Hk Hl. rewrite skipn_length. destruct l; [congruence|cbn [length]; lia]. Qed.

Definition vals (k : nat) (bs : list bool) : list N := map snd (chunks k bs).

Lemma chunks_loop_numbered k : (0 < k)%nat -> forall fuel idx l, (length l <= fuel)%nat ->
  chunks_loop fuel k idx l = number_from idx (N.of_nat k) (map snd (chunks_loop fuel k idx l)).
Proof.
  intros Hk fuel. induction fuel as [|f IH]; intros idx l Hf.
  - destruct l; [reflexivity|cbn in Hf; lia].
  - destruct l as [|b t]; [reflexivity|].
    cbn [chunks_loop]. rewrite take_val_spec. cbn [map snd number_from]. f_equal.
    apply IH. pose proof (skipn_length_lt k (b :: t) Hk ltac:(congruence)). cbn [length] in *. lia.
Qed.

Lemma chunks_numbered k bs : (0 < k)%nat -> chunks k bs = number_from 0 (N.of_nat k) (vals k bs).
Proof. intro Hk. unfold vals, chunks. now apply chunks_loop_numbered. Qed.

Lemma pad_nil g : pad g [] = [].
Proof.
  unfold pad. cbn [length app]. destruct g as [|g]; [reflexivity|].
  rewrite Nat.mod_0_l, Nat.sub_0_r, Nat.mod_same by lia. reflexivity.
Qed.

Ltac Zify.zify_post_hook ::= Z.div_mod_to_equations.

Lemma val_bits_length k v : length (val_bits k v) = k.
Proof. induction k; cbn [val_bits length]; congruence. Qed.

Lemma bits_of_vals_length k vs : length (bits_of_vals k vs) = (k * length vs)%nat.
Proof.
  unfold bits_of_vals. induction vs as [|v r IH]; cbn [map concat length]; [lia|].
  rewrite app_length, val_bits_length, IH. lia.
Qed.

Lemma firstn_repeat_le {A} (x : A) m : forall n, (m <= n)%nat -> firstn m (repeat x n) = repeat x m.
Proof. induction m as [|m IH]; intros n H; [reflexivity|]. destruct n; [lia|]. cbn. f_equal. apply IH. lia. Qed.

Lemma first_bits_pad k l : (0 < k)%nat -> l <> [] -> first_bits k l ++ pad k (skipn k l) = pad k l.
Proof.
  intros Hk Hl. unfold first_bits, pad.
  destruct (le_lt_dec k (length l)) as [Hge|Hlt].
  - rewrite firstn_app. replace (k - length l)%nat with 0%nat by lia. cbn [firstn]. rewrite app_nil_r.
    rewrite skipn_length.
    replace ((length l - k) mod k)%nat with (length l mod k)%nat.
    + rewrite app_assoc, firstn_skipn. reflexivity.
    + replace (length l) with ((length l - k) + 1 * k)%nat at 1 by lia. now rewrite Nat.mod_add by lia.
  - rewrite skipn_all2 by lia. cbn [length app].
    rewrite firstn_app, firstn_all2 by lia. rewrite firstn_repeat_le by lia.
    assert (length l <> 0)%nat by (destruct l; cbn; congruence).
    rewrite (Nat.mod_small (length l) k) by lia.
    rewrite (Nat.mod_small (k - length l) k) by lia.
    replace ((k - 0 mod k) mod k)%nat with 0%nat.
    + cbn [repeat]. now rewrite app_nil_r.
    + rewrite Nat.mod_0_l, Nat.sub_0_r, Nat.mod_same by lia. reflexivity.
Qed.

Lemma chunks_loop_vals k : (0 < k)%nat -> forall fuel idx l, (length l <= fuel)%nat ->
  bits_of_vals k (map snd (chunks_loop fuel k idx l)) = pad k l
  /\ Forall (fun v => v < 2 ^ N.of_nat k) (map snd (chunks_loop fuel k idx l)).
Proof.
  intros Hk fuel. induction fuel as [|f IH]; intros idx l Hf.
  - destruct l; [|cbn in Hf; lia]. cbn [chunks_loop map]. rewrite pad_nil. split; [reflexivity|constructor].
  - destruct l as [|b t]; [cbn [chunks_loop map]; rewrite pad_nil; split; [reflexivity|constructor]|].
    cbn [chunks_loop]. rewrite take_val_spec. cbn [map snd].
    assert (length (skipn k (b :: t)) <= f)%nat as Hf'.
    { pose proof (skipn_length_lt k (b :: t) Hk ltac:(congruence)). cbn [length] in *. lia. }
    destruct (IH (idx + N.of_nat k) (skipn k (b :: t)) Hf') as [E F].
    split.
    + unfold bits_of_vals in *. cbn [map concat]. rewrite E.
      rewrite <- (first_bits_length k (b :: t)) at 1. rewrite val_bits_bits_val.
      apply first_bits_pad; [exact Hk|congruence].
    + constructor; [|exact F].
      rewrite <- (first_bits_length k (b :: t)) at 2. apply bits_val_lt.
Qed.

Lemma vals_pad k bs : (0 < k)%nat -> bits_of_vals k (vals k bs) = pad k bs.
Proof. intro Hk. unfold vals, chunks. now apply chunks_loop_vals. Qed.

Lemma vals_bound k bs : (0 < k)%nat -> Forall (fun v => v < 2 ^ N.of_nat k) (vals k bs).
Proof. intro Hk. unfold vals, chunks. now apply chunks_loop_vals. Qed.

Lemma pad_length k bs : (0 < k)%nat ->
  (length bs <= length (pad k bs) < length bs + k)%nat /\ (length (pad k bs) mod k = 0)%nat.
Proof.
  intro Hk. unfold pad. rewrite app_length, repeat_length.
  pose proof (Nat.mod_upper_bound (k - length bs mod k) k ltac:(lia)).
  split; [lia|].
  pose proof (Nat.mod_upper_bound (length bs) k ltac:(lia)) as Hm.
  destruct (Nat.eq_dec (length bs mod k) 0) as [E|E].
  - rewrite E, Nat.sub_0_r, Nat.mod_same, Nat.add_0_r by lia. exact E.
  - rewrite (Nat.mod_small (k - length bs mod k) k) by lia.
    rewrite (Nat.div_mod (length bs) k) at 1 by lia.
    replace (k * (length bs / k) + length bs mod k + (k - length bs mod k))%nat
      with (0 + (length bs / k + 1) * k)%nat by lia.
    rewrite Nat.mod_add by lia. now rewrite Nat.mod_0_l by lia.
Qed.

(* number of chunks: k * n is the length rounded up *)
Lemma vals_count k bs : (0 < k)%nat ->
  (length bs <= k * length (vals k bs) < length bs + k)%nat.
Proof.
  intro Hk. rewrite <- bits_of_vals_length, vals_pad by exact Hk. apply pad_length. exact Hk.
Qed.

Lemma vals_nil k : vals k [] = [].
Proof. reflexivity. Qed.

(* ------------------------------------------------------------------ numbers <-> digits *)
Definition undigits_le (base : N) (ds : list N) : N := fold_right (fun d a => d + base * a) 0 ds.

Lemma digits_le_spec base : 2 <= base -> forall fuel n, n < base ^ N.of_nat fuel ->
  undigits_le base (digits_le fuel base n) = n
  /\ Forall (fun d => d < base) (digits_le fuel base n)
  /\ (fuel <> O -> digits_le fuel base n <> []).
Proof.
  intros Hb fuel. induction fuel as [|f IH]; intros n Hn.
  - cbn in Hn. cbn. repeat split; [lia|constructor|congruence].
  - cbn [digits_le]. destruct (N.ltb_spec n base) as [Hlt|Hge].
    + cbn. repeat split; [lia|repeat constructor; exact Hlt|congruence].
    + rewrite Nat2N.inj_succ, N.pow_succ_r' in Hn.
      assert (n / base < base ^ N.of_nat f) as Hq by (apply N.div_lt_upper_bound; lia).
      destruct (IH (n / base) Hq) as (E & F & _).
      cbn [undigits_le fold_right]. fold (undigits_le base (digits_le f base (n / base))). rewrite E.
      repeat split; [|constructor; [apply N.mod_lt; lia|exact F]|congruence].
      pose proof (N.div_mod n base ltac:(lia)). lia.
Qed.

Lemma digits_fuel base n : 2 <= base -> n < base ^ N.of_nat (S (N.to_nat (N.size n))).
Proof.
  intro Hb. rewrite Nat2N.inj_succ, N2Nat.id.
  pose proof (N.size_gt n) as H1.
  assert (2 ^ N.size n <= base ^ N.size n) as H2 by (apply N.pow_le_mono_l; lia).
  assert (base ^ N.size n <= base ^ N.succ (N.size n)) as H3 by (apply N.pow_le_mono_r; lia).
  lia.
Qed.

Lemma fold_left_rev_digits base ds :
  fold_left (fun a d => a * base + d) (rev ds) 0 = undigits_le base ds.
Proof.
  induction ds as [|d r IH]; [reflexivity|].
  cbn [rev]. rewrite fold_left_app. cbn [fold_left undigits_le fold_right].
  fold (undigits_le base r). rewrite IH. lia.
Qed.

Lemma digits_spec base n : 2 <= base ->
  fold_left (fun a d => a * base + d) (digits base n) 0 = n
  /\ Forall (fun d => d < base) (digits base n) /\ digits base n <> [].
Proof.
  intro Hb. unfold digits.
  destruct (digits_le_spec base Hb _ n (digits_fuel base n Hb)) as (E & F & NE).
  rewrite fold_left_rev_digits. repeat split; [exact E| |].
  - apply Forall_rev. exact F.
  - intro H. apply (f_equal (@rev N)) in H. rewrite rev_involutive in H. cbn in H. now apply NE.
Qed.

Lemma parse_digits_map dv dc base ds : (forall d, In d ds -> dv (dc d) = Some d) ->
  forall acc, parse_digits dv base (map dc ds) acc = Some (fold_left (fun a d => a * base + d) ds acc).
Proof.
  induction ds as [|d r IH]; intros H acc; [reflexivity|].
  cbn [map parse_digits fold_left]. rewrite (H d (or_introl eq_refl)). apply IH.
  intros x Hx. apply H. now right.
Qed.

Lemma parse_digits_zeros dv base m t : dv 48 = Some 0 ->
  parse_digits dv base (repeat 48 m ++ t) 0 = parse_digits dv base t 0.
Proof. intro H. induction m as [|m IH]; [reflexivity|]. cbn [repeat app parse_digits]. rewrite H. exact IH. Qed.

(* enumeration of the sixteen digit values *)
Lemma N_lt_16_cases (P : N -> Prop) : (forall i, (i < 16)%nat -> P (N.of_nat i)) -> forall d, d < 16 -> P d.
Proof. intros H d Hd. rewrite <- (N2Nat.id d). apply H. lia. Qed.

Ltac enum16 := let i := fresh "i" in let Hi := fresh "Hi" in
  apply N_lt_16_cases; intros i Hi; do 16 (destruct i as [|i]; [vm_compute; try reflexivity; auto 30|]); lia.

Lemma hex_val_digit_char u d : d < 16 -> hex_val (digit_char u d) = Some d.
Proof. revert d. destruct u; enum16. Qed.

Lemma dec_val_digit_char u d : d < 10 -> dec_val (digit_char u d) = Some d.
Proof.
  intro H. unfold digit_char, dec_val. destruct (N.ltb_spec d 10); [|lia].
  replace (48 <=? 48 + d) with true by (symmetry; apply N.leb_le; lia).
  replace (48 + d <=? 57) with true by (symmetry; apply N.leb_le; lia).
  cbn [andb]. f_equal. lia.
Qed.

Definition hexchars : list N :=
  [48;49;50;51;52;53;54;55;56;57;65;66;67;68;69;70;97;98;99;100;101;102].

Lemma digit_char_in u d : d < 16 -> existsb (N.eqb (digit_char u d)) hexchars = true.
Proof. revert d. destruct u; enum16. Qed.

(* t contains no character satisfying p *)
Definition clean (p : N -> bool) (t : text) : Prop := forallb (fun c => negb (p c)) t = true.

Lemma clean_app p a b : clean p a -> clean p b -> clean p (a ++ b).
Proof. unfold clean. intros. rewrite forallb_app. now rewrite H, H0. Qed.

Lemma clean_nil p : clean p []. Proof. reflexivity. Qed.

Lemma clean_cons p c t : p c = false -> clean p t -> clean p (c :: t).
Proof. unfold clean. intros H1 H2. cbn. now rewrite H1, H2. Qed.

Lemma clean_repeat p c m : p c = false -> clean p (repeat c m).
Proof. intro H. induction m; [reflexivity|]. cbn [repeat]. now apply clean_cons. Qed.

Lemma digit_char_not p u d : d < 16 -> clean p hexchars -> p (digit_char u d) = false.
Proof.
  intros Hd Hc. pose proof (digit_char_in u d Hd) as Hin. apply existsb_exists in Hin.
  destruct Hin as (c & Hc1 & Hc2). apply N.eqb_eq in Hc2. subst c.
  unfold clean in Hc. rewrite forallb_forall in Hc. specialize (Hc _ Hc1). now apply negb_true_iff in Hc.
Qed.

Lemma clean_fmt_num p base u n : 2 <= base <= 16 -> clean p hexchars -> clean p (fmt_num base u n).
Proof.
  intros Hb Hc. unfold fmt_num, clean. rewrite forallb_forall. intros c Hin.
  apply in_map_iff in Hin. destruct Hin as (d & <- & Hd).
  destruct (digits_spec base n ltac:(lia)) as (_ & F & _). rewrite Forall_forall in F.
  specialize (F d Hd). apply negb_true_iff. apply digit_char_not; [lia|exact Hc].
Qed.

Lemma clean_pad_left p c w t : p c = false -> clean p t -> clean p (pad_left c w t).
Proof. intros. unfold pad_left. apply clean_app; [now apply clean_repeat|assumption]. Qed.

Lemma fmt_num_nonempty base u n : 2 <= base -> fmt_num base u n <> [].
Proof.
  intro Hb. unfold fmt_num. destruct (digits_spec base n Hb) as (_ & _ & NE).
  destruct (digits base n); [congruence|cbn; congruence].
Qed.

Lemma pad_left_nonempty c w t : t <> [] -> pad_left c w t <> [].
Proof. unfold pad_left. destruct t; [congruence|]. intros _ H. apply app_eq_nil in H. destruct H. congruence. Qed.

(* parse (print n) = n, with zero padding *)
Lemma parse_hex_fmt u w n : parse_hex (pad_left 48 w (fmt_num 16 u n)) = Some n.
Proof.
  unfold parse_hex, parse_num.
  pose proof (pad_left_nonempty 48 w _ (fmt_num_nonempty 16 u n ltac:(lia))) as NE.
  destruct (pad_left 48 w (fmt_num 16 u n)) eqn:E; [congruence|]. rewrite <- E. clear E NE.
  unfold pad_left. rewrite parse_digits_zeros by reflexivity.
  destruct (digits_spec 16 n ltac:(lia)) as (E & F & _). rewrite Forall_forall in F.
  unfold fmt_num. rewrite (parse_digits_map hex_val (digit_char u) 16).
  - now rewrite E.
  - intros d Hd. apply hex_val_digit_char. now apply F.
Qed.

Lemma parse_hex_fmt0 u n : parse_hex (fmt_num 16 u n) = Some n.
Proof. apply (parse_hex_fmt u 0 n). Qed.

Lemma parse_dec_fmt n : parse_dec (dec n) = Some n.
Proof.
  unfold parse_dec, parse_num, dec.
  pose proof (fmt_num_nonempty 10 false n ltac:(lia)) as NE.
  destruct (fmt_num 10 false n) eqn:E; [congruence|]. rewrite <- E. clear E NE.
  destruct (digits_spec 10 n ltac:(lia)) as (E & F & _). rewrite Forall_forall in F.
  unfold fmt_num. rewrite (parse_digits_map dec_val (digit_char false) 10).
  - now rewrite E.
  - intros d Hd. apply dec_val_digit_char. now apply F.
Qed.

(* ------------------------------------------------------------------ text splitting *)
Lemma strip_prefix_app p r : strip_prefix p (p ++ r) = Some r.
Proof. induction p as [|x p IH]; [reflexivity|]. cbn [app strip_prefix]. now rewrite N.eqb_refl. Qed.

Lemma text_eqb_refl t : text_eqb t t = true.
Proof. induction t as [|x t IH]; [reflexivity|]. cbn. now rewrite N.eqb_refl. Qed.

Lemma text_eqb_eq a : forall b, text_eqb a b = true -> a = b.
Proof.
  induction a as [|x a IH]; intros [|y b] H; try discriminate; [reflexivity|].
  cbn in H. apply andb_true_iff in H. destruct H as [H1 H2]. apply N.eqb_eq in H1. f_equal; auto.
Qed.

Lemma split_by_clean p l : clean p l -> split_by p l = [l].
Proof.
  unfold clean. induction l as [|x l IH]; intro H; [reflexivity|].
  cbn in H. apply andb_true_iff in H. destruct H as [H1 H2]. apply negb_true_iff in H1.
  cbn [split_by]. rewrite H1, IH by exact H2. reflexivity.
Qed.

Lemma split_by_app p l s r : clean p l -> p s = true -> split_by p (l ++ s :: r) = l :: split_by p r.
Proof.
  unfold clean. induction l as [|x l IH]; intros H Hs.
  - cbn [app split_by]. now rewrite Hs.
  - cbn in H. apply andb_true_iff in H. destruct H as [H1 H2]. apply negb_true_iff in H1.
    cbn [app split_by]. rewrite H1, IH by assumption. reflexivity.
Qed.

Lemma tokens_nil p : tokens p [] = []. Proof. reflexivity. Qed.

Lemma tokens_sep p s r : p s = true -> tokens p (s :: r) = tokens p r.
Proof. intro H. unfold tokens. cbn [split_by]. rewrite H. reflexivity. Qed.

Lemma tokens_app p l s r : l <> [] -> clean p l -> p s = true -> tokens p (l ++ s :: r) = l :: tokens p r.
Proof.
  intros NE Hc Hs. unfold tokens. rewrite split_by_app by assumption.
  cbn [filter]. destruct l; [congruence|reflexivity].
Qed.

Lemma tokens_one p l : l <> [] -> clean p l -> tokens p l = [l].
Proof. intros NE Hc. unfold tokens. rewrite split_by_clean by assumption. destruct l; [congruence|reflexivity]. Qed.

Lemma tokens_seps p a r : forallb p a = true -> tokens p (a ++ r) = tokens p r.
Proof.
  induction a as [|x a IH]; intro H; [reflexivity|].
  cbn in H. apply andb_true_iff in H. destruct H. cbn [app]. rewrite tokens_sep by assumption. auto.
Qed.
