(* C07: literal priority (the exact-part filter), ASCII case of patterns and of instruction text, blanks before a literal.
   Lemmas over Model/Matcher.v.  No axioms. *)
From Coq Require Import NArith ZArith List Bool Lia ZifyBool.
Import ListNotations.
From CA Require Import Model.Lexer Model.Parser Model.Matcher Proofs.MatcherP.
Open Scope N_scope.

(* ------------------------------------------------------------------------------------------------ *)
(* (B)7  literal priority                                                                             *)

Lemma dedupe_subset : forall ms seen m, In m (dedupe seen ms) -> In m ms.
Proof.
  induction ms as [|a ms IH]; intros seen m H; [destruct H|]. cbn [dedupe] in H.
  destruct (existsb (same_match a) seen).
  - right. eapply IH. exact H.
  - destruct H as [->|H]; [left; reflexivity | right; eapply IH; exact H].
Qed.

Lemma exact_count_set_exact : forall defs m n, exact_count defs (set_exact m n) = exact_count defs m.
Proof. intros defs [rd ru args e] n. reflexivity. Qed.

Lemma get_set_exact : forall m n, get_exact (set_exact m n) = n.
Proof. intros [rd ru args e] n. reflexivity. Qed.

Lemma fold_max_ge : forall (l : list imatch) a,
  a <= fold_left (fun a m => N.max a (get_exact m)) l a /\
  forall m, In m l -> get_exact m <= fold_left (fun a m => N.max a (get_exact m)) l a.
Proof.
  induction l as [|x l IH]; intros a; cbn [fold_left].
  - split; [lia | intros m []].
  - destruct (IH (N.max a (get_exact x))) as [H1 H2]. split; [lia|].
    intros m [->|Hm]; [lia | apply H2; exact Hm].
Qed.

Lemma finish_matches_inv : forall defs working m, In m (finish_matches defs working) ->
  exists m0, In m0 (dedupe [] (map fst working)) /\ m = set_exact m0 (exact_count defs m0) /\
  forall m', In m' (dedupe [] (map fst working)) -> exact_count defs m' <= exact_count defs m0.
Proof.
  intros defs working m. unfold finish_matches. intros H. apply filter_In in H. destruct H as [Hin Hmx].
  apply in_map_iff in Hin. destruct Hin as [m0 [<- Hm0]]. exists m0. split; [exact Hm0|]. split; [reflexivity|].
  intros m' Hm'. apply N.eqb_eq in Hmx. rewrite get_set_exact in Hmx. rewrite Hmx.
  match goal with |- _ <= fold_left ?f ?l ?a => destruct (fold_max_ge l a) as [_ H] end.
  rewrite <- (get_set_exact m' (exact_count defs m')). apply H.
  apply in_map_iff. exists m'. split; [reflexivity | exact Hm'].
Qed.

(* every surviving match has the maximal recursive literal count among all (de-duplicated) working matches *)
Theorem C07_literal_priority : forall defs working m, In m (finish_matches defs working) ->
  forall m', In m' (dedupe [] (map fst working)) -> exact_count defs m' <= get_exact m.
Proof.
  intros defs working m H m' Hm'. destruct (finish_matches_inv _ _ _ H) as [m0 [_ [-> Hmax]]].
  rewrite get_set_exact. apply Hmax. exact Hm'.
Qed.

(* the recorded count of a result is its recursive literal count *)
Theorem C07_result_exact : forall defs working m, In m (finish_matches defs working) ->
  get_exact m = exact_count defs m.
Proof.
  intros defs working m H. destruct (finish_matches_inv _ _ _ H) as [m0 [_ [-> _]]].
  rewrite get_set_exact, exact_count_set_exact. reflexivity.
Qed.

Theorem finish_subset : forall defs working m, In m (finish_matches defs working) ->
  exists m0, In m0 (map fst working) /\ m = set_exact m0 (exact_count defs m0).
Proof.
  intros defs working m H. destruct (finish_matches_inv _ _ _ H) as [m0 [Hin [-> _]]].
  exists m0. split; [eapply dedupe_subset; exact Hin | reflexivity].
Qed.

(* conversely: a de-duplicated working match with maximal count does survive (the filter removes nothing else) *)
Theorem finish_complete : forall defs working m0, In m0 (dedupe [] (map fst working)) ->
  (forall m', In m' (dedupe [] (map fst working)) -> exact_count defs m' <= exact_count defs m0) ->
  In (set_exact m0 (exact_count defs m0)) (finish_matches defs working).
Proof.
  intros defs working m0 Hin Hmax. unfold finish_matches. apply filter_In. split.
  - apply in_map_iff. exists m0. split; [reflexivity | exact Hin].
  - apply N.eqb_eq. rewrite get_set_exact.
    set (ms := map (fun m => set_exact m (exact_count defs m)) (dedupe [] (map fst working))).
    assert (Hle : forall l a, (forall m, In m l -> get_exact m <= exact_count defs m0) -> a <= exact_count defs m0 ->
                  fold_left (fun a m => N.max a (get_exact m)) l a <= exact_count defs m0).
    { induction l as [|x l IH]; intros a Hl Ha; cbn [fold_left]; [exact Ha|].
      apply IH; [intros m Hm; apply Hl; right; exact Hm|]. specialize (Hl x (or_introl eq_refl)). lia. }
    assert (H1 : fold_left (fun a m => N.max a (get_exact m)) ms 0 <= exact_count defs m0).
    { apply Hle; [|lia]. intros m Hm. unfold ms in Hm. apply in_map_iff in Hm. destruct Hm as [m1 [<- Hm1]].
      rewrite get_set_exact. apply Hmax. exact Hm1. }
    destruct (fold_max_ge ms 0) as [_ H2].
    specialize (H2 (set_exact m0 (exact_count defs m0))). rewrite get_set_exact in H2.
    assert (In (set_exact m0 (exact_count defs m0)) ms) by (unfold ms; apply in_map_iff; exists m0; auto).
    specialize (H2 H). lia.
Qed.

(* ------------------------------------------------------------------------------------------------ *)
(* (B)8  case                                                                                         *)

Lemma lower_glued_map : forall t, lower_glued (map to_lower t) = lower_glued t.
Proof. induction t as [|c r IH]; cbn [map lower_glued]; [reflexivity|]. rewrite to_lower_idem, IH. reflexivity. Qed.

(* patterns are stored lower-cased: the ASCII case of the rule text is irrelevant *)
Theorem C07_pattern_lowercase : forall t, lower_exacts (map to_lower t) = lower_exacts t.
Proof.
  intros [|c r]; cbn [map lower_exacts]; [reflexivity|]. rewrite to_lower_idem, lower_glued_map. reflexivity.
Qed.

Definition part_lowered (p : part) : Prop :=
  match p with PExact c | PGlued c => to_lower c = c | _ => False end.

Lemma lower_glued_lowered : forall t p, In p (lower_glued t) -> part_lowered p.
Proof.
  induction t as [|c r IH]; intros p H; [destruct H|]. cbn [lower_glued] in H.
  destruct H as [<-|H]; [apply to_lower_idem | apply IH; exact H].
Qed.

(* every part produced for a pattern token is a literal character equal to its own lower-case form *)
Theorem C07_pattern_parts_lowered : forall t p, In p (lower_exacts t) -> part_lowered p.
Proof.
  intros [|c r] p H; [destruct H|]. cbn [lower_exacts] in H.
  destruct H as [<-|H]; [apply to_lower_idem | eapply lower_glued_lowered; exact H].
Qed.

(* any two spellings of a rule's literal text that agree modulo ASCII case give the same pattern parts *)
Corollary C07_pattern_case : forall t t', map to_lower t = map to_lower t' -> lower_exacts t = lower_exacts t'.
Proof. intros t t' H. rewrite <- (C07_pattern_lowercase t), <- (C07_pattern_lowercase t'), H. reflexivity. Qed.

(* the pattern side of a comparison is case-insensitive *)
Theorem C07_char_case : forall w c c', to_lower c = to_lower c' ->
  maybe_expect_char w c = maybe_expect_char w c' /\ maybe_expect_char_glued w c = maybe_expect_char_glued w c'.
Proof.
  intros w c c' H. unfold maybe_expect_char, maybe_expect_char_glued, eq_ignore_case. rewrite H. split; reflexivity.
Qed.

Lemma drop_bytes_0 : forall t, drop_bytes 0 t = t.
Proof. intros [|c r]; reflexivity. Qed.

Lemma drop_bytes_head : forall c t, drop_bytes (utf8_len c) (c :: t) = t.
Proof.
  intros c t. cbn [drop_bytes]. destruct (utf8_len c =? 0) eqn:E.
  - apply N.eqb_eq in E. destruct (utf8_len_pos _ E).
  - rewrite N.sub_diag. apply drop_bytes_0.
Qed.

(* the instruction side: two walkers that differ only in the ASCII case of the character under the cursor
   give the SAME result (success or failure, and the same walker afterwards) *)
Theorem C07_instr_char_case_eq : forall w w' ch ch' t c,
  cur w = cur w' -> lim w = lim w' -> tail w = ch :: t -> tail w' = ch' :: t -> to_lower ch = to_lower ch' ->
  maybe_expect_char_glued w c = maybe_expect_char_glued w' c.
Proof.
  intros w w' ch ch' t c Hc Hl Ht Ht' Hlow.
  pose proof (to_lower_utf8_len _ _ Hlow) as Hu.
  unfold maybe_expect_char_glued, visible. rewrite Ht, Ht', <- Hc, <- Hl. cbn [take_bytes].
  destruct (lim w - cur w =? 0); [reflexivity|].
  unfold eq_ignore_case. rewrite <- Hlow. destruct (to_lower ch =? to_lower c); [|reflexivity].
  f_equal. unfold advance. rewrite Ht, Ht', <- Hc, <- Hl. rewrite !drop_bytes_head. rewrite Hu. reflexivity.
Qed.

Theorem C07_instr_char_case : forall w w' ch ch' t c,
  cur w = cur w' -> lim w = lim w' -> tail w = ch :: t -> tail w' = ch' :: t -> to_lower ch = to_lower ch' ->
  (maybe_expect_char_glued w c <> None <-> maybe_expect_char_glued w' c <> None).
Proof.
  intros w w' ch ch' t c Hc Hl Ht Ht' Hlow.
  rewrite (C07_instr_char_case_eq w w' ch ch' t c Hc Hl Ht Ht' Hlow). reflexivity.
Qed.

(* ------------------------------------------------------------------------------------------------ *)
(* (B)9  blanks and comments in front of a literal that starts a pattern token                         *)

Definition settled (w : walker) : Prop := is_over w = true \/ is_ignorable (fst (token_here w)) = false.

Lemma skip_settled : forall f w, settled w -> skip_ignorable f w = w.
Proof.
  intros [|f] w H; [reflexivity|]. cbn [skip_ignorable]. destruct (is_over w) eqn:Ho; [reflexivity|].
  destruct H as [H|H]; [congruence|]. destruct (token_here w) as [k n]. cbn [fst] in H. rewrite H. reflexivity.
Qed.

Lemma drop_bytes_length : forall t n, (length (drop_bytes n t) <= length t)%nat.
Proof.
  induction t as [|c r IH]; intros n; cbn [drop_bytes length]; [lia|].
  destruct (n =? 0); [cbn [length]; lia|]. specialize (IH (n - utf8_len c)). lia.
Qed.

Lemma advance_ignorable_shorter : forall w k n, is_over w = false -> token_here w = (k, n) -> is_ignorable k = true ->
  (length (tail (advance w n)) < length (tail w))%nat.
Proof.
  intros w k n Ho Ht Hi. unfold token_here in Ht. unfold is_over in Ho. rewrite Ho in Ht.
  destruct (decide_ignorable _ _ _ Ht Hi) as [Hn [ch [r [Hv _]]]].
  unfold advance. cbn [tail]. unfold visible in Hv.
  destruct (tail w) as [|c t]; [discriminate|]. cbn [drop_bytes]. apply N.eqb_neq in Hn. rewrite Hn.
  pose proof (drop_bytes_length t (n - utf8_len c)). cbn [length]. lia.
Qed.

(* with fuel above the number of remaining characters the skip reaches a non-ignorable token or the limit *)
Lemma skip_reaches : forall f w, (length (tail w) < f)%nat -> settled (skip_ignorable f w).
Proof.
  induction f as [|f IH]; intros w Hf; [lia|]. cbn [skip_ignorable].
  destruct (is_over w) eqn:Ho; [left; exact Ho|].
  destruct (token_here w) as [k n] eqn:Et. destruct (is_ignorable k) eqn:Ei.
  - apply IH. pose proof (advance_ignorable_shorter _ _ _ Ho Et Ei). lia.
  - right. rewrite Et. exact Ei.
Qed.

Lemma skip_fuel_irrelevant : forall f w g, settled (skip_ignorable f w) -> (f <= g)%nat ->
  skip_ignorable g w = skip_ignorable f w.
Proof.
  induction f as [|f IH]; intros w g Hs Hg.
  - cbn [skip_ignorable] in *. apply skip_settled. exact Hs.
  - destruct g as [|g]; [lia|]. cbn [skip_ignorable] in *.
    destruct (is_over w); [reflexivity|]. destruct (token_here w) as [k n].
    destruct (is_ignorable k); [|reflexivity]. apply IH; [exact Hs | lia].
Qed.

(* next_useful_index is idempotent, and any partial skip in front of it is absorbed *)
Lemma next_useful_index_absorbs : forall f w, next_useful_index (skip_ignorable f w) = next_useful_index w.
Proof.
  intros f w. rewrite !next_useful_index_skip. revert w.
  induction f as [|f IH]; intros w; [reflexivity|]. cbn [skip_ignorable].
  destruct (is_over w) eqn:Ho; [reflexivity|].
  destruct (token_here w) as [k n] eqn:Et. destruct (is_ignorable k) eqn:Ei; [|reflexivity].
  rewrite IH. pose proof (advance_ignorable_shorter _ _ _ Ho Et Ei) as Hlt.
  unfold fuel_of at 2. cbn [skip_ignorable]. rewrite Ho, Et, Ei.
  apply eq_sym. apply skip_fuel_irrelevant.
  - apply skip_reaches. unfold fuel_of. lia.
  - unfold fuel_of. lia.
Qed.

Theorem next_useful_index_idem : forall w, next_useful_index (next_useful_index w) = next_useful_index w.
Proof. intros w. rewrite (next_useful_index_skip w) at 1. apply next_useful_index_absorbs. Qed.

(* extra blanks / comments / line breaks skipped in front of a literal character do not matter (any fuel) *)
Theorem C07_blank_before_exact : forall f w c, maybe_expect_char (skip_ignorable f w) c = maybe_expect_char w c.
Proof. intros f w c. unfold maybe_expect_char. rewrite next_useful_index_absorbs. reflexivity. Qed.

(* ------------------------------------------------------------------------------------------------ *)
(* literal priority against ALL working matches (de-duplication only drops matches with the same literal count) *)

Definition args_depth (idepth : imatch -> nat) : list iarg -> nat :=
  fix go (a : list iarg) : nat :=
    match a with [] => O | ANested n _ _ _ :: r => Nat.max (idepth n) (go r) | _ :: r => go r end.
Fixpoint idepth (m : imatch) : nat := match m with IMatch _ _ args _ => S (args_depth idepth args) end.

Definition args_count (defs : list ruledef) : list iarg -> N :=
  fix go (a : list iarg) : N :=
    match a with [] => 0 | ANested n _ _ _ :: r => exact_count defs n + go r | _ :: r => go r end.
Definition args_same : list iarg -> list iarg -> bool :=
  fix go (x y : list iarg) : bool :=
    match x, y with
    | [], [] => true
    | AExpr _ s1 t1 _ :: x', AExpr _ s2 t2 _ :: y' => (s1 =? s2) && (t1 =? t2) && go x' y'
    | ANested m1 s1 t1 _ :: x', ANested m2 s2 t2 _ :: y' => (s1 =? s2) && (t1 =? t2) && same_match m1 m2 && go x' y'
    | _, _ => false
    end.

Lemma exact_count_unfold : forall defs rd ru args e,
  exact_count defs (IMatch rd ru args e) =
  match nth_error defs rd with Some d => match nth_error (rd_rules d) ru with Some r => rexact r | None => 0 end | None => 0 end
  + args_count defs args.
Proof. reflexivity. Qed.
Lemma same_match_unfold : forall rd1 ru1 a1 e1 rd2 ru2 a2 e2,
  same_match (IMatch rd1 ru1 a1 e1) (IMatch rd2 ru2 a2 e2) =
  Nat.eqb rd1 rd2 && Nat.eqb ru1 ru2 && Nat.eqb (length a1) (length a2) && args_same a1 a2.
Proof. reflexivity. Qed.

Lemma same_match_exact_count : forall defs n a b, (idepth a <= n)%nat -> same_match a b = true ->
  exact_count defs a = exact_count defs b.
Proof.
  intros defs. induction n as [|n IH]; intros [rd1 ru1 a1 e1] [rd2 ru2 a2 e2] Hd Hs; [cbn [idepth] in Hd; lia|].
  rewrite same_match_unfold in Hs. rewrite !andb_true_iff in Hs. destruct Hs as [[[H1 H2] _] H4].
  apply Nat.eqb_eq in H1. apply Nat.eqb_eq in H2. subst rd2 ru2. rewrite !exact_count_unfold. f_equal.
  cbn [idepth] in Hd. assert (Hd' : (args_depth idepth a1 <= n)%nat) by lia. clear Hd.
  revert a2 H4 Hd'. induction a1 as [|x a1 IHa]; intros a2 H4 Hd'.
  - destruct a2; [reflexivity | discriminate].
  - destruct x as [ex s t exc | m s t exc]; destruct a2 as [|[ex2 s2 t2 exc2 | m2 s2 t2 exc2] a2];
      cbn [args_same] in H4; try discriminate; rewrite !andb_true_iff in H4.
    + destruct H4 as [_ H4]. cbn [args_count args_depth] in *. apply IHa; assumption.
    + destruct H4 as [[_ Hm] H4]. cbn [args_count args_depth] in *. f_equal.
      * apply IH; [lia | exact Hm].
      * apply IHa; [exact H4 | lia].
Qed.

Lemma dedupe_represents : forall defs ms seen m, In m ms ->
  exists m', (In m' seen \/ In m' (dedupe seen ms)) /\ exact_count defs m' = exact_count defs m.
Proof.
  intros defs. induction ms as [|a ms IH]; intros seen m Hin; [destruct Hin|]. cbn [dedupe].
  destruct (existsb (same_match a) seen) eqn:E.
  - destruct Hin as [->|Hin]; [|apply IH; exact Hin].
    apply existsb_exists in E. destruct E as [x [Hx Hs]]. exists x. split; [left; exact Hx|].
    symmetry. eapply same_match_exact_count; [apply Nat.le_refl | exact Hs].
  - destruct Hin as [->|Hin].
    + exists m. split; [right; left; reflexivity | reflexivity].
    + destruct (IH (seen ++ [a]) m Hin) as [m' [Hm' He]]. exists m'. split; [|exact He].
      destruct Hm' as [Hm'|Hm']; [|right; right; exact Hm'].
      apply in_app_iff in Hm'. destruct Hm' as [Hm'|[<-|[]]]; [left; exact Hm' | right; left; reflexivity].
Qed.

Theorem C07_literal_priority_all : forall defs working m, In m (finish_matches defs working) ->
  forall m', In m' (map fst working) -> exact_count defs m' <= get_exact m.
Proof.
  intros defs working m H m' Hm'.
  destruct (dedupe_represents defs _ [] _ Hm') as [m'' [[[]|Hin] He]].
  rewrite <- He. eapply C07_literal_priority; eassumption.
Qed.
