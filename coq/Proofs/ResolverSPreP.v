(* The pre-pass of address-free constants (resolve_constants_simple) with and without the static-value optimisation:
   identical states and counts; after it every statically known constant holds its value.  (C08, static half.) *)
From Coq Require Import NArith ZArith List Bool Lia.
Import ListNotations.
From CA Require Import Model.Lexer Model.Parser Model.Literal Model.BigIntOps Model.Evaluator Model.Matcher Model.Resolver
  Model.StaticKnown Model.ResolverS Spec.StaticSpec Proofs.EvalSemP Proofs.EvalMonoP Proofs.ResolverFixP Proofs.ResolverMonoP
  Proofs.CertUniqueP Proofs.StaticKnownP Proofs.ResolverSSimP.
Open Scope Z_scope.

Definition upd_sym (st : state) (s : nat) (v : value) : state :=
  {| s_sym := set_nth (s_sym st) s v; s_instr := s_instr st; s_data := s_data st; s_res := s_res st; s_align := s_align st; s_addr := s_addr st |}.

Fixpoint sr_go (names : list text) (ns : list node) (st : state) (cnt : nat) : eres (state * nat) :=
  match ns with
  | [] => EOk (st, cnt)
  | NConst s e :: r =>
    match eval code_ops (pvar_simple names st) e [] with
    | EErr => EErr
    | EOk (VFailed, _) => EErr
    | EOk (v, _) => sr_go names r (upd_sym st s v) (match v with VUnknown => cnt | _ => S cnt end)
    end
  | _ :: r => sr_go names r st cnt
  end.

Lemma simple_round_go names ns st : simple_round names ns st = sr_go names ns st 0.
Proof.
  unfold simple_round. generalize 0%nat. revert st. induction ns as [|n r IH]; intros st c; [reflexivity|].
  destruct n; cbn [sr_go]; try apply IH.
  destruct (eval code_ops (pvar_simple names st) e []) as [[v c0]|]; [|reflexivity].
  destruct v; try reflexivity; apply IH.
Qed.

Fixpoint srS_go (names : list text) (K : kinfo) (opt : bool) (ns : list node) (x : sstate) (cnt : nat) : eres (sstate * nat) :=
  match ns with
  | [] => EOk (x, cnt)
  | NConst s e :: r =>
    if flag (fz_sym x) s then srS_go names K opt r x (S cnt) else
    match eval code_ops (pvar_simple names (ss x)) e [] with
    | EErr => EErr
    | EOk (VFailed, _) => EErr
    | EOk (v, _) =>
      match v with
      | VUnknown => srS_go names K opt r (with_state x (upd_sym (ss x) s v)) cnt
      | _ => if opt && flag (k_sym K) s
             then srS_go names K opt r {| ss := upd_sym (ss x) s v; fz_sym := set_nth (fz_sym x) s true; fz_instr := fz_instr x; fz_data := fz_data x |} (S cnt)
             else srS_go names K opt r (with_state x (upd_sym (ss x) s v)) (S cnt)
      end
    end
  | _ :: r => srS_go names K opt r x cnt
  end.

Lemma simple_roundS_go names K opt ns x : simple_roundS names K opt ns x = srS_go names K opt ns x 0.
Proof.
  unfold simple_roundS. generalize 0%nat. revert x. induction ns as [|n r IH]; intros x c; [reflexivity|].
  destruct n; cbn [srS_go]; try apply IH.
  destruct (flag (fz_sym x) sym); [apply IH|].
  destruct (eval code_ops (pvar_simple names (ss x)) e []) as [[v c0]|]; [|reflexivity].
  destruct v; try reflexivity; try apply IH; destruct (opt && flag (k_sym K) sym); apply IH.
Qed.

Lemma upd_sym_same st s v : nth_error (s_sym st) s = Some v -> upd_sym st s v = st.
Proof. intro H. unfold upd_sym. rewrite (set_nth_same_entry _ _ _ H). apply state_eta. Qed.

Section Pre.
Variable names : list text.
Variable ns : list node.
Variable K : kinfo.
Variable opt : bool.
Hypothesis HKsym : forall i, nth_error (k_sym K) i = Some true -> exists e, In (NConst i e) ns /\ const_known e = true.
Hypothesis Hasm : opt = true -> consts_asm_free ns.
Hypothesis Hnd : opt = true -> NoDup (sids ns).

Definition PInv (x : sstate) : Prop :=
  (forall s, flag (fz_sym x) s = true -> opt = true /\ exists e v c, In (NConst s e) ns /\ const_known e = true /\
      cval e = EOk (v, c) /\ nth_error (s_sym (ss x)) s = Some v /\ should_propagate v = false) /\
  length (fz_sym x) = length (s_sym (ss x)).

Lemma pinv_write x s v : PInv x -> flag (fz_sym x) s = false -> PInv (with_state x (upd_sym (ss x) s v)).
Proof.
  intros [P1 P2] Fs. split; cbn [ss with_state upd_sym fz_sym s_sym].
  - intros s0 F0. destruct (P1 s0 F0) as [Ho (e & v0 & c & H1 & H2 & H3 & H4 & H5)]. split; [exact Ho|].
    exists e, v0, c. repeat split; auto. rewrite nth_error_set_nth_other; [exact H4|]. intro; subst; congruence.
  - rewrite set_nth_length. exact P2.
Qed.

Lemma go_sim : forall l, incl l ns -> forall x cnt, PInv x ->
  match sr_go names l (ss x) cnt with
  | EErr => srS_go names K opt l x cnt = EErr
  | EOk (st', c') => exists x', srS_go names K opt l x cnt = EOk (x', c') /\ ss x' = st' /\ PInv x' /\
                                fz_instr x' = fz_instr x /\ fz_data x' = fz_data x
  end.
Proof.
  induction l as [|n l IH]; intros Hincl x cnt HP.
  - cbn. exists x. auto.
  - assert (Hincl' : incl l ns) by (intros y Hy; apply Hincl; now right).
    assert (Hin : In n ns) by (apply Hincl; now left).
    assert (Skip : forall x1 c1, PInv x1 -> fz_instr x1 = fz_instr x -> fz_data x1 = fz_data x ->
              match sr_go names l (ss x1) c1 with
              | EErr => srS_go names K opt l x1 c1 = EErr
              | EOk (st', c') => exists x', srS_go names K opt l x1 c1 = EOk (x', c') /\ ss x' = st' /\ PInv x' /\
                                            fz_instr x' = fz_instr x /\ fz_data x' = fz_data x
              end).
    { intros x1 c1 HP1 E1 E2. specialize (IH Hincl' x1 c1 HP1).
      destruct (sr_go names l (ss x1) c1) as [[st' c']|]; [|exact IH].
      destruct IH as (x' & H1 & H2 & H3 & H4 & H5). exists x'. split; [exact H1|]. split; [exact H2|]. split; [exact H3|]. split; congruence. }
    destruct n as [s|s e|i src|width elems|k e|k e|k e]; cbn [sr_go srS_go]; try (apply Skip; auto).
    destruct (flag (fz_sym x) s) eqn:Fs.
    + destruct HP as [P1 P2]. destruct (P1 s Fs) as [Ho (e' & v & c & H1 & H2 & H3 & H4 & H5)].
      assert (e' = e) by (eapply const_unique; [exact (Hnd Ho)|exact H1|exact Hin]). subst e'.
      rewrite (closed_known_indep_free (pvar_simple names (ss x)) dummy_var e [] (Hasm Ho s e Hin) H2).
      unfold cval in H3. rewrite H3. rewrite (upd_sym_same _ _ _ H4).
      destruct v; try discriminate; apply Skip; auto; split; assumption.
    + destruct (eval code_ops (pvar_simple names (ss x)) e []) as [[v c]|] eqn:Ev; [|reflexivity].
      assert (Frz : forall (Hv : should_propagate v = false), opt && flag (k_sym K) s = true ->
                PInv {| ss := upd_sym (ss x) s v; fz_sym := set_nth (fz_sym x) s true; fz_instr := fz_instr x; fz_data := fz_data x |}).
      { intros Hv Hc. apply andb_prop in Hc. destruct Hc as [Ho Hk]. destruct HP as [P1 P2]. split; cbn [ss fz_sym upd_sym s_sym].
        - intros s0 F0. split; [exact Ho|]. destruct (Nat.eq_dec s0 s) as [->|Hne].
          + assert (Hks : nth_error (k_sym K) s = Some true).
            { unfold flag in Hk. destruct (nth_error (k_sym K) s) as [b|]; [subst; reflexivity|discriminate]. }
            destruct (HKsym s Hks) as [e' [Hin' Hk']].
            assert (e' = e) by (eapply const_unique; [exact (Hnd Ho)|exact Hin'|exact Hin]). subst e'.
            exists e, v, c. split; [exact Hin|]. split; [exact Hk'|]. split.
            { unfold cval. rewrite <- (closed_known_indep_free (pvar_simple names (ss x)) dummy_var e [] (Hasm Ho s e Hin) Hk'). exact Ev. }
            split; [|exact Hv].
            assert (Hlt : (s < length (s_sym (ss x)))%nat).
            { rewrite <- P2. unfold flag in F0. destruct (nth_error (set_nth (fz_sym x) s true) s) eqn:E; [|discriminate].
              assert (nth_error (set_nth (fz_sym x) s true) s <> None) by congruence.
              apply nth_error_Some in H. rewrite set_nth_length in H. exact H. }
            destruct (nth_error (s_sym (ss x)) s) as [prev|] eqn:Ep; [|apply nth_error_None in Ep; lia].
            exact (nth_error_set_nth_same _ _ _ _ Ep).
          + rewrite flag_set_other in F0 by exact Hne. destruct (P1 s0 F0) as [_ (e0 & v0 & c0 & H1 & H2 & H3 & H4 & H5)].
            exists e0, v0, c0. repeat split; auto. rewrite nth_error_set_nth_other by exact Hne. exact H4.
        - rewrite !set_nth_length. exact P2. }
      assert (Other : forall v0, v = v0 -> should_propagate v0 = false ->
                match sr_go names l (upd_sym (ss x) s v0) (S cnt) with
                | EErr => (if opt && flag (k_sym K) s
                           then srS_go names K opt l {| ss := upd_sym (ss x) s v0; fz_sym := set_nth (fz_sym x) s true; fz_instr := fz_instr x; fz_data := fz_data x |} (S cnt)
                           else srS_go names K opt l (with_state x (upd_sym (ss x) s v0)) (S cnt)) = EErr
                | EOk (st', c') => exists x', (if opt && flag (k_sym K) s
                           then srS_go names K opt l {| ss := upd_sym (ss x) s v0; fz_sym := set_nth (fz_sym x) s true; fz_instr := fz_instr x; fz_data := fz_data x |} (S cnt)
                           else srS_go names K opt l (with_state x (upd_sym (ss x) s v0)) (S cnt)) = EOk (x', c') /\ ss x' = st' /\ PInv x' /\
                                              fz_instr x' = fz_instr x /\ fz_data x' = fz_data x
                end).
      { intros v0 -> Hv0. destruct (opt && flag (k_sym K) s) eqn:C.
        - apply (Skip {| ss := upd_sym (ss x) s v0; fz_sym := set_nth (fz_sym x) s true; fz_instr := fz_instr x; fz_data := fz_data x |} (S cnt));
            [apply Frz; [exact Hv0|reflexivity]|reflexivity|reflexivity].
        - apply (Skip (with_state x (upd_sym (ss x) s v0)) (S cnt)); [apply pinv_write; assumption|reflexivity|reflexivity]. }
      destruct v.
      * apply (Skip (with_state x (upd_sym (ss x) s VUnknown)) cnt); [apply pinv_write; assumption|reflexivity|reflexivity].
      * reflexivity.
      * apply (Other VVoid eq_refl eq_refl).
      * apply (Other (VInt b) eq_refl eq_refl).
      * apply (Other (VStr s0 enc) eq_refl eq_refl).
      * apply (Other (VBool b) eq_refl eq_refl).
      * apply (Other (VBuiltin name) eq_refl eq_refl).
Qed.

Lemma pre_sim : forall fuel x prev, PInv x ->
  match simple_loop fuel names ns (ss x) prev with
  | EErr => simple_loopS fuel names K opt ns x prev = EErr
  | EOk st1 => exists x1, simple_loopS fuel names K opt ns x prev = EOk x1 /\ ss x1 = st1 /\ PInv x1 /\
                          fz_instr x1 = fz_instr x /\ fz_data x1 = fz_data x
  end.
Proof.
  induction fuel as [|f IH]; intros x prev HP; cbn [simple_loop simple_loopS].
  - exists x. auto.
  - rewrite simple_round_go, simple_roundS_go.
    pose proof (go_sim ns (fun y Hy => Hy) x 0%nat HP) as H.
    destruct (sr_go names ns (ss x) 0) as [[st' c']|]; [|rewrite H; reflexivity].
    destruct H as (x' & H1 & H2 & H3 & H4 & H5). rewrite H1. subst st'.
    destruct (Nat.eqb c' prev).
    + exists x'. auto.
    + specialize (IH x' c' H3). destruct (simple_loop f names ns (ss x') c') as [st1|]; [|exact IH].
      destruct IH as (x1 & G1 & G2 & G3 & G4 & G5). exists x1. split; [exact G1|]. split; [exact G2|]. split; [exact G3|]. split; congruence.
Qed.
End Pre.

(* ---------- after a round of the pre-pass every statically known constant holds its value ---------- *)
Section PreGood.
Variable names : list text.

Definition goodL (l : list node) (st : state) : Prop :=
  forall s e, In (NConst s e) l -> const_known e = true ->
    exists v c, cval e = EOk (v, c) /\ nth_error (s_sym st) s = Some v /\ should_propagate v = false.

Lemma sids_app a b : sids (a ++ b) = sids a ++ sids b.
Proof. unfold sids. apply flat_map_app. Qed.

Lemma sr_go_good : forall l2 l1 st cnt st' c',
  sr_go names l2 st cnt = EOk (st', c') -> goodL l1 st -> NoDup (sids (l1 ++ l2)) ->
  (forall s, In s (sids l2) -> (s < length (s_sym st))%nat) -> consts_asm_free l2 ->
  goodL (l1 ++ l2) st' /\ length (s_sym st') = length (s_sym st) /\ s_instr st' = s_instr st /\ s_data st' = s_data st.
Proof.
  induction l2 as [|n r IH]; intros l1 st cnt st' c' H Hg Hnd Hr Hasm.
  - cbn in H. inversion H; subst. rewrite app_nil_r. auto.
  - assert (Step : forall st1 c1, sr_go names r st1 c1 = EOk (st', c') -> goodL (l1 ++ [n]) st1 ->
               length (s_sym st1) = length (s_sym st) -> s_instr st1 = s_instr st -> s_data st1 = s_data st ->
               goodL (l1 ++ n :: r) st' /\ length (s_sym st') = length (s_sym st) /\ s_instr st' = s_instr st /\ s_data st' = s_data st).
    { intros st1 c1 H1 Hg1 HL Hi Hd.
      replace (l1 ++ n :: r) with ((l1 ++ [n]) ++ r) in * by (rewrite <- app_assoc; reflexivity).
      destruct (IH (l1 ++ [n]) st1 c1 st' c' H1 Hg1 Hnd) as (G1 & G2 & G3 & G4).
      - intros s Hs. rewrite HL. apply Hr. unfold sids. cbn [flat_map]. apply in_or_app. now right.
      - intros s e Hin. apply (Hasm s e). now right.
      - repeat split; auto; congruence. }
    assert (Keep : goodL l1 st -> forall st1, s_sym st1 = s_sym st -> (forall s e, n <> NConst s e) -> goodL (l1 ++ [n]) st1).
    { intros Hg0 st1 E Hn s e Hin Hk. apply in_app_or in Hin. destruct Hin as [Hin|[Hin|[]]]; [|exfalso; eapply Hn; eauto].
      rewrite E. exact (Hg0 s e Hin Hk). }
    destruct n as [s|s e|i src|width elems|k e|k e|k e]; cbn [sr_go] in H;
      try (eapply Step; [exact H|apply Keep; [exact Hg|reflexivity|intros; discriminate]|reflexivity|reflexivity|reflexivity]).
    destruct (eval code_ops (pvar_simple names st) e []) as [[v c]|] eqn:Ev; [|discriminate].
    assert (Hlt : (s < length (s_sym st))%nat) by (apply Hr; unfold sids; cbn; now left).
    assert (G : v <> VFailed -> goodL (l1 ++ [NConst s e]) (upd_sym st s v)).
    { intros Hnf s0 e0 Hin Hk. cbn [upd_sym s_sym]. apply in_app_or in Hin. destruct Hin as [Hin|[Hin|[]]].
      - assert (s0 <> s).
        { intro; subst s0. rewrite sids_app in Hnd. eapply NoDup_app_disj; [exact Hnd|exact (in_ids_const l1 s e0 Hin)|].
          unfold sids. cbn. now left. }
        rewrite nth_error_set_nth_other by assumption. exact (Hg s0 e0 Hin Hk).
      - inversion Hin; subst s0 e0.
        assert (Hf : asm_call_free e = true) by (apply (Hasm s e); now left).
        rewrite (closed_known_indep_free (pvar_simple names st) dummy_var e [] Hf Hk) in Ev.
        exists v, c. split; [exact Ev|]. split.
        + destruct (nth_error (s_sym st) s) as [prev|] eqn:Ep; [|apply nth_error_None in Ep; lia].
          exact (nth_error_set_nth_same _ _ _ _ Ep).
        + eapply closed_known_value; [exact Hk|exact Hf|exact Ev]. }
    destruct v; try discriminate;
      (eapply Step; [exact H|apply G; discriminate|cbn [upd_sym s_sym]; apply set_nth_length|reflexivity|reflexivity]).
Qed.

Lemma sr_go_shape : forall l st cnt st' c', sr_go names l st cnt = EOk (st', c') ->
  length (s_sym st') = length (s_sym st) /\ s_instr st' = s_instr st /\ s_data st' = s_data st.
Proof.
  induction l as [|n r IH]; intros st cnt st' c' H; [cbn in H; inversion H; subst; auto|].
  destruct n; cbn [sr_go] in H; try (exact (IH _ _ _ _ H)).
  destruct (eval code_ops (pvar_simple names st) e []) as [[v c]|]; [|discriminate].
  destruct v; try discriminate; (destruct (IH _ _ _ _ H) as (G1 & G2 & G3); cbn [upd_sym s_sym s_instr s_data] in *;
    rewrite set_nth_length in G1; auto).
Qed.
End PreGood.
