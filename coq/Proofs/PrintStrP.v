(* C05 round trip, string literals: the literal printer of Spec/StrCodec (`escape`, proved inverse to the code's
   unescaper in Proofs/StringsP.v) yields a printable string token for every string WITHOUT a double quote -- the
   lexer (model and code: check_for_string stops at the first double quote, escapes are not looked at) cannot hold a
   quote inside a string token, so backslash-quote is the one escape form a literal can never contain. *)
From Coq Require Import NArith List Bool Lia ZifyBool.
From CA Require Import Model.Lexer Model.Parser Model.Literal Spec.EvalWf Spec.StrCodec Spec.Printer Proofs.StringsP
  Proofs.RoundTripMain.
Import ListNotations.
Open Scope N_scope.

Definition str_lit (s : text) : text := 34 :: StrCodec.escape s ++ [34].
Definition noq (c : N) : bool := negb (c =? 34).

Lemma hex_char_noq d : noq (StrCodec.hex_char d) = true.
Proof. unfold noq, StrCodec.hex_char. destruct (N.ltb_spec d 10); lia. Qed.

Lemma escape_char_noq c : noq c = true -> forallb noq (escape_char c) = true.
Proof.
  intro Hc. unfold escape_char.
  destruct (c =? 92); [reflexivity|]. destruct (N.eqb_spec c 34) as [-> | _]; [discriminate Hc|]. destruct (c =? 10); [reflexivity|].
  destruct (c =? 9); [reflexivity|]. destruct (c =? 13); [reflexivity|]. destruct (c =? 0); [reflexivity|].
  destruct ((c <? 32) || (c =? 127)).
  { cbn [forallb]. rewrite !hex_char_noq. reflexivity. }
  destruct (c <? 128).
  { cbn [forallb]. rewrite Hc. reflexivity. }
  change (92 :: 117 :: 123 :: StrCodec.hex_digits c ++ [125]) with ([92; 117; 123] ++ StrCodec.hex_digits c ++ [125]).
  rewrite !forallb_app. unfold StrCodec.hex_digits.
  assert (H : forallb noq (map StrCodec.hex_char (rev (hex_rev 6 c))) = true).
  { induction (rev (hex_rev 6 c)) as [|d l IH]; [reflexivity|]. cbn [map forallb]. rewrite hex_char_noq, IH. reflexivity. }
  rewrite H. reflexivity.
Qed.

Lemma escape_noq s : forallb noq s = true -> forallb noq (StrCodec.escape s) = true.
Proof.
  unfold StrCodec.escape. induction s as [|c s IH]; [reflexivity|]. cbn [forallb flat_map]. intro H.
  apply andb_prop in H. destruct H as [Hc Hs]. rewrite forallb_app, (escape_char_noq c Hc), (IH Hs). reflexivity.
Qed.

Lemma str_ok_intro body : forallb noq body = true -> str_ok (34 :: body ++ [34]) = true.
Proof.
  intro H. unfold str_ok. rewrite (RoundTripLex.span_while_app (fun c => negb (c =? 34)) body [34] H eq_refl). reflexivity.
Qed.

(* the literal of a quote-free string is a printable token and denotes the string *)
Theorem str_lit_printable s : scalar_text s -> forallb noq s = true ->
  printable (EStr (str_lit s)) = true /\ string_contents (str_lit s) = Some s.
Proof.
  intros Hs Hq. split; [apply str_ok_intro, escape_noq, Hq | apply string_contents_escape, Hs].
Qed.

(* hence it round-trips through the parser, alone or inside any printable tree *)
Theorem str_lit_round_trip s : scalar_text s -> forallb noq s = true ->
  exists w, parse_text (print_min (EStr (str_lit s))) = POk (EStr (str_lit s)) w.
Proof.
  intros Hs Hq. destruct (parse_min (EStr (str_lit s)) (proj1 (str_lit_printable s Hs Hq)) ltac:(unfold depth_min, PARSE_DEPTH_MAX; cbn; lia)) as (w & E & _).
  exists w. exact E.
Qed.

(* a quote cannot be written: the escaped form of a double quote is cut by the lexer after the backslash *)
Example quote_not_expressible : str_ok (str_lit [34]) = false /\ decide_next_token (str_lit [34]) = (TString, 3).
Proof. split; vm_compute; reflexivity. Qed.
