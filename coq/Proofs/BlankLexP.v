(* C07, blanks and comments, part 1: instruction lines as segment lists (one plain character, or a gap made of
   blanks / tabs / CRs / simple block comments); the tokenizer on such lines; walkers with exact byte positions.
   Lemmas over Model/Lexer.v and Model/Parser.v.  No axioms. *)
From Coq Require Import NArith ZArith List Bool Lia ZifyBool.
Import ListNotations.
From CA Require Import Model.Lexer Model.Parser Model.Matcher Proofs.MatcherP Proofs.MatcherCaseP Proofs.MatcherKeysP.
Open Scope N_scope.

(* ------------------------------------------------------------------------------------------------ *)
(* lines                                                                                              *)

(* a gap atom: one blank/tab/CR, or a block comment ";*" body "*;" whose body has no ';' (hence un-nested) *)
Inductive atom := AW (c : N) | AC (body : text).
(* a segment: one character that is neither blank/tab/CR nor ';' nor LF nor a double quote, or a non-empty gap *)
Inductive seg := Ch (c : N) | Gap (g : list atom).

Definition ratom (a : atom) : text := match a with AW c => [c] | AC body => 59 :: 42 :: body ++ [42; 59] end.
Definition ratoms (g : list atom) : text := flat_map ratom g.
Definition rseg (s : seg) : text := match s with Ch c => [c] | Gap g => ratoms g end.
Definition render (A : list seg) : text := flat_map rseg A.

Definition gapstart (c : N) : bool := is_whitespace c || (c =? 59).
Definition plain (c : N) : bool := negb (is_whitespace c) && negb (c =? 59) && negb (c =? 10) && negb (c =? 34).
Definition atom_ok (a : atom) : Prop :=
  match a with AW c => is_whitespace c = true | AC body => Forall (fun x => x <> 59) body end.
Definition seg_ok (s : seg) : Prop :=
  match s with Ch c => plain c = true | Gap g => g <> [] /\ Forall atom_ok g end.
(* same line up to the CONTENT of the gaps: same characters, gaps at the same places *)
Definition seg_rel (s s' : seg) : Prop :=
  match s, s' with Ch c, Ch c' => c = c' | Gap _, Gap _ => True | _, _ => False end.

Lemma render_app : forall A B, render (A ++ B) = render A ++ render B.
Proof. intros. unfold render. apply flat_map_app. Qed.
Lemma ratoms_app : forall A B, ratoms (A ++ B) = ratoms A ++ ratoms B.
Proof. intros. unfold ratoms. apply flat_map_app. Qed.

Lemma plain_not_gapstart : forall c, plain c = true -> gapstart c = false.
Proof. intros c. unfold plain, gapstart. destruct (is_whitespace c), (c =? 59); cbn; congruence. Qed.

(* what may follow a run of plain characters: nothing, or the first character of a gap *)
Definition vok (v : text) : Prop := match v with [] => True | x :: _ => gapstart x = true end.

Lemma ratoms_vok : forall g rest, g <> [] -> Forall atom_ok g -> vok (ratoms g ++ rest).
Proof.
  intros [|a g] rest Hn Hf; [congruence|]. inversion Hf; subst. destruct a as [c|body]; cbn.
  - unfold gapstart. cbn in H1. rewrite H1. reflexivity.
  - reflexivity.
Qed.

(* ------------------------------------------------------------------------------------------------ *)
(* bytes                                                                                              *)

Lemma bytes_len_app : forall a b, bytes_len (a ++ b) = bytes_len a + bytes_len b.
Proof. induction a as [|c a IH]; intros b; cbn [app bytes_len]; [reflexivity|]. rewrite IH. lia. Qed.

Lemma bytes_len_zero : forall t, bytes_len t = 0 -> t = [].
Proof. intros [|c r] H; [reflexivity|]. cbn [bytes_len] in H. pose proof (utf8_len_pos c). lia. Qed.

Lemma drop_bytes_cons : forall c n r, drop_bytes (utf8_len c + n) (c :: r) = drop_bytes n r.
Proof.
  intros c n r. cbn [drop_bytes]. pose proof (utf8_len_pos c).
  destruct (utf8_len c + n =? 0) eqn:E; [lia|]. f_equal. lia.
Qed.

Lemma take_bytes_exact : forall a b, take_bytes (bytes_len a) (a ++ b) = a.
Proof.
  induction a as [|c a IH]; intros b; cbn [app bytes_len]; [apply take_bytes_0|].
  rewrite take_bytes_cons, IH. reflexivity.
Qed.
Lemma drop_bytes_exact : forall a b, drop_bytes (bytes_len a) (a ++ b) = b.
Proof.
  induction a as [|c a IH]; intros b; cbn [app bytes_len]; [apply drop_bytes_0|].
  rewrite drop_bytes_cons, IH. reflexivity.
Qed.

(* ------------------------------------------------------------------------------------------------ *)
(* walkers with exact positions: [pre] consumed, [mid] visible, [post] beyond the limit                *)

Definition EW (pre mid post : text) : walker :=
  {| tail := mid ++ post; cur := bytes_len pre; lim := bytes_len pre + bytes_len mid |}.

Lemma EW_visible : forall pre mid post, visible (EW pre mid post) = mid.
Proof.
  intros. unfold visible, EW. cbn [tail cur lim].
  replace (bytes_len pre + bytes_len mid - bytes_len pre) with (bytes_len mid) by lia. apply take_bytes_exact.
Qed.

Lemma EW_over : forall pre mid post, is_over (EW pre mid post) = match mid with [] => true | _ => false end.
Proof.
  intros. unfold is_over, EW. cbn [cur lim]. destruct mid as [|c r]; cbn [bytes_len]; [lia|].
  pose proof (utf8_len_pos c). lia.
Qed.

Lemma EW_token : forall pre mid post, token_here (EW pre mid post) =
  match mid with [] => (TLineBreak, 0) | _ => decide_next_token mid end.
Proof.
  intros. unfold token_here. pose proof (EW_over pre mid post) as H. unfold is_over in H. rewrite H, EW_visible.
  destruct mid; reflexivity.
Qed.

Lemma EW_advance : forall pre a b post, advance (EW pre (a ++ b) post) (bytes_len a) = EW (pre ++ a) b post.
Proof.
  intros. unfold advance, EW. cbn [tail cur lim]. rewrite <- app_assoc, drop_bytes_exact, !bytes_len_app.
  f_equal; lia.
Qed.

Lemma advance_zero : forall w, advance w 0 = w.
Proof. intros [t c l]. unfold advance. cbn [tail cur lim]. rewrite drop_bytes_0, N.add_0_r. reflexivity. Qed.

Lemma EW_advance_char : forall pre c t post m,
  advance (EW pre (c :: t) post) (utf8_len c + m) = advance (EW (pre ++ [c]) t post) m.
Proof.
  intros. unfold advance, EW. cbn [tail cur lim app]. rewrite drop_bytes_cons, bytes_len_app. cbn [bytes_len].
  f_equal; lia.
Qed.

(* ------------------------------------------------------------------------------------------------ *)
(* the tokenizer at a plain character never looks into the following gap                              *)

Lemma span_fst_app : forall (p : N -> bool) v, (forall x, gapstart x = true -> p x = false) -> vok v ->
  forall u, fst (span_while p (u ++ v)) = fst (span_while p u).
Proof.
  intros p v Hp Hv. induction u as [|c u IH]; cbn [app].
  - destruct v as [|x v]; [reflexivity|]. cbn [span_while]. cbn in Hv. rewrite (Hp x Hv). reflexivity.
  - cbn [span_while]. destruct (p c); [|reflexivity].
    destruct (span_while p (u ++ v)) as [n1 r1]. destruct (span_while p u) as [n2 r2]. cbn [fst] in *. lia.
Qed.

Definition tw (p : N -> bool) (t : text) : text := take_bytes (fst (span_while p t)) t.
Lemma tw_cons : forall p c r, tw p (c :: r) = if p c then c :: tw p r else [].
Proof.
  intros. unfold tw. cbn [span_while]. destruct (p c); [|reflexivity].
  destruct (span_while p r) as [n rest]. cbn [fst]. apply take_bytes_cons.
Qed.
Lemma tw_app : forall (p : N -> bool) v, (forall x, gapstart x = true -> p x = false) -> vok v ->
  forall u, tw p (u ++ v) = tw p u.
Proof.
  intros p v Hp Hv. induction u as [|c u IH]; cbn [app].
  - destruct v as [|x v]; [reflexivity|]. rewrite tw_cons. cbn in Hv. rewrite (Hp x Hv). reflexivity.
  - rewrite !tw_cons, IH. reflexivity.
Qed.

Lemma starts_with_app : forall p, Forall (fun x => gapstart x = false) p -> forall v, vok v ->
  forall u, starts_with p (u ++ v) = starts_with p u.
Proof.
  induction p as [|a p IH]; intros Hp v Hv u; [reflexivity|]. inversion Hp; subst.
  destruct u as [|c u]; cbn [app starts_with].
  - destruct v as [|x v]; [reflexivity|]. cbn in Hv. destruct (a =? x) eqn:E; [|reflexivity].
    apply N.eqb_eq in E. congruence.
  - rewrite IH; auto.
Qed.

Lemma check_special_app : forall tbl, Forall (fun pk : text * tkind => Forall (fun x => gapstart x = false) (fst pk)) tbl ->
  forall v, vok v -> forall u, check_special_in tbl (u ++ v) = check_special_in tbl u.
Proof.
  induction tbl as [|[p k] tbl IH]; intros Ht v Hv u; [reflexivity|]. inversion Ht; subst. cbn [check_special_in].
  cbn [fst] in H1. rewrite starts_with_app by assumption. destruct (starts_with p u); [reflexivity | auto].
Qed.

Lemma specials_nongap : Forall (fun pk : text * tkind => Forall (fun x => gapstart x = false) (fst pk)) specials.
Proof.
  assert (H : forallb (fun pk : text * tkind => forallb (fun x => negb (gapstart x)) (fst pk)) specials = true)
    by (vm_compute; reflexivity).
  apply Forall_forall. intros pk Hin. rewrite forallb_forall in H. specialize (H _ Hin).
  apply Forall_forall. intros x Hx. rewrite forallb_forall in H. specialize (H _ Hx).
  destruct (gapstart x); [discriminate | reflexivity].
Qed.

Lemma check_whitespace_nonws : forall c r, is_whitespace c = false -> check_whitespace (c :: r) = None.
Proof. intros c r H. unfold check_whitespace. cbn [span_while]. rewrite H. reflexivity. Qed.

Lemma check_comment_non59 : forall c r, c <> 59 -> check_comment (c :: r) = None.
Proof.
  intros c r H. destruct (check_comment (c :: r)) as [[k n]|] eqn:E; [|reflexivity].
  apply check_comment_some in E. destruct E as [_ [r' E]]. injection E as E _. contradiction.
Qed.

Lemma check_string_head : forall t k n, check_string t = Some (k, n) -> exists r, t = 34 :: r.
Proof.
  intros t k n. unfold check_string. break_matches; intros H; try discriminate; eauto.
Qed.
Lemma check_string_non34 : forall c r, c <> 34 -> check_string (c :: r) = None.
Proof.
  intros c r H. destruct (check_string (c :: r)) as [[k n]|] eqn:E; [|reflexivity].
  apply check_string_head in E. destruct E as [r' E]. injection E as E _. contradiction.
Qed.

Lemma gapstart_not_mid : forall x, gapstart x = true ->
  is_number_mid x = false /\ is_hex_mid x = false /\ is_bin_mid x = false /\ is_ident_mid x = false.
Proof.
  intros x. unfold gapstart, is_number_mid, is_hex_mid, is_bin_mid, is_ident_mid, is_ident_start, is_lower, is_upper,
    is_digit, in_range, is_whitespace. lia.
Qed.

Lemma check_number_fst : forall c r, check_number (c :: r) =
  if is_number_start c then Some (TNumber, fst (span_while is_number_mid (c :: r)))
  else if c =? 36 then match fst (span_while is_hex_mid r) with 0 => None | n => Some (TNumber, 1 + n) end
  else if c =? 37 then match fst (span_while is_bin_mid r) with 0 => None | n => Some (TNumber, 1 + n) end
  else None.
Proof.
  intros. unfold check_number. destruct (is_number_start c).
  - destruct (span_while is_number_mid (c :: r)). reflexivity.
  - destruct (c =? 36); [destruct (span_while is_hex_mid r) as [[|n] ?]; reflexivity|].
    destruct (c =? 37); [destruct (span_while is_bin_mid r) as [[|n] ?]; reflexivity | reflexivity].
Qed.

Lemma check_identifier_fst : forall c r, check_identifier (c :: r) =
  if c =? 36 then Some (TIdentifier, 1)
  else if is_ident_start c then
    let n := fst (span_while is_ident_mid (c :: r)) in
    let id := tw is_ident_mid (c :: r) in
    if text_eqb id kw_asm then Some (TKeywordAsm, n)
    else if text_eqb id kw_true then Some (TKeywordTrue, n)
    else if text_eqb id kw_false then Some (TKeywordFalse, n)
    else Some (TIdentifier, n)
  else None.
Proof.
  intros. unfold check_identifier, tw. destruct (c =? 36); [reflexivity|]. destruct (is_ident_start c); [|reflexivity].
  destruct (span_while is_ident_mid (c :: r)). reflexivity.
Qed.

Lemma decide_app : forall c r v, plain c = true -> vok v ->
  decide_next_token ((c :: r) ++ v) = decide_next_token (c :: r).
Proof.
  intros c r v Hc Hv. cbn [app].
  assert (Hws : is_whitespace c = false /\ c <> 59 /\ c <> 34).
  { unfold plain in Hc. destruct (is_whitespace c); [discriminate|]. split; [reflexivity|]. lia. }
  destruct Hws as [Hws [H59 H34]].
  assert (Hnm : forall x, gapstart x = true -> is_number_mid x = false) by (intros x Hx; apply gapstart_not_mid; exact Hx).
  assert (Hhm : forall x, gapstart x = true -> is_hex_mid x = false) by (intros x Hx; apply gapstart_not_mid; exact Hx).
  assert (Hbm : forall x, gapstart x = true -> is_bin_mid x = false) by (intros x Hx; apply gapstart_not_mid; exact Hx).
  assert (Him : forall x, gapstart x = true -> is_ident_mid x = false) by (intros x Hx; apply gapstart_not_mid; exact Hx).
  assert (E3 : check_number (c :: r ++ v) = check_number (c :: r)).
  { rewrite !check_number_fst. change (c :: r ++ v) with ((c :: r) ++ v).
    rewrite (span_fst_app is_number_mid v Hnm Hv), (span_fst_app is_hex_mid v Hhm Hv), (span_fst_app is_bin_mid v Hbm Hv).
    reflexivity. }
  assert (E4 : check_identifier (c :: r ++ v) = check_identifier (c :: r)).
  { rewrite !check_identifier_fst. change (c :: r ++ v) with ((c :: r) ++ v).
    rewrite (span_fst_app is_ident_mid v Him Hv), (tw_app is_ident_mid v Him Hv). reflexivity. }
  assert (E5 : check_special_in specials (c :: r ++ v) = check_special_in specials (c :: r)).
  { change (c :: r ++ v) with ((c :: r) ++ v). apply check_special_app; [apply specials_nongap | exact Hv]. }
  unfold decide_next_token, orelse. cbv beta.
  rewrite !check_whitespace_nonws, !check_comment_non59, !check_string_non34, E3, E4, E5 by assumption. reflexivity.
Qed.

(* the token at a plain character is not ignorable and covers a whole number of characters *)
Lemma plain_token_not_ignorable : forall c r k n, plain c = true -> decide_next_token (c :: r) = (k, n) ->
  is_ignorable k = false.
Proof.
  intros c r k n Hc E. destruct (is_ignorable k) eqn:Ei; [|reflexivity]. exfalso.
  destruct (decide_ignorable _ _ _ E Ei) as [_ [ch [r' [Ht Hx]]]]. injection Ht as <- _.
  unfold plain in Hc. destruct Hx as [Hx|[Hx|Hx]]; [rewrite Hx in Hc; discriminate | subst; discriminate | subst; discriminate].
Qed.

Lemma span_fst_firstn : forall p t, exists m, (m <= length t)%nat /\ fst (span_while p t) = bytes_len (firstn m t).
Proof.
  intros p. induction t as [|c t [m [Hm IH]]]; [exists O; split; [cbn; lia | reflexivity]|].
  cbn [span_while]. destruct (p c); [|exists O; split; [cbn; lia | reflexivity]].
  destruct (span_while p t) as [n rest]. cbn [fst] in *. exists (S m). split; [cbn [length]; lia|].
  cbn [firstn bytes_len]. lia.
Qed.

Lemma starts_with_firstn : forall p u, starts_with p u = true -> p = firstn (length p) u /\ (length p <= length u)%nat.
Proof.
  induction p as [|a p IH]; intros u H; [split; [reflexivity | cbn; lia]|].
  destruct u as [|c u]; cbn [starts_with] in H; [discriminate|]. apply andb_true_iff in H. destruct H as [H1 H2].
  apply N.eqb_eq in H1. subst c. destruct (IH u H2) as [E L]. cbn [length firstn]. split; [f_equal; exact E | lia].
Qed.

Lemma plain_token_len : forall c r k n, plain c = true -> decide_next_token (c :: r) = (k, n) ->
  exists m, (m <= length (c :: r))%nat /\ n = bytes_len (firstn m (c :: r)).
Proof.
  intros c r k n Hc. unfold decide_next_token, orelse. cbv beta.
  assert (Hws : is_whitespace c = false /\ c <> 59 /\ c <> 34).
  { unfold plain in Hc. destruct (is_whitespace c); [discriminate|]. split; [reflexivity|]. lia. }
  destruct Hws as [Hws [H59 H34]].
  rewrite check_whitespace_nonws, check_comment_non59, check_string_non34 by assumption.
  rewrite check_number_fst, check_identifier_fst.
  destruct (is_number_start c).
  { intros E. injection E as _ <-. exact (span_fst_firstn is_number_mid (c :: r)). }
  assert (Hone : exists m, (m <= length (c :: r))%nat /\ utf8_len c = bytes_len (firstn m (c :: r))).
  { exists 1%nat. split; [cbn [length]; lia|]. cbn [firstn bytes_len]. lia. }
  assert (Hsuc : forall p, exists m, (m <= length (c :: r))%nat /\
                                     utf8_len c + fst (span_while p r) = bytes_len (firstn m (c :: r))).
  { intros p. destruct (span_fst_firstn p r) as [m [Hm E]]. exists (S m). split; [cbn [length]; lia|].
    cbn [firstn bytes_len]. lia. }
  destruct (c =? 36) eqn:E36.
  { apply N.eqb_eq in E36. subst c. destruct (fst (span_while is_hex_mid r)) eqn:Eh.
    - intros E. injection E as _ <-. exact Hone.
    - intros E. assert (Hn : 1 + N.pos p = n) by (injection E as _ Hx; exact Hx). rewrite <- Hn, <- Eh.
      exact (Hsuc is_hex_mid). }
  destruct (c =? 37) eqn:E37.
  { apply N.eqb_eq in E37. subst c. destruct (fst (span_while is_bin_mid r)) eqn:Eh.
    - cbn [is_ident_start]. replace (is_ident_start 37) with false by reflexivity.
      destruct (check_special_in specials (37 :: r)) as [[k5 n5]|] eqn:E5.
      + intros E. injection E as _ <-. destruct (check_special_in_some _ _ _ _ E5) as [p [_ [Hs ->]]].
        destruct (starts_with_firstn _ _ Hs) as [Ep Lp]. exists (length p). split; [exact Lp|]. rewrite <- Ep. reflexivity.
      + intros E. injection E as _ <-. exact Hone.
    - intros E. assert (Hn : 1 + N.pos p = n) by (injection E as _ Hx; exact Hx). rewrite <- Hn, <- Eh.
      exact (Hsuc is_bin_mid). }
  destruct (is_ident_start c).
  { cbv zeta. destruct (text_eqb _ kw_asm); [intros E; injection E as _ <-; exact (span_fst_firstn is_ident_mid (c :: r))|].
    destruct (text_eqb _ kw_true); [intros E; injection E as _ <-; exact (span_fst_firstn is_ident_mid (c :: r))|].
    destruct (text_eqb _ kw_false); intros E; injection E as _ <-; exact (span_fst_firstn is_ident_mid (c :: r)). }
  destruct (check_special_in specials (c :: r)) as [[k5 n5]|] eqn:E5.
  - intros E. injection E as _ <-. destruct (check_special_in_some _ _ _ _ E5) as [p [_ [Hs ->]]].
    destruct (starts_with_firstn _ _ Hs) as [Ep Lp]. exists (length p). split; [exact Lp|]. rewrite <- Ep. reflexivity.
  - intros E. injection E as _ <-. exact Hone.
Qed.

(* ------------------------------------------------------------------------------------------------ *)
(* the tokenizer inside a gap                                                                         *)

Lemma block_comment_unfold : forall c r n, block_comment (c :: r) n =
  if starts_with [59; 42] (c :: r) then match r with _ :: r2 => 2 + block_comment r2 (S n) | [] => 1 end
  else if starts_with [42; 59] (c :: r) then
    match n with O => 2 | S n' => match r with _ :: r2 => 2 + block_comment r2 n' | [] => 1 end end
  else utf8_len c + block_comment r n.
Proof. reflexivity. Qed.

Lemma block_comment_simple : forall body rest, Forall (fun x => x <> 59) body ->
  block_comment (body ++ 42 :: 59 :: rest) 0 = bytes_len body + 2.
Proof.
  induction body as [|c body IH]; intros rest H.
  - reflexivity.
  - inversion H; subst. cbn [app]. rewrite block_comment_unfold.
    assert (E1 : starts_with [59; 42] (c :: body ++ 42 :: 59 :: rest) = false).
    { cbn [starts_with]. destruct (59 =? c) eqn:E; [apply N.eqb_eq in E; congruence | reflexivity]. }
    assert (E2 : starts_with [42; 59] (c :: body ++ 42 :: 59 :: rest) = false).
    { cbn [starts_with]. destruct (42 =? c); [|reflexivity]. cbn [andb].
      destruct body as [|d body]; cbn [app]; [reflexivity|].
      inversion H3; subst. destruct (59 =? d) eqn:E; [apply N.eqb_eq in E; congruence | reflexivity]. }
    rewrite E1, E2, IH by assumption. cbn [bytes_len]. lia.
Qed.

Lemma decide_comment : forall r2, decide_next_token (59 :: 42 :: r2) = (TComment, 2 + block_comment r2 0).
Proof. intros. unfold decide_next_token, orelse. rewrite check_whitespace_nonws by reflexivity. reflexivity. Qed.

Lemma decide_ws : forall c t, is_whitespace c = true ->
  decide_next_token (c :: t) = (TWhitespace, utf8_len c + fst (span_while is_whitespace t)).
Proof.
  intros c t H. unfold decide_next_token, orelse, check_whitespace. cbn [span_while]. rewrite H.
  destruct (span_while is_whitespace t) as [m rest]. cbn [fst].
  pose proof (utf8_len_pos c). destruct (utf8_len c + m) eqn:E; [lia | reflexivity].
Qed.

Lemma span_ws_pos : forall t, fst (span_while is_whitespace t) <> 0 ->
  exists c r, t = c :: r /\ is_whitespace c = true.
Proof.
  intros [|c r] H; [cbn in H; congruence|]. cbn [span_while] in H. destruct (is_whitespace c) eqn:E; [eauto | cbn in H; congruence].
Qed.

(* a function of the walker that does not change when one blank/comment token at the cursor is consumed *)
Definition gap_step {X} (F : walker -> X) : Prop :=
  forall w k n, is_over w = false -> token_here w = (k, n) -> (k = TWhitespace \/ k = TComment) -> F w = F (advance w n).

Lemma bytes_ratom_comment : forall body, bytes_len (ratom (AC body)) = 2 + (bytes_len body + 2).
Proof. intros. cbn [ratom bytes_len]. rewrite bytes_len_app. cbn [bytes_len]. change (utf8_len 59) with 1. change (utf8_len 42) with 1. lia. Qed.

Lemma F_atoms {X} (F : walker -> X) : gap_step F -> forall g pre v post, Forall atom_ok g ->
  F (EW pre (ratoms g ++ v) post) = F (EW (pre ++ ratoms g) v post).
Proof.
  intros HF. induction g as [|a g IH]; intros pre v post Hg.
  - cbn [ratoms flat_map app]. rewrite app_nil_r. reflexivity.
  - inversion Hg; subst. cbn [ratoms flat_map]. fold (ratoms g). rewrite <- !app_assoc.
    assert (Hstep : F (EW pre (ratom a ++ ratoms g ++ v) post) = F (EW (pre ++ ratom a) (ratoms g ++ v) post)).
    { destruct a as [c|body]; cbn [atom_ok] in H1.
      - cbn [ratom app]. set (t := ratoms g ++ v).
        pose proof (decide_ws c t H1) as Ed. set (m := fst (span_while is_whitespace t)) in *.
        rewrite (HF (EW pre (c :: t) post) TWhitespace (utf8_len c + m)); [| rewrite EW_over; reflexivity | rewrite EW_token; exact Ed | left; reflexivity].
        rewrite EW_advance_char. destruct (N.eq_dec m 0) as [E0|E0]; [rewrite E0, advance_zero; reflexivity|].
        destruct (span_ws_pos t E0) as [d [r [Et Hd]]]. symmetry.
        apply (HF (EW (pre ++ [c]) t post) TWhitespace m); [rewrite EW_over, Et; reflexivity | | left; reflexivity].
        rewrite EW_token, Et. rewrite (decide_ws d r Hd). f_equal. unfold m. rewrite Et. cbn [span_while]. rewrite Hd.
        destruct (span_while is_whitespace r). reflexivity.
      - set (t := ratoms g ++ v).
        assert (Et : ratom (AC body) ++ t = 59 :: 42 :: body ++ 42 :: 59 :: t).
        { cbn [ratom app]. rewrite <- app_assoc. reflexivity. }
        rewrite (HF (EW pre (ratom (AC body) ++ t) post) TComment (bytes_len (ratom (AC body)))).
        + rewrite EW_advance. reflexivity.
        + rewrite EW_over, Et. reflexivity.
        + rewrite EW_token, Et. rewrite decide_comment, block_comment_simple by assumption.
          rewrite bytes_ratom_comment. reflexivity.
        + right. reflexivity. }
    rewrite Hstep, IH by assumption. rewrite <- app_assoc. reflexivity.
Qed.

(* ---- the two functions we need it for ---- *)
Lemma nui_gap_step : gap_step next_useful_index.
Proof.
  intros w k n Ho Et Hk. rewrite <- (next_useful_index_absorbs 1 w). cbn [skip_ignorable]. rewrite Ho, Et.
  destruct Hk as [-> | ->]; reflexivity.
Qed.

Lemma nl_fuel : forall f g w, (length (tail w) < f)%nat -> (length (tail w) < g)%nat ->
  next_linebreak f w = next_linebreak g w.
Proof.
  induction f as [|f IH]; intros g w Hf Hg; [lia|]. destruct g as [|g]; [lia|]. cbn [next_linebreak].
  destruct (token_here w) as [k n] eqn:Et. destruct (tkind_eqb k TLineBreak) eqn:Elb; [reflexivity|].
  destruct (is_ignorable k) eqn:Ei; [|reflexivity].
  assert (Ho : is_over w = false).
  { destruct (is_over w) eqn:Ho; [|reflexivity]. unfold token_here in Et. unfold is_over in Ho. rewrite Ho in Et.
    injection Et as <- _. discriminate. }
  pose proof (advance_ignorable_shorter _ _ _ Ho Et Ei). apply IH; lia.
Qed.

Definition nlc (w : walker) : option walker := next_linebreak (fuel_of w) w.
Lemma nlc_gap_step : gap_step nlc.
Proof.
  intros w k n Ho Et Hk. unfold nlc at 1. unfold fuel_of. cbn [next_linebreak]. rewrite Et.
  assert (Ei : is_ignorable k = true) by (destruct Hk as [-> | ->]; reflexivity).
  assert (Elb : tkind_eqb k TLineBreak = false) by (destruct Hk as [-> | ->]; reflexivity).
  rewrite Elb, Ei. pose proof (advance_ignorable_shorter _ _ _ Ho Et Ei). apply nl_fuel; unfold fuel_of; lia.
Qed.

Lemma next_useful_skip : forall f w, next_useful f w = (skip_ignorable f w, token_here (skip_ignorable f w)).
Proof.
  induction f as [|f IH]; intros w; cbn [next_useful skip_ignorable]; [reflexivity|].
  unfold is_over. destruct (token_here w) as [k n] eqn:Et. destruct (lim w <=? cur w); [rewrite Et; reflexivity|].
  destruct (is_ignorable k); [apply IH | rewrite Et; reflexivity].
Qed.
