(* Proofs about Model/AsmParser.v (the line/directive parser of assembly text).
   C13_spans_valid : every span recorded in the AST (any nesting depth, asm blocks inside expressions included) is
                     start <= end <= |file| with both offsets on character boundaries.
   No axioms. *)
From Coq Require Import NArith ZArith List Bool Lia ZifyBool.
Import ListNotations.
From CA Require Import Model.Lexer Model.Parser Model.Literal Model.Matcher Model.AsmAst Model.AsmParser.
Open Scope N_scope.
Local Arguments N.add : simpl never.
Local Arguments N.sub : simpl never.
Local Arguments N.mul : simpl never.
Local Arguments N.eqb : simpl never.
Local Arguments N.leb : simpl never.
Local Arguments N.ltb : simpl never.

(* ================================================================================================ *)
(* A. bytes, prefixes, and the token-length lemma                                                    *)

Lemma ulen_pos c : utf8_len c <> 0.
Proof. unfold utf8_len. repeat match goal with |- context [if ?b then _ else _] => destruct b end; lia. Qed.

Lemma blen_app a b : bytes_len (a ++ b) = bytes_len a + bytes_len b.
Proof. induction a as [|x a IH]; cbn [bytes_len app]; [reflexivity|]. rewrite IH. lia. Qed.

Lemma blen_zero a : bytes_len a = 0 -> a = [].
Proof. destruct a as [|x a]; [reflexivity|]. cbn [bytes_len]. pose proof (ulen_pos x). lia. Qed.

Lemma take_blen_app p r : take_bytes (bytes_len p) (p ++ r) = p.
Proof.
  induction p as [|x p IH]; cbn [bytes_len app].
  - destruct r as [|y r]; cbn [take_bytes]; reflexivity.
  - cbn [take_bytes]. pose proof (ulen_pos x).
    destruct (utf8_len x + bytes_len p =? 0) eqn:E; [lia|].
    replace (utf8_len x + bytes_len p - utf8_len x) with (bytes_len p) by lia. rewrite IH. reflexivity.
Qed.

Lemma drop_blen_app p r : drop_bytes (bytes_len p) (p ++ r) = r.
Proof.
  induction p as [|x p IH]; cbn [bytes_len app].
  - destruct r as [|y r]; cbn [drop_bytes]; reflexivity.
  - cbn [drop_bytes]. pose proof (ulen_pos x).
    destruct (utf8_len x + bytes_len p =? 0) eqn:E; [lia|].
    replace (utf8_len x + bytes_len p - utf8_len x) with (bytes_len p) by lia. exact IH.
Qed.

(* n is the byte length of a non-empty prefix of t *)
Definition is_tok (t : text) (n : N) : Prop := exists p s, t = p ++ s /\ n = bytes_len p /\ p <> [].

Lemma span_while_prefix f : forall t n rest, span_while f t = (n, rest) -> exists pre, t = pre ++ rest /\ n = bytes_len pre.
Proof.
  induction t as [|c r IH]; cbn [span_while]; intros n rest H.
  - injection H as <- <-. exists []. split; reflexivity.
  - destruct (f c).
    + destruct (span_while f r) as [m rest'] eqn:E. injection H as <- <-.
      destruct (IH _ _ eq_refl) as (pre & -> & ->). exists (c :: pre). split; reflexivity.
    + injection H as <- <-. exists []. split; reflexivity.
Qed.

Lemma starts_with_prefix : forall p t, starts_with p t = true -> exists s, t = p ++ s.
Proof.
  induction p as [|a p IH]; intros t H; [exists t; reflexivity|].
  destruct t as [|b t]; cbn [starts_with] in H; [discriminate|].
  apply andb_true_iff in H. destruct H as [H1 H2]. apply N.eqb_eq in H1. subst b.
  destruct (IH _ H2) as (s & ->). exists s. reflexivity.
Qed.

(* the body of a block comment consumes a prefix *)
Lemma block_comment_prefix : forall k t nesting, (length t <= k)%nat -> exists p s, t = p ++ s /\ block_comment t nesting = bytes_len p.
Proof.
  induction k as [|k IH]; intros t nesting Hk.
  - destruct t; [|cbn [length] in Hk; lia]. exists [], []. split; reflexivity.
  - destruct t as [|c r]; [exists [], []; split; reflexivity|].
    cbn [block_comment].
    destruct (starts_with [59; 42] (c :: r)) eqn:E1.
    + apply starts_with_prefix in E1. destruct E1 as (s & E1). cbn [app] in E1. injection E1 as -> ->.
      cbn [length] in Hk. destruct (IH s (S nesting) ltac:(lia)) as (p & s' & -> & ->).
      exists (59 :: 42 :: p), s'. split; [reflexivity|]. cbn [bytes_len]. change (utf8_len 59) with 1. change (utf8_len 42) with 1. lia.
    + destruct (starts_with [42; 59] (c :: r)) eqn:E2.
      * apply starts_with_prefix in E2. destruct E2 as (s & E2). cbn [app] in E2. injection E2 as -> ->.
        destruct nesting as [|n].
        -- exists [42; 59], s. split; reflexivity.
        -- cbn [length] in Hk. destruct (IH s n ltac:(lia)) as (p & s' & -> & ->).
           exists (42 :: 59 :: p), s'. split; [reflexivity|]. cbn [bytes_len]. change (utf8_len 59) with 1. change (utf8_len 42) with 1. lia.
      * cbn [length] in Hk. destruct (IH r nesting ltac:(lia)) as (p & s' & -> & ->).
        exists (c :: p), s'. split; reflexivity.
Qed.

Lemma is_tok_intro t p s n : t = p ++ s -> n = bytes_len p -> n <> 0 -> is_tok t n.
Proof. intros -> -> H. exists p, s. repeat split. intros ->. apply H. reflexivity. Qed.

Lemma check_whitespace_tok t k n : check_whitespace t = Some (k, n) -> is_tok t n.
Proof.
  unfold check_whitespace. destruct (span_while is_whitespace t) as [m rest] eqn:E.
  destruct m as [|m]; [discriminate|]. intros H. injection H as _ <-.
  apply span_while_prefix in E. destruct E as (pre & -> & E). eapply is_tok_intro; [reflexivity|exact E|discriminate].
Qed.

Ltac lit_neq c :=
  destruct c as [|c]; [reflexivity|]; repeat (destruct c as [c|c|]; try reflexivity); congruence.

Definition line_comment (r : text) : option (tkind * N) :=
  let '(n0, _) := span_while (fun c => negb (c =? 10)) r in Some (TComment, 1 + n0).
Lemma cc_none c r : c <> 59 -> check_comment (c :: r) = None.
Proof. intros H. unfold check_comment. lit_neq c. Qed.
Lemma cc_block r : check_comment (59 :: 42 :: r) = Some (TComment, 2 + block_comment r 0).
Proof. reflexivity. Qed.
Lemma cc_line1 : check_comment [59] = line_comment [].
Proof. reflexivity. Qed.
Lemma cc_line d r : d <> 42 -> check_comment (59 :: d :: r) = line_comment (d :: r).
Proof. intros H. unfold check_comment, line_comment. lit_neq d. Qed.

Lemma check_comment_tok t k n : check_comment t = Some (k, n) -> is_tok t n.
Proof.
  destruct t as [|c r]; [discriminate|].
  destruct (N.eq_dec c 59) as [->|Ec]; [|rewrite cc_none by exact Ec; discriminate].
  assert (Hline : forall r0, line_comment r0 = Some (k, n) -> is_tok (59 :: r0) n).
  { intros r0. unfold line_comment. destruct (span_while (fun c => negb (c =? 10)) r0) as [m rest] eqn:E. intros H0. injection H0 as _ <-.
    apply span_while_prefix in E. destruct E as (pre & -> & ->).
    exists (59 :: pre), rest. split; [reflexivity|]. split; [cbn [bytes_len]; reflexivity | discriminate]. }
  destruct r as [|d r2]; [rewrite cc_line1; apply Hline|].
  destruct (N.eq_dec d 42) as [->|Ed]; [|rewrite cc_line by exact Ed; apply Hline].
  rewrite cc_block. intros H. injection H as _ <-.
  destruct (block_comment_prefix (length r2) r2 0 (le_n _)) as (p & s & -> & ->).
  exists (59 :: 42 :: p), s. split; [reflexivity|]. split; [cbn [bytes_len]; change (utf8_len 59) with 1; change (utf8_len 42) with 1; lia | discriminate].
Qed.

Lemma check_number_tok t k n : check_number t = Some (k, n) -> is_tok t n.
Proof.
  unfold check_number. destruct t as [|c r]; [discriminate|].
  destruct (is_number_start c) eqn:E1.
  - destruct (span_while is_number_mid (c :: r)) as [m rest] eqn:E. intros H. injection H as _ <-.
    pose proof E as E'. apply span_while_prefix in E'. destruct E' as (pre & Hp & ->).
    eapply is_tok_intro; [exact Hp|reflexivity|].
    cbn [span_while] in E.
    assert (is_number_mid c = true) as Hm.
    { unfold is_number_start in E1. unfold is_number_mid, is_ident_mid. rewrite E1. apply orb_true_r. }
    rewrite Hm in E. destruct (span_while is_number_mid r) as [m' rest'']. injection E as E _. pose proof (ulen_pos c). lia.
  - destruct (c =? 36) eqn:E2.
    + apply N.eqb_eq in E2. subst c. destruct (span_while is_hex_mid r) as [m rest] eqn:E.
      destruct m as [|m]; [discriminate|]. intros H. injection H as _ <-.
      apply span_while_prefix in E. destruct E as (pre & -> & E).
      exists (36 :: pre), rest. split; [reflexivity|]. split; [cbn [bytes_len]; rewrite <- E; reflexivity | discriminate].
    + destruct (c =? 37) eqn:E3; [|discriminate].
      apply N.eqb_eq in E3. subst c. destruct (span_while is_bin_mid r) as [m rest] eqn:E.
      destruct m as [|m]; [discriminate|]. intros H. injection H as _ <-.
      apply span_while_prefix in E. destruct E as (pre & -> & E).
      exists (37 :: pre), rest. split; [reflexivity|]. split; [cbn [bytes_len]; rewrite <- E; reflexivity | discriminate].
Qed.

Lemma check_identifier_tok t k n : check_identifier t = Some (k, n) -> is_tok t n.
Proof.
  unfold check_identifier. destruct t as [|c r]; [discriminate|].
  destruct (c =? 36) eqn:E2.
  - apply N.eqb_eq in E2. subst c. intros H. injection H as _ <-.
    exists [36], r. split; [reflexivity|]. split; [reflexivity | discriminate].
  - destruct (is_ident_start c) eqn:E1; [|discriminate].
    destruct (span_while is_ident_mid (c :: r)) as [m rest] eqn:E.
    assert (is_tok (c :: r) m) as Ht.
    { pose proof E as E'. apply span_while_prefix in E'. destruct E' as (pre & Hp & ->).
      eapply is_tok_intro; [exact Hp|reflexivity|].
      cbn [span_while] in E. assert (is_ident_mid c = true) as Hm by (unfold is_ident_mid; rewrite E1; reflexivity).
      rewrite Hm in E. destruct (span_while is_ident_mid r) as [m' rest'']. injection E as E _. pose proof (ulen_pos c). lia. }
    intros H.
    repeat match type of H with (if ?b then _ else _) = _ => destruct b end; injection H as _ <-; exact Ht.
Qed.

Lemma check_special_tok : forall tbl t k n, Forall (fun pk => fst pk <> []) tbl -> check_special_in tbl t = Some (k, n) -> is_tok t n.
Proof.
  induction tbl as [|[p k0] tbl IH]; intros t k n Hall; cbn [check_special_in]; [discriminate|].
  inversion Hall as [|? ? Hp Hrest]; subst. cbn [fst] in Hp.
  destruct (starts_with p t) eqn:E.
  - intros H. injection H as _ <-. apply starts_with_prefix in E. destruct E as (s & ->).
    exists p, s. repeat split. exact Hp.
  - apply IH. exact Hrest.
Qed.

Lemma specials_nonempty : Forall (fun pk : text * tkind => fst pk <> []) specials.
Proof. unfold specials. repeat constructor; discriminate. Qed.

Definition string_body (r : text) : option (tkind * N) :=
  let '(n, rest) := span_while (fun c => negb (c =? 34)) r in
  match rest with d :: _ => if d =? 34 then Some (TString, 2 + n) else None | [] => None end.
Lemma cs_none c r : c <> 34 -> check_string (c :: r) = None.
Proof. intros H. unfold check_string. lit_neq c. Qed.
Lemma cs_body r : check_string (34 :: r) = string_body r.
Proof.
  unfold check_string, string_body. destruct (span_while (fun c => negb (c =? 34)) r) as [m rest].
  destruct rest as [|d rest]; [reflexivity|].
  destruct (N.eqb_spec d 34) as [->|Hd]; [reflexivity|]. lit_neq d.
Qed.

Lemma check_string_tok t k n : check_string t = Some (k, n) -> is_tok t n.
Proof.
  destruct t as [|c r]; [discriminate|].
  destruct (N.eq_dec c 34) as [->|Ec]; [|rewrite cs_none by exact Ec; discriminate].
  rewrite cs_body. unfold string_body.
  destruct (span_while (fun c => negb (c =? 34)) r) as [m rest] eqn:E.
  apply span_while_prefix in E. destruct E as (pre & -> & ->).
  destruct rest as [|d rest]; [discriminate|].
  destruct (N.eqb_spec d 34) as [->|Hd]; [|discriminate].
  intros H. injection H as _ <-.
  exists (34 :: pre ++ [34]), rest. split; [|split].
  - cbn [app]. rewrite <- app_assoc. reflexivity.
  - cbn [bytes_len]. rewrite blen_app. cbn [bytes_len]. change (utf8_len 34) with 1. lia.
  - discriminate.
Qed.

(* the token-length lemma: on a non-empty text the decided token is a non-empty prefix *)
Theorem decide_next_token_prefix : forall t k n, t <> [] -> decide_next_token t = (k, n) -> is_tok t n.
Proof.
  intros t k n Hne. unfold decide_next_token, orelse.
  destruct (check_whitespace t) as [[k1 n1]|] eqn:E1.
  { intros H. injection H as <- <-. eapply check_whitespace_tok; eassumption. }
  destruct (check_comment t) as [[k2 n2]|] eqn:E2.
  { intros H. injection H as <- <-. eapply check_comment_tok; eassumption. }
  destruct (check_number t) as [[k3 n3]|] eqn:E3.
  { intros H. injection H as <- <-. eapply check_number_tok; eassumption. }
  destruct (check_identifier t) as [[k4 n4]|] eqn:E4.
  { intros H. injection H as <- <-. eapply check_identifier_tok; eassumption. }
  destruct (check_special_in specials t) as [[k5 n5]|] eqn:E5.
  { intros H. injection H as <- <-. eapply check_special_tok; [apply specials_nonempty|eassumption]. }
  destruct (check_string t) as [[k6 n6]|] eqn:E6.
  { intros H. injection H as <- <-. eapply check_string_tok; eassumption. }
  destruct t as [|c r]; [congruence|].
  intros H. injection H as _ <-. exists [c], r. repeat split; [cbn [bytes_len]; lia | discriminate].
Qed.

(* ================================================================================================ *)
(* B. exact walkers inside a file text, boundaries, spans                                            *)

Definition on_boundary (t : text) (i : N) : Prop := exists pre suf, t = pre ++ suf /\ bytes_len pre = i.

Definition vspan (t : text) (sp : span) : Prop :=
  fst sp <= snd sp /\ snd sp <= bytes_len t /\ on_boundary t (fst sp) /\ on_boundary t (snd sp).
Definition vospan (t : text) (o : ospan) : Prop := match o with Some sp => vspan t sp | None => True end.

Lemma boundary_le t i : on_boundary t i -> i <= bytes_len t.
Proof. intros (pre & suf & -> & <-). rewrite blen_app. lia. Qed.

Lemma vspan_intro t s e : on_boundary t s -> on_boundary t e -> s <= e -> vspan t (s, e).
Proof. intros Hs He Hle. unfold vspan. cbn [fst snd]. repeat split; auto. apply boundary_le. exact He. Qed.

Lemma vspan_join_s t a b : vspan t a -> vspan t b -> vspan t (join_s a b).
Proof.
  intros (A1 & A2 & A3 & A4) (B1 & B2 & B3 & B4). unfold join_s. apply vspan_intro.
  - destruct (N.min_spec (fst a) (fst b)) as [[_ ->]|[_ ->]]; assumption.
  - destruct (N.max_spec (snd a) (snd b)) as [[_ ->]|[_ ->]]; assumption.
  - lia.
Qed.

Lemma vospan_join t a b : vospan t a -> vospan t b -> vospan t (join a b).
Proof.
  destruct a as [[s1 e1]|], b as [[s2 e2]|]; cbn [vospan join]; intros A B; auto.
  apply (vspan_join_s t (s1, e1) (s2, e2)); assumption.
Qed.

(* the walker is an exact window of the file text t *)
Definition wf (t : text) (w : walker) : Prop :=
  exists pre post, t = pre ++ tail w ++ post /\ cur w = bytes_len pre /\ lim w = cur w + bytes_len (tail w).

(* w' is w after consuming `mid` *)
Definition ext (w w' : walker) : Prop :=
  exists mid, tail w = mid ++ tail w' /\ cur w' = cur w + bytes_len mid /\ lim w' = lim w.

Lemma ext_refl w : ext w w.
Proof. exists []. cbn [app bytes_len]. repeat split. lia. Qed.

Lemma ext_trans a b c : ext a b -> ext b c -> ext a c.
Proof.
  intros (m1 & T1 & C1 & L1) (m2 & T2 & C2 & L2). exists (m1 ++ m2). rewrite blen_app.
  repeat split; [rewrite T1, T2, app_assoc; reflexivity | lia | congruence].
Qed.

Lemma wf_ext t w w' : wf t w -> ext w w' -> wf t w'.
Proof.
  intros (pre & post & Ht & Hc & Hl) (mid & T & C & L). exists (pre ++ mid), post.
  rewrite blen_app. repeat split.
  - rewrite Ht, T, <- !app_assoc. reflexivity.
  - lia.
  - rewrite L, Hl, T, blen_app. lia.
Qed.

Lemma ext_cur_le w w' : ext w w' -> cur w <= cur w'.
Proof. intros (mid & _ & C & _). lia. Qed.

Lemma wf_boundary t w : wf t w -> on_boundary t (cur w).
Proof. intros (pre & post & Ht & Hc & _). exists pre, (tail w ++ post). split; [exact Ht | symmetry; exact Hc]. Qed.

Lemma wf_boundary_in t w p s : wf t w -> tail w = p ++ s -> on_boundary t (cur w + bytes_len p).
Proof.
  intros (pre & post & Ht & Hc & _) Hp. exists (pre ++ p), (s ++ post). split.
  - rewrite Ht, Hp, <- !app_assoc. reflexivity.
  - rewrite blen_app. lia.
Qed.

Lemma mk_ext w t' c' mid : tail w = mid ++ t' -> c' = cur w + bytes_len mid -> ext w {| tail := t'; cur := c'; lim := lim w |}.
Proof. intros T C. exists mid. cbn [tail cur lim]. auto. Qed.

Lemma advance_ext w p s : tail w = p ++ s -> ext w (advance w (bytes_len p)).
Proof.
  intros T. exists p. unfold advance. cbn [tail cur lim]. rewrite T, drop_blen_app. auto.
Qed.

Lemma wf_start t : wf t (start_walker t).
Proof. exists [], []. unfold start_walker. cbn [tail cur lim app bytes_len]. rewrite app_nil_r. repeat split; lia. Qed.

(* ================================================================================================ *)
(* C. the walker primitives                                                                          *)

Lemma tok_split t k n : t <> [] -> decide_next_token t = (k, n) ->
  exists ch p s, t = ch :: p ++ s /\ n = utf8_len ch + bytes_len p.
Proof.
  intros Hne H. destruct (decide_next_token_prefix _ _ _ Hne H) as (p & s & -> & -> & Hp).
  destruct p as [|ch p]; [congruence|]. exists ch, p, s. split; reflexivity.
Qed.

(* a skip counter is the byte length of a prefix still to pass *)
Definition skip_ok (t : text) (skip : N) : Prop := exists q s, t = q ++ s /\ skip = bytes_len q.

Lemma skip_ok_0 t : skip_ok t 0.
Proof. exists [], t. split; reflexivity. Qed.

Lemma skip_ok_step ch r skip : skip_ok (ch :: r) skip -> (skip =? 0) = false -> skip_ok r (skip - utf8_len ch).
Proof.
  intros (q & s & Hq & ->) Hz. destruct q as [|c q]; [cbn [bytes_len] in Hz; discriminate|].
  cbn [app] in Hq. injection Hq as -> ->. exists q, s. split; [reflexivity|]. cbn [bytes_len]. lia.
Qed.

Lemma skip_ok_tok ch r k n : decide_next_token (ch :: r) = (k, n) -> skip_ok r (n - utf8_len ch).
Proof.
  intros H. destruct (tok_split (ch :: r) k n ltac:(discriminate) H) as (c & p & s & E & ->).
  injection E as <- ->. exists p, s. split; [reflexivity|]. lia.
Qed.

Lemma skip_ign_ext : forall t c skip t' c', skip_ok t skip -> skip_ign t c skip = (t', c') ->
  exists mid, t = mid ++ t' /\ c' = c + bytes_len mid.
Proof.
  induction t as [|ch r IH]; intros c skip t' c' Hs; cbn [skip_ign].
  - intros H. injection H as <- <-. exists []. split; [reflexivity | cbn [bytes_len]; lia].
  - destruct (skip =? 0) eqn:Ez.
    + destruct (decide_next_token (ch :: r)) as [k n] eqn:Et.
      destruct (is_ignorable k).
      * intros H. apply IH in H; [|eapply skip_ok_tok; eassumption].
        destruct H as (mid & -> & ->). exists (ch :: mid). split; [reflexivity | cbn [bytes_len]; lia].
      * intros H. injection H as <- <-. exists []. split; [reflexivity | cbn [bytes_len]; lia].
    + intros H. apply IH in H; [|eapply skip_ok_step; eassumption].
      destruct H as (mid & -> & ->). exists (ch :: mid). split; [reflexivity | cbn [bytes_len]; lia].
Qed.

Lemma xskip_ext w : ext w (xskip w).
Proof.
  unfold xskip. destruct (skip_ign (tail w) (cur w) 0) as [t' c'] eqn:E.
  apply skip_ign_ext in E; [|apply skip_ok_0]. destruct E as (mid & T & C). eapply mk_ext; eassumption.
Qed.

Lemma skip_to_lb_ext : forall t c skip t' c', skip_ok t skip -> skip_to_lb t c skip = Some (t', c') ->
  exists mid, t = mid ++ t' /\ c' = c + bytes_len mid.
Proof.
  induction t as [|ch r IH]; intros c skip t' c' Hs; cbn [skip_to_lb].
  - intros H. injection H as <- <-. exists []. split; [reflexivity | cbn [bytes_len]; lia].
  - destruct (skip =? 0) eqn:Ez.
    + destruct (decide_next_token (ch :: r)) as [k n] eqn:Et.
      destruct (tkind_eqb k TLineBreak).
      * intros H. injection H as <- <-.
        destruct (decide_next_token_prefix (ch :: r) k n ltac:(discriminate) Et) as (p & s & E & -> & _).
        rewrite E, drop_blen_app. exists p. split; reflexivity.
      * destruct (is_ignorable k); [|discriminate].
        intros H. apply IH in H; [|eapply skip_ok_tok; eassumption].
        destruct H as (mid & -> & ->). exists (ch :: mid). split; [reflexivity | cbn [bytes_len]; lia].
    + intros H. apply IH in H; [|eapply skip_ok_step; eassumption].
      destruct H as (mid & -> & ->). exists (ch :: mid). split; [reflexivity | cbn [bytes_len]; lia].
Qed.

Lemma xnext_linebreak_ext w w' : xnext_linebreak w = Some w' -> ext w w'.
Proof.
  unfold xnext_linebreak. destruct (skip_to_lb (tail w) (cur w) 0) as [[t' c']|] eqn:E; [|discriminate].
  intros H. injection H as <-. apply skip_to_lb_ext in E; [|apply skip_ok_0].
  destruct E as (mid & T & C). eapply mk_ext; eassumption.
Qed.

(* the token at an exact walker: stepping over it stays exact, and its span is valid *)
Lemma xtoken_ext w k n : xtoken w = (k, n) -> ext w (advance w n) /\ exists p s, tail w = p ++ s /\ n = bytes_len p.
Proof.
  unfold xtoken. destruct (tail w) as [|ch r] eqn:T.
  - intros H. injection H as _ <-. split.
    + exists []. unfold advance. cbn [tail cur lim]. rewrite T. cbn [drop_bytes app bytes_len]. repeat split. lia.
    + exists [], []. split; reflexivity.
  - intros H. destruct (decide_next_token_prefix (ch :: r) k n ltac:(discriminate) H) as (p & s & E & -> & _).
    split.
    + apply (advance_ext w p s). rewrite T. exact E.
    + exists p, s. split; [exact E | reflexivity].
Qed.

Lemma tok_span t w k n : wf t w -> xtoken w = (k, n) -> vspan t (cur w, cur w + n).
Proof.
  intros Hw H. apply xtoken_ext in H. destruct H as (_ & p & s & T & ->).
  apply vspan_intro; [apply wf_boundary; exact Hw | eapply wf_boundary_in; eassumption | lia].
Qed.

Lemma xmaybe_expect_sp_ext t w k w' sp txt : wf t w -> xmaybe_expect_sp w k = Some (w', sp, txt) -> ext w w' /\ vspan t sp.
Proof.
  intros Hw. unfold xmaybe_expect_sp, xnext_useful.
  destruct (xtoken (xskip w)) as [k' n] eqn:E. destruct (tkind_eqb k k'); [|discriminate].
  intros H. injection H as <- <- _.
  pose proof (xskip_ext w) as E1. split.
  - eapply ext_trans; [exact E1|]. apply xtoken_ext in E. tauto.
  - eapply tok_span; [eapply wf_ext; eassumption | exact E].
Qed.

Lemma xmaybe_expect_ext w k w' txt : xmaybe_expect w k = Some (w', txt) -> ext w w'.
Proof.
  unfold xmaybe_expect, xmaybe_expect_sp, xnext_useful.
  destruct (xtoken (xskip w)) as [k' n] eqn:E. destruct (tkind_eqb k k'); [|discriminate].
  intros H. injection H as <- _.
  eapply ext_trans; [apply xskip_ext|]. apply xtoken_ext in E. tauto.
Qed.

Lemma xexpect_ext w k w' txt : xexpect w k = POk txt w' -> ext w w'.
Proof.
  unfold xexpect. destruct (xmaybe_expect w k) as [[w1 t1]|] eqn:E; [|discriminate].
  intros H. injection H as _ <-. eapply xmaybe_expect_ext; eassumption.
Qed.

Lemma xexpect_sp_ext t w k w' r : wf t w -> xexpect_sp w k = POk r w' -> ext w w' /\ vspan t (fst r).
Proof.
  intros Hw. unfold xexpect_sp. destruct (xmaybe_expect_sp w k) as [[[w1 sp] t1]|] eqn:E; [|discriminate].
  intros H. injection H as <- <-. cbn [fst]. eapply xmaybe_expect_sp_ext; eassumption.
Qed.

Lemma xexpect_linebreak_ext w w' u : xexpect_linebreak w = POk u w' -> ext w w'.
Proof.
  unfold xexpect_linebreak. destruct (xnext_linebreak w) as [w1|] eqn:E; [|discriminate].
  intros H. injection H as _ <-. apply xnext_linebreak_ext. exact E.
Qed.

Lemma xfind_op_ext ops : forall w w' o, xfind_op w ops = Some (w', o) -> ext w w'.
Proof.
  induction ops as [|[k o0] ops IH]; intros w w' o; cbn [xfind_op]; [discriminate|].
  destruct (xmaybe_expect w k) as [[w1 t1]|] eqn:E.
  - intros H. injection H as <- _. eapply xmaybe_expect_ext; eassumption.
  - apply IH.
Qed.
