(* Proofs about Model/AsmParser.v (the line/directive parser of assembly text).
   C13_spans_valid : every span recorded in the AST (any nesting depth, asm blocks inside expressions included) is
                     start <= end <= |file| with both offsets on character boundaries.
   No axioms. *)
From Coq Require Import NArith ZArith List Bool Lia ZifyBool.
Import ListNotations.
From CA Require Import Model.Lexer Model.Parser Model.Literal Model.Matcher Model.AsmAst Model.AsmParser.
Open Scope N_scope.
Local Arguments N.add : simpl never.
Local Arguments N.sub : simpl never.
Local Arguments N.mul : simpl never.
Local Arguments N.eqb : simpl never.
Local Arguments N.leb : simpl never.
Local Arguments N.ltb : simpl never.

(* ================================================================================================ *)
(* A. bytes, prefixes, and the token-length lemma                                                    *)

Lemma ulen_pos c : utf8_len c <> 0.
Proof. unfold utf8_len. repeat match goal with |- context [if ?b then _ else _] => destruct b end; lia. Qed.

Lemma blen_app a b : bytes_len (a ++ b) = bytes_len a + bytes_len b.
Proof. induction a as [|x a IH]; cbn [bytes_len app]; [reflexivity|]. rewrite IH. lia. Qed.

Lemma blen_zero a : bytes_len a = 0 -> a = [].
Proof. destruct a as [|x a]; [reflexivity|]. cbn [bytes_len]. pose proof (ulen_pos x). lia. Qed.

Lemma take_blen_app p r : take_bytes (bytes_len p) (p ++ r) = p.
Proof.
  induction p as [|x p IH]; cbn [bytes_len app].
  - destruct r as [|y r]; cbn [take_bytes]; reflexivity.
  - cbn [take_bytes]. pose proof (ulen_pos x).
    destruct (utf8_len x + bytes_len p =? 0) eqn:E; [lia|].
    replace (utf8_len x + bytes_len p - utf8_len x) with (bytes_len p) by lia. rewrite IH. reflexivity.
Qed.

Lemma drop_blen_app p r : drop_bytes (bytes_len p) (p ++ r) = r.
Proof.
  induction p as [|x p IH]; cbn [bytes_len app].
  - destruct r as [|y r]; cbn [drop_bytes]; reflexivity.
  - cbn [drop_bytes]. pose proof (ulen_pos x).
    destruct (utf8_len x + bytes_len p =? 0) eqn:E; [lia|].
    replace (utf8_len x + bytes_len p - utf8_len x) with (bytes_len p) by lia. exact IH.
Qed.

(* n is the byte length of a non-empty prefix of t *)
Definition is_tok (t : text) (n : N) : Prop := exists p s, t = p ++ s /\ n = bytes_len p /\ p <> [].

Lemma span_while_prefix f : forall t n rest, span_while f t = (n, rest) -> exists pre, t = pre ++ rest /\ n = bytes_len pre.
Proof.
  induction t as [|c r IH]; cbn [span_while]; intros n rest H.
  - injection H as <- <-. exists []. split; reflexivity.
  - destruct (f c).
    + destruct (span_while f r) as [m rest'] eqn:E. injection H as <- <-.
      destruct (IH _ _ eq_refl) as (pre & -> & ->). exists (c :: pre). split; reflexivity.
    + injection H as <- <-. exists []. split; reflexivity.
Qed.

Lemma starts_with_prefix : forall p t, starts_with p t = true -> exists s, t = p ++ s.
Proof.
  induction p as [|a p IH]; intros t H; [exists t; reflexivity|].
  destruct t as [|b t]; cbn [starts_with] in H; [discriminate|].
  apply andb_true_iff in H. destruct H as [H1 H2]. apply N.eqb_eq in H1. subst b.
  destruct (IH _ H2) as (s & ->). exists s. reflexivity.
Qed.

(* the body of a block comment consumes a prefix *)
Lemma block_comment_prefix : forall k t nesting, (length t <= k)%nat -> exists p s, t = p ++ s /\ block_comment t nesting = bytes_len p.
Proof.
  induction k as [|k IH]; intros t nesting Hk.
  - destruct t; [|cbn [length] in Hk; lia]. exists [], []. split; reflexivity.
  - destruct t as [|c r]; [exists [], []; split; reflexivity|].
    cbn [block_comment].
    destruct (starts_with [59; 42] (c :: r)) eqn:E1.
    + apply starts_with_prefix in E1. destruct E1 as (s & E1). cbn [app] in E1. injection E1 as -> ->.
      cbn [length] in Hk. destruct (IH s (S nesting) ltac:(lia)) as (p & s' & -> & ->).
      exists (59 :: 42 :: p), s'. split; [reflexivity|]. cbn [bytes_len]. change (utf8_len 59) with 1. change (utf8_len 42) with 1. lia.
    + destruct (starts_with [42; 59] (c :: r)) eqn:E2.
      * apply starts_with_prefix in E2. destruct E2 as (s & E2). cbn [app] in E2. injection E2 as -> ->.
        destruct nesting as [|n].
        -- exists [42; 59], s. split; reflexivity.
        -- cbn [length] in Hk. destruct (IH s n ltac:(lia)) as (p & s' & -> & ->).
           exists (42 :: 59 :: p), s'. split; [reflexivity|]. cbn [bytes_len]. change (utf8_len 59) with 1. change (utf8_len 42) with 1. lia.
      * cbn [length] in Hk. destruct (IH r nesting ltac:(lia)) as (p & s' & -> & ->).
        exists (c :: p), s'. split; reflexivity.
Qed.

Lemma is_tok_intro t p s n : t = p ++ s -> n = bytes_len p -> n <> 0 -> is_tok t n.
Proof. intros -> -> H. exists p, s. repeat split. intros ->. apply H. reflexivity. Qed.

Lemma check_whitespace_tok t k n : check_whitespace t = Some (k, n) -> is_tok t n.
Proof.
  unfold check_whitespace. destruct (span_while is_whitespace t) as [m rest] eqn:E.
  destruct m as [|m]; [discriminate|]. intros H. injection H as _ <-.
  apply span_while_prefix in E. destruct E as (pre & -> & E). eapply is_tok_intro; [reflexivity|exact E|discriminate].
Qed.

Ltac lit_neq c :=
  destruct c as [|c]; [reflexivity|]; repeat (destruct c as [c|c|]; try reflexivity); congruence.

Definition line_comment (r : text) : option (tkind * N) :=
  let '(n0, _) := span_while (fun c => negb (c =? 10)) r in Some (TComment, 1 + n0).
Lemma cc_none c r : c <> 59 -> check_comment (c :: r) = None.
Proof. intros H. unfold check_comment. lit_neq c. Qed.
Lemma cc_block r : check_comment (59 :: 42 :: r) = Some (TComment, 2 + block_comment r 0).
Proof. reflexivity. Qed.
Lemma cc_line1 : check_comment [59] = line_comment [].
Proof. reflexivity. Qed.
Lemma cc_line d r : d <> 42 -> check_comment (59 :: d :: r) = line_comment (d :: r).
Proof. intros H. unfold check_comment, line_comment. lit_neq d. Qed.

Lemma check_comment_tok t k n : check_comment t = Some (k, n) -> is_tok t n.
Proof.
  destruct t as [|c r]; [discriminate|].
  destruct (N.eq_dec c 59) as [->|Ec]; [|rewrite cc_none by exact Ec; discriminate].
  assert (Hline : forall r0, line_comment r0 = Some (k, n) -> is_tok (59 :: r0) n).
  { intros r0. unfold line_comment. destruct (span_while (fun c => negb (c =? 10)) r0) as [m rest] eqn:E. intros H0. injection H0 as _ <-.
    apply span_while_prefix in E. destruct E as (pre & -> & ->).
    exists (59 :: pre), rest. split; [reflexivity|]. split; [cbn [bytes_len]; reflexivity | discriminate]. }
  destruct r as [|d r2]; [rewrite cc_line1; apply Hline|].
  destruct (N.eq_dec d 42) as [->|Ed]; [|rewrite cc_line by exact Ed; apply Hline].
  rewrite cc_block. intros H. injection H as _ <-.
  destruct (block_comment_prefix (length r2) r2 0 (le_n _)) as (p & s & -> & ->).
  exists (59 :: 42 :: p), s. split; [reflexivity|]. split; [cbn [bytes_len]; change (utf8_len 59) with 1; change (utf8_len 42) with 1; lia | discriminate].
Qed.

Lemma check_number_tok t k n : check_number t = Some (k, n) -> is_tok t n.
Proof.
  unfold check_number. destruct t as [|c r]; [discriminate|].
  destruct (is_number_start c) eqn:E1.
  - destruct (span_while is_number_mid (c :: r)) as [m rest] eqn:E. intros H. injection H as _ <-.
    pose proof E as E'. apply span_while_prefix in E'. destruct E' as (pre & Hp & ->).
    eapply is_tok_intro; [exact Hp|reflexivity|].
    cbn [span_while] in E.
    assert (is_number_mid c = true) as Hm.
    { unfold is_number_start in E1. unfold is_number_mid, is_ident_mid. rewrite E1. apply orb_true_r. }
    rewrite Hm in E. destruct (span_while is_number_mid r) as [m' rest'']. injection E as E _. pose proof (ulen_pos c). lia.
  - destruct (c =? 36) eqn:E2.
    + apply N.eqb_eq in E2. subst c. destruct (span_while is_hex_mid r) as [m rest] eqn:E.
      destruct m as [|m]; [discriminate|]. intros H. injection H as _ <-.
      apply span_while_prefix in E. destruct E as (pre & -> & E).
      exists (36 :: pre), rest. split; [reflexivity|]. split; [cbn [bytes_len]; rewrite <- E; reflexivity | discriminate].
    + destruct (c =? 37) eqn:E3; [|discriminate].
      apply N.eqb_eq in E3. subst c. destruct (span_while is_bin_mid r) as [m rest] eqn:E.
      destruct m as [|m]; [discriminate|]. intros H. injection H as _ <-.
      apply span_while_prefix in E. destruct E as (pre & -> & E).
      exists (37 :: pre), rest. split; [reflexivity|]. split; [cbn [bytes_len]; rewrite <- E; reflexivity | discriminate].
Qed.

Lemma check_identifier_tok t k n : check_identifier t = Some (k, n) -> is_tok t n.
Proof.
  unfold check_identifier. destruct t as [|c r]; [discriminate|].
  destruct (c =? 36) eqn:E2.
  - apply N.eqb_eq in E2. subst c. intros H. injection H as _ <-.
    exists [36], r. split; [reflexivity|]. split; [reflexivity | discriminate].
  - destruct (is_ident_start c) eqn:E1; [|discriminate].
    destruct (span_while is_ident_mid (c :: r)) as [m rest] eqn:E.
    assert (is_tok (c :: r) m) as Ht.
    { pose proof E as E'. apply span_while_prefix in E'. destruct E' as (pre & Hp & ->).
      eapply is_tok_intro; [exact Hp|reflexivity|].
      cbn [span_while] in E. assert (is_ident_mid c = true) as Hm by (unfold is_ident_mid; rewrite E1; reflexivity).
      rewrite Hm in E. destruct (span_while is_ident_mid r) as [m' rest'']. injection E as E _. pose proof (ulen_pos c). lia. }
    intros H.
    repeat match type of H with (if ?b then _ else _) = _ => destruct b end; injection H as _ <-; exact Ht.
Qed.

Lemma check_special_tok : forall tbl t k n, Forall (fun pk => fst pk <> []) tbl -> check_special_in tbl t = Some (k, n) -> is_tok t n.
Proof.
  induction tbl as [|[p k0] tbl IH]; intros t k n Hall; cbn [check_special_in]; [discriminate|].
  inversion Hall as [|? ? Hp Hrest]; subst. cbn [fst] in Hp.
  destruct (starts_with p t) eqn:E.
  - intros H. injection H as _ <-. apply starts_with_prefix in E. destruct E as (s & ->).
    exists p, s. repeat split. exact Hp.
  - apply IH. exact Hrest.
Qed.

Lemma specials_nonempty : Forall (fun pk : text * tkind => fst pk <> []) specials.
Proof. unfold specials. repeat constructor; discriminate. Qed.

Definition string_body (r : text) : option (tkind * N) :=
  let '(n, rest) := span_while (fun c => negb (c =? 34)) r in
  match rest with d :: _ => if d =? 34 then Some (TString, 2 + n) else None | [] => None end.
Lemma cs_none c r : c <> 34 -> check_string (c :: r) = None.
Proof. intros H. unfold check_string. lit_neq c. Qed.
Lemma cs_body r : check_string (34 :: r) = string_body r.
Proof.
  unfold check_string, string_body. destruct (span_while (fun c => negb (c =? 34)) r) as [m rest].
  destruct rest as [|d rest]; [reflexivity|].
  destruct (N.eqb_spec d 34) as [->|Hd]; [reflexivity|]. lit_neq d.
Qed.

Lemma check_string_tok t k n : check_string t = Some (k, n) -> is_tok t n.
Proof.
  destruct t as [|c r]; [discriminate|].
  destruct (N.eq_dec c 34) as [->|Ec]; [|rewrite cs_none by exact Ec; discriminate].
  rewrite cs_body. unfold string_body.
  destruct (span_while (fun c => negb (c =? 34)) r) as [m rest] eqn:E.
  apply span_while_prefix in E. destruct E as (pre & -> & ->).
  destruct rest as [|d rest]; [discriminate|].
  destruct (N.eqb_spec d 34) as [->|Hd]; [|discriminate].
  intros H. injection H as _ <-.
  exists (34 :: pre ++ [34]), rest. split; [|split].
  - cbn [app]. rewrite <- app_assoc. reflexivity.
  - cbn [bytes_len]. rewrite blen_app. cbn [bytes_len]. change (utf8_len 34) with 1. lia.
  - discriminate.
Qed.

(* the token-length lemma: on a non-empty text the decided token is a non-empty prefix *)
Theorem decide_next_token_prefix : forall t k n, t <> [] -> decide_next_token t = (k, n) -> is_tok t n.
Proof.
  intros t k n Hne. unfold decide_next_token, orelse.
  destruct (check_whitespace t) as [[k1 n1]|] eqn:E1.
  { intros H. injection H as <- <-. eapply check_whitespace_tok; eassumption. }
  destruct (check_comment t) as [[k2 n2]|] eqn:E2.
  { intros H. injection H as <- <-. eapply check_comment_tok; eassumption. }
  destruct (check_number t) as [[k3 n3]|] eqn:E3.
  { intros H. injection H as <- <-. eapply check_number_tok; eassumption. }
  destruct (check_identifier t) as [[k4 n4]|] eqn:E4.
  { intros H. injection H as <- <-. eapply check_identifier_tok; eassumption. }
  destruct (check_special_in specials t) as [[k5 n5]|] eqn:E5.
  { intros H. injection H as <- <-. eapply check_special_tok; [apply specials_nonempty|eassumption]. }
  destruct (check_string t) as [[k6 n6]|] eqn:E6.
  { intros H. injection H as <- <-. eapply check_string_tok; eassumption. }
  destruct t as [|c r]; [congruence|].
  intros H. injection H as _ <-. exists [c], r. repeat split; [cbn [bytes_len]; lia | discriminate].
Qed.

(* ================================================================================================ *)
(* B. exact walkers inside a file text, boundaries, spans                                            *)

Definition on_boundary (t : text) (i : N) : Prop := exists pre suf, t = pre ++ suf /\ bytes_len pre = i.

Definition vspan (t : text) (sp : span) : Prop :=
  fst sp <= snd sp /\ snd sp <= bytes_len t /\ on_boundary t (fst sp) /\ on_boundary t (snd sp).
Definition vospan (t : text) (o : ospan) : Prop := match o with Some sp => vspan t sp | None => True end.

Lemma boundary_le t i : on_boundary t i -> i <= bytes_len t.
Proof. intros (pre & suf & -> & <-). rewrite blen_app. lia. Qed.

Lemma vspan_intro t s e : on_boundary t s -> on_boundary t e -> s <= e -> vspan t (s, e).
Proof. intros Hs He Hle. unfold vspan. cbn [fst snd]. repeat split; auto. apply boundary_le. exact He. Qed.

Lemma vspan_join_s t a b : vspan t a -> vspan t b -> vspan t (join_s a b).
Proof.
  intros (A1 & A2 & A3 & A4) (B1 & B2 & B3 & B4). unfold join_s. apply vspan_intro.
  - destruct (N.min_spec (fst a) (fst b)) as [[_ ->]|[_ ->]]; assumption.
  - destruct (N.max_spec (snd a) (snd b)) as [[_ ->]|[_ ->]]; assumption.
  - lia.
Qed.

Lemma vospan_join t a b : vospan t a -> vospan t b -> vospan t (join a b).
Proof.
  destruct a as [[s1 e1]|], b as [[s2 e2]|]; cbn [vospan join]; intros A B; auto.
  apply (vspan_join_s t (s1, e1) (s2, e2)); assumption.
Qed.

(* the walker is an exact window of the file text t *)
Definition wf (t : text) (w : walker) : Prop :=
  exists pre post, t = pre ++ tail w ++ post /\ cur w = bytes_len pre /\ lim w = cur w + bytes_len (tail w).

(* w' is w after consuming `mid` *)
Definition ext (w w' : walker) : Prop :=
  exists mid, tail w = mid ++ tail w' /\ cur w' = cur w + bytes_len mid /\ lim w' = lim w.

Lemma ext_refl w : ext w w.
Proof. exists []. cbn [app bytes_len]. repeat split. lia. Qed.

Lemma ext_trans a b c : ext a b -> ext b c -> ext a c.
Proof.
  intros (m1 & T1 & C1 & L1) (m2 & T2 & C2 & L2). exists (m1 ++ m2). rewrite blen_app.
  repeat split; [rewrite T1, T2, app_assoc; reflexivity | lia | congruence].
Qed.

Lemma wf_ext t w w' : wf t w -> ext w w' -> wf t w'.
Proof.
  intros (pre & post & Ht & Hc & Hl) (mid & T & C & L). exists (pre ++ mid), post.
  rewrite blen_app. repeat split.
  - rewrite Ht, T, <- !app_assoc. reflexivity.
  - lia.
  - rewrite L, Hl, T, blen_app. lia.
Qed.

Lemma ext_cur_le w w' : ext w w' -> cur w <= cur w'.
Proof. intros (mid & _ & C & _). lia. Qed.

Lemma wf_boundary t w : wf t w -> on_boundary t (cur w).
Proof. intros (pre & post & Ht & Hc & _). exists pre, (tail w ++ post). split; [exact Ht | symmetry; exact Hc]. Qed.

Lemma wf_boundary_in t w p s : wf t w -> tail w = p ++ s -> on_boundary t (cur w + bytes_len p).
Proof.
  intros (pre & post & Ht & Hc & _) Hp. exists (pre ++ p), (s ++ post). split.
  - rewrite Ht, Hp, <- !app_assoc. reflexivity.
  - rewrite blen_app. lia.
Qed.

Lemma mk_ext w t' c' mid : tail w = mid ++ t' -> c' = cur w + bytes_len mid -> ext w {| tail := t'; cur := c'; lim := lim w |}.
Proof. intros T C. exists mid. cbn [tail cur lim]. auto. Qed.

Lemma advance_ext w p s : tail w = p ++ s -> ext w (advance w (bytes_len p)).
Proof.
  intros T. exists p. unfold advance. cbn [tail cur lim]. rewrite T, drop_blen_app. auto.
Qed.

Lemma wf_start t : wf t (start_walker t).
Proof. exists [], []. unfold start_walker. cbn [tail cur lim app bytes_len]. rewrite app_nil_r. repeat split; lia. Qed.

(* ================================================================================================ *)
(* C. the walker primitives                                                                          *)

Lemma tok_split t k n : t <> [] -> decide_next_token t = (k, n) ->
  exists ch p s, t = ch :: p ++ s /\ n = utf8_len ch + bytes_len p.
Proof.
  intros Hne H. destruct (decide_next_token_prefix _ _ _ Hne H) as (p & s & -> & -> & Hp).
  destruct p as [|ch p]; [congruence|]. exists ch, p, s. split; reflexivity.
Qed.

(* a skip counter is the byte length of a prefix still to pass *)
Definition skip_ok (t : text) (skip : N) : Prop := exists q s, t = q ++ s /\ skip = bytes_len q.

Lemma skip_ok_0 t : skip_ok t 0.
Proof. exists [], t. split; reflexivity. Qed.

Lemma skip_ok_step ch r skip : skip_ok (ch :: r) skip -> (skip =? 0) = false -> skip_ok r (skip - utf8_len ch).
Proof.
  intros (q & s & Hq & ->) Hz. destruct q as [|c q]; [cbn [bytes_len] in Hz; discriminate|].
  cbn [app] in Hq. injection Hq as -> ->. exists q, s. split; [reflexivity|]. cbn [bytes_len]. lia.
Qed.

Lemma skip_ok_tok ch r k n : decide_next_token (ch :: r) = (k, n) -> skip_ok r (n - utf8_len ch).
Proof.
  intros H. destruct (tok_split (ch :: r) k n ltac:(discriminate) H) as (c & p & s & E & ->).
  injection E as <- ->. exists p, s. split; [reflexivity|]. lia.
Qed.

Lemma skip_ign_ext : forall t c skip t' c', skip_ok t skip -> skip_ign t c skip = (t', c') ->
  exists mid, t = mid ++ t' /\ c' = c + bytes_len mid.
Proof.
  induction t as [|ch r IH]; intros c skip t' c' Hs; cbn [skip_ign].
  - intros H. injection H as <- <-. exists []. split; [reflexivity | cbn [bytes_len]; lia].
  - destruct (skip =? 0) eqn:Ez.
    + destruct (decide_next_token (ch :: r)) as [k n] eqn:Et.
      destruct (is_ignorable k).
      * intros H. apply IH in H; [|eapply skip_ok_tok; eassumption].
        destruct H as (mid & -> & ->). exists (ch :: mid). split; [reflexivity | cbn [bytes_len]; lia].
      * intros H. injection H as <- <-. exists []. split; [reflexivity | cbn [bytes_len]; lia].
    + intros H. apply IH in H; [|eapply skip_ok_step; eassumption].
      destruct H as (mid & -> & ->). exists (ch :: mid). split; [reflexivity | cbn [bytes_len]; lia].
Qed.

Lemma xskip_ext w : ext w (xskip w).
Proof.
  unfold xskip. destruct (skip_ign (tail w) (cur w) 0) as [t' c'] eqn:E.
  apply skip_ign_ext in E; [|apply skip_ok_0]. destruct E as (mid & T & C). eapply mk_ext; eassumption.
Qed.

Lemma skip_to_lb_cons ch r c skip : skip_to_lb (ch :: r) c skip =
    if skip =? 0 then
      let '(k, n) := decide_next_token (ch :: r) in
      if tkind_eqb k TLineBreak then Some (drop_bytes n (ch :: r), c + n)
      else if is_ignorable k then skip_to_lb r (c + utf8_len ch) (n - utf8_len ch) else None
    else skip_to_lb r (c + utf8_len ch) (skip - utf8_len ch).
Proof. reflexivity. Qed.

Lemma skip_to_lb_ext : forall t c skip t' c', skip_ok t skip -> skip_to_lb t c skip = Some (t', c') ->
  exists mid, t = mid ++ t' /\ c' = c + bytes_len mid.
Proof.
  induction t as [|ch r IH]; intros c skip t' c' Hs.
  - cbn [skip_to_lb]. intros H. injection H as <- <-. exists []. split; [reflexivity | cbn [bytes_len]; lia].
  - rewrite skip_to_lb_cons. destruct (skip =? 0) eqn:Ez.
    + destruct (decide_next_token (ch :: r)) as [k n] eqn:Et.
      destruct (tkind_eqb k TLineBreak).
      * intros H. assert (E1 : drop_bytes n (ch :: r) = t') by congruence. assert (E2 : c + n = c') by congruence.
        subst t' c'. clear H.
        destruct (decide_next_token_prefix (ch :: r) k n ltac:(discriminate) Et) as (p & s & E & -> & _).
        rewrite E, drop_blen_app. exists p. split; reflexivity.
      * destruct (is_ignorable k); [|discriminate].
        intros H. apply IH in H; [|eapply skip_ok_tok; eassumption].
        destruct H as (mid & -> & ->). exists (ch :: mid). split; [reflexivity | cbn [bytes_len]; lia].
    + intros H. apply IH in H; [|eapply skip_ok_step; eassumption].
      destruct H as (mid & -> & ->). exists (ch :: mid). split; [reflexivity | cbn [bytes_len]; lia].
Qed.

Lemma xnext_linebreak_ext w w' : xnext_linebreak w = Some w' -> ext w w'.
Proof.
  unfold xnext_linebreak. destruct (skip_to_lb (tail w) (cur w) 0) as [[t' c']|] eqn:E; [|discriminate].
  intros H. injection H as <-. apply skip_to_lb_ext in E; [|apply skip_ok_0].
  destruct E as (mid & T & C). eapply mk_ext; eassumption.
Qed.

(* the token at an exact walker: stepping over it stays exact, and its span is valid *)
Lemma xtoken_ext w k n : xtoken w = (k, n) -> ext w (advance w n) /\ exists p s, tail w = p ++ s /\ n = bytes_len p.
Proof.
  unfold xtoken. destruct (tail w) as [|ch r] eqn:T.
  - intros H. injection H as _ <-. split.
    + exists []. unfold advance. cbn [tail cur lim]. rewrite T. cbn [drop_bytes app bytes_len]. repeat split; lia.
    + exists [], []. split; reflexivity.
  - intros H. destruct (decide_next_token_prefix (ch :: r) k n ltac:(discriminate) H) as (p & s & E & -> & _).
    split.
    + apply (advance_ext w p s). rewrite T. exact E.
    + exists p, s. split; [exact E | reflexivity].
Qed.

Lemma tok_span t w k n : wf t w -> xtoken w = (k, n) -> vspan t (cur w, cur w + n).
Proof.
  intros Hw H. apply xtoken_ext in H. destruct H as (_ & p & s & T & ->).
  apply vspan_intro; [apply wf_boundary; exact Hw | eapply wf_boundary_in; eassumption | lia].
Qed.

Lemma xmaybe_expect_sp_ext t w k w' sp txt : wf t w -> xmaybe_expect_sp w k = Some (w', sp, txt) -> ext w w' /\ vspan t sp.
Proof.
  intros Hw. unfold xmaybe_expect_sp, xnext_useful.
  destruct (xtoken (xskip w)) as [k' n] eqn:E. destruct (tkind_eqb k k'); [|discriminate].
  intros H. injection H as <- <- _.
  pose proof (xskip_ext w) as E1. split.
  - eapply ext_trans; [exact E1|]. apply xtoken_ext in E. tauto.
  - eapply tok_span; [eapply wf_ext; eassumption | exact E].
Qed.

Lemma xmaybe_expect_ext w k w' txt : xmaybe_expect w k = Some (w', txt) -> ext w w'.
Proof.
  unfold xmaybe_expect, xmaybe_expect_sp, xnext_useful.
  destruct (xtoken (xskip w)) as [k' n] eqn:E. destruct (tkind_eqb k k'); [|discriminate].
  intros H. injection H as <- _.
  eapply ext_trans; [apply xskip_ext|]. apply xtoken_ext in E. tauto.
Qed.

Lemma xexpect_ext w k w' txt : xexpect w k = POk txt w' -> ext w w'.
Proof.
  unfold xexpect. destruct (xmaybe_expect w k) as [[w1 t1]|] eqn:E; [|discriminate].
  intros H. injection H as _ <-. eapply xmaybe_expect_ext; eassumption.
Qed.

Lemma xexpect_sp_ext t w k w' r : wf t w -> xexpect_sp w k = POk r w' -> ext w w' /\ vspan t (fst r).
Proof.
  intros Hw. unfold xexpect_sp. destruct (xmaybe_expect_sp w k) as [[[w1 sp] t1]|] eqn:E; [|discriminate].
  intros H. injection H as <- <-. cbn [fst]. eapply xmaybe_expect_sp_ext; eassumption.
Qed.

Lemma xexpect_linebreak_ext w w' u : xexpect_linebreak w = POk u w' -> ext w w'.
Proof.
  unfold xexpect_linebreak. destruct (xnext_linebreak w) as [w1|] eqn:E; [|discriminate].
  intros H. injection H as _ <-. apply xnext_linebreak_ext. exact E.
Qed.

Lemma xfind_op_ext ops : forall w w' o, xfind_op w ops = Some (w', o) -> ext w w'.
Proof.
  induction ops as [|[k o0] ops IH]; intros w w' o; cbn [xfind_op]; [discriminate|].
  destruct (xmaybe_expect w k) as [[w1 t1]|] eqn:E.
  - intros H. injection H as <- _. eapply xmaybe_expect_ext; eassumption.
  - apply IH.
Qed.

(* ================================================================================================ *)
(* D. the generic expression parser                                                                  *)

Lemma bind_ok' {X Y} (m : pres X) (f : X -> walker -> pres Y) r w' :
  bind m f = POk r w' -> exists a w1, m = POk a w1 /\ f a w1 = POk r w'.
Proof. destruct m; cbn [bind]; intros H; try discriminate; eauto. Qed.

Lemma payloads_block {A} (es : list (gexpr A)) : gexpr_payloads (GBlock es) = flat_map gexpr_payloads es.
Proof. induction es as [|x r IH]; [reflexivity|]. cbn [flat_map]. rewrite <- IH. reflexivity. Qed.
Lemma payloads_call {A} (f : gexpr A) (es : list (gexpr A)) : gexpr_payloads (GCall f es) = gexpr_payloads f ++ flat_map gexpr_payloads es.
Proof.
  assert (E : gexpr_payloads (GCall f es) = gexpr_payloads f ++ gexpr_payloads (GBlock es)) by reflexivity.
  rewrite E, payloads_block. reflexivity.
Qed.

Section ExprInv.
Context {A : Type}.
Variable t : text.
Variable hook : nat -> walker -> pres (span * A).
Variable Pay : span * A -> Prop.
Hypothesis Hhook : forall d w r w', wf t w -> hook d w = POk r w' -> ext w w' /\ Pay r.

Definition PayE (e : gexpr A) : Prop := Forall Pay (gexpr_payloads e).

Lemma payE_flat es : Forall PayE es -> Forall Pay (flat_map gexpr_payloads es).
Proof. induction 1 as [|x r Hx Hr IH]; cbn [flat_map]; [constructor|]. apply Forall_app. split; assumption. Qed.
Lemma payE_block es : Forall PayE es -> PayE (GBlock es).
Proof. intros H. unfold PayE. rewrite payloads_block. apply payE_flat. exact H. Qed.
Lemma payE_call f es : PayE f -> Forall PayE es -> PayE (GCall f es).
Proof. intros Hf H. unfold PayE. rewrite payloads_call. apply Forall_app. split; [exact Hf | apply payE_flat; exact H]. Qed.
Lemma payE_un o e : PayE e -> PayE (GUn o e).
Proof. auto. Qed.
Lemma payE_bin o a b : PayE a -> PayE b -> PayE (GBin o a b).
Proof. intros. unfold PayE. cbn [gexpr_payloads]. apply Forall_app. auto. Qed.
Lemma payE_tern a b c : PayE a -> PayE b -> PayE c -> PayE (GTern a b c).
Proof. intros. unfold PayE. cbn [gexpr_payloads]. repeat (apply Forall_app; split); auto. Qed.
Lemma payE_slice a b c : PayE a -> PayE b -> PayE c -> PayE (GSlice a b c).
Proof. intros. unfold PayE. cbn [gexpr_payloads]. repeat (apply Forall_app; split); auto. Qed.
Lemma payE_short a b : PayE a -> PayE b -> PayE (GShort a b).
Proof. intros. unfold PayE. cbn [gexpr_payloads]. apply Forall_app. auto. Qed.
Lemma payE_asm sp b : Pay (sp, b) -> PayE (GAsm sp b).
Proof. intros. unfold PayE. cbn [gexpr_payloads]. auto. Qed.
Lemma payE_nil_block : PayE (GBlock []).
Proof. apply payE_block. constructor. Qed.
Lemma payE_num v s : PayE (GNum v s). Proof. constructor. Qed.
Lemma payE_bool b : PayE (GBool b). Proof. constructor. Qed.
Lemma payE_str s : PayE (GStr s). Proof. constructor. Qed.
Lemma payE_var l p : PayE (GVar l p). Proof. constructor. Qed.

Definition ok_e (w : walker) (r : pres (gexpr A)) : Prop := forall e w', r = POk e w' -> ext w w' /\ PayE e.
Definition ok_l (w : walker) (r : pres (list (gexpr A))) : Prop := forall es w', r = POk es w' -> ext w w' /\ Forall PayE es.

Definition einv (fuel : nat) : Prop :=
  (forall depth w, wf t w -> ok_e w (gparse_expr hook fuel depth w)) /\
  (forall depth w, wf t w -> ok_e w (gparse_assign hook fuel depth w)) /\
  (forall depth lv w, wf t w -> ok_e w (gparse_levels hook fuel depth lv w)) /\
  (forall depth ops inner l w, wf t w -> PayE l -> ok_e w (gbinary_loop hook fuel depth ops inner l w)) /\
  (forall depth w, wf t w -> ok_e w (gparse_slice hook fuel depth w)) /\
  (forall depth w, wf t w -> ok_e w (gparse_short hook fuel depth w)) /\
  (forall depth w, wf t w -> ok_e w (gparse_unary hook fuel depth w)) /\
  (forall depth w, wf t w -> ok_e w (gparse_call hook fuel depth w)) /\
  (forall depth w acc, wf t w -> Forall PayE acc -> ok_l w (gparse_args hook fuel depth w acc)) /\
  (forall depth w, wf t w -> ok_e w (gparse_leaf hook fuel depth w)) /\
  (forall depth w acc, wf t w -> Forall PayE acc -> ok_l w (gparse_block hook fuel depth w acc)) /\
  (forall w level, wf t w -> ok_e w (gparse_var_dots hook fuel w level)) /\
  (forall w level acc, wf t w -> ok_e w (gparse_var_names hook fuel w level acc)).

End ExprInv.

(* --- the stepping tactic shared by all the invariant proofs of this file --- *)
Ltac have_wf t w' :=
  lazymatch goal with
  | _ : wf t w' |- _ => idtac
  | He : ext ?w w', Hw : wf t ?w |- _ => assert (wf t w') by (eapply wf_ext; [exact Hw | exact He])
  end.

Ltac ext_chain :=
  solve [ apply ext_refl | eassumption
        | eapply ext_trans; [eassumption|]; ext_chain ].

Ltac pstep t :=
  match goal with
  | H : bind _ _ = POk _ _ |- _ =>
      apply bind_ok' in H; let a := fresh "a" in let w := fresh "w" in let Hm := fresh "Hm" in
      destruct H as (a & w & Hm & H); cbv beta in H
  | H : POk _ _ = POk _ _ |- _ => inversion H; subst; clear H
  | H : PErr = POk _ _ |- _ => discriminate H
  | H : PFuel = POk _ _ |- _ => discriminate H
  | H : (let _ := _ in _) = POk _ _ |- _ => cbv zeta in H
  | H : (let '(_, _) := ?p in _) = POk _ _ |- _ => destruct p eqn:?
  | H : (if ?b then _ else _) = POk _ _ |- _ => destruct b eqn:?
  | H : match xmaybe_expect ?w ?k with _ => _ end = POk _ _ |- _ =>
      let E := fresh "E" in destruct (xmaybe_expect w k) as [[? ?]|] eqn:E;
      [apply xmaybe_expect_ext in E; match type of E with ext _ ?w' => have_wf t w' end | clear E]
  | H : match xmaybe_expect_sp ?w ?k with _ => _ end = POk _ _ |- _ =>
      let E := fresh "E" in destruct (xmaybe_expect_sp w k) as [[[? ?] ?]|] eqn:E;
      [eapply xmaybe_expect_sp_ext in E; [destruct E as [E ?]; match type of E with ext _ ?w' => have_wf t w' end | eassumption] | clear E]
  | H : match xfind_op ?w ?k with _ => _ end = POk _ _ |- _ =>
      let E := fresh "E" in destruct (xfind_op w k) as [[? ?]|] eqn:E;
      [apply xfind_op_ext in E; match type of E with ext _ ?w' => have_wf t w' end | clear E]
  | H : match xnext_linebreak ?w with _ => _ end = POk _ _ |- _ =>
      let E := fresh "E" in destruct (xnext_linebreak w) as [?|] eqn:E;
      [apply xnext_linebreak_ext in E; match type of E with ext _ ?w' => have_wf t w' end | clear E]
  | H : match number_literal ?x with _ => _ end = POk _ _ |- _ => destruct (number_literal x) as [[? ?]|]
  | H : match string_contents ?x with _ => _ end = POk _ _ |- _ => destruct (string_contents x)
  | H : xexpect ?w ?k = POk _ ?w' |- _ => apply xexpect_ext in H; have_wf t w'
  | H : xexpect_sp ?w ?k = POk _ ?w' |- _ => eapply xexpect_sp_ext in H; [destruct H as [H ?]; have_wf t w' | eassumption]
  | H : xexpect_linebreak ?w = POk _ ?w' |- _ => apply xexpect_linebreak_ext in H; have_wf t w'
  end.

(* BEGIN generated unfoldings *)
(* one-step unfoldings, generated by tools/asmparser_unfold.py from Model/AsmParser.v (the `S f` branches copied); checked by reflexivity *)
Lemma gparse_expr_S {A} (hook : nat -> walker -> pres (span * A)) f (depth : nat) (w : walker) : gparse_expr hook (S f) depth w =
    let depth := S depth in
    if Nat.ltb PARSE_DEPTH_MAX depth then PErr else
    do (c, w) <- gparse_assign hook f depth w;
    match xmaybe_expect w TQuestion with
    | Some (w, _) =>
      do (t, w) <- gparse_expr hook f depth w;
      match xmaybe_expect w TColon with
      | Some (w, _) => do (e, w) <- gparse_expr hook f depth w; POk (GTern c t e) w
      | None => POk (GTern c t (GBlock [])) w
      end
    | None => POk c w
    end.
Proof. reflexivity. Qed.
Lemma gparse_assign_S {A} (hook : nat -> walker -> pres (span * A)) f (depth : nat) (w : walker) : gparse_assign hook (S f) depth w =
    do (l, w) <- gparse_levels hook f depth level_ops w;
    match xmaybe_expect w TEqual with
    | Some (w, _) => do (r, w) <- gparse_expr hook f depth w; POk (GBin Assign l r) w
    | None => POk l w
    end.
Proof. reflexivity. Qed.
Lemma gparse_levels_S {A} (hook : nat -> walker -> pres (span * A)) f (depth : nat) (lv : list (list (tkind * binop))) (w : walker) : gparse_levels hook (S f) depth lv w =
    match lv with
    | [] => gparse_slice hook f depth w
    | ops :: inner =>
      do (l, w) <- gparse_levels hook f depth inner w;
      gbinary_loop hook f depth ops inner l w
    end.
Proof. reflexivity. Qed.
Lemma gbinary_loop_S {A} (hook : nat -> walker -> pres (span * A)) f (depth : nat) (ops : list (tkind * binop)) (inner : list (list (tkind * binop))) (l : gexpr A) (w : walker) : gbinary_loop hook (S f) depth ops inner l w =
    if xat_linebreak w then POk l w else
    match xfind_op w ops with
    | Some (w, o) => do (r, w) <- gparse_levels hook f depth inner w; gbinary_loop hook f depth ops inner (GBin o l r) w
    | None => POk l w
    end.
Proof. reflexivity. Qed.
Lemma gparse_slice_S {A} (hook : nat -> walker -> pres (span * A)) f (depth : nat) (w : walker) : gparse_slice hook (S f) depth w =
    do (e, w) <- gparse_short hook f depth w;
    if xat_linebreak w then POk e w else
    match xmaybe_expect w TBracketOpen with
    | Some (w, _) =>
      do (l, w) <- gparse_expr hook f depth w;
      do (_x, w) <- xexpect w TColon;
      do (r, w) <- gparse_expr hook f depth w;
      do (_y, w) <- xexpect w TBracketClose;
      POk (GSlice l r e) w
    | None => POk e w
    end.
Proof. reflexivity. Qed.
Lemma gparse_short_S {A} (hook : nat -> walker -> pres (span * A)) f (depth : nat) (w : walker) : gparse_short hook (S f) depth w =
    do (e, w) <- gparse_unary hook f depth w;
    if xat_linebreak w then POk e w else
    match xmaybe_expect w TGrave with
    | Some (w, _) => do (s, w) <- gparse_leaf hook f depth w; POk (GShort s e) w
    | None => POk e w
    end.
Proof. reflexivity. Qed.
Lemma gparse_unary_S {A} (hook : nat -> walker -> pres (span * A)) f (depth : nat) (w : walker) : gparse_unary hook (S f) depth w =
    match xmaybe_expect w TExclamation with
    | Some (w, _) => if Nat.ltb PARSE_DEPTH_MAX (S depth) then PErr else do (e, w) <- gparse_unary hook f (S depth) w; POk (GUn Not e) w
    | None =>
      match xmaybe_expect w TMinus with
      | Some (w, _) => if Nat.ltb PARSE_DEPTH_MAX (S depth) then PErr else do (e, w) <- gparse_unary hook f (S depth) w; POk (GUn Neg e) w
      | None => gparse_call hook f depth w
      end
    end.
Proof. reflexivity. Qed.
Lemma gparse_call_S {A} (hook : nat -> walker -> pres (span * A)) f (depth : nat) (w : walker) : gparse_call hook (S f) depth w =
    do (l, w) <- gparse_leaf hook f depth w;
    if xat_linebreak w then POk l w else
    match xmaybe_expect w TParenOpen with
    | None => POk l w
    | Some (w, _) =>
      do (args, w) <- gparse_args hook f depth w [];
      do (_x, w) <- xexpect w TParenClose;
      POk (GCall l args) w
    end.
Proof. reflexivity. Qed.
Lemma gparse_args_S {A} (hook : nat -> walker -> pres (span * A)) f (depth : nat) (w : walker) (acc : list (gexpr A)) : gparse_args hook (S f) depth w acc =
    if xnext_useful_is w TParenClose then POk (rev acc) w else
    do (e, w) <- gparse_expr hook f depth w;
    if xnext_useful_is w TParenClose then POk (rev (e :: acc)) w else
    do (_x, w) <- xexpect w TComma;
    gparse_args hook f depth w (e :: acc).
Proof. reflexivity. Qed.
Lemma gparse_leaf_S {A} (hook : nat -> walker -> pres (span * A)) f (depth : nat) (w : walker) : gparse_leaf hook (S f) depth w =
    if xnext_useful_is w TBraceOpen then
      do (_x, w) <- xexpect w TBraceOpen;
      do (es, w) <- gparse_block hook f depth w [];
      do (_y, w) <- xexpect w TBraceClose;
      POk (GBlock es) w
    else if xnext_useful_is w TParenOpen then
      do (_x, w) <- xexpect w TParenOpen;
      do (e, w) <- gparse_expr hook f depth w;
      do (_y, w) <- xexpect w TParenClose;
      POk e w
    else if xnext_useful_is w TIdentifier || xnext_useful_is w TDot then
      gparse_var_dots hook f w 0
    else if xnext_useful_is w TNumber then
      do (t, w) <- xexpect w TNumber;
      match number_literal t with Some (v, sz) => POk (GNum v sz) w | None => PErr end
    else if xnext_useful_is w TString then
      do (t, w) <- xexpect w TString;
      match string_contents t with Some _ => POk (GStr t) w | None => PErr end
    else if xnext_useful_is w TKeywordAsm then
      do (p, w) <- hook depth w; POk (GAsm (fst p) (snd p)) w
    else if xnext_useful_is w TKeywordTrue then do (_x, w) <- xexpect w TKeywordTrue; POk (GBool true) w
    else if xnext_useful_is w TKeywordFalse then do (_x, w) <- xexpect w TKeywordFalse; POk (GBool false) w
    else PErr.
Proof. reflexivity. Qed.
Lemma gparse_block_S {A} (hook : nat -> walker -> pres (span * A)) f (depth : nat) (w : walker) (acc : list (gexpr A)) : gparse_block hook (S f) depth w acc =
    if xnext_useful_is w TBraceClose then POk (rev acc) w else
    do (e, w) <- gparse_expr hook f depth w;
    match xnext_linebreak w with
    | Some w' => gparse_block hook f depth w' (e :: acc)
    | None =>
      if xnext_useful_is w TBraceClose then POk (rev (e :: acc)) w else
      do (_x, w) <- xexpect w TComma;
      gparse_block hook f depth w (e :: acc)
    end.
Proof. reflexivity. Qed.
Lemma gparse_var_dots_S {A} (hook : nat -> walker -> pres (span * A)) f (w : walker) (level : N) : gparse_var_dots hook (S f) w level =
    if xat_linebreak w then gparse_var_names hook f w level [] else
    match xmaybe_expect w TDot with
    | Some (w, _) => gparse_var_dots hook f w (level + 1)
    | None => gparse_var_names hook f w level []
    end.
Proof. reflexivity. Qed.
Lemma gparse_var_names_S {A} (hook : nat -> walker -> pres (span * A)) f (w : walker) (level : N) (acc : list text) : gparse_var_names hook (S f) w level acc =
    do (name, w) <- xexpect w TIdentifier;
    if xat_linebreak w then POk (GVar level (rev (name :: acc))) w else
    match xmaybe_expect w TDot with
    | Some (w, _) => gparse_var_names hook f w level (name :: acc)
    | None => POk (GVar level (rev (name :: acc))) w
    end.
Proof. reflexivity. Qed.
Lemma data_elems_S hook f ed g (w : walker) (acc : list xexpr) : data_elems hook f ed (S g) w acc =
    do (e, w) <- pexpr hook f ed w;
    match xmaybe_expect w TComma with
    | None => POk (rev (e :: acc)) w
    | Some (w, _) => if xat_linebreak w then POk (rev (e :: acc)) w else data_elems hook f ed g w (e :: acc)
    end.
Proof. reflexivity. Qed.
Lemma parse_fields_S hook f ed g (w : walker) (acc : list afield) : parse_fields hook f ed (S g) w acc =
    if xnext_useful_is w TBraceClose then POk (rev acc) w else
    let '(w, hash) := match xmaybe_expect w THash with Some (w', _) => (w', true) | None => (w, false) end in
    do (nm, w) <- xexpect_sp w TIdentifier;
    if existsb (fun fl : afield => text_eqb (fst (fst fl)) (snd nm)) acc then PErr else
    let cont (oe : option xexpr) (w : walker) : pres (list afield) :=
      let acc' := (snd nm, fst nm, oe) :: acc in
      match xmaybe_expect w TComma with
      | Some (w, _) => parse_fields hook f ed g w acc'
      | None => match xnext_linebreak w with
                | Some w => parse_fields hook f ed g w acc'
                | None => POk (rev acc') w
                end
      end in
    if hash && negb (xat_linebreak w) then do (e, w) <- pexpr hook f ed w; cont (Some e) w
    else match xmaybe_expect w TEqual with
         | Some (w, _) => do (e, w) <- pexpr hook f ed w; cont (Some e) w
         | None => cont None w
         end.
Proof. reflexivity. Qed.
Lemma parse_arules_S hook f ed g (is_sub : bool) (w : walker) (acc : list (arule xexpr)) : parse_arules hook f ed (S g) is_sub w acc =
    if xnext_useful_is w TBraceClose then POk (rev acc) w else
    do (r, w) <- parse_arule hook f ed is_sub w;
    do (_u, w) <- xexpect_linebreak w;
    parse_arules hook f ed g is_sub w (r :: acc).
Proof. reflexivity. Qed.
Lemma parse_dots_S f (w : walker) (level : N) (sp : ospan) : parse_dots (S f) w level sp =
    match xmaybe_expect_sp w TDot with
    | Some (w', s, _) => parse_dots f w' (level + 1) (join sp (Some s))
    | None => POk (level, sp) w
    end.
Proof. reflexivity. Qed.
Lemma fn_params_S f (w : walker) (acc : list text) : fn_params (S f) w acc =
    if xover w || xnext_useful_is w TParenClose then POk (rev acc) w else
    do (p, w) <- xexpect w TIdentifier;
    let w := match xmaybe_expect w TComma with Some (w', _) => w' | None => w end in
    fn_params f w (p :: acc).
Proof. reflexivity. Qed.
Lemma apattern_S f (is_sub : bool) (w : walker) (sp : ospan) (pat : list apart) : apattern (S f) is_sub w sp pat =
    if xover w || xnext_useful_is w THeavyArrowRight then POk (sp, rev pat, false) w else
    let '(k, n) := xtoken w in
    let txt := take_bytes n (tail w) in
    let sp := join sp (Some (cur w, cur w + n)) in
    let w := advance w n in
    if tkind_eqb k TBraceOpen then
      match (match pat with [] => is_sub | _ => false end), xmaybe_expect w TBraceClose with
      | true, Some (w', _) => POk (sp, rev pat, true) w'
      | _, _ =>
        do (par, w) <- aparam w;
        do (c, w) <- xexpect_sp w TBraceClose;
        apattern f is_sub w (join sp (Some (fst c))) (par :: pat)
      end
    else if is_allowed_pattern_token k then apattern f is_sub w sp (rev (lower_aexacts txt) ++ pat)
    else if tkind_eqb k TWhitespace then apattern f is_sub w sp (AWs :: pat)
    else PErr.
Proof. reflexivity. Qed.
Lemma parse_lines_d_S f (bd : nat) (ed : nat) (nested : bool) (w : walker) (acc : list anode) : parse_lines_d (S f) bd ed nested w acc =
    if xover w then POk (rev acc) w
    else if nested && xnext_useful_is w TBraceClose then POk (rev acc) w
    else
      do (on, w) <- parse_line_d f bd ed w;
      parse_lines_d f bd ed nested w (match on with Some n => n :: acc | None => acc end).
Proof. reflexivity. Qed.
Lemma parse_line_d_S f (bd : nat) (ed : nat) (w : walker) : parse_line_d (S f) bd ed w =
    if xnext_useful_is w THash then
      do (h, w) <- xexpect_sp w THash;
      do (nm, w) <- xexpect_sp w TIdentifier;
      let header := join_s (fst h) (fst nm) in
      match classify (map to_lower (snd nm)) with
      | DIf => do (n, w) <- parse_if_d f bd ed header w; POk (Some n) w
      | k => do (n, w) <- parse_directive (asm_hook f bd) f ed k header w; POk (Some n) w
      end
    else if (xnext_useful_is w TIdentifier && (xnext_useful_is1 w TColon || xnext_useful_is1 w TEqual)) || xnext_useful_is w TDot then
      do (n, w) <- parse_symbol (asm_hook f bd) f ed w; POk (Some n) w
    else
      match xnext_linebreak w with
      | Some w' => POk None w'
      | None => do (n, w) <- parse_instruction w; POk (Some n) w
      end.
Proof. reflexivity. Qed.
Lemma parse_if_d_S f (bd : nat) (ed : nat) (header : span) (w : walker) : parse_if_d (S f) bd ed header w =
    do (c, w) <- gparse_expr (asm_hook f bd) f ed w;
    do (t, w) <- parse_braced_d f bd ed w;
    do (e, w) <- parse_else_d f bd ed w;
    POk (NIf header c t e) w.
Proof. reflexivity. Qed.
Lemma parse_braced_d_S f (bd : nat) (ed : nat) (w : walker) : parse_braced_d (S f) bd ed w =
    do (_b, w) <- xexpect w TBraceOpen;
    if Nat.leb PARSE_DEPTH_MAX bd then PErr else           (* "block nesting depth limit reached" *)
    do (ns, w) <- parse_lines_d f (S bd) ed true w [];
    do (_c, w) <- xexpect w TBraceClose;
    POk ns w.
Proof. reflexivity. Qed.
Lemma parse_else_d_S f (bd : nat) (ed : nat) (w : walker) : parse_else_d (S f) bd ed w =
    if negb (xnext_useful_is w THash) || negb (xnext_useful_is1 w TIdentifier) then POk None w else
    let name := xnext_useful1_text w in
    if text_eqb name nm_else then
      do (_h, w) <- xexpect w THash;
      do (_n, w) <- xexpect w TIdentifier;
      do (b, w) <- parse_braced_d f bd ed w;
      POk (Some b) w
    else if text_eqb name nm_elif then
      do (h, w) <- xexpect_sp w THash;
      do (nm, w) <- xexpect_sp w TIdentifier;
      do (n, w) <- parse_if_d f bd ed (join_s (fst h) (fst nm)) w;
      POk (Some [n]) w
    else POk None w.
Proof. reflexivity. Qed.
Lemma asm_hook_S f (bd : nat) (depth : nat) (w : walker) : asm_hook (S f) bd depth w =
    do (a, w) <- xexpect_sp w TKeywordAsm;
    do (_b, w) <- xexpect w TBraceOpen;
    let n := closing_brace_len (tail w) 0 in
    let inner := {| tail := take_bytes n (tail w); cur := cur w; lim := cur w + n |} in
    if Nat.leb PARSE_DEPTH_MAX bd then PErr else           (* "block nesting depth limit reached": shared with #if *)
    match parse_lines_d f (S bd) depth true inner [] with  (* inner.expr_nesting_depth = self.recursion_depth *)
    | POk ns _ =>
      let w := advance w n in
      do (c, w) <- xexpect_sp w TBraceClose;
      POk (join_s (fst a) (fst c), ns) w
    | PErr => PErr
    | PFuel => PFuel
    end.
Proof. reflexivity. Qed.
(* END generated unfoldings *)

(* ---------- D (continued): the invariant of the expression parser ---------- *)
Section ExprInvProof.
Context {A : Type}.
Variable t : text.
Variable hook : nat -> walker -> pres (span * A).
Variable Pay : span * A -> Prop.
Hypothesis Hhook : forall d w r w', wf t w -> hook d w = POk r w' -> ext w w' /\ Pay r.

Ltac efin :=
  split; [ext_chain|];
  repeat match goal with
  | |- PayE _ (GTern _ _ _) => apply payE_tern
  | |- PayE _ (GBin _ _ _) => apply payE_bin
  | |- PayE _ (GSlice _ _ _) => apply payE_slice
  | |- PayE _ (GShort _ _) => apply payE_short
  | |- PayE _ (GUn _ _) => apply payE_un
  | |- PayE _ (GCall _ _) => apply payE_call
  | |- PayE _ (GBlock _) => apply payE_block
  | |- PayE _ (GAsm (fst ?p) (snd ?p)) => apply payE_asm; destruct p; cbn [fst snd]
  | |- PayE _ (GAsm _ _) => apply payE_asm
  | |- PayE _ (GNum _ _) => apply payE_num
  | |- PayE _ (GBool _) => apply payE_bool
  | |- PayE _ (GStr _) => apply payE_str
  | |- PayE _ (GVar _ _) => apply payE_var
  | |- Forall _ (rev _) => apply Forall_rev
  | |- Forall _ (_ ++ _) => apply Forall_app; split
  | |- Forall _ (_ :: _) => constructor
  | |- Forall _ [] => constructor
  end; auto.

Ltac eside := solve [auto | apply payE_bin; auto | constructor; auto].
Ltac use_ih :=
  match goal with
  | H : hook ?d0 ?w0 = POk _ ?w' |- _ => apply Hhook in H; [destruct H; have_wf t w' | assumption]
  | H : _ = POk _ ?w', IH : forall _ : nat, _ |- _ => apply IH in H; [destruct H; have_wf t w' | eside ..]
  | H : _ = POk _ ?w', IH : forall _ : walker, _ |- _ => apply IH in H; [destruct H; have_wf t w' | eside ..]
  end.

Lemma einv_all fuel : einv t hook Pay fuel.
Proof.
  induction fuel as [|f IH].
  - unfold einv, ok_e, ok_l; repeat split; intros; discriminate.
  - destruct IH as (IHexpr & IHassign & IHlevels & IHbin & IHslice & IHshort & IHunary & IHcall & IHargs & IHleaf & IHblock & IHdots & IHnames).
    unfold einv, ok_e, ok_l in *. repeat match goal with |- _ /\ _ => split end; intros.
    + rewrite gparse_expr_S in H0. repeat (first [pstep t | use_ih]); efin.
    + rewrite gparse_assign_S in H0. repeat (first [pstep t | use_ih]); efin.
    + rewrite gparse_levels_S in H0. destruct lv; repeat (first [pstep t | use_ih]); efin.
    + rewrite gbinary_loop_S in H1. repeat (first [pstep t | use_ih]); efin.
    + rewrite gparse_slice_S in H0. repeat (first [pstep t | use_ih]); efin.
    + rewrite gparse_short_S in H0. repeat (first [pstep t | use_ih]); efin.
    + rewrite gparse_unary_S in H0. repeat (first [pstep t | use_ih]); efin.
    + rewrite gparse_call_S in H0. repeat (first [pstep t | use_ih]); efin.
    + rewrite gparse_args_S in H1. repeat (first [pstep t | use_ih]); efin.
    + rewrite gparse_leaf_S in H0. repeat (first [pstep t | use_ih]); efin.
    + rewrite gparse_block_S in H1. repeat (first [pstep t | use_ih]); efin.
    + rewrite gparse_var_dots_S in H0. repeat (first [pstep t | use_ih]); efin.
    + rewrite gparse_var_names_S in H0. repeat (first [pstep t | use_ih]); efin.
Qed.

Lemma gparse_expr_ok fuel depth w e w' : wf t w -> gparse_expr hook fuel depth w = POk e w' -> ext w w' /\ PayE Pay e.
Proof. intros Hw H. destruct (einv_all fuel) as (He & _). eapply He; eassumption. Qed.
End ExprInvProof.

(* ================================================================================================ *)
(* E. well-formed nodes; the directive parsers                                                       *)

Ltac fall := repeat first [apply Forall_nil | apply Forall_cons].

Section NodeInv.
Variable t : text.

(* node_ok bd n: every span of the node is valid, and so is everything below it (#if arms, asm blocks inside its
   expressions); bd is the block nesting depth (Walker::block_nesting_depth) at which the node was parsed: an #if node
   exists only below the limit, its true arm lives one level deeper, its false arm at the same level (#elif) or one
   level deeper (#else { .. }); the body of an asm block inside one of its expressions lives one level deeper too *)
Inductive node_ok : nat -> anode -> Prop :=
| node_ok_intro bd n :
    Forall (vspan t) (node_spans n) ->
    (forall e asp body, In e (exprs_of n) -> In (asp, body) (gexpr_payloads e) ->
        vspan t asp /\ (bd < PARSE_DEPTH_MAX)%nat /\ Forall (node_ok (S bd)) body) ->
    (forall sp c tr fl, n = NIf sp c tr fl ->
        (bd < PARSE_DEPTH_MAX)%nat /\ Forall (node_ok (S bd)) tr /\
        (forall fa, fl = Some fa -> Forall (node_ok bd) fa \/ Forall (node_ok (S bd)) fa)) ->
    node_ok bd n.

Section AtDepth.
Variable bd : nat.

Definition PayN (p : span * list anode) : Prop := vspan t (fst p) /\ (bd < PARSE_DEPTH_MAX)%nat /\ Forall (node_ok (S bd)) (snd p).
Definition PE (e : xexpr) : Prop := PayE PayN e.

Lemma node_ok_payloads n : Forall PE (exprs_of n) ->
  forall e asp body, In e (exprs_of n) -> In (asp, body) (gexpr_payloads e) -> vspan t asp /\ (bd < PARSE_DEPTH_MAX)%nat /\ Forall (node_ok (S bd)) body.
Proof.
  intros H e asp body He Hp. rewrite Forall_forall in H. specialize (H e He). unfold PE, PayE in H.
  rewrite Forall_forall in H. exact (H _ Hp).
Qed.

Lemma node_ok_simple n : (forall sp c tr fl, n <> NIf sp c tr fl) -> Forall (vspan t) (node_spans n) -> Forall PE (exprs_of n) -> node_ok bd n.
Proof.
  intros Hn Hs He. constructor; [exact Hs | apply node_ok_payloads; exact He |].
  intros sp c tr fl E. exfalso. eapply Hn. exact E.
Qed.

Lemma node_ok_if sp c tr fl : (bd < PARSE_DEPTH_MAX)%nat -> vspan t sp -> PE c -> Forall (node_ok (S bd)) tr ->
  (forall fa, fl = Some fa -> Forall (node_ok bd) fa \/ Forall (node_ok (S bd)) fa) -> node_ok bd (NIf sp c tr fl).
Proof.
  intros Hb Hs Hc Ht Hf. constructor.
  - cbn [node_spans]. constructor; [exact Hs | constructor].
  - apply node_ok_payloads. cbn [exprs_of]. constructor; [exact Hc | constructor].
  - intros sp' c' tr' fl' E. injection E as <- <- <- <-. split; [exact Hb|]. split; assumption.
Qed.

Definition part_ok (p : apart) : Prop := Forall (vspan t) (part_spans p).
Definition field_ok (x : afield) : Prop := vspan t (snd (fst x)) /\ (forall e, snd x = Some e -> PE e).
Definition rule_ok (r : arule xexpr) : Prop := vospan t (ar_span r) /\ Forall part_ok (ar_parts r) /\ PE (ar_expr r).

Lemma lower_aglued_ok txt : Forall part_ok (lower_aglued txt).
Proof. induction txt; cbn [lower_aglued]; constructor; [constructor | assumption]. Qed.
Lemma lower_aexacts_ok txt : Forall part_ok (lower_aexacts txt).
Proof. destruct txt; cbn [lower_aexacts]; constructor; [constructor | apply lower_aglued_ok]. Qed.

Lemma ospan_list_ok o : vospan t o -> Forall (vspan t) (ospan_list o).
Proof. destruct o; cbn [ospan_list opt_list vospan]; intros; fall; assumption. Qed.

Lemma extract_field_ok name : forall l o r, Forall field_ok l -> extract_field name l = (o, r) ->
  (forall e, field_expr o = Some e -> PE e) /\ Forall field_ok r.
Proof.
  induction l as [|x l IH]; intros o r Hl; cbn [extract_field].
  - intros H. injection H as <- <-. split; [cbn [field_expr]; discriminate | constructor].
  - inversion Hl as [|? ? Hx Hl']; subst.
    destruct (text_eqb (fst (fst x)) name).
    + intros H. injection H as <- <-. split; [|exact Hl'].
      destruct x as [[nm sp] oe]. cbn [field_expr]. intros e ->. apply (proj2 Hx). reflexivity.
    + destruct (extract_field name l) as [o' r'] eqn:E. intros H. injection H as <- <-.
      destruct (IH _ _ Hl' eq_refl) as [A B]. split; [exact A | constructor; assumption].
Qed.

Lemma rules_spans_ok rs : Forall rule_ok rs ->
  Forall (vspan t) (flat_map (fun r : arule xexpr => ospan_list (ar_span r) ++ flat_map part_spans (ar_parts r)) rs).
Proof.
  induction 1 as [|r rs (Hs & Hp & _) _ IH]; cbn [flat_map]; [constructor|].
  apply Forall_app. split; [|exact IH]. apply Forall_app. split; [apply ospan_list_ok; exact Hs|].
  clear -Hp. induction Hp as [|p ps Hp _ IH]; cbn [flat_map]; [constructor|]. apply Forall_app. split; assumption.
Qed.

Lemma rules_exprs_ok rs : Forall rule_ok rs -> Forall PE (map ar_expr rs).
Proof. induction 1 as [|r rs (_ & _ & He) _ IH]; cbn [map]; constructor; assumption. Qed.

(* --- loops without expressions --- *)
Lemma parse_dots_ok : forall fuel w level sp r w', wf t w -> vospan t sp -> parse_dots fuel w level sp = POk r w' ->
  ext w w' /\ vospan t (snd r).
Proof.
  induction fuel as [|f IH]; intros w level sp r w' Hw Hs H; [discriminate|].
  rewrite parse_dots_S in H. repeat pstep t.
  - apply IH in H; [|assumption | apply vospan_join; [assumption | cbn [vospan]; assumption]].
    destruct H. split; [ext_chain | assumption].
  - split; [ext_chain | assumption].
Qed.

Lemma fn_params_ok : forall fuel w acc r w', wf t w -> fn_params fuel w acc = POk r w' -> ext w w'.
Proof.
  induction fuel as [|f IH]; intros w acc r w' Hw H; [discriminate|].
  rewrite fn_params_S in H. repeat pstep t; [apply ext_refl|].
  destruct (xmaybe_expect w0 TComma) as [[w9 t9]|] eqn:E9.
  - apply xmaybe_expect_ext in E9. have_wf t w9. apply IH in H; [ext_chain|assumption].
  - apply IH in H; [ext_chain|assumption].
Qed.

Lemma aparam_ok w p w' : wf t w -> aparam w = POk p w' -> ext w w' /\ part_ok p.
Proof.
  intros Hw H. unfold aparam in H. repeat pstep t; (split; [ext_chain|]); unfold part_ok; cbn [part_spans ospan_list opt_list];
    fall; auto.
Qed.

Lemma apattern_ok : forall fuel is_sub w sp pat r w', wf t w -> vospan t sp -> Forall part_ok pat ->
  apattern fuel is_sub w sp pat = POk r w' -> ext w w' /\ vospan t (fst (fst r)) /\ Forall part_ok (snd (fst r)).
Proof.
  induction fuel as [|f IH]; intros is_sub w sp pat r w' Hw Hs Hp H; [discriminate|].
  rewrite apattern_S in H.
  destruct (xover w || xnext_useful_is w THeavyArrowRight).
  { injection H as <- <-. cbn [fst snd]. split; [apply ext_refl|]. split; [assumption | apply Forall_rev; assumption]. }
  destruct (xtoken w) as [k n] eqn:Et.
  pose proof (tok_span t w k n Hw Et) as Hts. apply xtoken_ext in Et. destruct Et as [Et _].
  assert (wf t (advance w n)) as Hw1 by (eapply wf_ext; eassumption).
  assert (vospan t (join sp (Some (cur w, cur w + n)))) as Hs1 by (apply vospan_join; [assumption | exact Hts]).
  cbv zeta in H.
  destruct (tkind_eqb k TBraceOpen).
  - assert (Hgen : (do (par, w0) <- aparam (advance w n); do (c, w1) <- xexpect_sp w0 TBraceClose;
                     apattern f is_sub w1 (join (join sp (Some (cur w, cur w + n))) (Some (fst c))) (par :: pat)) = POk r w' ->
                    ext w w' /\ vospan t (fst (fst r)) /\ Forall part_ok (snd (fst r))).
    { clear H. intros G. repeat pstep t. apply aparam_ok in Hm; [|assumption]. destruct Hm as [Hm Hpar]. have_wf t w0.
      repeat pstep t. apply IH in G; [| assumption | apply vospan_join; [assumption | cbn [vospan]; assumption] | constructor; assumption].
      destruct G as (G1 & G2). split; [ext_chain | assumption]. }
    destruct (match pat with [] => is_sub | _ :: _ => false end).
    + destruct (xmaybe_expect (advance w n) TBraceClose) as [[w2 t2]|] eqn:E; [|apply Hgen; exact H].
      injection H as <- <-. cbn [fst snd]. apply xmaybe_expect_ext in E.
      split; [ext_chain|]. split; [assumption | apply Forall_rev; assumption].
    + apply Hgen. destruct (xmaybe_expect (advance w n) TBraceClose) as [[w2 t2]|]; exact H.
  - destruct (is_allowed_pattern_token k).
    + apply IH in H; [| assumption | assumption | apply Forall_app; split; [apply Forall_rev; apply lower_aexacts_ok | assumption]].
      destruct H as (G1 & G2). split; [ext_chain | assumption].
    + destruct (tkind_eqb k TWhitespace); [|discriminate].
      apply IH in H; [| assumption | assumption | constructor; [constructor | assumption]].
      destruct H as (G1 & G2). split; [ext_chain | assumption].
Qed.

(* --- directives with expressions, under the hypothesis on the asm hook --- *)
Section Dir.
Variable hook : nat -> walker -> pres (span * list anode).
Variable f : nat.
Variable ed : nat.
Hypothesis Hhook : forall d w r w', wf t w -> hook d w = POk r w' -> ext w w' /\ PayN r.

Lemma pexpr_ok w e w' : wf t w -> pexpr hook f ed w = POk e w' -> ext w w' /\ PE e.
Proof. intros Hw H. unfold pexpr in H. eapply gparse_expr_ok; eassumption. Qed.

Ltac use_pexpr :=
  match goal with
  | H : pexpr hook f ed ?w = POk _ ?w' |- _ => apply pexpr_ok in H; [destruct H; have_wf t w' | assumption]
  end.

Ltac simple_node :=
  split; [ext_chain|];
  apply node_ok_simple;
  [ intros; discriminate
  | cbn [node_spans ospan_list opt_list]; fall; auto using vspan_join_s
  | cbn [exprs_of]; fall; auto ].

Lemma parse_symbol_ok w n w' : wf t w -> parse_symbol hook f ed w = POk n w' -> ext w w' /\ node_ok bd n.
Proof.
  intros Hw H. unfold parse_symbol in H. repeat pstep t.
  apply parse_dots_ok in Hm; [|assumption | exact I]. destruct Hm as [Hm Hsp]. have_wf t w0.
  repeat (first [pstep t | use_pexpr]).
  - split; [ext_chain|]. apply node_ok_simple; [intros; discriminate | | cbn [exprs_of]; fall; auto].
    cbn [node_spans]. apply ospan_list_ok. apply vospan_join; [assumption | cbn [vospan]; assumption].
  - split; [ext_chain|]. apply node_ok_simple; [intros; discriminate | | constructor].
    cbn [node_spans]. apply ospan_list_ok. repeat apply vospan_join; try assumption; cbn [vospan]; assumption.
Qed.

Lemma parse_const_ok w n w' : wf t w -> parse_const hook f ed w = POk n w' -> ext w w' /\ node_ok bd n.
Proof.
  intros Hw H. unfold parse_const in H. repeat pstep t.
  all: apply parse_dots_ok in Hm0; [|assumption | exact I]; destruct Hm0 as [Hm0 Hsp]; have_wf t w1;
       repeat (first [pstep t | use_pexpr]);
       (split; [ext_chain|]); (apply node_ok_simple; [intros; discriminate | | cbn [exprs_of]; fall; auto]);
       cbn [node_spans]; apply ospan_list_ok; apply vospan_join; [assumption | cbn [vospan]; assumption].
Qed.

Lemma data_elems_ok : forall fuel w acc r w', wf t w -> Forall PE acc -> data_elems hook f ed fuel w acc = POk r w' ->
  ext w w' /\ Forall PE r.
Proof.
  induction fuel as [|g IH]; intros w acc r w' Hw Ha H; [discriminate|].
  rewrite data_elems_S in H. repeat (first [pstep t | use_pexpr]).
  - split; [ext_chain|]. apply Forall_app. split; [apply Forall_rev; assumption | fall; assumption].
  - apply IH in H; [| assumption | constructor; assumption]. destruct H. split; [ext_chain | assumption].
  - split; [ext_chain|]. apply Forall_app. split; [apply Forall_rev; assumption | fall; assumption].
Qed.

Lemma parse_fields_ok : forall fuel w acc r w', wf t w -> Forall field_ok acc -> parse_fields hook f ed fuel w acc = POk r w' ->
  ext w w' /\ Forall field_ok r.
Proof.
  induction fuel as [|g IH]; intros w acc r w' Hw Ha H; [discriminate|].
  rewrite parse_fields_S in H.
  destruct (xnext_useful_is w TBraceClose).
  { injection H as <- <-. split; [apply ext_refl | apply Forall_rev; assumption]. }
  assert (exists w1 hash, (match xmaybe_expect w THash with Some (w', _) => (w', true) | None => (w, false) end) = (w1, hash) /\ ext w w1) as (w1 & hash & Eq & E1).
  { destruct (xmaybe_expect w THash) as [[w9 t9]|] eqn:E9; eexists; eexists; (split; [reflexivity|]).
    - eapply xmaybe_expect_ext; eassumption.
    - apply ext_refl. }
  rewrite Eq in H. clear Eq. have_wf t w1. repeat (first [pstep t | use_pexpr]).
  all: assert (Hfo : forall oe, (forall e, oe = Some e -> PE e) -> field_ok (snd a, fst a, oe))
         by (intros oe Hoe; split; cbn [fst snd]; assumption).
  all: first
    [ apply IH in H;
      [ destruct H; split; [ext_chain | assumption]
      | assumption
      | constructor; [apply Hfo; intros ? Eoe; first [discriminate Eoe | injection Eoe as <-; assumption] | assumption] ]
    | split; [ext_chain|]; apply Forall_app; split; [apply Forall_rev; assumption|];
      constructor; [apply Hfo; intros ? Eoe; first [discriminate Eoe | injection Eoe as <-; assumption] | constructor] ].
Qed.

Lemma parse_bankdef_ok header w n w' : vspan t header -> wf t w -> parse_bankdef hook f ed header w = POk n w' -> ext w w' /\ node_ok bd n.
Proof.
  intros Hh Hw H. unfold parse_bankdef in H.
  apply bind_ok' in H. destruct H as (nm & wa & Hma & H). cbv beta in H.
  apply bind_ok' in H. destruct H as (b0 & wb & Hmb & H). cbv beta in H.
  apply bind_ok' in H. destruct H as (a1 & w1 & Hm1 & H). cbv beta in H.
  revert H. repeat pstep t.
  apply parse_fields_ok in Hm1; [|assumption|constructor]. destruct Hm1 as [Hm1 Hfl]. have_wf t w1.
  destruct (extract_field nm_bits a1) as [o1 l1] eqn:X1. destruct (extract_field_ok _ _ _ _ Hfl X1) as [P1 L1].
  destruct (extract_field nm_labelalign l1) as [o2 l2] eqn:X2. destruct (extract_field_ok _ _ _ _ L1 X2) as [P2 L2].
  destruct (extract_field nm_addr l2) as [o3 l3] eqn:X3. destruct (extract_field_ok _ _ _ _ L2 X3) as [P3 L3].
  destruct (extract_field nm_addr_end l3) as [o4 l4] eqn:X4. destruct (extract_field_ok _ _ _ _ L3 X4) as [P4 L4].
  destruct (extract_field nm_size l4) as [o5 l5] eqn:X5. destruct (extract_field_ok _ _ _ _ L4 X5) as [P5 L5].
  destruct (extract_field nm_outp l5) as [o6 l6] eqn:X6. destruct (extract_field_ok _ _ _ _ L5 X6) as [P6 L6].
  destruct (extract_field nm_fill l6) as [o7 l7] eqn:X7.
  intros HH. destruct l7; [|discriminate]. repeat pstep t.
  split; [ext_chain|]. apply node_ok_simple; [intros; discriminate | cbn [node_spans]; fall; auto |].
  cbn [exprs_of bf_bits bf_labelalign bf_addr bf_addr_end bf_size bf_outp].
  repeat (apply Forall_app; split);
    match goal with |- Forall PE (opt_list (field_expr ?o)) => destruct (field_expr o) eqn:?; cbn [opt_list]; fall; auto end.
Qed.

Lemma parse_fn_ok header w n w' : vspan t header -> wf t w -> parse_fn hook f ed header w = POk n w' -> ext w w' /\ node_ok bd n.
Proof.
  intros Hh Hw H. unfold parse_fn in H. repeat pstep t.
  apply fn_params_ok in Hm1; [|assumption]. have_wf t w2.
  repeat (first [pstep t | use_pexpr]). simple_node.
Qed.

Lemma parse_arule_ok is_sub w r w' : wf t w -> parse_arule hook f ed is_sub w = POk r w' -> ext w w' /\ rule_ok r.
Proof.
  intros Hw H. unfold parse_arule in H. cbv zeta in H.
  pose proof (xskip_ext w) as E0. have_wf t (xskip w).
  apply bind_ok' in H. destruct H as (p & w0 & Hm & H). cbv beta in H.
  apply apattern_ok in Hm; [|assumption | exact I | constructor]. destruct Hm as (Hm & Hsp & Hparts). have_wf t w0.
  destruct p as [[sp parts] es]. cbn [fst snd] in *. cbv beta iota in H. repeat pstep t.
  all: repeat (first [pstep t | use_pexpr]); (split; [ext_chain|]); unfold rule_ok; cbn [ar_span ar_parts ar_expr]; auto.
Qed.

Lemma parse_arules_ok : forall fuel is_sub w acc r w', wf t w -> Forall rule_ok acc -> parse_arules hook f ed fuel is_sub w acc = POk r w' ->
  ext w w' /\ Forall rule_ok r.
Proof.
  induction fuel as [|g IH]; intros is_sub w acc r w' Hw Ha H; [discriminate|].
  rewrite parse_arules_S in H. repeat pstep t.
  - split; [apply ext_refl | apply Forall_rev; assumption].
  - apply parse_arule_ok in Hm; [|assumption]. destruct Hm as [Hm Hr]. have_wf t w0. repeat pstep t.
    apply IH in H; [| assumption | constructor; assumption]. destruct H. split; [ext_chain | assumption].
Qed.

Lemma parse_ruledef_ok is_sub header w n w' : vspan t header -> wf t w -> parse_ruledef hook f ed is_sub header w = POk n w' -> ext w w' /\ node_ok bd n.
Proof.
  intros Hh Hw H. unfold parse_ruledef in H.
  assert (exists w1 name nsp, (match xmaybe_expect_sp w TIdentifier with Some (w', s, t0) => (w', Some t0, s) | None => (w, None, header) end) = (w1, name, nsp)
          /\ ext w w1 /\ vspan t nsp) as (w1 & name & nsp & Eq & E1 & Hn).
  { destruct (xmaybe_expect_sp w TIdentifier) as [[[w9 s9] t9]|] eqn:E9; eexists; eexists; eexists; (split; [reflexivity|]).
    - eapply xmaybe_expect_sp_ext; eassumption.
    - split; [apply ext_refl | assumption]. }
  rewrite Eq in H. clear Eq. have_wf t w1. repeat pstep t.
  apply parse_arules_ok in Hm0; [|assumption|constructor]. destruct Hm0 as [Hm0 Hrs]. have_wf t w2. repeat pstep t.
  split; [ext_chain|]. apply node_ok_simple; [intros; discriminate | |].
  - cbn [node_spans]. constructor; [assumption|]. constructor; [assumption|]. apply rules_spans_ok. assumption.
  - cbn [exprs_of]. apply rules_exprs_ok. assumption.
Qed.

Lemma parse_directive_ok k header w n w' : vspan t header -> wf t w -> parse_directive hook f ed k header w = POk n w' -> ext w w' /\ node_ok bd n.
Proof.
  intros Hh Hw H. destruct k; cbn [parse_directive] in H; try discriminate.
  - (* DData *) repeat pstep t. apply data_elems_ok in Hm; [|assumption|constructor]. destruct Hm. have_wf t w0. repeat pstep t.
    split; [ext_chain|]. apply node_ok_simple; [intros; discriminate | cbn [node_spans]; fall; auto | cbn [exprs_of]; assumption].
  - (* DAddr *) unfold expr_directive in H; repeat (first [pstep t | use_pexpr]); simple_node.
  - (* DAlign *) unfold expr_directive in H; repeat (first [pstep t | use_pexpr]); simple_node.
  - (* DBank *) repeat pstep t. simple_node.
  - (* DBankdef *) eapply parse_bankdef_ok; eassumption.
  - (* DConst *) eapply parse_const_ok; eassumption.
  - (* DFn *) eapply parse_fn_ok; eassumption.
  - (* DInclude *) repeat pstep t. simple_node.
  - (* DOnce *) repeat pstep t. simple_node.
  - (* DRes *) unfold expr_directive in H; repeat (first [pstep t | use_pexpr]); simple_node.
  - (* DRuledef *) eapply parse_ruledef_ok; eassumption.
  - (* DSubruledef *) eapply parse_ruledef_ok; eassumption.
  - (* DAssert *) unfold expr_directive in H; repeat (first [pstep t | use_pexpr]); simple_node.
Qed.
End Dir.
End AtDepth.
End NodeInv.

(* ================================================================================================ *)
(* F. instructions, and the recursive knot (lines, #if blocks, asm blocks)                           *)

Lemma until_lb_cons ch r c skip e nest : until_lb (ch :: r) c skip e nest =
    if skip =? 0 then
      let '(k, n) := decide_next_token (ch :: r) in
      if tkind_eqb k TLineBreak && Nat.eqb nest 0 then (e, ch :: r, c) else
      match (if tkind_eqb k TBraceOpen then Some (S nest)
             else if tkind_eqb k TBraceClose then match nest with O => None | S m => Some m end
             else Some nest) with
      | None => (e, ch :: r, c)
      | Some nest' => until_lb r (c + utf8_len ch) (n - utf8_len ch) (if is_ignorable k then e else c + n) nest'
      end
    else until_lb r (c + utf8_len ch) (skip - utf8_len ch) e nest.
Proof. reflexivity. Qed.

Lemma until_lb_ok : forall tl c skip e nest e' t' c', skip_ok tl skip -> until_lb tl c skip e nest = (e', t', c') ->
  (exists mid, tl = mid ++ t' /\ c' = c + bytes_len mid) /\ (e' = e \/ exists m1 m2, tl = m1 ++ m2 /\ e' = c + bytes_len m1).
Proof.
  induction tl as [|ch r IH]; intros c skip e nest e' t' c' Hs.
  - cbn [until_lb]. intros H. assert (e' = e) by congruence. assert (t' = []) by congruence. assert (c' = c) by congruence. subst.
    split; [exists []; split; [reflexivity | cbn [bytes_len]; lia] | left; reflexivity].
  - rewrite until_lb_cons.
    assert (Hstop : (e, ch :: r, c) = (e', t', c') ->
       (exists mid, ch :: r = mid ++ t' /\ c' = c + bytes_len mid) /\ (e' = e \/ exists m1 m2, ch :: r = m1 ++ m2 /\ e' = c + bytes_len m1)).
    { intros H. assert (e' = e) by congruence. assert (t' = ch :: r) by congruence. assert (c' = c) by congruence. subst.
      split; [exists []; split; [reflexivity | cbn [bytes_len]; lia] | left; reflexivity]. }
    assert (Hrec : forall skip' e1 nest', skip_ok r skip' -> (e1 = e \/ exists m1 m2, ch :: r = m1 ++ m2 /\ e1 = c + bytes_len m1) ->
       until_lb r (c + utf8_len ch) skip' e1 nest' = (e', t', c') ->
       (exists mid, ch :: r = mid ++ t' /\ c' = c + bytes_len mid) /\ (e' = e \/ exists m1 m2, ch :: r = m1 ++ m2 /\ e' = c + bytes_len m1)).
    { intros skip' e1 nest' Hs' He1 H. apply IH in H; [|exact Hs']. destruct H as ((mid & -> & ->) & He').
      split; [exists (ch :: mid); split; [reflexivity | cbn [bytes_len]; lia]|].
      destruct He' as [->|(m1 & m2 & -> & ->)]; [exact He1|].
      right. exists (ch :: m1), m2. split; [reflexivity | cbn [bytes_len]; lia]. }
    destruct (skip =? 0) eqn:Ez.
    + destruct (decide_next_token (ch :: r)) as [k n] eqn:Et.
      destruct (tkind_eqb k TLineBreak && Nat.eqb nest 0); [exact Hstop|].
      assert (Hen : (if is_ignorable k then e else c + n) = e \/ exists m1 m2, ch :: r = m1 ++ m2 /\ (if is_ignorable k then e else c + n) = c + bytes_len m1).
      { destruct (is_ignorable k); [left; reflexivity|]. right.
        destruct (decide_next_token_prefix (ch :: r) k n ltac:(discriminate) Et) as (p & s & E & -> & _). exists p, s. split; [exact E | reflexivity]. }
      destruct (tkind_eqb k TBraceOpen); [apply Hrec; [eapply skip_ok_tok; eassumption | exact Hen]|].
      destruct (tkind_eqb k TBraceClose); [destruct nest; [exact Hstop|]|]; (apply Hrec; [eapply skip_ok_tok; eassumption | exact Hen]).
    + apply Hrec; [eapply skip_ok_step; eassumption | left; reflexivity].
Qed.

Lemma closing_brace_prefix : forall tl nest, exists p s, tl = p ++ s /\ closing_brace_len tl nest = bytes_len p.
Proof.
  induction tl as [|c r IH]; intros nest; [exists [], []; split; reflexivity|].
  cbn [closing_brace_len].
  assert (Hk : forall m, exists p s, c :: r = p ++ s /\ utf8_len c + closing_brace_len r m = bytes_len p).
  { intros m. destruct (IH m) as (p & s & -> & ->). exists (c :: p), s. split; reflexivity. }
  destruct (c =? 123); [apply Hk|]. destruct (c =? 125); [|apply Hk].
  destruct nest; [exists [], (c :: r); split; reflexivity | apply Hk].
Qed.

Section Knot.
Variable t : text.

Lemma parse_instruction_ok bd w n w' : wf t w -> parse_instruction w = POk n w' -> ext w w' /\ node_ok t bd n.
Proof.
  intros Hw H. unfold parse_instruction in H. cbv zeta in H.
  pose proof (xskip_ext w) as E0. have_wf t (xskip w). set (w1 := xskip w) in *.
  destruct (until_lb (tail w1) (cur w1) 0 (cur w1) 0) as [[e t'] c'] eqn:U.
  apply until_lb_ok in U; [|apply skip_ok_0]. destruct U as ((mid & T & C) & He).
  assert (ext w1 {| tail := t'; cur := c'; lim := lim w1 |}) as E1 by (eapply mk_ext; eassumption).
  have_wf t {| tail := t'; cur := c'; lim := lim w1 |}.
  repeat pstep t. split; [ext_chain|].
  apply node_ok_simple; [intros; discriminate | | constructor].
  cbn [node_spans]. fall.
  destruct He as [->|(m1 & m2 & T1 & ->)].
  - apply vspan_intro; [apply wf_boundary; assumption | apply wf_boundary; assumption | lia].
  - apply vspan_intro; [apply wf_boundary; assumption | eapply wf_boundary_in; eassumption | lia].
Qed.

Definition kinv (fuel : nat) : Prop :=
  (forall bd ed nested w acc r w', wf t w -> Forall (node_ok t bd) acc -> parse_lines_d fuel bd ed nested w acc = POk r w' -> ext w w' /\ Forall (node_ok t bd) r) /\
  (forall bd ed w r w', wf t w -> parse_line_d fuel bd ed w = POk r w' -> ext w w' /\ (forall n, r = Some n -> node_ok t bd n)) /\
  (forall bd ed header w r w', vspan t header -> wf t w -> parse_if_d fuel bd ed header w = POk r w' -> ext w w' /\ node_ok t bd r) /\
  (forall bd ed w r w', wf t w -> parse_braced_d fuel bd ed w = POk r w' -> ext w w' /\ (bd < PARSE_DEPTH_MAX)%nat /\ Forall (node_ok t (S bd)) r) /\
  (forall bd ed w r w', wf t w -> parse_else_d fuel bd ed w = POk r w' ->
      ext w w' /\ (forall fa, r = Some fa -> Forall (node_ok t bd) fa \/ Forall (node_ok t (S bd)) fa)) /\
  (forall bd d w r w', wf t w -> asm_hook fuel bd d w = POk r w' -> ext w w' /\ PayN t bd r).

Lemma kinv_all fuel : kinv fuel.
Proof.
  induction fuel as [|f IH].
  - unfold kinv. repeat split; intros; discriminate.
  - destruct IH as (IHlines & IHline & IHif & IHbraced & IHelse & IHhook).
    assert (Hhk : forall bd d w r w', wf t w -> asm_hook f bd d w = POk r w' -> ext w w' /\ PayN t bd r) by exact IHhook.
    unfold kinv. repeat match goal with |- _ /\ _ => split end.
    + (* parse_lines *)
      intros bd ed nested w acc r w' Hw Ha H. rewrite parse_lines_d_S in H. repeat pstep t.
      all: try (split; [apply ext_refl | apply Forall_rev; assumption]).
      all: apply IHline in Hm; [|assumption]; destruct Hm as [Hm Hn]; have_wf t w0;
           (apply IHlines in H; [destruct H; split; [ext_chain | assumption] | assumption |]);
           (destruct a; [constructor; [apply Hn; reflexivity | assumption] | assumption]).
    + (* parse_line *)
      intros bd ed w r w' Hw H. rewrite parse_line_d_S in H.
      destruct (xnext_useful_is w THash).
      * repeat pstep t.
        assert (vspan t (join_s (fst a) (fst a0))) as Hh by (apply vspan_join_s; assumption).
        destruct (classify (map to_lower (snd a0))) eqn:K;
          try (repeat pstep t; eapply parse_directive_ok in Hm1; [| apply Hhk | exact Hh | assumption];
               destruct Hm1; split; [ext_chain | intros n0 E9; injection E9 as <-; assumption]).
        repeat pstep t. apply IHif in Hm1; [| exact Hh | assumption].
        destruct Hm1; split; [ext_chain | intros n0 E9; injection E9 as <-; assumption].
      * destruct ((xnext_useful_is w TIdentifier && (xnext_useful_is1 w TColon || xnext_useful_is1 w TEqual)) || xnext_useful_is w TDot).
        -- repeat pstep t. eapply parse_symbol_ok in Hm; [| apply Hhk | assumption].
           destruct Hm; split; [ext_chain | intros n0 E9; injection E9 as <-; assumption].
        -- repeat pstep t.
           ++ split; [ext_chain | intros n0 E9; discriminate].
           ++ apply (parse_instruction_ok bd) in Hm; [|assumption].
              destruct Hm; split; [ext_chain | intros n0 E9; injection E9 as <-; assumption].
    + (* parse_if *)
      intros bd ed header w r w' Hh Hw H. rewrite parse_if_d_S in H. repeat pstep t.
      eapply gparse_expr_ok in Hm; [| apply Hhk | assumption]. destruct Hm as [Hm Hc]. have_wf t w0.
      apply IHbraced in Hm0; [|assumption]. destruct Hm0 as (Hm0 & Hb & Ht). have_wf t w1.
      apply IHelse in Hm1; [|assumption]. destruct Hm1 as [Hm1 He].
      split; [ext_chain|]. apply node_ok_if; assumption.
    + (* parse_braced *)
      intros bd ed w r w' Hw H. rewrite parse_braced_d_S in H. repeat pstep t.
      apply IHlines in Hm0; [|assumption|constructor]. destruct Hm0 as [Hm0 Hns]. have_wf t w1.
      repeat pstep t. split; [ext_chain|]. split; [|assumption].
      match goal with Hx : (PARSE_DEPTH_MAX <=? bd)%nat = false |- _ => apply Nat.leb_gt in Hx; exact Hx end.
    + (* parse_else *)
      intros bd ed w r w' Hw H. rewrite parse_else_d_S in H. repeat pstep t.
      * split; [apply ext_refl | intros fa E9; discriminate].
      * apply IHbraced in Hm1; [|assumption]. destruct Hm1 as (? & ? & ?). split; [ext_chain | intros fa E9; injection E9 as <-; right; assumption].
      * apply IHif in Hm1; [| apply vspan_join_s; assumption | assumption]. destruct Hm1.
        split; [ext_chain | intros fa E9; injection E9 as <-; left; constructor; [assumption | constructor]].
      * split; [apply ext_refl | intros fa E9; discriminate].
    + (* asm_hook *)
      intros bd d w r w' Hw H. rewrite asm_hook_S in H.
      apply bind_ok' in H. destruct H as (a & wa & Hma & H). cbv beta in H.
      apply bind_ok' in H. destruct H as (b0 & w1 & Hmb & H). cbv beta zeta in H.
      revert H. repeat pstep t. intros HH.
      destruct (PARSE_DEPTH_MAX <=? bd)%nat eqn:Hbd; [discriminate|]. apply Nat.leb_gt in Hbd.
      destruct (closing_brace_prefix (tail w1) 0) as (p & s & Tp & Np). rewrite Np in HH.
      set (inner := {| tail := take_bytes (bytes_len p) (tail w1); cur := cur w1; lim := cur w1 + bytes_len p |}) in HH.
      assert (wf t inner) as Hin.
      { match goal with Hx : wf t w1 |- _ => destruct Hx as (pre & post & Ht & Hc & Hl) end. exists pre, (s ++ post). unfold inner. cbn [tail cur lim].
        rewrite Tp, take_blen_app. repeat split; [rewrite Ht, Tp, <- !app_assoc; reflexivity | exact Hc]. }
      destruct (parse_lines_d f (S bd) d true inner []) as [ns wi| |] eqn:PL; try discriminate.
      apply IHlines in PL; [|assumption|constructor]. destruct PL as [_ Hns].
      pose proof (advance_ext w1 p s Tp) as Ea. have_wf t (advance w1 (bytes_len p)).
      revert HH. intros H9. repeat pstep t. split; [ext_chain|]. split; cbn [fst snd]; [apply vspan_join_s; assumption | split; assumption].
Qed.

Theorem parse_file_ok nodes w : parse_file t = POk nodes w -> Forall (node_ok t 0) nodes.
Proof.
  intros H. unfold parse_file, parse_lines in H. destruct (kinv_all (file_fuel t)) as (Hl & _).
  apply Hl in H; [tauto | apply wf_start | constructor].
Qed.

(* node_ok goes down to every sub-node *)
Lemma node_ok_sub m n : sub m n -> forall bd, node_ok t bd n -> exists bd', node_ok t bd' m.
Proof.
  induction 1 as [n | m n sp c tr fl Hin Hs IH | m n sp c tr fl Hin Hs IH | m n p e asp body He Hp Hin Hs IH]; intros bd Hok.
  - exists bd. exact Hok.
  - inversion Hok as [? ? _ _ Hif]; subst. destruct (Hif _ _ _ _ eq_refl) as (_ & Ht & _).
    rewrite Forall_forall in Ht. eapply IH. apply Ht. exact Hin.
  - inversion Hok as [? ? _ _ Hif]; subst. destruct (Hif _ _ _ _ eq_refl) as (_ & _ & Hf).
    destruct (Hf _ eq_refl) as [Hf'|Hf']; rewrite Forall_forall in Hf'; eapply IH; apply Hf'; exact Hin.
  - inversion Hok as [? ? _ Hpay _]; subst. destruct (Hpay _ _ _ He Hp) as (_ & _ & Hb).
    rewrite Forall_forall in Hb. eapply IH. apply Hb. exact Hin.
Qed.
End Knot.

(* ================================================================================================ *)
(* G. the theorems                                                                                   *)

(* every span of every node, at any nesting depth (#if arms, asm blocks inside expressions), is valid *)
Theorem C13_spans_valid : forall t nodes w n m sp,
  parse_file t = POk nodes w -> In n nodes -> sub m n -> In sp (node_spans m) ->
  fst sp <= snd sp /\ snd sp <= bytes_len t /\ on_boundary t (fst sp) /\ on_boundary t (snd sp).
Proof.
  intros t nodes w n m sp H Hn Hs Hsp. apply parse_file_ok in H. rewrite Forall_forall in H.
  destruct (node_ok_sub t m n Hs 0%nat (H n Hn)) as (bd' & Hm). inversion Hm as [? ? Hspans _ _]; subst.
  rewrite Forall_forall in Hspans. exact (Hspans sp Hsp).
Qed.

(* AstAny::span() of every node *)
Corollary C13_node_span_valid : forall t nodes w n m sp,
  parse_file t = POk nodes w -> In n nodes -> sub m n -> node_span m = Some sp -> vspan t sp.
Proof.
  intros t nodes w n m sp H Hn Hs E. eapply C13_spans_valid; try eassumption.
  destruct m; cbn [node_span] in E; cbn [node_spans ospan_list opt_list]; try (injection E as <-; left; reflexivity);
    destruct sp0; try discriminate; injection E as <-; left; reflexivity.
Qed.

(* the span of every asm block inside an expression of any node *)
Theorem C13_asm_spans_valid : forall t nodes w n m e asp body,
  parse_file t = POk nodes w -> In n nodes -> sub m n -> In e (exprs_of m) -> In (asp, body) (gexpr_payloads e) -> vspan t asp.
Proof.
  intros t nodes w n m e asp body H Hn Hs He Hp. apply parse_file_ok in H. rewrite Forall_forall in H.
  destruct (node_ok_sub t m n Hs 0%nat (H n Hn)) as (bd' & Hm). inversion Hm as [? ? _ Hpay _]; subst.
  exact (proj1 (Hpay _ _ _ He Hp)).
Qed.

(* ================================================================================================ *)
(* H. C19: the block-nesting counter                                                                 *)

(* the guards transcribed from directive_if.rs::parse_braced_block and expr/parser.rs::parse_asm (one shared counter)
   and from ExpressionParser::check_recursion_limit: at or above the limit the block / expression is refused *)
Theorem C19_block_guard_d : forall fuel bd ed w, (PARSE_DEPTH_MAX <= bd)%nat ->
  parse_braced_d fuel bd ed w = PErr \/ parse_braced_d fuel bd ed w = PFuel.
Proof.
  intros fuel bd ed w Hb. destruct fuel as [|f]; [right; reflexivity|].
  rewrite parse_braced_d_S. destruct (xexpect w TBraceOpen) as [x w1| |]; cbn [bind]; [|left; reflexivity|right; reflexivity].
  apply Nat.leb_le in Hb. rewrite Hb. left. reflexivity.
Qed.
Theorem C19_block_guard : forall fuel bd w, (PARSE_DEPTH_MAX <= bd)%nat ->
  parse_braced fuel bd w = PErr \/ parse_braced fuel bd w = PFuel.
Proof. intros. unfold parse_braced. apply C19_block_guard_d. assumption. Qed.

Theorem C19_asm_guard : forall fuel bd d w, (PARSE_DEPTH_MAX <= bd)%nat ->
  asm_hook fuel bd d w = PErr \/ asm_hook fuel bd d w = PFuel.
Proof.
  intros fuel bd d w Hb. destruct fuel as [|f]; [right; reflexivity|].
  rewrite asm_hook_S. destruct (xexpect_sp w TKeywordAsm) as [x w1| |]; cbn [bind]; [|left; reflexivity|right; reflexivity].
  destruct (xexpect w1 TBraceOpen) as [y w2| |]; cbn [bind]; [|left; reflexivity|right; reflexivity].
  cbv zeta. apply Nat.leb_le in Hb. rewrite Hb. left. reflexivity.
Qed.

(* an expression (and so everything inside it, asm bodies included: they start from the depth of their leaf) is refused
   when the cumulative expression depth it starts from has reached the limit *)
Theorem C19_expr_guard : forall A (hook : nat -> walker -> pres (span * A)) fuel d w, (PARSE_DEPTH_MAX <= d)%nat ->
  gparse_expr hook fuel d w = PErr \/ gparse_expr hook fuel d w = PFuel.
Proof.
  intros A hook fuel d w Hd. destruct fuel as [|f]; [right; reflexivity|].
  rewrite gparse_expr_S. cbv zeta. assert ((PARSE_DEPTH_MAX <? S d)%nat = true) as -> by (apply Nat.ltb_lt; lia).
  left. reflexivity.
Qed.

Lemma depth_bound t : forall k l, nest_ge k l -> forall bd, Forall (node_ok t bd) l -> k = 0%nat \/ (bd + k <= PARSE_DEPTH_MAX)%nat.
Proof.
  induction 1 as [l | k sp c tr fl l Hin Hn IH | k sp c tr fa l Hin Hn IH | k n e asp body l Hin He Hp Hn IH | k n e asp body l Hin He Hp Hn IH]; intros bd Hl.
  - left. reflexivity.
  - right. rewrite Forall_forall in Hl. specialize (Hl _ Hin). inversion Hl as [? ? _ _ Hif]; subst.
    destruct (Hif _ _ _ _ eq_refl) as (Hb & Ht & _). destruct (IH _ Ht) as [->|Hk]; lia.
  - rewrite Forall_forall in Hl. specialize (Hl _ Hin). inversion Hl as [? ? _ _ Hif]; subst.
    destruct (Hif _ _ _ _ eq_refl) as (Hb & _ & Hf). destruct (Hf _ eq_refl) as [Hf'|Hf']; destruct (IH _ Hf') as [->|Hk]; auto; right; lia.
  - rewrite Forall_forall in Hl. specialize (Hl _ Hin). inversion Hl as [? ? _ Hpay _]; subst.
    destruct (Hpay _ _ _ He Hp) as (_ & Hb & Hbody). destruct (IH _ Hbody) as [->|Hk]; auto; right; lia.
  - right. rewrite Forall_forall in Hl. specialize (Hl _ Hin). inversion Hl as [? ? _ Hpay _]; subst.
    destruct (Hpay _ _ _ He Hp) as (_ & Hb & Hbody). destruct (IH _ Hbody) as [->|Hk]; lia.
Qed.

(* no accepted text contains more than PARSE_DEPTH_MAX nested blocks, #if arms and asm blocks counted together, also
   across #else/#elif arms *)
Theorem C19_block_depth : forall t nodes w k, parse_file t = POk nodes w -> nest_ge k nodes -> (k <= PARSE_DEPTH_MAX)%nat.
Proof.
  intros t nodes w k H Hn. apply parse_file_ok in H. destruct (depth_bound t k nodes Hn 0%nat H) as [->|Hk]; lia.
Qed.

(* ---------- table obligations and non-vacuity ---------- *)
From CA Require Gen.Generated.
Lemma limits_match_source :
  Z.of_N BIGINT_MAX_BITS = Generated.BIGINT_MAX_BITS /\ Z.of_nat PARSE_DEPTH_MAX = Generated.PARSE_RECURSION_DEPTH_MAX.
Proof. split; reflexivity. Qed.

Fixpoint rep {X} (n : nat) (l : list X) : list X := match n with O => [] | S k => l ++ rep k l end.
(* "#if 1\n{\n" ^ k ++ "}\n" ^ k *)
Definition if_nest (k : nat) : text := rep k [35;105;102;32;49;10;123;10] ++ rep k [125;10].
(* "x=asm{\n" ^ k ++ "}\n" ^ k *)
Definition asm_nest (k : nat) : text := rep k [120;61;97;115;109;123;10] ++ rep k [125;10].
(* "#if a\n{\n}\n" ++ "#elif a\n{\n}\n" ^ k *)
Definition elif_chain (k : nat) : text := [35;105;102;32;97;10;123;10;125;10] ++ rep k [35;101;108;105;102;32;97;10;123;10;125;10].
Definition accepted (r : pres (list anode)) : bool := match r with POk _ _ => true | _ => false end.
Definition rejected (r : pres (list anode)) : bool := match r with PErr => true | _ => false end.

(* exactly the limit is accepted, one more is rejected *)
Example C19_block_depth_nonvacuous :
  accepted (parse_file (if_nest 50)) = true /\ rejected (parse_file (if_nest 51)) = true.
Proof. split; vm_compute; reflexivity. Qed.

(* asm blocks share the counter: exactly the limit is accepted, one more is rejected; alternating #if / asm too *)
Definition alt_nest (k : nat) : text :=      (* ("#if 1\n{\nx=asm{\n") ^ k ++ ("}\n}\n") ^ k *)
  rep k ([35;105;102;32;49;10;123;10] ++ [120;61;97;115;109;123;10]) ++ rep k [125;10;125;10].
Example C19_asm_depth_nonvacuous :
  accepted (parse_file (asm_nest 50)) = true /\ rejected (parse_file (asm_nest 51)) = true /\
  accepted (parse_file (alt_nest 25)) = true /\ rejected (parse_file (alt_nest 26)) = true.
Proof. repeat split; vm_compute; reflexivity. Qed.

(* the expression depth is cumulative across asm blocks: "x=((((((((((asm{\n" repeated k times, 10 parentheses each *)
Definition paren_asm_nest (k : nat) : text :=
  rep k ([120;61] ++ rep 10 [40] ++ [97;115;109;123;10]) ++ [110;111;112;10] ++ rep k ([125] ++ rep 10 [41] ++ [10]).
Example C19_expr_depth_cumulative_nonvacuous :
  accepted (parse_file (paren_asm_nest 4)) = true /\ rejected (parse_file (paren_asm_nest 5)) = true.
Proof. split; vm_compute; reflexivity. Qed.

(* the length of an #elif chain is still NOT counted (the code recurses parse -> parse_else_blocks -> parse once per
   #elif): known finding F56 *)
Example C19_elif_chain_unbounded_witness : accepted (parse_file (elif_chain 120)) = true.
Proof. vm_compute; reflexivity. Qed.

(* `; é` / `#d8 "ü", asm { ld é }` / `.l: #if l { x = 1 ; ü` / ` }` : multi-byte characters before and inside the nodes;
   the node inside the asm block and the node inside the #if arm are sub-nodes with their own (valid) spans *)
Definition sample_text : text :=
  [59;32;233;10;35;100;56;32;34;252;34;44;32;97;115;109;32;123;32;108;100;32;233;32;125;10;46;108;58;32;35;105;102;32;108;32;123;32;120;32;61;32;49;32;59;32;252;10;32;125;10].
Definition sample_nodes : list anode :=
  [NData (5, 8) (Some 8) [GStr [34; 252; 34]; GAsm (15, 28) [NInstr (21, 26) [108; 100; 32; 233]]];
   NLabel (Some (29, 32)) 1 [108];
   NIf (33, 36) (GVar 0 [[108]]) [NConst (Some (41, 42)) 0 [120] false (GNum 1 None)] None].
Example C13_spans_nonvacuous :
  parse_file sample_text = POk sample_nodes {| tail := []; cur := 55; lim := 55 |} /\
  sub (NInstr (21, 26) [108; 100; 32; 233]) (NData (5, 8) (Some 8) [GStr [34; 252; 34]; GAsm (15, 28) [NInstr (21, 26) [108; 100; 32; 233]]]) /\
  nest_ge 1 sample_nodes.
Proof.
  split; [vm_compute; reflexivity|]. split.
  - eapply sub_asm with (e := GAsm (15, 28) [NInstr (21, 26) [108; 100; 32; 233]]) (asp := (15, 28)) (body := [NInstr (21, 26) [108; 100; 32; 233]]).
    + cbn [exprs_of]. right. left. reflexivity.
    + left. reflexivity.
    + left. reflexivity.
    + apply sub_refl.
  - eapply ng_true; [right; right; left; reflexivity | apply ng_zero].
Qed.

(* ================================================================================================ *)
(* I. C03: the fuel is only a termination device (answers are stable under more fuel)                *)

Definition stable {X} (r r' : pres X) : Prop := r = PFuel \/ r' = r.

Lemma stable_refl {X} (r : pres X) : stable r r.
Proof. right. reflexivity. Qed.
Lemma stable_fuel {X} (r' : pres X) : stable PFuel r'.
Proof. left. reflexivity. Qed.
Lemma stable_bind {X Y} (m m' : pres X) (k k' : X -> walker -> pres Y) :
  stable m m' -> (forall a w, stable (k a w) (k' a w)) -> stable (bind m k) (bind m' k').
Proof.
  intros [E|E] Hk; subst; [left; reflexivity|]. destruct m as [a w| |]; cbn [bind]; [apply Hk | right; reflexivity | left; reflexivity].
Qed.

Ltac stab_core IHtac :=
  repeat first
    [ apply stable_refl
    | apply stable_fuel
    | IHtac
    | apply stable_bind; [|intros ? ?]
    | match goal with
      | |- stable (let _ := _ in _) _ => cbv zeta
      | |- stable (if ?b then _ else _) (if ?b then _ else _) => destruct b
      | |- stable (match ?x with _ => _ end) (match ?x with _ => _ end) => destruct x
      end ].

Section ExprStable.
Context {A : Type}.
Variables h h' : nat -> walker -> pres (span * A).
Hypothesis Hh : forall d w, stable (h d w) (h' d w).

Definition sinv (f : nat) : Prop :=
  (forall d w, stable (gparse_expr h f d w) (gparse_expr h' (S f) d w)) /\
  (forall d w, stable (gparse_assign h f d w) (gparse_assign h' (S f) d w)) /\
  (forall d lv w, stable (gparse_levels h f d lv w) (gparse_levels h' (S f) d lv w)) /\
  (forall d ops inner l w, stable (gbinary_loop h f d ops inner l w) (gbinary_loop h' (S f) d ops inner l w)) /\
  (forall d w, stable (gparse_slice h f d w) (gparse_slice h' (S f) d w)) /\
  (forall d w, stable (gparse_short h f d w) (gparse_short h' (S f) d w)) /\
  (forall d w, stable (gparse_unary h f d w) (gparse_unary h' (S f) d w)) /\
  (forall d w, stable (gparse_call h f d w) (gparse_call h' (S f) d w)) /\
  (forall d w acc, stable (gparse_args h f d w acc) (gparse_args h' (S f) d w acc)) /\
  (forall d w, stable (gparse_leaf h f d w) (gparse_leaf h' (S f) d w)) /\
  (forall d w acc, stable (gparse_block h f d w acc) (gparse_block h' (S f) d w acc)) /\
  (forall w level, stable (gparse_var_dots h f w level) (gparse_var_dots h' (S f) w level)) /\
  (forall w level acc, stable (gparse_var_names h f w level acc) (gparse_var_names h' (S f) w level acc)).

Lemma sinv_all f : sinv f.
Proof.
  induction f as [|f IH].
  - unfold sinv. repeat split; intros; apply stable_fuel.
  - destruct IH as (I1 & I2 & I3 & I4 & I5 & I6 & I7 & I8 & I9 & I10 & I11 & I12 & I13).
    unfold sinv. repeat match goal with |- _ /\ _ => split end; intros.
    + rewrite (gparse_expr_S h f), (gparse_expr_S h' (S f)). stab_core ltac:(first [apply I1 | apply I2 | apply Hh]).
    + rewrite (gparse_assign_S h f), (gparse_assign_S h' (S f)). stab_core ltac:(first [apply I1 | apply I3]).
    + rewrite (gparse_levels_S h f), (gparse_levels_S h' (S f)). stab_core ltac:(first [apply I5 | apply I3 | apply I4]).
    + rewrite (gbinary_loop_S h f), (gbinary_loop_S h' (S f)). stab_core ltac:(first [apply I3 | apply I4]).
    + rewrite (gparse_slice_S h f), (gparse_slice_S h' (S f)). stab_core ltac:(first [apply I6 | apply I1]).
    + rewrite (gparse_short_S h f), (gparse_short_S h' (S f)). stab_core ltac:(first [apply I7 | apply I10]).
    + rewrite (gparse_unary_S h f), (gparse_unary_S h' (S f)). stab_core ltac:(first [apply I7 | apply I8]).
    + rewrite (gparse_call_S h f), (gparse_call_S h' (S f)). stab_core ltac:(first [apply I10 | apply I9]).
    + rewrite (gparse_args_S h f), (gparse_args_S h' (S f)). stab_core ltac:(first [apply I1 | apply I9]).
    + rewrite (gparse_leaf_S h f), (gparse_leaf_S h' (S f)). stab_core ltac:(first [apply I11 | apply I1 | apply I12 | apply Hh]).
    + rewrite (gparse_block_S h f), (gparse_block_S h' (S f)). stab_core ltac:(first [apply I1 | apply I11]).
    + rewrite (gparse_var_dots_S h f), (gparse_var_dots_S h' (S f)). stab_core ltac:(first [apply I13 | apply I12]).
    + rewrite (gparse_var_names_S h f), (gparse_var_names_S h' (S f)). stab_core ltac:(first [apply I13]).
Qed.

Lemma gparse_expr_stable f d w : stable (gparse_expr h f d w) (gparse_expr h' (S f) d w).
Proof. destruct (sinv_all f) as (H & _). apply H. Qed.
End ExprStable.

Lemma parse_dots_stable : forall f w l sp, stable (parse_dots f w l sp) (parse_dots (S f) w l sp).
Proof.
  induction f as [|f IH]; intros; [apply stable_fuel|].
  rewrite (parse_dots_S f), (parse_dots_S (S f)). stab_core ltac:(apply IH).
Qed.
Lemma fn_params_stable : forall f w acc, stable (fn_params f w acc) (fn_params (S f) w acc).
Proof.
  induction f as [|f IH]; intros; [apply stable_fuel|].
  rewrite (fn_params_S f), (fn_params_S (S f)). stab_core ltac:(apply IH).
Qed.
Lemma apattern_stable : forall f is_sub w sp pat, stable (apattern f is_sub w sp pat) (apattern (S f) is_sub w sp pat).
Proof.
  induction f as [|f IH]; intros; [apply stable_fuel|].
  rewrite (apattern_S f), (apattern_S (S f)). stab_core ltac:(apply IH).
Qed.

Section DirStable.
Variables h h' : nat -> walker -> pres (span * list anode).
Hypothesis Hh : forall d w, stable (h d w) (h' d w).
Variable f : nat.
Variable ed : nat.

Lemma pexpr_stable w : stable (pexpr h f ed w) (pexpr h' (S f) ed w).
Proof. unfold pexpr. apply gparse_expr_stable. exact Hh. Qed.

Ltac dstab extra :=
  stab_core ltac:(first [apply pexpr_stable | apply parse_dots_stable | apply fn_params_stable | apply apattern_stable | extra]).

Lemma data_elems_stable : forall g w acc, stable (data_elems h f ed g w acc) (data_elems h' (S f) ed (S g) w acc).
Proof.
  induction g as [|g IH]; intros; [apply stable_fuel|].
  rewrite (data_elems_S h f ed g), (data_elems_S h' (S f) ed (S g)). dstab ltac:(apply IH).
Qed.
Lemma parse_fields_stable : forall g w acc, stable (parse_fields h f ed g w acc) (parse_fields h' (S f) ed (S g) w acc).
Proof.
  induction g as [|g IH]; intros; [apply stable_fuel|].
  rewrite (parse_fields_S h f ed g), (parse_fields_S h' (S f) ed (S g)). dstab ltac:(apply IH).
Qed.
Lemma parse_arule_stable is_sub w : stable (parse_arule h f ed is_sub w) (parse_arule h' (S f) ed is_sub w).
Proof. unfold parse_arule. dstab fail. Qed.
Lemma parse_arules_stable : forall g is_sub w acc, stable (parse_arules h f ed g is_sub w acc) (parse_arules h' (S f) ed (S g) is_sub w acc).
Proof.
  induction g as [|g IH]; intros; [apply stable_fuel|].
  rewrite (parse_arules_S h f ed g), (parse_arules_S h' (S f) ed (S g)). dstab ltac:(first [apply parse_arule_stable | apply IH]).
Qed.

Lemma parse_symbol_stable w : stable (parse_symbol h f ed w) (parse_symbol h' (S f) ed w).
Proof. unfold parse_symbol. dstab fail. Qed.
Lemma parse_directive_stable k header w : stable (parse_directive h f ed k header w) (parse_directive h' (S f) ed k header w).
Proof.
  destruct k; cbn [parse_directive]; unfold expr_directive, parse_bankdef, parse_const, parse_fn, parse_ruledef;
    dstab ltac:(first [apply data_elems_stable | apply parse_fields_stable | apply parse_arules_stable]).
Qed.
End DirStable.

Definition kstab (f : nat) : Prop :=
  (forall bd ed nested w acc, stable (parse_lines_d f bd ed nested w acc) (parse_lines_d (S f) bd ed nested w acc)) /\
  (forall bd ed w, stable (parse_line_d f bd ed w) (parse_line_d (S f) bd ed w)) /\
  (forall bd ed header w, stable (parse_if_d f bd ed header w) (parse_if_d (S f) bd ed header w)) /\
  (forall bd ed w, stable (parse_braced_d f bd ed w) (parse_braced_d (S f) bd ed w)) /\
  (forall bd ed w, stable (parse_else_d f bd ed w) (parse_else_d (S f) bd ed w)) /\
  (forall bd d w, stable (asm_hook f bd d w) (asm_hook (S f) bd d w)).

Lemma kstab_all f : kstab f.
Proof.
  induction f as [|f IH].
  - unfold kstab. repeat split; intros; apply stable_fuel.
  - destruct IH as (K1 & K2 & K3 & K4 & K5 & K6).
    unfold kstab. repeat match goal with |- _ /\ _ => split end; intros.
    + rewrite (parse_lines_d_S f), (parse_lines_d_S (S f)). stab_core ltac:(first [apply K2 | apply K1]).
    + rewrite (parse_line_d_S f), (parse_line_d_S (S f)).
      stab_core ltac:(first [apply K3 | apply parse_directive_stable; intros; apply K6 | apply parse_symbol_stable; intros; apply K6]).
    + rewrite (parse_if_d_S f), (parse_if_d_S (S f)).
      stab_core ltac:(first [apply gparse_expr_stable; intros; apply K6 | apply K4 | apply K5]).
    + rewrite (parse_braced_d_S f), (parse_braced_d_S (S f)). stab_core ltac:(first [apply K1]).
    + rewrite (parse_else_d_S f), (parse_else_d_S (S f)). stab_core ltac:(first [apply K4 | apply K3]).
    + rewrite (asm_hook_S f), (asm_hook_S (S f)). stab_core ltac:(first [apply K1]).
Qed.

Lemma parse_lines_d_stable_le : forall f f', (f <= f')%nat -> forall bd ed nested w acc,
  parse_lines_d f bd ed nested w acc <> PFuel -> parse_lines_d f' bd ed nested w acc = parse_lines_d f bd ed nested w acc.
Proof.
  induction 1 as [|f' Hle IH]; intros bd ed nested w acc Hne; [reflexivity|].
  destruct (kstab_all f') as (K1 & _). destruct (K1 bd ed nested w acc) as [E|E].
  - exfalso. apply Hne. rewrite <- (IH _ _ _ _ _ Hne). exact E.
  - rewrite E. apply IH. exact Hne.
Qed.

Lemma parse_lines_stable_le : forall f f', (f <= f')%nat -> forall bd nested w acc,
  parse_lines f bd nested w acc <> PFuel -> parse_lines f' bd nested w acc = parse_lines f bd nested w acc.
Proof. intros. unfold parse_lines in *. apply parse_lines_d_stable_le; assumption. Qed.

(* C03 (partial): the fuel of parse_file is only a termination device.  Whenever ANY amount of fuel lets the line
   parser answer (accept or reject), every larger amount gives the very same answer; in particular if parse_file t
   answers, no larger fuel changes the answer, and if some smaller fuel answers, parse_file t gives that answer.
   What is missing for C03_parse_total: a proof that file_fuel t is always enough (measured by the stream: the worst
   case needs < 13 % of it). *)
Theorem C03_parse_total_partial : forall t f f', (f <= f')%nat ->
  parse_lines f 0 false (start_walker t) [] <> PFuel ->
  parse_lines f' 0 false (start_walker t) [] = parse_lines f 0 false (start_walker t) [].
Proof. intros t f f' Hle Hne. apply parse_lines_stable_le; assumption. Qed.

Corollary C03_parse_file_fuel_independent : forall t f, (f <= file_fuel t)%nat ->
  parse_lines f 0 false (start_walker t) [] <> PFuel -> parse_file t = parse_lines f 0 false (start_walker t) [].
Proof. intros t f Hle Hne. unfold parse_file. apply parse_lines_stable_le; assumption. Qed.

Example C03_parse_total_nonvacuous :
  parse_lines 40 0 false (start_walker sample_text) [] <> PFuel /\ parse_lines 10 0 false (start_walker sample_text) [] = PFuel.
Proof. split; vm_compute; [discriminate | reflexivity]. Qed.

(* ================================================================================================ *)
(* J. bridge to Parser.v: on exact walkers the primitives of this model read the same token as Parser.token_here *)
Lemma exact_visible w : lim w = cur w + bytes_len (tail w) -> visible w = tail w.
Proof.
  intros E. unfold visible. replace (lim w - cur w) with (bytes_len (tail w)) by lia.
  rewrite <- (app_nil_r (tail w)) at 2. rewrite take_blen_app. reflexivity.
Qed.

Lemma xtoken_is_token_here w : lim w = cur w + bytes_len (tail w) -> xtoken w = token_here w.
Proof.
  intros E. unfold xtoken, token_here. rewrite (exact_visible w E).
  destruct (tail w) as [|c r] eqn:T.
  - cbn [bytes_len] in E. destruct (lim w <=? cur w) eqn:L; [reflexivity | lia].
  - cbn [bytes_len] in E. pose proof (ulen_pos c). destruct (lim w <=? cur w) eqn:L; [lia | reflexivity].
Qed.

Lemma wf_exact t w : wf t w -> lim w = cur w + bytes_len (tail w).
Proof. intros (_ & _ & _ & _ & E). exact E. Qed.
