(* C10 — table obligations over the inventory regenerated from /repo/src on every run (finite tables: vm_compute, lifted
   with forallb_forall).  A new hash-container iteration, a changed iteration site, a new hand-over of a container, a new
   kind of use, or any new static / time / randomness / environment / address / thread / Debug-format use breaks one of them. *)
From Coq Require Import List Bool String.
From CA Require Import Model.C10Tables Spec.HashOrderSpec.
Import ListNotations.

Lemma inventory_covered : forall u, In u c10_uses -> use_ok u = true.
Proof. apply forallb_forall. vm_compute. reflexivity. Qed.

Lemma covered_present : forall c, In c covered_sites -> existsb (site_eqb (fst c)) c10_uses = true.
Proof. apply forallb_forall. vm_compute. reflexivity. Qed.

Lemma pass_present : forall c, In c allowed_pass -> existsb (site_eqb c) c10_uses = true.
Proof. apply forallb_forall. vm_compute. reflexivity. Qed.

Lemma scan_scope : c10_excluded = allowed_excluded /\ (40 <= c10_file_count)%nat.
Proof. split; [vm_compute; reflexivity | apply PeanoNat.Nat.leb_le; vm_compute; reflexivity]. Qed.

(* the hand-written list has no stale or duplicated entry: as many covered entries as iteration sites found *)
Lemma iteration_sites_count :
  List.length (filter (fun u => match u with (_, _, k, _) => String.prefix "iter:" k end) c10_uses) = List.length covered_sites.
Proof. vm_compute. reflexivity. Qed.
