(* Lemmas about Model/IncFns.v (C14: incbin / incbinstr / inchexstr return exactly the requested
   units and reject every range past the end) *)
From Coq Require Import ZArith NArith List Bool Lia ZifyBool.
From CA Require Import Model.Paths Model.IncFns.
Import ListNotations.
Open Scope Z_scope.

(* Rust allocations never exceed isize::MAX bytes *)
Definition isize_max : Z := 9223372036854775807.

Ltac unfold_arith := unfold expect_usize, sat_add, sat_mul, checked_mul, checked_sub, usize_max, isize_max in *.

(* ------------------------------------------------------------------ incbin *)
Lemma incbin_A3 : forall bytes s n, Z.of_nat (length bytes) <= isize_max ->
  incbin bytes (A3 s n) =
    if (0 <=? s) && (s <? Z.of_nat (length bytes)) && (0 <=? n) && (s + n <=? Z.of_nat (length bytes))
    then ROk (firstn (Z.to_nat n) (skipn (Z.to_nat s) bytes)) else RErr.
Proof.
  intros bytes s n L. unfold incbin, arg_start, arg_end, slice_range. cbn [is_A1]. rewrite andb_false_r.
  set (len := Z.of_nat (length bytes)) in *. unfold_arith.
  destruct ((0 <=? s) && (s <=? 18446744073709551615)) eqn:E1.
  2:{ destruct ((0 <=? s) && (s <? len) && (0 <=? n) && (s + n <=? len)) eqn:E2; auto. lia. }
  destruct ((0 <=? n) && (n <=? 18446744073709551615)) eqn:E3.
  2:{ destruct ((0 <=? s) && (s <? len) && (0 <=? n) && (s + n <=? len)) eqn:E2; auto. lia. }
  destruct (s >=? len) eqn:E4.
  { destruct ((0 <=? s) && (s <? len) && (0 <=? n) && (s + n <=? len)) eqn:E2; auto. lia. }
  destruct (s + n <=? 18446744073709551615) eqn:E5.
  - destruct (s + n >? len) eqn:E6.
    { destruct ((0 <=? s) && (s <? len) && (0 <=? n) && (s + n <=? len)) eqn:E2; auto. lia. }
    assert (E7 : (0 <=? s) && (s <=? s + n) && (s + n <=? len) = true) by lia. rewrite E7.
    assert (E8 : (0 <=? s) && (s <? len) && (0 <=? n) && (s + n <=? len) = true) by lia. rewrite E8.
    do 3 f_equal. lia.
  - assert (E6 : 18446744073709551615 >? len = true) by lia. rewrite E6.
    destruct ((0 <=? s) && (s <? len) && (0 <=? n) && (s + n <=? len)) eqn:E2; auto. lia.
Qed.

Lemma incbin_A2 : forall bytes s, Z.of_nat (length bytes) <= isize_max ->
  incbin bytes (A2 s) =
    if (0 <=? s) && (s <? Z.of_nat (length bytes)) then ROk (skipn (Z.to_nat s) bytes) else RErr.
Proof.
  intros bytes s L. unfold incbin, arg_start, arg_end, slice_range. cbn [is_A1]. rewrite andb_false_r.
  set (len := Z.of_nat (length bytes)) in *. unfold_arith.
  destruct ((0 <=? s) && (s <=? 18446744073709551615)) eqn:E1.
  2:{ destruct ((0 <=? s) && (s <? len)) eqn:E2; auto. lia. }
  destruct (s >=? len) eqn:E4.
  { destruct ((0 <=? s) && (s <? len)) eqn:E2; auto. lia. }
  assert (E6 : len >? len = false) by lia. rewrite E6.
  assert (E7 : (0 <=? s) && (s <=? len) && (len <=? len) = true) by lia. rewrite E7.
  assert (E8 : (0 <=? s) && (s <? len) = true) by lia. rewrite E8.
  f_equal. apply firstn_all2. rewrite skipn_length. subst len. lia.
Qed.

Lemma incbin_A1 : forall bytes, incbin bytes A1 = ROk bytes.
Proof.
  intros bytes. unfold incbin, arg_start, arg_end, slice_range. cbn [is_A1]. rewrite andb_true_r.
  destruct bytes as [|b r]; [reflexivity|].
  set (len := Z.of_nat (length (b :: r))).
  assert (P : 0 < len) by (subst len; cbn [length]; lia).
  assert (E0 : len =? 0 = false) by lia. rewrite E0.
  assert (E4 : 0 >=? len = false) by lia. rewrite E4.
  assert (E6 : len >? len = false) by lia. rewrite E6.
  assert (E7 : (0 <=? 0) && (0 <=? len) && (len <=? len) = true) by lia. rewrite E7.
  f_equal. cbn [Z.to_nat skipn]. apply firstn_all2. subst len. lia.
Qed.

Lemma incbin_no_panic : forall bytes a, Z.of_nat (length bytes) <= isize_max ->
  incbin bytes a <> RPanic /\ incbin bytes a <> RFuel.
Proof.
  intros bytes a L. destruct a.
  - rewrite incbin_A1. split; discriminate.
  - rewrite incbin_A2 by auto. destruct (_ && _); split; discriminate.
  - rewrite incbin_A3 by auto. destruct (_ && _); split; discriminate.
Qed.

(* ------------------------------------------------------------------ arithmetic of the digit functions *)
Lemma range_arith : forall b nd s n, 1 <= b -> 0 <= nd -> nd * b <= isize_max ->
  0 <= s <= usize_max -> 0 <= n <= usize_max ->
  (sat_mul s b >=? nd * b) = (s >=? nd) /\
  (s < nd -> (sat_mul (sat_add s n) b >? nd * b) = (s + n >? nd)) /\
  (s < nd -> s + n <= nd ->
     sat_add s n = s + n /\ s * b <= usize_max /\ (s + n) * b <= usize_max /\
     s * b <= nd * b /\ (s + n) * b <= nd * b /\ s * b <= (s + n) * b).
Proof.
  intros b nd s n B ND L S N. unfold_arith. rewrite ?Z.gtb_ltb, ?Z.geb_leb.
  assert (NB : nd <= nd * b) by nia. repeat split.
  - destruct (s * b <=? 18446744073709551615) eqn:E.
    + destruct (Z_lt_le_dec s nd).
      * assert (s * b < nd * b) by nia. lia.
      * assert (nd * b <= s * b) by nia. lia.
    + assert (nd < s) by nia. lia.
  - intro SL. destruct (s + n <=? 18446744073709551615) eqn:E.
    + destruct ((s + n) * b <=? 18446744073709551615) eqn:E2.
      * destruct (Z_lt_le_dec nd (s + n)).
        -- assert (nd * b < (s + n) * b) by nia. set (x := (s + n) * b) in *. set (y := nd * b) in *. lia.
        -- assert ((s + n) * b <= nd * b) by nia. set (x := (s + n) * b) in *. set (y := nd * b) in *. lia.
      * assert (nd < s + n) by nia. set (x := (s + n) * b) in *. set (y := nd * b) in *. lia.
    + assert (18446744073709551615 <= 18446744073709551615 * b) by nia.
      assert (nd <= nd * b) by nia.
      destruct (18446744073709551615 * b <=? 18446744073709551615) eqn:E3; lia.
  - destruct (s + n <=? 18446744073709551615) eqn:E; lia.
  - nia.
  - nia.
  - nia.
  - nia.
  - nia.
Qed.

(* ------------------------------------------------------------------ digit lists *)
Lemma digit_bits_length : forall k d, length (digit_bits k d) = k.
Proof. induction k; cbn [digit_bits length]; auto. Qed.

Section Flat.
Variables (A B : Type) (g : A -> list B) (k : nat).
Hypothesis gk : forall d, length (g d) = k.

Lemma flat_map_length_const : forall ds, length (flat_map g ds) = (length ds * k)%nat.
Proof. induction ds as [|d r IH]; cbn [flat_map length]; auto. rewrite app_length, gk, IH. lia. Qed.

Lemma flat_skipn : forall s ds, skipn (s * k) (flat_map g ds) = flat_map g (skipn s ds).
Proof.
  induction s as [|s IH]; intros ds; [reflexivity|].
  destruct ds as [|d r]; [cbn [flat_map]; rewrite !skipn_nil; reflexivity|].
  cbn [flat_map skipn]. rewrite skipn_app. rewrite gk.
  rewrite skipn_all2 by (rewrite gk; lia). cbn [app].
  replace (S s * k - k)%nat with (s * k)%nat by lia. apply IH.
Qed.

Lemma flat_firstn : forall n ds, firstn (n * k) (flat_map g ds) = flat_map g (firstn n ds).
Proof.
  induction n as [|n IH]; intros ds; [reflexivity|].
  destruct ds as [|d r]; [cbn [flat_map]; rewrite !firstn_nil; reflexivity|].
  cbn [flat_map firstn]. rewrite firstn_app. rewrite gk.
  rewrite firstn_all2 by (rewrite gk; lia). f_equal.
  replace (S n * k - k)%nat with (n * k)%nat by lia. apply IH.
Qed.
End Flat.

Lemma digits_bits_length : forall k ds, length (digits_bits k ds) = (length ds * k)%nat.
Proof. intros. unfold digits_bits. apply flat_map_length_const. intro. apply digit_bits_length. Qed.

Lemma digits_bits_slice : forall k ds s n,
  firstn (n * k) (skipn (s * k) (digits_bits k ds)) = digits_bits k (firstn n (skipn s ds)).
Proof.
  intros. unfold digits_bits.
  rewrite (flat_skipn _ _ _ k) by (intro; apply digit_bits_length).
  rewrite (flat_firstn _ _ _ k) by (intro; apply digit_bits_length). reflexivity.
Qed.

(* ------------------------------------------------------------------ incbinstr / inchexstr *)
Lemma incstr_bad_content : forall bpc chars a, read_digits bpc chars = None -> incstr bpc chars a = RErr.
Proof. intros. unfold incstr. rewrite H. reflexivity. Qed.

Lemma incstr_A3 : forall bpc chars ds s n, (1 <= bpc)%nat -> read_digits bpc chars = Some ds ->
  Z.of_nat (length ds * bpc) <= isize_max ->
  incstr bpc chars (A3 s n) =
    if (0 <=? s) && (s <? Z.of_nat (length ds)) && (0 <=? n) && (s + n <=? Z.of_nat (length ds))
    then ROk (digits_bits bpc (firstn (Z.to_nat n) (skipn (Z.to_nat s) ds))) else RErr.
Proof.
  intros bpc chars ds s n B R L. unfold incstr. rewrite R. rewrite digits_bits_length.
  cbn [is_A1]. rewrite andb_false_r.
  set (nd := Z.of_nat (length ds)) in *. set (b := Z.of_nat bpc).
  assert (Hsize : Z.of_nat (length ds * bpc) = nd * b) by (subst nd b; lia). rewrite Hsize in *.
  assert (B1 : 1 <= b) by (subst b; lia). assert (ND : 0 <= nd) by (subst nd; lia).
  assert (E0 : nd * b >? usize_max = false) by (unfold usize_max, isize_max in *; lia). rewrite E0.
  assert (E1 : b =? 0 = false) by lia. rewrite E1.
  unfold arg_start, arg_end.
  destruct (expect_usize s) as [s'|] eqn:ES.
  2:{ unfold expect_usize, usize_max in ES.
      assert (NDB : nd <= nd * b) by nia. unfold isize_max in L.
      destruct ((0 <=? s) && (s <=? 18446744073709551615)) eqn:E; [discriminate|].
      destruct ((0 <=? s) && (s <? nd) && (0 <=? n) && (s + n <=? nd)) eqn:E2; auto. lia. }
  assert (S' : s' = s /\ 0 <= s <= usize_max).
  { unfold expect_usize in ES. destruct ((0 <=? s) && (s <=? usize_max)) eqn:E; inversion ES. lia. }
  destruct S' as [-> SR].
  destruct (expect_usize n) as [n'|] eqn:EN.
  2:{ unfold expect_usize, usize_max in EN.
      assert (NDB : nd <= nd * b) by nia. unfold isize_max in L.
      destruct ((0 <=? n) && (n <=? 18446744073709551615)) eqn:E; [discriminate|].
      destruct ((0 <=? s) && (s <? nd) && (0 <=? n) && (s + n <=? nd)) eqn:E2; auto. lia. }
  assert (N' : n' = n /\ 0 <= n <= usize_max).
  { unfold expect_usize in EN. destruct ((0 <=? n) && (n <=? usize_max)) eqn:E; inversion EN. lia. }
  destruct N' as [-> NR].
  destruct (range_arith b nd s n B1 ND L SR NR) as (RA1 & RA2 & RA3).
  rewrite RA1.
  destruct (s >=? nd) eqn:E4.
  { destruct ((0 <=? s) && (s <? nd) && (0 <=? n) && (s + n <=? nd)) eqn:E2; auto. lia. }
  assert (SL : s < nd) by lia. rewrite (RA2 SL).
  destruct (s + n >? nd) eqn:E5.
  { destruct ((0 <=? s) && (s <? nd) && (0 <=? n) && (s + n <=? nd)) eqn:E2; auto. lia. }
  assert (SN : s + n <= nd) by lia.
  destruct (RA3 SL SN) as (Q1 & Q2 & Q3 & Q4 & Q5 & Q6). rewrite Q1.
  unfold checked_mul, checked_sub.
  assert (C1 : s * b <=? usize_max = true) by lia. rewrite C1.
  assert (C2 : (s + n) * b <=? usize_max = true) by lia. rewrite C2.
  assert (C3 : s * b <=? nd * b = true) by lia. rewrite C3.
  assert (C4 : (s + n) * b <=? nd * b = true) by lia. rewrite C4.
  unfold bit_slice. rewrite digits_bits_length. rewrite Hsize.
  assert (C5 : (0 <=? nd * b - (s + n) * b) && (nd * b - (s + n) * b <=? nd * b - s * b) && (nd * b - s * b <=? nd * b) = true) by lia.
  rewrite C5.
  assert (C6 : (0 <=? s) && (s <? nd) && (0 <=? n) && (s + n <=? nd) = true) by lia. rewrite C6.
  f_equal.
  replace (Z.to_nat (nd * b - s * b - (nd * b - (s + n) * b))) with (Z.to_nat n * bpc)%nat by (subst b; nia).
  replace (Z.to_nat (nd * b - (nd * b - s * b))) with (Z.to_nat s * bpc)%nat by (subst b; nia).
  apply digits_bits_slice.
Qed.

Lemma incstr_A2 : forall bpc chars ds s, (1 <= bpc)%nat -> read_digits bpc chars = Some ds ->
  Z.of_nat (length ds * bpc) <= isize_max ->
  incstr bpc chars (A2 s) =
    if (0 <=? s) && (s <? Z.of_nat (length ds))
    then ROk (digits_bits bpc (skipn (Z.to_nat s) ds)) else RErr.
Proof.
  intros bpc chars ds s B R L. unfold incstr. rewrite R. rewrite digits_bits_length.
  cbn [is_A1]. rewrite andb_false_r.
  set (nd := Z.of_nat (length ds)) in *. set (b := Z.of_nat bpc).
  assert (Hsize : Z.of_nat (length ds * bpc) = nd * b) by (subst nd b; lia). rewrite Hsize in *.
  assert (B1 : 1 <= b) by (subst b; lia). assert (ND : 0 <= nd) by (subst nd; lia).
  assert (E0 : nd * b >? usize_max = false) by (unfold usize_max, isize_max in *; lia). rewrite E0.
  assert (E1 : b =? 0 = false) by lia. rewrite E1.
  unfold arg_start, arg_end.
  assert (NDB : nd <= nd * b) by nia.
  destruct (expect_usize s) as [s'|] eqn:ES.
  2:{ unfold expect_usize, usize_max in ES. unfold isize_max in L.
      destruct ((0 <=? s) && (s <=? 18446744073709551615)) eqn:E; [discriminate|].
      destruct ((0 <=? s) && (s <? nd)) eqn:E2; auto. lia. }
  assert (S' : s' = s /\ 0 <= s <= usize_max).
  { unfold expect_usize in ES. destruct ((0 <=? s) && (s <=? usize_max)) eqn:E; inversion ES. lia. }
  destruct S' as [-> SR].
  assert (ZR : 0 <= 0 <= usize_max) by (unfold usize_max; lia).
  destruct (range_arith b nd s 0 B1 ND L SR ZR) as (RA1 & _ & RA3).
  rewrite RA1. rewrite Z.div_mul by lia.
  destruct (s >=? nd) eqn:E4.
  { destruct ((0 <=? s) && (s <? nd)) eqn:E2; auto. lia. }
  assert (SL : s < nd) by lia.
  destruct (RA3 SL) as (_ & Q2 & _ & Q4 & _ & _); [lia|].
  unfold sat_mul, checked_mul, checked_sub.
  assert (C0 : nd * b <=? usize_max = true) by (unfold usize_max, isize_max in *; lia). rewrite C0.
  assert (C0' : nd * b >? nd * b = false) by lia. rewrite C0'.
  assert (C1 : s * b <=? usize_max = true) by lia. rewrite C1.
  assert (C3 : s * b <=? nd * b = true) by lia. rewrite C3.
  assert (C4 : nd * b <=? nd * b = true) by lia. rewrite C4.
  unfold bit_slice. rewrite digits_bits_length. rewrite Hsize.
  assert (C5 : (0 <=? nd * b - nd * b) && (nd * b - nd * b <=? nd * b - s * b) && (nd * b - s * b <=? nd * b) = true) by lia.
  rewrite C5.
  assert (C6 : (0 <=? s) && (s <? nd) = true) by lia. rewrite C6.
  f_equal.
  replace (Z.to_nat (nd * b - (nd * b - s * b))) with (Z.to_nat s * bpc)%nat by (subst b; nia).
  unfold digits_bits at 1. rewrite (flat_skipn _ _ _ bpc) by (intro; apply digit_bits_length).
  fold (digits_bits bpc (skipn (Z.to_nat s) ds)).
  apply firstn_all2. rewrite digits_bits_length, skipn_length. subst nd b. nia.
Qed.

Lemma incstr_A1 : forall bpc chars ds, (1 <= bpc)%nat -> read_digits bpc chars = Some ds ->
  Z.of_nat (length ds * bpc) <= isize_max ->
  incstr bpc chars A1 = ROk (digits_bits bpc ds).
Proof.
  intros bpc chars ds B R L.
  destruct ds as [|d r] eqn:D.
  - unfold incstr. rewrite R. cbn. destruct (Z.of_nat bpc =? 0) eqn:E; [lia|]. reflexivity.
  - rewrite <- D in *.
    assert (NZ : 0 < Z.of_nat (length ds)) by (rewrite D; cbn [length]; lia).
    transitivity (incstr bpc chars (A2 0)).
    + unfold incstr. rewrite R. rewrite digits_bits_length.
      set (nd := Z.of_nat (length ds)) in *. set (b := Z.of_nat bpc).
      assert (Hsize : Z.of_nat (length ds * bpc) = nd * b) by (subst nd b; lia). rewrite Hsize in *.
      assert (B1 : 1 <= b) by (subst b; lia).
      assert (E : nd * b =? 0 = false) by nia.
      cbn [is_A1 arg_start arg_end]. rewrite E. cbn [andb]. reflexivity.
    + rewrite (incstr_A2 bpc chars ds 0) by auto.
      assert (C : (0 <=? 0) && (0 <? Z.of_nat (length ds)) = true) by lia. rewrite C. reflexivity.
Qed.

Lemma incstr_no_panic : forall bpc chars a, (1 <= bpc)%nat ->
  (forall ds, read_digits bpc chars = Some ds -> Z.of_nat (length ds * bpc) <= isize_max) ->
  incstr bpc chars a <> RPanic /\ incstr bpc chars a <> RFuel.
Proof.
  intros bpc chars a B L. destruct (read_digits bpc chars) as [ds|] eqn:R.
  - specialize (L ds eq_refl). destruct a.
    + rewrite (incstr_A1 _ _ ds) by auto. split; discriminate.
    + rewrite (incstr_A2 _ _ ds) by auto. destruct (_ && _); split; discriminate.
    + rewrite (incstr_A3 _ _ ds) by auto. destruct (_ && _); split; discriminate.
  - rewrite incstr_bad_content by auto. split; discriminate.
Qed.

(* what read_digits returns: the digit values of the non-blank characters, or None if one is not a digit *)
Lemma read_digits_spec : forall bpc chars,
  read_digits bpc chars =
    let cs := filter (fun c => negb (is_blank c)) chars in
    if forallb (fun c => match to_digit (2 ^ N.of_nat bpc) c with Some _ => true | None => false end) cs
    then Some (flat_map (fun c => match to_digit (2 ^ N.of_nat bpc) c with Some d => [d] | None => [] end) cs)
    else None.
Proof.
  intros bpc. induction chars as [|c r IH]; [reflexivity|].
  cbn [read_digits filter]. destruct (is_blank c); cbn [negb]; [exact IH|].
  cbn [forallb flat_map]. cbv zeta in IH. rewrite IH.
  destruct (to_digit (2 ^ N.of_nat bpc) c); cbn [andb]; [|reflexivity].
  destruct (forallb _ _); reflexivity.
Qed.

Lemma incbinstr_A3 : forall chars ds s n, read_digits 1 chars = Some ds ->
  Z.of_nat (length ds * 1) <= isize_max ->
  incbinstr chars (A3 s n) =
    if (0 <=? s) && (s <? Z.of_nat (length ds)) && (0 <=? n) && (s + n <=? Z.of_nat (length ds))
    then ROk (digits_bits 1 (firstn (Z.to_nat n) (skipn (Z.to_nat s) ds))) else RErr.
Proof. intros chars ds s n. apply incstr_A3. auto. Qed.

Lemma inchexstr_A3 : forall chars ds s n, read_digits 4 chars = Some ds ->
  Z.of_nat (length ds * 4) <= isize_max ->
  inchexstr chars (A3 s n) =
    if (0 <=? s) && (s <? Z.of_nat (length ds)) && (0 <=? n) && (s + n <=? Z.of_nat (length ds))
    then ROk (digits_bits 4 (firstn (Z.to_nat n) (skipn (Z.to_nat s) ds))) else RErr.
Proof. intros chars ds s n. apply incstr_A3. auto. Qed.

Lemma incfns_no_panic : forall bytes chars bpc a, Z.of_nat (length bytes) <= isize_max -> (1 <= bpc)%nat ->
  (forall ds, read_digits bpc chars = Some ds -> Z.of_nat (length ds * bpc) <= isize_max) ->
  (incbin bytes a <> RPanic /\ incbin bytes a <> RFuel) /\ (incstr bpc chars a <> RPanic /\ incstr bpc chars a <> RFuel).
Proof. intros. split; [apply incbin_no_panic|apply incstr_no_panic]; auto. Qed.
