(* C08b, whole programs: what Resolver2.prepare hands to the resolver is numbered canonically, the contexts the matcher's
   walk gives the static analysis are the node contexts, the tables of flags mean what they should; with the optimisation
   off ResolverS2.assembleS2 is Resolver2.assemble2; with it on, the switch theorem (forward direction, equal results). *)
From Coq Require Import NArith ZArith List Bool Lia.
Import ListNotations.
From CA Require Import Model.Lexer Model.Parser Model.Literal Model.BigIntOps Model.Evaluator Model.Matcher Model.Resolver
  Model.Resolver2 Model.StaticKnown Model.ResolverS Model.ResolverS2 Spec.StaticSpec
  Proofs.ResolverFixP Proofs.CertUniqueP Proofs.StaticKnownP Proofs.ResolverSSimP Proofs.ResolverSPreP
  Proofs.Resolver2FixP Proofs.Resolver2MonoP Proofs.Resolver2TopP Proofs.ResolverS2P Proofs.ResolverS2PreP Proofs.ResolverS2FrameP Proofs.ResolverSTopP Proofs.C01Sound Proofs.MatcherKindP.
From CA Require Model.Paths Model.Overlap Model.Cursor Model.LastPass Model.Output Model.Symbols.
Open Scope Z_scope.

(* ---------- numbering of the nodes build_nodes makes ---------- *)
Definition inode (n : cnode) : list (nat * list text) := match fst n with XInstr i _ => [(i, snd n)] | _ => [] end.

Lemma data_nodes_ids w : forall es d c,
  flat_map iref (data_nodes w es d c) = [] /\ flat_map inode (data_nodes w es d c) = [] /\
  flat_map dref (data_nodes w es d c) = seq d (length es).
Proof.
  induction es as [|e es IH]; intros d c; cbn [data_nodes flat_map length seq]; [auto|].
  destruct (IH (S d) c) as (A & B & C). cbn [iref inode dref fst app]. rewrite A, B, C. auto.
Qed.

Lemma instr_ctxs_cons p ps c cs : instr_ctxs (p :: ps) (c :: cs) = (match p with PInstr _ => [c] | _ => [] end) ++ instr_ctxs ps cs.
Proof. unfold instr_ctxs. cbn [combine flat_map fst snd]. reflexivity. Qed.

Lemma build_nodes_num bn : forall ps ast ctxs k ns,
  build_nodes bn ps ast ctxs k = Some ns ->
  (exists ni, flat_map iref ns = seq (k_i k) ni) /\ (exists nd, flat_map dref ns = seq (k_d k) nd) /\
  map snd (flat_map inode ns) = instr_ctxs ps ctxs /\
  (forall j src, nth_error ps j = Some (PInstr src) -> nth_error ast j = Some Symbols.AOther).
Proof.
  induction ps as [|p ps IH]; intros ast ctxs k ns H; destruct ast as [|a ast]; destruct ctxs as [|c ctxs];
    cbn [build_nodes] in H; try discriminate.
  - inversion H; subst. split; [exists O; reflexivity|]. split; [exists O; reflexivity|]. split; [reflexivity|].
    intros [|j] src Hj; discriminate.
  - rewrite instr_ctxs_cons.
    destruct p; destruct a as [l0 n0 k0 [r|]|]; try discriminate;
      try (match type of H with context [find_sym ?a ?b ?c] => destruct (find_sym a b c); [|discriminate] end);
      match type of H with match build_nodes ?a ?b ?c ?d ?e with Some _ => _ | None => _ end = _ =>
        destruct (build_nodes a b c d e) as [rest|] eqn:B; [|discriminate] end;
      inversion H; subst; clear H;
      destruct (IH _ _ _ _ B) as ((ni & Hi) & (nd & Hd) & Hc & Ha); cbn [k_i k_d] in Hi, Hd;
      rewrite ?flat_map_app;
      try (destruct (data_nodes_ids width elems (k_d k) c) as (D1 & D2 & D3); rewrite D1, D2, D3);
      cbn [flat_map iref dref inode fst snd app map];
      (split; [|split; [|split]]);
      try (rewrite Hi); try (rewrite Hd); try (rewrite Hc);
      try (eexists; reflexivity);
      try (exists (S ni); reflexivity); try (exists (S nd); reflexivity);
      try (exists (length elems + nd)%nat; rewrite seq_app; reflexivity);
      try reflexivity;
      try (intros [|j] src' Hj; [try discriminate Hj; reflexivity|cbn [nth_error] in *; eapply Ha; exact Hj]).
Qed.

Lemma nth_error_tl {A} (l : list A) j : nth_error (tl l) j = nth_error l (S j).
Proof. destruct l; [destruct j; reflexivity|reflexivity]. Qed.

Lemma instr_ctxs_agree : forall ps ast cs cs', length cs' = length cs ->
  (forall j src, nth_error ps j = Some (PInstr src) -> nth_error ast j = Some Symbols.AOther) ->
  (forall j, nth_error ast j = Some Symbols.AOther -> nth_error cs' j = nth_error cs j) ->
  instr_ctxs ps cs' = instr_ctxs ps cs.
Proof.
  induction ps as [|p ps IH]; intros ast cs cs' HL Hp Ha; [reflexivity|].
  destruct cs as [|c cs], cs' as [|c' cs']; try discriminate HL; [reflexivity|].
  rewrite !instr_ctxs_cons. f_equal.
  - destruct p; try reflexivity. pose proof (Ha O (Hp O src eq_refl)) as E. cbn in E. congruence.
  - apply (IH (tl ast)); [cbn in HL; lia| |].
    + intros j src Hj. rewrite nth_error_tl. exact (Hp (S j) src Hj).
    + intros j Hj. rewrite nth_error_tl in Hj. exact (Ha (S j) Hj).
Qed.

(* what prepare produces *)
Lemma prepare_facts ps m ns : prepare ps = Some (m, ns) ->
  canonical2 ns /\ (forall s, In s (flat_map sref ns) -> (s < length (Symbols.m_decls m))%nat) /\
  (exists ni, flat_map iref ns = seq 0 ni) /\ (exists nd, flat_map dref ns = seq 0 nd) /\
  matcher_instr_ctxs ps = Some (map snd (flat_map inode ns)).
Proof.
  unfold prepare, matcher_instr_ctxs. destruct (negb (no_dup_names (bank_names ps))); [discriminate|].
  destruct (Symbols.collect Symbols.mgr_new (map anode_of ps)) as [[m0 ast]| | |] eqn:C; try discriminate.
  destruct (Symbols.node_ctxs m0 Symbols.ctx_global ast) as [ctxs| | |] eqn:N; try discriminate.
  destruct (build_nodes (bank_names ps) ps ast ctxs (mkCnt 0 0 0 0 0 0)) as [ns0|] eqn:B; [|discriminate].
  intro H. inversion H; subst; clear H.
  destruct (build_nodes_num _ _ _ _ _ _ B) as ((ni & Hi) & (nd & Hd) & Hc & Ha). cbn [k_i k_d] in Hi, Hd.
  assert (Hf : Forall fresh_node (map anode_of ps)).
  { apply Forall_forall. intros a Ha'. apply in_map_iff in Ha'. destruct Ha' as (p & <- & _). destruct p; exact I. }
  unfold Symbols.collect in C. destruct (collect_loop_irefs _ _ _ _ _ Hf C) as [Hr Hl]. cbn [Symbols.mgr_new Symbols.m_decls length] in Hr, Hl.
  assert (Hs : flat_map sref ns = irefs ast) by exact (build_nodes_refs _ _ _ _ _ _ B).
  split; [|split; [|split; [|split]]].
  - split; [rewrite Hs, Hr; apply seq_NoDup|]. split; [rewrite Hi|rewrite Hd]; apply seq_NoDup.
  - intros s Hin. rewrite Hs, Hr in Hin. apply in_seq in Hin. lia.
  - eauto.
  - eauto.
  - destruct (matcher_scope_is_node_scope _ _ _ _ N) as (cs' & M1 & M2 & M3). rewrite M1. f_equal. rewrite Hc.
    eapply instr_ctxs_agree; eauto.
Qed.

(* ---------- the tables of flags ---------- *)
Lemma ksym_spec2 nsyms ns r : nth_error (sym_known_table2 nsyms ns) r = Some true ->
  exists d0 e c, In (XConst r d0 e, c) ns /\ const_known e = true.
Proof.
  unfold sym_known_table2.
  assert (G : forall l tbl, (forall j, nth_error tbl j = Some true -> exists d0 e c, In (XConst j d0 e, c) ns /\ const_known e = true) ->
              incl l ns ->
              forall j, nth_error (fold_left (fun tbl n => match fst n with XConst s _ e => set_nth tbl s (const_known e) | _ => tbl end) l tbl) j = Some true ->
              exists d0 e c, In (XConst j d0 e, c) ns /\ const_known e = true).
  { induction l as [|[n cn] l IH]; intros tbl Ht Hincl j Hj; [exact (Ht j Hj)|].
    cbn [fold_left fst] in Hj. eapply IH; [|intros y Hy; apply Hincl; now right|exact Hj].
    intros k Hk. destruct n; try (exact (Ht k Hk)).
    destruct (nth_error_set_nth_true _ _ _ _ Hk) as [[-> Hb]|Hk']; [|exact (Ht k Hk')].
    exists depth0, e, cn. split; [apply Hincl; now left|exact Hb]. }
  apply G; [|intros y Hy; exact Hy]. intros j Hj. exfalso. eapply nth_error_repeat_false; eauto.
Qed.

(* the j-th data / instruction node *)
Lemma data_aligned2 {B} (f : expr -> B) : forall ns w d e c, In (XData w d e, c) ns ->
  exists j, nth_error (flat_map dref ns) j = Some d /\
            nth_error (flat_map (fun n => match fst n with XData _ _ e => [f e] | _ => [] end) ns) j = Some (f e).
Proof.
  induction ns as [|[n cn] r IH]; intros w d e c Hin; [destruct Hin|]. cbn [flat_map].
  destruct Hin as [Hin|Hin].
  - inversion Hin; subst. exists O. cbn. auto.
  - destruct (IH _ _ _ _ Hin) as (j & H1 & H2). destruct n; cbn [dref fst app]; try (exists j; auto; fail). exists (S j). auto.
Qed.

Lemma instr_aligned2 {B} (f : text -> B) : forall ns i src c, In (XInstr i src, c) ns ->
  exists j, nth_error (flat_map iref ns) j = Some i /\
            nth_error (map f (flat_map (fun n => match fst n with XInstr _ src => [src] | _ => [] end) ns)) j = Some (f src) /\
            nth_error (map snd (flat_map inode ns)) j = Some c.
Proof.
  induction ns as [|[n cn] r IH]; intros i src c Hin; [destruct Hin|]. cbn [flat_map].
  destruct Hin as [Hin|Hin].
  - inversion Hin; subst. exists O. cbn. auto.
  - destruct (IH _ _ _ Hin) as (j & H1 & H2 & H3). destruct n; cbn [iref inode fst snd app map]; try (exists j; auto; fail). exists (S j). auto.
Qed.

Lemma nth_error_combine {A B} (l : list A) (l' : list B) j a b :
  nth_error l j = Some a -> nth_error l' j = Some b -> nth_error (combine l l') j = Some (a, b).
Proof.
  revert l' j. induction l as [|x l IH]; intros [|y l'] [|j] H1 H2; cbn in *; try discriminate; [congruence|auto].
Qed.

(* ---------- whole runs ---------- *)
Definition set_iters (r : result) (n : nat) : result :=
  mkResult (r_bits r) (r_items r) (r_banks r) (r_syms r) n (r_nodes r).

Definition outF2 (m : Symbols.mgr) (banks : list Cursor.bank) (ns : list cnode) (F : ores (state * nat)) : ores result :=
  match F with
  | Err => Err | Panic => Panic
  | Ok (st, n) =>
    match out_nodes st ns with
    | Err => Err | Panic => Panic
    | Ok vs =>
      match Output.output_stage (Z.to_N max_bits) banks vs with
      | Err => Err | Panic => Panic
      | Ok (bits, items) => Ok (mkResult bits items banks (symbol_values m st) n vs)
      end
    end
  end.
Definition outT2 (m : Symbols.mgr) (banks : list Cursor.bank) (ns : list cnode) (T : ores (sstate * nat)) : ores result :=
  outF2 m banks ns (match T with Ok (x, n) => Ok (ss x, n) | Err => Err | Panic => Panic end).

Lemma lockstep2_out m banks ns F T : lockstep2 F T -> outT2 m banks ns T = outF2 m banks ns F.
Proof. unfold lockstep2, outT2. destruct F as [[st n]| |]; [intros (x' & -> & <-); reflexivity|intros ->; reflexivity|intros ->; reflexivity]. Qed.

Lemma init2_data_length indexed defs nsyms ns st0 : init_state2 indexed defs nsyms ns = Some st0 ->
  length (s_data st0) = length (flat_map dref ns).
Proof.
  unfold init_state2. cbv zeta.
  match goal with |- (if ?q then _ else _) = _ -> _ => destruct q; [discriminate|] end.
  intro H. inversion H; subst; clear H. cbn [s_data].
  induction ns as [|[n cn] r IH]; [reflexivity|]. cbn [flat_map]. rewrite !app_length, IH. f_equal. destruct n; reflexivity.
Qed.

Section Runs2.
Variable indexed : bool.
Variable defs : list ruledef.
Variable ps : list pnode.
Variables ac pc opt : bool.
Variable m : Symbols.mgr.
Variable ns : list cnode.
Hypothesis Hprep : prepare ps = Some (m, ns).
Hypothesis Hres : reserved_free2 m.
Hypothesis Hok : forall w d e c, In (XData w d e, c) ns -> data_known e = true -> elem_strict_ok w e = true.
Hypothesis Hflags : opt = true -> ac = true /\ pc = true.
Hypothesis Hasm : opt = true -> forall s d0 e c, In (XConst s d0 e, c) ns -> asm_call_free e = true.
Hypothesis Hpats : opt = true -> C01Sound.pats_ok defs = true.
Variable st0 : state.
Hypothesis Hinit : init_state2 indexed defs (length (Symbols.m_decls m)) ns = Some st0.

Let ictx := map snd (flat_map inode ns).
Let K := known_info2 ac pc defs m ictx ns st0.

Lemma HKsym2 : forall r, nth_error (k_sym K) r = Some true -> exists d0 e c, In (XConst r d0 e, c) ns /\ const_known e = true.
Proof. intros r H. exact (ksym_spec2 _ _ _ H). Qed.

Lemma HKdata2 : forall w d e c, In (XData w d e, c) ns -> flag (k_data K) d = true -> data_known e = true.
Proof.
  intros w d e c Hin H. destruct (prepare_facts _ _ _ Hprep) as (_ & _ & _ & (nd & Hd) & _).
  destruct (data_aligned2 data_known ns w d e c Hin) as (j & H1 & H2). rewrite Hd in H1. apply nth_error_seq_inv' in H1. cbn in H1. subst j.
  unfold K, known_info2 in H. cbn [k_data] in H. unfold flag in H. rewrite H2 in H. exact H.
Qed.

Lemma Hcan2 : opt = true -> canonical2 ns.
Proof. intros _. exact (proj1 (prepare_facts _ _ _ Hprep)). Qed.

Lemma init2_shape : s_sym st0 = repeat VUnknown (length (Symbols.m_decls m)) /\
  s_instr st0 = map (fun src => {| i_matches := match_instr indexed defs src;
                                   i_enc := mk 0 (Some (Z.to_N (fold_left (fun a x => Z.max a (match match_static_size defs x with Some s => s | None => 0 end)) (match_instr indexed defs src) 0))) |})
                    (flat_map (fun n => match fst n with XInstr _ src => [src] | _ => [] end) ns).
Proof.
  revert Hinit. unfold init_state2. cbv zeta.
  match goal with |- (if ?q then _ else _) = _ -> _ => destruct q; [discriminate|] end.
  intro H. inversion H; subst; clear H. cbn [s_sym s_instr s_data]. split; reflexivity.
Qed.

Lemma kinstr0_2 : opt = true -> kinstr_ok2 m defs ns K st0.
Proof.
  intros Ho i src c d Hin Hd Hf. destruct (Hflags Ho) as [Ea Ep].
  destruct (prepare_facts _ _ _ Hprep) as (_ & _ & (ni & Hi) & _ & _).
  destruct init2_shape as (_ & Si).
  set (f := fun src0 => {| i_matches := match_instr indexed defs src0;
                           i_enc := mk 0 (Some (Z.to_N (fold_left (fun a x => Z.max a (match match_static_size defs x with Some s => s | None => 0 end)) (match_instr indexed defs src0) 0))) |}) in *.
  destruct (instr_aligned2 f ns i src c Hin) as (j & H1 & H2 & H3). rewrite Hi in H1. apply nth_error_seq_inv' in H1. cbn in H1. subst j.
  rewrite <- Si in H2. rewrite Hd in H2. inversion H2; subst d. cbn [i_matches].
  unfold K, known_info2 in Hf. cbn [k_instr k_sym] in Hf. unfold flag in Hf.
  rewrite nth_error_map in Hf. fold ictx in H3. rewrite (nth_error_combine _ _ _ _ _ Hd H3) in Hf. cbn [option_map fst snd i_matches] in Hf.
  rewrite Ea, Ep in Hf. split; [exact Hf|].
  apply forallb_forall. intros x Hx. eapply MatcherKindP.matcher_kinded; [exact (Hpats Ho)|exact Hx].
Qed.

Lemma pinv0_2 : PInv2 ns opt (init_sstate st0).
Proof.
  split; cbn [init_sstate fz_sym ss].
  - intros s F. rewrite flag_repeat_false in F. discriminate.
  - apply repeat_length.
Qed.

Lemma prepass2 :
  match simple_loop2 (S (length ns)) m ns st0 0 with
  | EErr => simple_loop2S (S (length ns)) m K opt ns (init_sstate st0) 0 = EErr
  | EOk st1 => exists x1, simple_loop2S (S (length ns)) m K opt ns (init_sstate st0) 0 = EOk x1 /\ ss x1 = st1 /\
                          Inv2 m defs max_bits ns K opt x1 /\ labels_ok2 ns st1 /\ s_data st1 = s_data st0
  end.
Proof.
  destruct (prepare_facts _ _ _ Hprep) as ((Ns & Ni & Nd) & Hrange & _ & _ & _).
  pose proof (pre_sim2 m ns K opt HKsym2 Hasm (fun _ => Ns) (S (length ns)) (init_sstate st0) 0%nat pinv0_2) as H.
  cbn [ss init_sstate] in H.
  destruct (simple_loop2 (S (length ns)) m ns st0 0) as [st1|] eqn:E; [|exact H].
  destruct H as (x1 & H1 & H2 & [P1 P2] & H4 & H5). exists x1. split; [exact H1|]. split; [exact H2|].
  pose proof (prepare_distinct _ _ _ Hprep) as Hdist.
  assert (Hl : labels_ok2 ns st1).
  { eapply simple_loop2_labels_ok; [exact Hdist| |exact E]. eapply init2_labels_ok; exact Hinit. }
  cut (Inv2 m defs max_bits ns K opt x1 /\ s_data st1 = s_data st0); [intros [A B]; auto|].
  assert (Q : (opt = true -> good2 ns st1) /\ s_instr st1 = s_instr st0 /\ s_data st1 = s_data st0).
  { clear H1 H2 P1 P2 H4 H5 Hl x1.
    assert (Gn : forall fuel st prev st', simple_loop2 fuel m ns st prev = EOk st' ->
                length (s_sym st) = length (Symbols.m_decls m) ->
                (opt = true -> good2 ns st \/ (1 <= fuel)%nat) ->
                (opt = true -> good2 ns st') /\ s_instr st' = s_instr st /\ s_data st' = s_data st).
    { induction fuel as [|f IH]; intros st prev st' Hs HL Hg; cbn [simple_loop2] in Hs.
      - inversion Hs; subst. split; [|auto]. intro Ho. destruct (Hg Ho) as [Hgo|Hf]; [exact Hgo|lia].
      - rewrite simple_round2_go in Hs. destruct (sr2_go m ns st 0) as [[sta c]|] eqn:Er; [|discriminate].
        destruct (sr2_go_shape m ns st 0%nat sta c Er) as (S1 & S2 & S3).
        assert (R1 : opt = true -> good2 ns sta).
        { intro Ho. apply (sr2_go_good m ns [] st 0%nat sta c Er).
          - intros s d0 e c0 [].
          - exact Ns.
          - intros s Hs'. rewrite HL. exact (Hrange s Hs').
          - exact (Hasm Ho). }
        destruct (Nat.eqb c prev).
        + inversion Hs; subst. auto.
        + destruct (IH sta c st' Hs) as (I1 & I2 & I3); [congruence|intro Ho; left; exact (R1 Ho)|].
          split; [exact I1|]. split; congruence. }
    apply (Gn _ _ _ _ E); [rewrite (proj1 init2_shape); apply repeat_length|]. intros _. right. lia. }
  destruct Q as (Q1 & Q2 & Q3). subst st1. split; [|exact Q3].
  split; [|split; [|split; [|split]]].
  - intro Ho. split; [exact (Q1 Ho)|]. eapply kinstr2_same; [exact Q2|exact (kinstr0_2 Ho)].
  - intros i F. rewrite H4 in F. cbn [init_sstate fz_instr] in F. rewrite flag_repeat_false in F. discriminate.
  - intros d F. rewrite H5 in F. cbn [init_sstate fz_data] in F. rewrite flag_repeat_false in F. discriminate.
  - intros s F. destruct (P1 s F) as [Ho (d0 & e & c & v & c' & G1 & G2 & _)]. split; [exact Ho|]. eauto.
  - unfold lens. rewrite H4, H5. cbn [init_sstate fz_instr fz_data]. rewrite !repeat_length, Q2, Q3. split; [exact P2|split; reflexivity].
Qed.
End Runs2.

(* hypotheses about a program, in terms of what Resolver2.prepare makes of it *)
Definition wf2 (opt : bool) (defs : list ruledef) (ps : list pnode) : Prop :=
  (opt = true -> C01Sound.pats_ok defs = true) /\
  forall m ns, prepare ps = Some (m, ns) ->
    reserved_free2 m /\
    (forall w d e c, In (XData w d e, c) ns -> data_known e = true -> elem_strict_ok w e = true) /\
    (opt = true -> forall s d0 e c, In (XConst s d0 e, c) ns -> asm_call_free e = true).

Section Final2.
Variable indexed : bool.
Variable defs : list ruledef.
Variable ps : list pnode.
Variables ac pc opt : bool.
Hypothesis Hwf : wf2 opt defs ps.
Hypothesis Hflags : opt = true -> ac = true /\ pc = true.

Lemma runs2 :
  (forall b, assembleS2 ac pc opt indexed defs ps b = Err /\ assemble2 indexed defs ps b = Err) \/
  exists m ns banks x1 K,
    Inv2 m defs max_bits ns K opt x1 /\ labels_ok2 ns (ss x1) /\ syms_distinct2 ns /\ reserved_free2 m /\
    (forall r, nth_error (k_sym K) r = Some true -> exists d0 e c, In (XConst r d0 e, c) ns /\ const_known e = true) /\
    (forall w d e c, In (XData w d e, c) ns -> data_known e = true -> elem_strict_ok w e = true) /\
    (forall w d e c, In (XData w d e, c) ns -> flag (k_data K) d = true -> data_known e = true) /\
    (opt = true -> canonical2 ns) /\
    (forall d, In d (flat_map dref ns) -> (d < length (s_data (ss x1)))%nat) /\
    forall b, assembleS2 ac pc opt indexed defs ps b = outT2 m banks ns (loop2S m banks defs max_bits K opt ns b 0 b x1) /\
              assemble2 indexed defs ps b = outF2 m banks ns (loop2 m banks defs max_bits ns b 0 b (ss x1)).
Proof.
  destruct Hwf as [Hpats Hw]. unfold assembleS2, assemble2, setup.
  destruct (prepare ps) as [[m ns]|] eqn:P; [|left; auto].
  destruct (Hw m ns eq_refl) as (Hres & Hok & Hasm).
  destruct (prepare_facts _ _ _ P) as (Hc & _ & _ & (nd & Hnd) & Hm). rewrite Hm.
  destruct (init_state2 indexed defs (length (Symbols.m_decls m)) ns) as [st0|] eqn:E0; [|left; auto].
  pose proof (prepass2 indexed defs ps ac pc opt m ns P Hok Hflags Hasm Hpats st0 E0) as H.
  destruct (simple_loop2 (S (length ns)) m ns st0 0) as [st1|]; [|left; intro b; rewrite H; auto].
  destruct H as (x1 & H1 & H2 & HI & Hl & Hsd). rewrite H1. subst st1.
  destruct (define_banks m (ss x1) (bank_fields ps)) as [bs|]; [|left; auto].
  right. exists m, ns, (Cursor.default_bank :: bs), x1, (known_info2 ac pc defs m (map snd (flat_map inode ns)) ns st0).
  split; [exact HI|]. split; [exact Hl|]. split; [exact (prepare_distinct _ _ _ P)|]. split; [exact Hres|].
  split; [exact (HKsym2 defs ac pc m ns st0)|]. split; [exact Hok|].
  split; [exact (HKdata2 defs ps ac pc m ns P st0)|]. split; [intros _; exact Hc|].
  split.
  { intros d Hd. rewrite Hsd, (init2_data_length _ _ _ _ _ E0). rewrite Hnd in Hd |- *. apply in_seq in Hd. rewrite seq_length. lia. }
  intro b. split.
  - unfold outT2, outF2. destruct (loop2S m (Cursor.default_bank :: bs) defs max_bits _ opt ns b 0 b x1) as [[x n]| |]; reflexivity.
  - reflexivity.
Qed.
End Final2.

Lemma ft2 {P : Prop} : false = true -> P.
Proof. discriminate. Qed.

(* with the optimisation off, ResolverS2 is Resolver2 (result, pass count, panics included) *)
Theorem assembleS2_off ac pc indexed defs ps b : wf2 false defs ps ->
  assembleS2 ac pc false indexed defs ps b = assemble2 indexed defs ps b.
Proof.
  intro Hwf. destruct (runs2 indexed defs ps ac pc false Hwf ft2) as [Hn|(m & ns & banks & x1 & K & HI & Hl & Hd & Hres & HKs & Hok & HKd & Hc & _ & Hb)].
  - destruct (Hn b) as [-> ->]. reflexivity.
  - destruct (Hb b) as [-> ->]. apply lockstep2_out.
    exact (loop_off2 m banks defs max_bits ns K Hres HKs false Hok HKd Hc b x1 eq_refl HI).
Qed.

Section Switch2.
Variable indexed : bool.
Variable defs : list ruledef.
Variable ps : list pnode.
Hypothesis Hwf : wf2 true defs ps.

Notation ON b := (assembleS2 true true true indexed defs ps b).
Notation OFF b := (assemble2 indexed defs ps b).

(* the switch theorem on the Resolver2 fragment: for every budget b, the two settings give the identical answer; or the
   one-pass situation (b = 1: the unoptimised run fails, the optimised one, if it is Ok, reports 1 pass; b >= 2: the same
   result in exactly two passes); or b >= 2 and neither run is Ok. *)
Theorem switch2_cases b :
  ON b = OFF b \/
  (b = 1%nat /\ OFF b = Err /\ forall r, ON b = Ok r -> r_iters r = 1%nat) \/
  ((2 <= b)%nat /\ exists r, ON b = Ok r /\ r_iters r = 1%nat /\ OFF b = Ok (set_iters r 2)) \/
  ((2 <= b)%nat /\ (forall r, ON b <> Ok r) /\ (forall r, OFF b <> Ok r)).
Proof.
  destruct (runs2 indexed defs ps true true true Hwf (fun _ => conj eq_refl eq_refl))
    as [Hn|(m & ns & banks & x1 & K & HI & Hl & Hd & Hres & HKs & Hok & HKd & Hc & Hrange & Hb)].
  - left. destruct (Hn b) as [-> ->]. reflexivity.
  - destruct (Hb b) as [ET EF]. rewrite ET, EF. clear Hb ET EF.
    destruct (loop_cases2 m banks defs max_bits ns K Hres HKs true Hok HKd Hc b x1 HI) as [L|O].
    + left. apply lockstep2_out. exact L.
    + pose proof O as (x2 & Hb1 & HI2 & HT1 & HF1 & HT & HF).
      destruct (Nat.eq_dec b 1) as [->|Hne].
      * change (Nat.eqb 1 1) with true in HT, HF. rewrite HT, HF. right. left. split; [reflexivity|]. split; [reflexivity|].
        intros r Hr. cbn [outT2 outF2] in Hr.
        destruct (out_nodes (ss x2) ns) as [vs| |]; try discriminate.
        destruct (Output.output_stage (Z.to_N max_bits) banks vs) as [[bits items]| |]; try discriminate.
        inversion Hr; subst. reflexivity.
      * assert (Hb2 : (2 <= b)%nat) by lia.
        assert (FL : (3 <= b)%nat -> forall x3, run_passS m banks defs max_bits K true true false ns x1 = Ok (x3, Resolved) ->
                       Inv2 m defs max_bits ns K true x3 -> run_pass m banks defs max_bits false ns (ss x3) = Ok (ss x3, Resolved)).
        { intros _ x3 HT3 _. unfold run_passS in HT3. unfold run_pass.
          destruct (Hc eq_refl) as (Ns & Ni & Nd).
          exact (proj1 (replay_pass2 m banks defs max_bits ns K Hres HKs Hok HKd (Hc eq_refl) Hd true false ns (fun y Hy => Hy) Ni Nd
                          x1 (Cursor.init_cursor banks) None x3 HI Hl Hrange HT3)). }
        destruct (loop2S m banks defs max_bits K true ns b 0 b x1) as [[x' n]| |] eqn:ET.
        -- destruct (one_pass_fwd2 m banks defs max_bits ns K Hres HKs true Hok HKd Hc Hd b x1 _ _ O Hl Hb2 x' n eq_refl) as [-> EF].
           rewrite EF. cbn [outT2 outF2].
           destruct (out_nodes (ss x') ns) as [vs| |]; [|left; reflexivity|left; reflexivity].
           destruct (Output.output_stage (Z.to_N max_bits) banks vs) as [[bits items]| |]; [|left; reflexivity|left; reflexivity].
           right. right. left. split; [exact Hb2|]. eexists. split; [reflexivity|]. split; reflexivity.
        -- right. right. right. split; [exact Hb2|]. split; [intros r Hr; discriminate Hr|].
           intros r Hr. destruct (loop2 m banks defs max_bits ns b 0 b (ss x1)) as [[st n]| |] eqn:EF; try discriminate Hr.
           destruct (one_pass_bwd2 m banks defs max_bits ns K Hres HKs true Hok HKd Hc b x1 _ _ O Hb2 FL st n eq_refl) as (x' & ET' & _). discriminate ET'.
        -- right. right. right. split; [exact Hb2|]. split; [intros r Hr; discriminate Hr|].
           intros r Hr. destruct (loop2 m banks defs max_bits ns b 0 b (ss x1)) as [[st n]| |] eqn:EF; try discriminate Hr.
           destruct (one_pass_bwd2 m banks defs max_bits ns K Hres HKs true Hok HKd Hc b x1 _ _ O Hb2 FL st n eq_refl) as (x' & ET' & _). discriminate ET'.
Qed.

(* whenever both settings succeed: identical bits, items, banks, symbols and nodes; pass counts equal or (1, 2) *)
Theorem switch2_same_result b r r' : ON b = Ok r -> OFF b = Ok r' -> set_iters r 0 = set_iters r' 0 /\ counts_ok (r_iters r) (r_iters r').
Proof.
  intros H1 H2. destruct (switch2_cases b) as [E|[(-> & E & _)|[(Hb & r0 & E1 & E2 & E3)|(Hb & E & _)]]].
  - rewrite E, H2 in H1. inversion H1; subst. split; [reflexivity|now left].
  - rewrite E in H2. discriminate.
  - rewrite E1 in H1. inversion H1; subst r0. rewrite E3 in H2. inversion H2; subst r'. split; [reflexivity|]. right. cbn. auto.
  - exfalso. exact (E r H1).
Qed.

(* every success with the optimisation at a budget >= 2 is a success without it *)
Theorem switch2_fwd b r : (2 <= b)%nat -> ON b = Ok r -> exists n', OFF b = Ok (set_iters r n') /\ counts_ok (r_iters r) n'.
Proof.
  intros Hb H1. destruct (switch2_cases b) as [E|[(-> & _)|[(_ & r0 & E1 & E2 & E3)|(_ & E & _)]]].
  - exists (r_iters r). rewrite <- E, H1. split; [destruct r; reflexivity|now left].
  - lia.
  - rewrite E1 in H1. inversion H1; subst r0. exists 2%nat. split; [exact E3|right; auto].
  - exfalso. exact (E r H1).
Qed.

(* every success without the optimisation is a success with it, at every budget *)
Theorem switch2_bwd b r' : OFF b = Ok r' -> exists r, ON b = Ok r /\ set_iters r 0 = set_iters r' 0 /\ counts_ok (r_iters r) (r_iters r').
Proof.
  intro H2. destruct (switch2_cases b) as [E|[(-> & E & _)|[(Hb & r0 & E1 & E2 & E3)|(Hb & _ & E)]]].
  - exists r'. rewrite E. split; [exact H2|]. split; [reflexivity|now left].
  - rewrite E in H2. discriminate.
  - exists r0. split; [exact E1|]. rewrite E3 in H2. inversion H2; subst r'. split; [reflexivity|]. right. cbn. auto.
  - exfalso. exact (E r' H2).
Qed.

(* for budgets >= 2 the same programs succeed *)
Theorem switch2_success b : (2 <= b)%nat -> ((exists r, ON b = Ok r) <-> (exists r', OFF b = Ok r')).
Proof.
  intro Hb. split.
  - intros [r H]. destruct (switch2_fwd b r Hb H) as (n' & H' & _). eauto.
  - intros [r' H]. destruct (switch2_bwd b r' H) as (r & H' & _). eauto.
Qed.
End Switch2.

(* static_known_sound for scoped lookups, in the form of the property statement *)
Theorem static_known_sound_scoped m ns K :
  reserved_free2 m ->
  (forall r, nth_error (k_sym K) r = Some true -> exists d0 e c, In (XConst r d0 e, c) ns /\ const_known e = true) ->
  forall c st st' addr addr' cg cg', good2 ns st -> good2 ns st' ->
  pv_agree (global_known2 true m c (k_sym K)) (pvar2 m st c addr cg) (pvar2 m st' c addr' cg') /\
  asm_agree (pvar2 m st c addr cg) (pvar2 m st' c addr' cg').
Proof.
  intros Hres HK c st st' addr addr' cg cg' Hg Hg'.
  exact (conj (good_agree2 m ns K HK c st st' addr addr' cg cg' Hg Hg') (asm_agree_pvar2 m Hres st c addr cg st' c addr' cg')).
Qed.

From Coq Require Import String.
From CA Require Proofs.ResolverSRefuteP.
(* non-vacuity: `a:` / `.v = 5` / `get` (rule `get => 0x10 @ .v`8`) / `k = $` / `.v = $` / `get` *)
Definition ex2_rules : text := ResolverSRefuteP.txt ("#ruledef {" ++ ResolverSRefuteP.nl ++ "get => 0x10 @ .v`8" ++ ResolverSRefuteP.nl ++ "}" ++ ResolverSRefuteP.nl)%string.
Definition ex2_defs : list ruledef := Eval vm_compute in match parse_defs ex2_rules with Some d => d | None => [] end.
Definition ex2_ps : list pnode := Eval vm_compute in
  [PLabel 0 (ResolverSRefuteP.txt "a"); PConst 1 (ResolverSRefuteP.txt "v") (ResolverSRefuteP.pe "5"); PInstr (ResolverSRefuteP.txt "get");
   PConst 0 (ResolverSRefuteP.txt "k") (ResolverSRefuteP.pe "$"); PConst 1 (ResolverSRefuteP.txt "v") (ResolverSRefuteP.pe "$"); PInstr (ResolverSRefuteP.txt "get")].
Example switch2_nonvacuous :
  exists r, assembleS2 true true true true ex2_defs ex2_ps 3 = Ok r /\ assemble2 true ex2_defs ex2_ps 3 = Ok r /\
            r_bits r = [false;false;false;true;false;false;false;false; false;false;false;false;false;true;false;true;
                        false;false;false;true;false;false;false;false; false;false;false;false;false;false;true;false].
Proof. vm_compute. eexists. repeat split; reflexivity. Qed.
