(* Lemmas about Model/TopShape.v for C03: the shape of asm::assemble and of the driver glue. *)
From Coq Require Import NArith List Bool String Lia.
From CA Require Import Model.CliTables Model.Driver Spec.Cli Proofs.DriverP Model.TopShape Spec.Loud.
Import ListNotations.
Open Scope list_scope.

(* ---------------------------------------------------------------- reports *)
Lemma has_error_app : forall a b, has_error (a ++ b) = has_error a || has_error b.
Proof. intros. unfold has_error. apply existsb_app. Qed.

Lemma top_error_is_error : forall r, has_top_error r = true -> has_error r = true.
Proof.
  induction r as [|k r IH]; simpl; intro H; try discriminate.
  apply orb_true_iff in H. destruct H as [H|H]; [destruct k; try discriminate; reflexivity | rewrite (IH H); apply orb_true_r].
Qed.

Lemma well_topped_app : forall a b, well_topped (a ++ b) = well_topped a && well_topped b.
Proof. intros. unfold well_topped. apply forallb_app. Qed.

(* all errors are top-level Errors and stop_at_errors saw none: there is no error at any depth *)
Lemma well_topped_clean : forall r, well_topped r = true -> has_top_error r = false -> has_error r = false.
Proof.
  induction r as [|k r IH]; simpl; intros W T; auto.
  apply andb_true_iff in W. destruct W as [W1 W2]. apply orb_false_iff in T. destruct T as [T1 T2].
  rewrite (IH W2 T2). destruct k; simpl in *; try discriminate; reflexivity.
Qed.

Lemma has_error_nonempty : forall r, has_error r = true -> nonempty r = true.
Proof. intros [|k r] H; simpl in *; [discriminate | reflexivity]. Qed.

(* ---------------------------------------------------------------- fields *)
Lemma field_eqb_eq : forall f g, field_eqb f g = true <-> f = g.
Proof. intros [] []; simpl; split; intro H; try discriminate; auto. Qed.

Lemma get_set_same : forall a f, get (set a f) f = true.
Proof. intros a []; reflexivity. Qed.

Lemma get_set_other : forall a f g, field_eqb f g = false -> get (set a g) f = get a f.
Proof. intros a [] []; simpl; intro H; try discriminate; reflexivity. Qed.

Lemma get_set_mono : forall a f g, get a f = true -> get (set a g) f = true.
Proof. intros a [] []; simpl; auto. Qed.

Lemma get_assign_other : forall a f c, assigns f c = false -> get (assign a (c_assign c)) f = get a f.
Proof.
  intros a f c H. unfold assigns in H. destruct (c_assign c) as [g|]; simpl; auto. apply get_set_other. exact H.
Qed.

Lemma get_assign_same : forall a f c, assigns f c = true -> get (assign a (c_assign c)) f = true.
Proof.
  intros a f c H. unfold assigns in H. destruct (c_assign c) as [g|]; simpl; try discriminate.
  apply field_eqb_eq in H. subst. apply get_set_same.
Qed.

Lemma get_assign_mono : forall a f o, get a f = true -> get (assign a o) f = true.
Proof. intros a f [g|] H; simpl; auto. apply get_set_mono. exact H. Qed.

Lemma r_error_assign : forall a o, r_error (assign a o) = r_error a.
Proof. intros a [[]|]; reflexivity. Qed.

(* ---------------------------------------------------------------- the interpreter *)
Section Shape.
Variable St : Type.
Variable sem : pkind -> St -> report -> option St * report.
Variable loop_done : St -> bool.
Hypothesis Hob : obligations St sem.

Let Hloud : loud_on_err St sem := proj1 Hob.
Let Hquiet : quiet_on_ok St sem := proj1 (proj2 Hob).
Let Hinf : infallible_ok St sem := proj1 (proj2 (proj2 Hob)).
Let Htop : top_on_continue St sem := proj2 (proj2 (proj2 Hob)).

Notation do_call := (do_call St sem).
Notation run_calls := (run_calls St sem).
Notation run_loop := (run_loop St sem loop_done).
Notation run_closure := (run_closure St sem loop_done).
Notation assemble := (assemble St sem loop_done).
Notation step_sem := (step_sem St sem).

Definition flow_res (f : flow St) : option aresult :=
  match f with FNext _ a _ => Some a | FErr a _ => Some a | FPanic a _ => Some a | FDiverge => None end.

Lemma run_calls_app : forall xs ys s a r,
  run_calls (xs ++ ys) s a r = match run_calls xs s a r with FNext s1 a1 r1 => run_calls ys s1 a1 r1 | f => f end.
Proof.
  induction xs as [|x xs IH]; intros ys s a r; simpl; auto.
  destruct (do_call x s a r); auto.
Qed.

(* --- Err is loud (no condition on the shape: an Err leaves the closure only through a `?`) *)
Lemma step_sem_none : forall k s r pushed, step_sem k s r = (None, pushed) -> has_error (r ++ pushed) = true.
Proof.
  intros k s r pushed H. destruct k; cbv beta iota delta [TopShape.step_sem] in H;
    try (match type of H with sem ?k0 _ _ = _ => apply (Hloud k0 s r pushed); [discriminate | exact H] end).
  destruct (has_top_error r) eqn:E; inversion H; subst. rewrite app_nil_r. exact (top_error_is_error _ E).
Qed.

Lemma do_call_err : forall c s a r a' r', do_call c s a r = FErr a' r' -> has_error r' = true /\ a' = a.
Proof.
  intros c s a r a' r' H. unfold TopShape.do_call in H.
  destruct (negb (forallb (get a) (c_uses c))); try discriminate.
  destruct (step_sem (c_phase c) s r) as [o pushed] eqn:E.
  destruct o as [s'|]; try discriminate.
  destruct (c_try c); try discriminate. inversion H; subst. split; auto.
  eapply step_sem_none; eauto.
Qed.

Lemma run_calls_err : forall cs s a r a' r', run_calls cs s a r = FErr a' r' -> has_error r' = true.
Proof.
  induction cs as [|c cs IH]; intros s a r a' r' H; simpl in H; try discriminate.
  destruct (do_call c s a r) as [s1 a1 r1|a1 r1|a1 r1|] eqn:D; try discriminate.
  - eapply IH; eauto.
  - inversion H; subst. apply do_call_err in D. tauto.
Qed.

Lemma run_loop_err : forall fuel body s a r a' r', run_loop fuel body s a r = FErr a' r' -> has_error r' = true.
Proof.
  induction fuel as [|n IH]; intros body s a r a' r' H; simpl in H; try discriminate.
  destruct (run_calls body s a r) as [s1 a1 r1|a1 r1|a1 r1|] eqn:D; try discriminate.
  - destruct (loop_done s1); try discriminate. eapply IH; eauto.
  - inversion H; subst. eapply run_calls_err; eauto.
Qed.

Lemma run_closure_err : forall sh fuel s0 r0 a r, run_closure sh fuel s0 r0 = FErr a r -> has_error r = true.
Proof.
  intros sh fuel s0 r0 a r H. unfold TopShape.run_closure in H.
  destruct (run_calls (sh_pre sh) s0 empty_result r0) as [s1 a1 r1|a1 r1|a1 r1|] eqn:D1; try discriminate.
  - destruct (run_loop fuel (sh_loop sh) s1 a1 r1) as [s2 a2 r2|a2 r2|a2 r2|] eqn:D2; try discriminate.
    + eapply run_calls_err; eauto.
    + inversion H; subst. eapply run_loop_err; eauto.
  - inversion H; subst. eapply run_calls_err; eauto.
Qed.

(* --- going on after a call that is followed by `?` (or cannot fail) means that it succeeded *)
Lemma do_call_next : forall c s a r s' a' r', try_ok c = true -> do_call c s a r = FNext s' a' r' ->
  exists pushed, step_sem (c_phase c) s r = (Some s', pushed) /\ a' = assign a (c_assign c) /\ r' = r ++ pushed /\
                 forallb (get a) (c_uses c) = true.
Proof.
  intros c s a r s' a' r' T H. unfold TopShape.do_call in H.
  destruct (forallb (get a) (c_uses c)) eqn:U; simpl in H; try discriminate.
  destruct (step_sem (c_phase c) s r) as [o pushed] eqn:E.
  destruct o as [s1|].
  - inversion H; subst. exists pushed. auto.
  - destruct (c_try c) eqn:Tr; try discriminate.
    unfold try_ok in T. rewrite Tr in T. simpl in T.
    exfalso. destruct (c_phase c); simpl in T; try discriminate. simpl in E. exact (Hinf PDefsInit s r pushed eq_refl E).
Qed.

(* --- a field that no call of the list assigns keeps its value, whatever happens; the error flag is never touched *)
Lemma do_call_preserve : forall c s a r a' f, assigns f c = false -> flow_res (do_call c s a r) = Some a' -> get a' f = get a f.
Proof.
  intros c s a r a' f N H. unfold TopShape.do_call in H.
  destruct (negb (forallb (get a) (c_uses c))); simpl in H; [inversion H; reflexivity|].
  destruct (step_sem (c_phase c) s r) as [o pushed]. destruct o as [s1|]; simpl in H.
  - inversion H; subst. apply get_assign_other. exact N.
  - destruct (c_try c); simpl in H; inversion H; reflexivity.
Qed.

Lemma do_call_error_flag : forall c s a r a', flow_res (do_call c s a r) = Some a' -> r_error a' = r_error a.
Proof.
  intros c s a r a' H. unfold TopShape.do_call in H.
  destruct (negb (forallb (get a) (c_uses c))); simpl in H; [inversion H; reflexivity|].
  destruct (step_sem (c_phase c) s r) as [o pushed]. destruct o as [s1|]; simpl in H.
  - inversion H; subst. apply r_error_assign.
  - destruct (c_try c); simpl in H; inversion H; reflexivity.
Qed.

Lemma run_calls_preserve : forall cs s a r a' f, existsb (assigns f) cs = false -> flow_res (run_calls cs s a r) = Some a' -> get a' f = get a f.
Proof.
  induction cs as [|c cs IH]; intros s a r a' f N H; simpl in *.
  - inversion H; reflexivity.
  - apply orb_false_iff in N. destruct N as [N1 N2].
    destruct (do_call c s a r) as [s1 a1 r1|a1 r1|a1 r1|] eqn:D.
    + rewrite (IH _ _ _ _ _ N2 H). apply (do_call_preserve c s a r a1 f N1). rewrite D. reflexivity.
    + apply (do_call_preserve c s a r a' f N1). rewrite D. exact H.
    + apply (do_call_preserve c s a r a' f N1). rewrite D. exact H.
    + discriminate.
Qed.

Lemma run_calls_error_flag : forall cs s a r a', flow_res (run_calls cs s a r) = Some a' -> r_error a' = r_error a.
Proof.
  induction cs as [|c cs IH]; intros s a r a' H; simpl in *.
  - inversion H; reflexivity.
  - destruct (do_call c s a r) as [s1 a1 r1|a1 r1|a1 r1|] eqn:D.
    + rewrite (IH _ _ _ _ H). apply (do_call_error_flag c s a r a1). rewrite D. reflexivity.
    + apply (do_call_error_flag c s a r a'). rewrite D. exact H.
    + apply (do_call_error_flag c s a r a'). rewrite D. exact H.
    + discriminate.
Qed.

Lemma run_loop_preserve : forall fuel body s a r a' f, existsb (assigns f) body = false ->
  flow_res (run_loop fuel body s a r) = Some a' -> get a' f = get a f.
Proof.
  induction fuel as [|n IH]; intros body s a r a' f N H; simpl in H; try discriminate.
  destruct (run_calls body s a r) as [s1 a1 r1|a1 r1|a1 r1|] eqn:D.
  - assert (E : get a1 f = get a f) by (apply (run_calls_preserve body s a r a1 f N); rewrite D; reflexivity).
    destruct (loop_done s1).
    + inversion H; subst. exact E.
    + rewrite (IH _ _ _ _ _ _ N H). exact E.
  - apply (run_calls_preserve body s a r a' f N). rewrite D. exact H.
  - apply (run_calls_preserve body s a r a' f N). rewrite D. exact H.
  - discriminate.
Qed.

Lemma run_loop_error_flag : forall fuel body s a r a', flow_res (run_loop fuel body s a r) = Some a' -> r_error a' = r_error a.
Proof.
  induction fuel as [|n IH]; intros body s a r a' H; simpl in H; try discriminate.
  destruct (run_calls body s a r) as [s1 a1 r1|a1 r1|a1 r1|] eqn:D.
  - assert (E : r_error a1 = r_error a) by (apply (run_calls_error_flag body s a r a1); rewrite D; reflexivity).
    destruct (loop_done s1).
    + inversion H; subst. exact E.
    + rewrite (IH _ _ _ _ _ H). exact E.
  - apply (run_calls_error_flag body s a r a'). rewrite D. exact H.
  - apply (run_calls_error_flag body s a r a'). rewrite D. exact H.
  - discriminate.
Qed.

(* --- quiet calls keep a clean report clean *)
Lemma run_calls_quiet : forall cs s a r s' a' r', forallb quiet_call cs = true ->
  run_calls cs s a r = FNext s' a' r' -> has_error r = false -> has_error r' = false.
Proof.
  induction cs as [|c cs IH]; intros s a r s' a' r' Q H C; simpl in *.
  - inversion H; subst. exact C.
  - apply andb_true_iff in Q. destruct Q as [Q1 Q2].
    destruct (do_call c s a r) as [s1 a1 r1|a1 r1|a1 r1|] eqn:D; try discriminate.
    apply (IH _ _ _ _ _ _ Q2 H).
    unfold quiet_call in Q1. apply andb_true_iff in Q1. destruct Q1 as [Qk Qt].
    assert (T : try_ok c = true) by (unfold try_ok; rewrite Qt; reflexivity).
    destruct (do_call_next _ _ _ _ _ _ _ T D) as (pushed & E & _ & Er & _). subst r1.
    rewrite has_error_app, C. simpl.
    destruct (c_phase c); simpl in Qk; try discriminate; cbv beta iota delta [TopShape.step_sem] in E;
      match type of E with sem ?k0 _ _ = _ => exact (Hquiet k0 _ _ _ _ eq_refl E) end.
Qed.

(* --- going on keeps the report well-topped (obligation T1) *)
Lemma do_call_well_topped : forall c s a r s' a' r', try_ok c = true -> do_call c s a r = FNext s' a' r' ->
  well_topped r = true -> well_topped r' = true.
Proof.
  intros c s a r s' a' r' T D W. destruct (do_call_next _ _ _ _ _ _ _ T D) as (pushed & E & _ & Er & _). subst r'.
  rewrite well_topped_app, W. simpl.
  destruct (c_phase c) eqn:K; cbv beta iota delta [TopShape.step_sem] in E;
    try (match type of E with sem ?k0 _ _ = _ => apply (Htop k0 s r s' pushed); [discriminate | exact E] end).
  destruct (has_top_error r); inversion E; reflexivity.
Qed.

Lemma run_calls_well_topped : forall cs s a r s' a' r', forallb try_ok cs = true -> run_calls cs s a r = FNext s' a' r' ->
  well_topped r = true -> well_topped r' = true.
Proof.
  induction cs as [|c cs IH]; intros s a r s' a' r' T H W; simpl in *.
  - inversion H; subst. exact W.
  - apply andb_true_iff in T. destruct T as [T1 T2].
    destruct (do_call c s a r) as [s1 a1 r1|a1 r1|a1 r1|] eqn:D; try discriminate.
    eapply IH; eauto. eapply do_call_well_topped; eauto.
Qed.

Lemma run_loop_well_topped : forall fuel body s a r s' a' r', forallb try_ok body = true -> run_loop fuel body s a r = FNext s' a' r' ->
  well_topped r = true -> well_topped r' = true.
Proof.
  induction fuel as [|n IH]; intros body s a r s' a' r' T H W; simpl in H; try discriminate.
  destruct (run_calls body s a r) as [s1 a1 r1|a1 r1|a1 r1|] eqn:D; try discriminate.
  assert (W1 := run_calls_well_topped _ _ _ _ _ _ _ T D W).
  destruct (loop_done s1).
  - inversion H; subst. exact W1.
  - eapply IH; eauto.
Qed.

(* --- unwraps *)
Definition known (have : list field) (a : aresult) : Prop := forall f, mem f have = true -> get a f = true.

Lemma known_nil : forall a, known [] a.
Proof. intros a f H. discriminate. Qed.

Lemma uses_ok_from_incl : forall cs have f, mem f have = true -> mem f (snd (uses_ok_from have cs)) = true.
Proof.
  induction cs as [|c cs IH]; intros have f H; simpl; auto.
  apply IH. destruct (c_assign c); auto. unfold mem in *. simpl. rewrite H. apply orb_true_r.
Qed.

Lemma forallb_known : forall have a us, known have a -> forallb (fun f => mem f have) us = true -> forallb (get a) us = true.
Proof.
  intros have a us K H. apply forallb_forall. intros f Hin. apply K. exact (proj1 (forallb_forall _ _) H f Hin).
Qed.

Lemma known_assign : forall have a c, known have a ->
  known (match c_assign c with Some f => f :: have | None => have end) (assign a (c_assign c)).
Proof.
  intros have a c K f H. destruct (c_assign c) as [g|]; simpl in *; auto.
  unfold mem in H. simpl in H. apply orb_true_iff in H. destruct H as [H|H].
  - apply field_eqb_eq in H. subst. apply get_set_same.
  - apply get_set_mono. apply K. exact H.
Qed.

Lemma run_calls_known : forall cs have s a r, forallb try_ok cs = true -> uses_ok have cs = true -> known have a ->
  match run_calls cs s a r with
  | FPanic _ _ => False
  | FNext _ a' _ => known (have_after have cs) a'
  | _ => True
  end.
Proof.
  induction cs as [|c cs IH]; intros have s a r T U K; simpl.
  - exact K.
  - simpl in T. apply andb_true_iff in T. destruct T as [T1 T2].
    unfold uses_ok in U. simpl in U. apply andb_true_iff in U. destruct U as [U1 U2].
    destruct (do_call c s a r) as [s1 a1 r1|a1 r1|a1 r1|] eqn:D; auto.
    + destruct (do_call_next _ _ _ _ _ _ _ T1 D) as (pushed & _ & Ea & _ & _). subst a1.
      unfold have_after. simpl. apply (IH _ s1 _ r1 T2 U2). apply known_assign. exact K.
    + unfold TopShape.do_call in D. rewrite (forallb_known _ _ _ K U1) in D. simpl in D.
      destruct (step_sem (c_phase c) s r) as [o pushed]. destruct o; try discriminate. destruct (c_try c); discriminate.
Qed.

Lemma run_loop_known : forall fuel body have s a r, forallb try_ok body = true -> uses_ok have body = true -> known have a ->
  match run_loop fuel body s a r with
  | FPanic _ _ => False
  | FNext _ a' _ => known (have_after have body) a'
  | _ => True
  end.
Proof.
  induction fuel as [|n IH]; intros body have s a r T U K; simpl; auto.
  assert (R := run_calls_known body have s a r T U K).
  destruct (run_calls body s a r) as [s1 a1 r1|a1 r1|a1 r1|] eqn:D; auto.
  destruct (loop_done s1); auto.
  assert (K1 : known have a1) by (intros f Hf; apply R; apply uses_ok_from_incl; exact Hf).
  exact (IH body have s1 a1 r1 T U K1).
Qed.

(* ---------------------------------------------------------------- what shape_ok gives *)
Lemma split_last_stop_spec : forall cs before after, split_last_stop cs = Some (before, after) ->
  exists stopc, cs = before ++ stopc :: after /\ is_stop stopc = true.
Proof.
  induction cs as [|c cs IH]; intros before after H; simpl in H; try discriminate.
  destruct (split_last_stop cs) as [[b a]|] eqn:E.
  - inversion H; subst. destruct (IH _ _ eq_refl) as (st & E1 & E2). exists st. split; auto. simpl. rewrite E1. reflexivity.
  - destruct (is_stop c) eqn:I; try discriminate. inversion H; subst. exists c. split; auto.
Qed.

Lemma nonempty_last : forall {A} (l : list A), is_nil l = false -> exists front last, l = front ++ [last].
Proof.
  intros A l H. destruct (rev l) as [|x xs] eqn:E.
  - apply (f_equal (@rev A)) in E. rewrite rev_involutive in E. subst. discriminate.
  - exists (rev xs), x. apply (f_equal (@rev A)) in E. rewrite rev_involutive in E. simpl in E. exact E.
Qed.

Lemma do_stop_next : forall c s a r s' a' r', is_stop c = true -> do_call c s a r = FNext s' a' r' -> has_top_error r = false /\ r' = r.
Proof.
  intros c s a r s' a' r' I H. unfold is_stop in I. apply andb_true_iff in I. destruct I as [Ik It].
  assert (T : try_ok c = true) by (unfold try_ok; rewrite It; reflexivity).
  destruct (do_call_next _ _ _ _ _ _ _ T H) as (pushed & E & _ & Er & _).
  destruct (c_phase c); simpl in Ik; try discriminate. cbv beta iota delta [TopShape.step_sem] in E.
  destruct (has_top_error r) eqn:C; inversion E; subst. split; auto. apply app_nil_r.
Qed.

Section OkShape.
Variable sh : shape.
Hypothesis Hok : shape_ok sh = true.

Lemma sok_parts : sok_try sh = true /\ sok_output_last sh = true /\ sok_stop sh = true /\ sok_uses sh = true /\ sh_err_sets_flag sh = true.
Proof.
  assert (H := Hok). unfold shape_ok in H. repeat (apply andb_true_iff in H; destruct H as [H ?]). repeat split; assumption.
Qed.

Lemma try_parts : forallb try_ok (sh_pre sh) = true /\ forallb try_ok (sh_loop sh) = true /\ forallb try_ok (sh_post sh) = true.
Proof.
  destruct sok_parts as (T & _). unfold sok_try, all_calls in T. rewrite !forallb_app in T.
  apply andb_true_iff in T. destruct T as [T1 T]. apply andb_true_iff in T. tauto.
Qed.

(* the post-loop calls: front ++ [last], only `last` assigns output; and before ++ stop :: after with `after` quiet *)
Lemma post_parts : exists front last before stopc after,
  sh_post sh = front ++ [last] /\ assigns FOutput last = true /\ existsb (assigns FOutput) front = false /\
  sh_post sh = before ++ stopc :: after /\ is_stop stopc = true /\ forallb quiet_call after = true.
Proof.
  destruct sok_parts as (_ & O & Sp & _). unfold sok_output_last in O. apply andb_true_iff in O. destruct O as [_ O].
  destruct (rev (sh_post sh)) as [|last front] eqn:R; try discriminate.
  apply andb_true_iff in O. destruct O as [O1 O2]. apply negb_true_iff in O2.
  unfold sok_stop in Sp. destruct (split_last_stop (sh_post sh)) as [[before after]|] eqn:E; try discriminate.
  apply andb_true_iff in Sp. destruct Sp as [Q _].
  destruct (split_last_stop_spec _ _ _ E) as (stopc & E1 & E2).
  exists (rev front), last, before, stopc, after. repeat split; auto.
  - apply (f_equal (@rev call)) in R. rewrite rev_involutive in R. simpl in R. exact R.
  - rewrite <- O2. clear. induction front as [|x xs IH]; simpl; auto. rewrite existsb_app. simpl. rewrite IH. rewrite orb_false_r. apply orb_comm.
Qed.

Lemma no_early_output : existsb (assigns FOutput) (sh_pre sh) = false /\ existsb (assigns FOutput) (sh_loop sh) = false.
Proof.
  destruct sok_parts as (_ & O & _). unfold sok_output_last in O. apply andb_true_iff in O. destruct O as [O _].
  apply negb_true_iff in O. rewrite existsb_app in O. apply orb_false_iff in O. exact O.
Qed.

(* `output` is Some at the end  =>  the closure ran to its Ok(()) *)
Lemma output_means_ok : forall fuel s0 r0 a,
  flow_res (run_closure sh fuel s0 r0) = Some a -> r_output a = true ->
  exists s r, run_closure sh fuel s0 r0 = FNext s a r.
Proof.
  intros fuel s0 r0 a H O. unfold TopShape.run_closure in *.
  destruct no_early_output as [N1 N2].
  destruct post_parts as (front & last & _ & _ & _ & P & L & NF & _).
  destruct (run_calls (sh_pre sh) s0 empty_result r0) as [s1 a1 r1|a1 r1|a1 r1|] eqn:D1;
    try (exfalso; assert (X := run_calls_preserve (sh_pre sh) s0 empty_result r0 a FOutput N1); rewrite D1 in X; specialize (X H);
         simpl in X; unfold get in X; congruence); try discriminate.
  assert (O1 : get a1 FOutput = false).
  { assert (X := run_calls_preserve (sh_pre sh) s0 empty_result r0 a1 FOutput N1). rewrite D1 in X. exact (X eq_refl). }
  destruct (run_loop fuel (sh_loop sh) s1 a1 r1) as [s2 a2 r2|a2 r2|a2 r2|] eqn:D2;
    try (exfalso; assert (X := run_loop_preserve fuel (sh_loop sh) s1 a1 r1 a FOutput N2); rewrite D2 in X; specialize (X H);
         simpl in X; unfold get in X; simpl in O1; congruence); try discriminate.
  assert (O2 : get a2 FOutput = false).
  { assert (X := run_loop_preserve fuel (sh_loop sh) s1 a1 r1 a2 FOutput N2). rewrite D2 in X. rewrite (X eq_refl). exact O1. }
  rewrite P in *. rewrite run_calls_app in *.
  destruct (run_calls front s2 a2 r2) as [s3 a3 r3|a3 r3|a3 r3|] eqn:D3;
    try (exfalso; assert (X := run_calls_preserve front s2 a2 r2 a FOutput NF); rewrite D3 in X; specialize (X H);
         simpl in X; unfold get in X; simpl in O2; congruence); try discriminate.
  assert (O3 : get a3 FOutput = false).
  { assert (X := run_calls_preserve front s2 a2 r2 a3 FOutput NF). rewrite D3 in X. rewrite (X eq_refl). exact O2. }
  simpl in *. destruct (do_call last s3 a3 r3) as [s4 a4 r4|a4 r4|a4 r4|] eqn:D4; try discriminate.
  - inversion H; subst. eauto.
  - exfalso. apply do_call_err in D4. destruct D4 as [_ E]. inversion H; subst. simpl in O3. congruence.
  - exfalso. unfold TopShape.do_call in D4. destruct (negb (forallb (get a3) (c_uses last))).
    + inversion D4; subst. inversion H; subst. simpl in O3. congruence.
    + destruct (step_sem (c_phase last) s3 r3) as [o p]. destruct o; try discriminate. destruct (c_try last); discriminate.
Qed.

(* the closure ran to its Ok(())  =>  output is Some, the report holds no error, decls / defs / iterations_taken are Some *)
Lemma ok_means_clean : forall fuel s0 r0 s a r, well_topped r0 = true ->
  run_closure sh fuel s0 r0 = FNext s a r ->
  r_output a = true /\ has_error r = false /\ r_error a = false /\ r_decls a = true /\ r_defs a = true /\ r_iter a = true.
Proof.
  intros fuel s0 r0 s a r W0 H. unfold TopShape.run_closure in H.
  destruct try_parts as (T1 & T2 & T3).
  destruct sok_parts as (_ & _ & _ & U & _). unfold sok_uses in U.
  repeat (apply andb_true_iff in U; destruct U as [U ?]).
  destruct post_parts as (front & last & before & stopc & after & P & L & NF & P2 & Is & Q).
  destruct (run_calls (sh_pre sh) s0 empty_result r0) as [s1 a1 r1|a1 r1|a1 r1|] eqn:D1; try discriminate.
  destruct (run_loop fuel (sh_loop sh) s1 a1 r1) as [s2 a2 r2|a2 r2|a2 r2|] eqn:D2; try discriminate.
  assert (K1 := run_calls_known (sh_pre sh) [] s0 empty_result r0 T1 U (known_nil _)). rewrite D1 in K1.
  assert (K2 := run_loop_known fuel (sh_loop sh) _ s1 a1 r1 T2 H2 K1). rewrite D2 in K2.
  assert (K3 := run_calls_known (sh_post sh) _ s2 a2 r2 T3 H1 K2). rewrite H in K3.
  assert (F : forall f, In f [FDecls; FDefs; FIter] -> get a f = true).
  { intros f Hin. apply K3. exact (proj1 (forallb_forall _ _) H0 f Hin). }
  assert (E : r_error a = false).
  { assert (X1 := run_calls_error_flag (sh_pre sh) s0 empty_result r0 a1). rewrite D1 in X1. specialize (X1 eq_refl).
    assert (X2 := run_loop_error_flag fuel (sh_loop sh) s1 a1 r1 a2). rewrite D2 in X2. specialize (X2 eq_refl).
    assert (X3 := run_calls_error_flag (sh_post sh) s2 a2 r2 a). rewrite H in X3. specialize (X3 eq_refl).
    rewrite X3, X2, X1. reflexivity. }
  split; [|split; [|split; [exact E|]]].
  - (* output *)
    rewrite P, run_calls_app in H.
    destruct (run_calls front s2 a2 r2) as [s3 a3 r3|a3 r3|a3 r3|] eqn:D3; try discriminate.
    simpl in H. destruct (do_call last s3 a3 r3) as [s4 a4 r4|a4 r4|a4 r4|] eqn:D4; try discriminate.
    inversion H; subst.
    assert (Tl : try_ok last = true).
    { rewrite P in T3. rewrite forallb_app in T3. apply andb_true_iff in T3. destruct T3 as [_ T3]. simpl in T3. rewrite andb_true_r in T3. exact T3. }
    destruct (do_call_next _ _ _ _ _ _ _ Tl D4) as (pushed & _ & Ea & _ & _). subst a.
    exact (get_assign_same a3 FOutput last L).
  - (* clean *)
    rewrite P2, run_calls_app in H.
    destruct (run_calls before s2 a2 r2) as [s3 a3 r3|a3 r3|a3 r3|] eqn:D3; try discriminate.
    simpl in H. destruct (do_call stopc s3 a3 r3) as [s4 a4 r4|a4 r4|a4 r4|] eqn:D4; try discriminate.
    destruct (do_stop_next _ _ _ _ _ _ _ Is D4) as [C Er]. subst r4.
    assert (W1 := run_calls_well_topped _ _ _ _ _ _ _ T1 D1 W0).
    assert (W2 := run_loop_well_topped _ _ _ _ _ _ _ _ T2 D2 W1).
    assert (Tb : forallb try_ok before = true).
    { rewrite P2 in T3. rewrite forallb_app in T3. apply andb_true_iff in T3. tauto. }
    assert (W3 := run_calls_well_topped _ _ _ _ _ _ _ Tb D3 W2).
    eapply run_calls_quiet; eauto. apply well_topped_clean; assumption.
  - split; [|split]; [exact (F FDecls (or_introl eq_refl)) | exact (F FDefs (or_intror (or_introl eq_refl))) | exact (F FIter (or_intror (or_intror (or_introl eq_refl))))].
Qed.

(* no `.unwrap()` of a field that is still None *)
Lemma closure_no_panic : forall fuel s0 r0 a r, run_closure sh fuel s0 r0 <> FPanic a r.
Proof.
  intros fuel s0 r0 a r H. unfold TopShape.run_closure in H.
  destruct try_parts as (T1 & T2 & T3).
  destruct sok_parts as (_ & _ & _ & U & _). unfold sok_uses in U.
  repeat (apply andb_true_iff in U; destruct U as [U ?]).
  assert (K1 := run_calls_known (sh_pre sh) [] s0 empty_result r0 T1 U (known_nil _)).
  destruct (run_calls (sh_pre sh) s0 empty_result r0) as [s1 a1 r1|a1 r1|a1 r1|] eqn:D1; try discriminate; auto.
  assert (K2 := run_loop_known fuel (sh_loop sh) _ s1 a1 r1 T2 H2 K1).
  destruct (run_loop fuel (sh_loop sh) s1 a1 r1) as [s2 a2 r2|a2 r2|a2 r2|] eqn:D2; try discriminate; auto.
  assert (K3 := run_calls_known (sh_post sh) _ s2 a2 r2 T3 H1 K2). rewrite H in K3. exact K3.
Qed.

(* ---------------------------------------------------------------- asm::assemble *)
Theorem assemble_outcome : forall fuel s0 r0, well_topped r0 = true ->
  match assemble sh fuel s0 r0 with
  | AReturn a r => clean_success a r \/ loud_failure a r
  | ADiverge => True
  | APanicUnwrap | APanicAssert => False
  end.
Proof.
  intros fuel s0 r0 W0. unfold TopShape.assemble.
  destruct (run_closure sh fuel s0 r0) as [s a r|a r|a r|] eqn:D; auto.
  - left. destruct (ok_means_clean _ _ _ _ _ _ W0 D) as (A & B & C & E & F & G). unfold clean_success. tauto.
  - assert (E := run_closure_err _ _ _ _ _ _ D). rewrite (has_error_nonempty _ E). rewrite andb_false_r.
    destruct sok_parts as (_ & _ & _ & _ & Fl). rewrite Fl. right. unfold loud_failure. repeat split; auto.
    destruct (r_output a) eqn:O; auto. exfalso.
    assert (X := output_means_ok fuel s0 r0 a). rewrite D in X. destruct (X eq_refl O) as (s & r' & X'). discriminate.
  - exact (closure_no_panic _ _ _ _ _ D).
Qed.

Theorem ok_clean : forall fuel s0 r0 a r, well_topped r0 = true -> assemble sh fuel s0 r0 = AReturn a r -> r_output a = true ->
  has_error r = false /\ r_error a = false /\ r_decls a = true /\ r_defs a = true /\ r_iter a = true.
Proof.
  intros fuel s0 r0 a r W0 H O. assert (X := assemble_outcome fuel s0 r0 W0). rewrite H in X.
  destruct X as [X|X]; unfold clean_success, loud_failure in X; [tauto | destruct X as (X & _); congruence].
Qed.

Theorem err_loud : forall fuel s0 r0 a r, well_topped r0 = true -> assemble sh fuel s0 r0 = AReturn a r -> r_output a = false ->
  has_error r = true /\ r_error a = true.
Proof.
  intros fuel s0 r0 a r W0 H O. assert (X := assemble_outcome fuel s0 r0 W0). rewrite H in X.
  destruct X as [X|X]; unfold clean_success, loud_failure in X; [destruct X as (X & _); congruence | tauto].
Qed.

Theorem no_panic : forall fuel s0 r0, well_topped r0 = true -> assemble sh fuel s0 r0 <> APanicUnwrap /\ assemble sh fuel s0 r0 <> APanicAssert.
Proof.
  intros fuel s0 r0 W0. assert (X := assemble_outcome fuel s0 r0 W0).
  split; intro H; rewrite H in X; exact X.
Qed.
End OkShape.
End Shape.

(* ---------------------------------------------------------------- the group loop *)
Lemma perform_cases : forall wr gs done,
  (exists acts, perform wr gs done = ODone acts /\ first_unwritable wr gs = None) \/
  (exists acts name, perform wr gs done = OWriteFailed acts /\ first_unwritable wr gs = Some name /\ wr name = false).
Proof.
  intros wr gs. induction gs as [|g r IH]; intro done; simpl.
  - left. eauto.
  - destruct (action_of g) as [f|name f|] eqn:A.
    + apply IH.
    + destruct (wr name) eqn:W.
      * apply IH.
      * right. exists (rev done), name. auto.
    + apply IH.
Qed.

(* the loop over both oracles follows the loop of Model/Driver.v until a print fails *)
Lemma perform_io_spec : forall wr out_ok quiet gs done,
  match perform_io wr out_ok quiet gs done with
  | GDone acts => perform wr gs done = ODone acts
  | GWriteFailed acts => perform wr gs done = OWriteFailed acts
  | GPrintFailed _ => out_ok = false
  end.
Proof.
  intros wr out_ok quiet gs. induction gs as [|g r IH]; intro done; simpl; auto.
  destruct (action_of g) as [f|name f|] eqn:A.
  - destruct out_ok; [apply IH | reflexivity].
  - destruct (negb quiet && negb out_ok) eqn:Q.
    + destruct out_ok; [rewrite andb_false_r in Q; discriminate | reflexivity].
    + destruct (wr name); [apply IH | reflexivity].
  - apply IH.
Qed.

(* ---------------------------------------------------------------- driver::assemble_with_command on the modelled shape *)
Section DriverGlue.
Variable asm : report -> aout.
Hypothesis Hasm : forall r, well_topped r = true ->
  match asm r with
  | AReturn a rep => clean_success a rep \/ loud_failure a rep
  | ADiverge => True
  | APanicUnwrap | APanicAssert => False
  end.

Definition awc_statement (c : command) (wr : text -> bool) (out_ok : bool) (out : dout) : Prop :=
  (d_result out = DrOk \/ d_result out = DrErr \/ d_result out = DrDiverge) /\
  (d_result out = DrOk ->
     has_error (d_report out) = false /\ d_failed_write out = None /\ d_failed_print out = false /\
     (((c_help c = true \/ c_version c = true) /\ d_acts out = []) \/
      (run_command c true wr = ODone (d_acts out) /\ exists a r, d_asm out = Some (a, r) /\ clean_success a r))) /\
  (d_result out = DrErr ->
     has_error (d_report out) = true /\
     ((d_acts out = [] /\ d_failed_write out = None) \/
      (exists name, d_failed_write out = Some name /\ wr name = false /\ run_command c true wr = OWriteFailed (d_acts out)) \/
      (d_failed_print out = true /\ out_ok = false))) /\
  ((d_acts out <> [] \/ d_failed_write out <> None) ->
     exists a r, d_asm out = Some (a, r) /\ clean_success a r /\ d_clean_at_actions out = true) /\
  (d_failed_print out = true -> out_ok = false).

Ltac no_actions := intros [K|K]; exfalso; apply K; reflexivity.
Ltac red_out := cbn [run_dsteps finish print_failed d_result d_acts d_failed_write d_failed_print d_report d_asm d_clean_at_actions
                     ds_report ds_asm ds_acts ds_clean ds_output_seen app negb andb].
(* a step that ends the run before anything was done: Ok (help / version) *)
Ltac early_ok := red_out; split; [auto|]; split; [|split; [(let X := fresh "X" in intro X; discriminate X) | split; [no_actions | (let X := fresh "X" in intro X; discriminate X)]]];
  intros _; split; [reflexivity|]; split; [reflexivity|]; split; [reflexivity|]; left; auto.
(* ... or Err with a fresh error and nothing done *)
Ltac early_err := red_out; split; [auto|]; split; [(let X := fresh "X" in intro X; discriminate X)|]; split; [|split; [no_actions | auto]];
  intros _; split; [first [reflexivity | rewrite has_error_app; simpl; apply orb_true_r]|]; left; auto.

Theorem awc_spec : forall c wr out_ok, awc_statement c wr out_ok (assemble_with_command modelled_driver_shape c wr out_ok asm []).
Proof.
  intros c wr out_ok. unfold awc_statement, assemble_with_command, modelled_driver_shape, dstate0.
  cbn [run_dsteps ds_report ds_asm ds_acts ds_clean ds_output_seen].
  destruct (c_help c) eqn:Hh.
  { destruct out_ok; [early_ok | early_err]. }
  destruct (c_version c) eqn:Hv.
  { destruct out_ok; [early_ok | early_err]. }
  destruct (c_inputs c) as [|i0 ir] eqn:Hi.
  { red_out. split; [auto|]. split; [intro X; discriminate X|]. split; [|split; [no_actions | intro X; discriminate X]].
    intros _. split; [reflexivity|]. left. auto. }
  destruct (negb (c_quiet c) && negb out_ok) eqn:Pq.
  { (* the progress lines cannot be printed: Err before assembling *)
    assert (Eo : out_ok = false) by (destruct out_ok; [rewrite andb_false_r in Pq; discriminate | reflexivity]).
    subst out_ok. early_err. }
  assert (A := Hasm [] eq_refl). destruct (asm []) as [a rep| | |] eqn:Ea; try contradiction.
  2:{ red_out. split; [auto|]. split; [intro X; discriminate X|]. split; [intro X; discriminate X | split; [no_actions | intro X; discriminate X]]. }
  cbn [ds_report ds_asm ds_acts ds_clean ds_output_seen].
  destruct (r_output a) eqn:Ho.
  - (* assemble returned an output *)
    destruct A as [A|A]; [|destruct A as (A & _); congruence].
    assert (A' := A). destruct A as (_ & Ef & Ec & Ed & Edf & Eit).
    cbn [get]. rewrite Ed, Edf, Eit. cbn [negb ds_report ds_asm ds_acts ds_clean ds_output_seen app].
    assert (R : run_command c true wr = perform wr (c_groups c) []).
    { unfold run_command. rewrite Hh, Hv, Hi. reflexivity. }
    assert (Sp := perform_io_spec wr out_ok (c_quiet c) (c_groups c) []).
    destruct (perform_io wr out_ok (c_quiet c) (c_groups c) []) as [acts|acts|acts] eqn:P.
    + (* every group acted; the closing progress line can be printed (or is not printed) *)
      cbn [run_dsteps ds_report ds_asm ds_acts ds_clean ds_output_seen app]. try rewrite Pq.
      red_out. rewrite Ec. red_out. split; [auto|]. split; [|split; [intro X; discriminate X | split; [|intro X; discriminate X]]].
      * intros _. split; [reflexivity|]. split; [reflexivity|]. split; [reflexivity|]. right. split; [congruence|]. exists a, rep. auto.
      * intros _. exists a, rep. auto.
    + (* a file could not be written *)
      destruct (perform_cases wr (c_groups c) []) as [(acts' & P' & _)|(acts' & name & P' & Fu & W)]; [congruence|].
      red_out. rewrite Fu, Ec. red_out. split; [auto|]. split; [intro X; discriminate X|]. split; [|split; [|intro X; discriminate X]].
      * intros _. split; [rewrite has_error_app; simpl; apply orb_true_r|].
        right. left. exists name. split; [reflexivity|]. split; [exact W|]. congruence.
      * intros _. exists a, rep. auto.
    + (* a printout could not be written *)
      red_out. rewrite Ec. red_out. split; [auto|]. split; [intro X; discriminate X|]. split; [|split; [|intros _; exact Sp]].
      * intros _. split; [rewrite has_error_app; simpl; apply orb_true_r|]. right. right. auto.
      * intros _. exists a, rep. auto.
  - (* no output: Err(()) before anything is formatted, printed or written *)
    destruct A as [A|A]; [destruct A as (A & _); congruence|]. destruct A as (_ & _ & Ee).
    red_out. split; [auto|]. split; [intro X; discriminate X|]. split; [|split; [no_actions | intro X; discriminate X]].
    intros _. split; [exact Ee|]. left. auto.
Qed.
End DriverGlue.

(* a variant of the driver without the `?` after write_bytes reports an error and still returns Ok *)
Lemma driver_without_try_refuted :
  exists c wr asm, (forall r, asm r = AReturn {| r_ast := true; r_decls := true; r_defs := true; r_iter := true; r_output := true; r_error := false |} r) /\
    let out := assemble_with_command [DHelp true; DVersion true; DNoInput; DProgress true; DAssemble; DNeedOutput; DUnwrap FDecls; DUnwrap FDefs; DUnwrap FIter;
                                      DGroups true false; DResolved true; DReturnOk] c wr true asm [] in
    d_result out = DrOk /\ has_error (d_report out) = true.
Proof.
  exists {| c_inputs := [[109]]; c_groups := [{| cg_format := Some (mkfmt cli_default_file); cg_print := false; cg_output := Some [111] |}];
            c_quiet := false; c_colors := true; c_version := false; c_help := false; c_iters := 10%N; c_defines := [];
            c_debug_iters := false; c_opt_static := true; c_opt_matcher := true |},
         (fun _ => false),
         (fun r => AReturn {| r_ast := true; r_decls := true; r_defs := true; r_iter := true; r_output := true; r_error := false |} r).
  split; [reflexivity|]. vm_compute. auto.
Qed.

(* the driver before 0dfce82 (println! everywhere, F64): an unwritable standard output is a panic, in every printing path *)
Definition ex_command (quiet print help : bool) : command :=
  {| c_inputs := [[109]]; c_groups := [{| cg_format := Some (mkfmt cli_default_file); cg_print := print; cg_output := Some [111] |}];
     c_quiet := quiet; c_colors := true; c_version := false; c_help := help; c_iters := 10%N; c_defines := [];
     c_debug_iters := false; c_opt_static := true; c_opt_matcher := true |}.
Definition ex_asm_ok (r : report) : aout :=
  AReturn {| r_ast := true; r_decls := true; r_defs := true; r_iter := true; r_output := true; r_error := false |} r.

Lemma println_driver_refuted :
  d_result (assemble_with_command println_driver_shape (ex_command false false true) (fun _ => true) false ex_asm_ok []) = DrPanic /\   (* --help *)
  d_result (assemble_with_command println_driver_shape (ex_command false false false) (fun _ => true) false ex_asm_ok []) = DrPanic /\  (* progress lines *)
  d_result (assemble_with_command println_driver_shape (ex_command true true false) (fun _ => true) false ex_asm_ok []) = DrPanic /\    (* -q -p *)
  (* the repaired shape on the same three command lines: Err, an error in the report, nothing done *)
  (forall q p h, let out := assemble_with_command modelled_driver_shape (ex_command q p h) (fun _ => true) false ex_asm_ok [] in
     (q = false \/ p = true \/ h = true) -> d_result out = DrErr /\ has_error (d_report out) = true /\ d_acts out = [] /\ d_failed_print out = true).
Proof.
  repeat split; try (vm_compute; reflexivity);
    destruct q, p, h; destruct H as [H|[H|H]]; try discriminate H; vm_compute; reflexivity.
Qed.

(* ---------------------------------------------------------------- the two concrete shapes *)
Lemma modelled_shape_ok : shape_ok modelled_shape = true.
Proof. vm_compute. reflexivity. Qed.

Lemma pinned_shape_not_ok : shape_ok pinned_shape = false.
Proof. vm_compute. reflexivity. Qed.

(* witnesses for the pinned shape: phases that satisfy every obligation, yet output is delivered with an error *)
Definition sem_assert_fails (k : pkind) (s : unit) (r : report) : option unit * report :=
  match k with PResolveIter => (Some tt, [KError]) | _ => (Some tt, []) end.      (* `#d8 1` / `#assert 1 == 2` (F1) *)
Definition sem_unused_define (k : pkind) (s : unit) (r : report) : option unit * report :=
  match k with PUnusedDefines => (None, [KError]) | _ => (Some tt, []) end.       (* `-dY=5` without a constant Y (F31) *)

Lemma sem_assert_fails_obligations : obligations unit sem_assert_fails.
Proof.
  split; [|split; [|split]].
  - intros k s r pushed _ H. destruct k; discriminate.
  - intros k s r s' pushed Q H. destruct k; simpl in Q; try discriminate; inversion H; reflexivity.
  - intros k s r pushed _ H. destruct k; discriminate.
  - intros k s r s' pushed _ H. destruct k; inversion H; reflexivity.
Qed.

Lemma sem_unused_define_obligations : obligations unit sem_unused_define.
Proof.
  split; [|split; [|split]]; [| | |intros k s r s' pushed _ H; destruct k; inversion H; reflexivity].
  - intros k s r pushed _ H. destruct k; try discriminate. inversion H; subst. rewrite has_error_app. simpl. apply orb_true_r.
  - intros k s r s' pushed Q H. destruct k; simpl in Q; try discriminate; inversion H; reflexivity.
  - intros k s r pushed I H. destruct k; simpl in I; discriminate.
Qed.

Lemma pinned_refuted :
  (exists sem, obligations unit sem /\ exists a r, TopShape.assemble unit sem (fun _ => true) pinned_shape 1 tt [] = AReturn a r /\
      r_output a = true /\ r_error a = false /\ has_error r = true) /\
  (exists sem, obligations unit sem /\ exists a r, TopShape.assemble unit sem (fun _ => true) pinned_shape 1 tt [] = AReturn a r /\
      r_output a = true /\ r_error a = true /\ has_error r = true).
Proof.
  split.
  - exists sem_assert_fails. split; [exact sem_assert_fails_obligations|]. eexists. eexists. split; [vm_compute; reflexivity|]. auto.
  - exists sem_unused_define. split; [exact sem_unused_define_obligations|]. eexists. eexists. split; [vm_compute; reflexivity|]. auto.
Qed.

(* why T1 is an obligation: a phase that reports an error under a Note parent AND goes on satisfies L, Q and `infallible`,
   yet on the repaired shape the output is delivered with an `error:` printed (stop_at_errors reads top-level kinds only) *)
Definition sem_note_wrapped (k : pkind) (s : unit) (r : report) : option unit * report :=
  match k with PResolveIter => (Some tt, [KNoteWithError]) | _ => (Some tt, []) end.

Lemma note_wrapped_escapes :
  loud_on_err unit sem_note_wrapped /\ quiet_on_ok unit sem_note_wrapped /\ infallible_ok unit sem_note_wrapped /\
  ~ top_on_continue unit sem_note_wrapped /\
  exists a r, TopShape.assemble unit sem_note_wrapped (fun _ => true) modelled_shape 1 tt [] = AReturn a r /\
              r_output a = true /\ r_error a = false /\ has_error r = true /\ has_top_error r = false.
Proof.
  split; [|split; [|split; [|split]]].
  - intros k s r pushed _ H. destruct k; discriminate.
  - intros k s r s' pushed Q H. destruct k; simpl in Q; try discriminate; inversion H; reflexivity.
  - intros k s r pushed _ H. destruct k; discriminate.
  - intro T. specialize (T PResolveIter tt [] tt [KNoteWithError]). simpl in T.
    assert (X : PResolveIter <> PStopAtErrors) by discriminate. specialize (T X eq_refl). discriminate.
  - eexists. eexists. split; [vm_compute; reflexivity|]. auto.
Qed.

(* the same two instantiations on the repaired shape end as the property demands (non-vacuity of the theorems) *)
Example modelled_on_assert_fails :
  TopShape.assemble unit sem_assert_fails (fun _ => true) modelled_shape 1 tt [] =
  AReturn {| r_ast := true; r_decls := true; r_defs := true; r_iter := true; r_output := false; r_error := true |} [KError].
Proof. vm_compute. reflexivity. Qed.

Example modelled_on_unused_define :
  TopShape.assemble unit sem_unused_define (fun _ => true) modelled_shape 1 tt [] =
  AReturn {| r_ast := true; r_decls := true; r_defs := true; r_iter := true; r_output := false; r_error := true |} [KError].
Proof. vm_compute. reflexivity. Qed.

Example modelled_on_success :
  TopShape.assemble unit (fun _ _ _ => (Some tt, [KNote])) (fun _ => true) modelled_shape 1 tt [] =
  AReturn {| r_ast := true; r_decls := true; r_defs := true; r_iter := true; r_output := true; r_error := false |}
          [KNote; KNote; KNote; KNote; KNote; KNote; KNote; KNote; KNote; KNote; KNote; KNote; KNote; KNote].
Proof. vm_compute. reflexivity. Qed.

(* ---------------------------------------------------------------- packaging for Props/C03.v *)
From CA Require Import Model.TopTables.

Theorem tables_match_source :
  decode_shape c03_assemble_pre c03_assemble_loop c03_assemble_post c03_err_arm = Some modelled_shape /\
  decode_driver c03_driver_steps = Some modelled_driver_shape /\
  c03_cli_returns_driver_result = true /\
  c03_main_exit_on_err <> 0%N /\
  report_ops_are_pushes c03_report_message_ops = true /\
  c03_print_line_reports = true /\ c03_driver_println_free = true /\ c03_print_all_ignores_write_errors = true.
Proof. repeat split; try (vm_compute; reflexivity). vm_compute. discriminate. Qed.

Theorem source_shape_ok : forall sh,
  decode_shape c03_assemble_pre c03_assemble_loop c03_assemble_post c03_err_arm = Some sh -> shape_ok sh = true.
Proof.
  intros sh H. rewrite (proj1 tables_match_source) in H. inversion H; subst. exact modelled_shape_ok.
Qed.

Theorem outcome_exclusive : forall a r, ~ (clean_success a r /\ loud_failure a r).
Proof. intros a r [(A & _) (B & _)]. congruence. Qed.

(* out_ok: can the standard output be written (a permanent fault when false) *)
Definition driver_statement (gs : list pgroup) (c : command) (wr : text -> bool) (out_ok : bool) (out : dout) : Prop :=
  (d_result out = DrOk \/ d_result out = DrErr \/ d_result out = DrDiverge) /\
  (d_result out = DrOk ->
     exit_status c03_main_exit_on_err (d_result out) = Some 0%N /\ has_error (d_report out) = false /\
     d_failed_write out = None /\ d_failed_print out = false /\
     (((c_help c = true \/ c_version c = true) /\ d_acts out = []) \/
      (d_acts out = map action_of (c_groups c) /\ List.length (d_acts out) = List.length gs /\ Forall acts_once (d_acts out)))) /\
  (d_result out = DrErr ->
     (exists n, exit_status c03_main_exit_on_err (d_result out) = Some n /\ n <> 0%N) /\ has_error (d_report out) = true /\
     (d_acts out = [] \/ (exists name, d_failed_write out = Some name /\ wr name = false) \/ (d_failed_print out = true /\ out_ok = false))) /\
  ((d_acts out <> [] \/ d_failed_write out <> None) ->
     exists a r, d_asm out = Some (a, r) /\ clean_success a r /\ d_clean_at_actions out = true) /\
  (d_failed_print out = true -> out_ok = false).

Theorem driver_spec : forall St (sem : pkind -> St -> report -> option St * report) loop_done (init : command -> St) fuel gs wr out_ok c,
  obligations St sem -> parse_command gs = COk c ->
  driver_statement gs c wr out_ok
    (drive modelled_driver_shape gs wr out_ok (fun c r => TopShape.assemble St sem loop_done modelled_shape fuel (init c) r)).
Proof.
  intros St sem loop_done init fuel gs wr out_ok c Hob Hc. unfold drive. rewrite Hc.
  assert (Hasm : forall r, well_topped r = true -> match TopShape.assemble St sem loop_done modelled_shape fuel (init c) r with
                           | AReturn a rep => clean_success a rep \/ loud_failure a rep
                           | ADiverge => True
                           | _ => False end)
    by (intros r W; exact (assemble_outcome St sem loop_done Hob modelled_shape modelled_shape_ok fuel (init c) r W)).
  destruct (awc_spec _ Hasm c wr out_ok) as (R & Ok & Er & Ac & Fp).
  set (out := assemble_with_command modelled_driver_shape c wr out_ok
                (fun r => TopShape.assemble St sem loop_done modelled_shape fuel (init c) r) []) in *.
  unfold driver_statement. split; [exact R|]. split; [|split; [|split; [exact Ac | exact Fp]]].
  - intro E. destruct (Ok E) as (A & B & B' & C). rewrite E. split; [reflexivity|]. split; [exact A|]. split; [exact B|]. split; [exact B'|].
    destruct C as [C|(C & _)]; [left; exact C|]. right.
    exact (run_one_action_per_group gen_tables gs c true wr (d_acts out) Hc C).
  - intro E. destruct (Er E) as (A & B). rewrite E. split.
    + exists c03_main_exit_on_err. split; [reflexivity|]. exact (proj1 (proj2 (proj2 (proj2 tables_match_source)))).
    + split; [exact A|]. destruct B as [(B & _)|[(name & B1 & B2 & _)|B]]; [left; exact B | right; left; exists name; auto | right; right; exact B].
Qed.

Theorem driver_bad_command : forall gs wr out_ok asm e, parse_command gs = CErr e ->
  let out := drive modelled_driver_shape gs wr out_ok asm in
  d_result out = DrErr /\ d_acts out = [] /\ d_failed_write out = None /\ has_error (d_report out) = true /\ d_asm out = None.
Proof. intros gs wr out_ok asm e H. unfold drive. rewrite H. simpl. auto. Qed.

(* non-vacuity of the driver theorem: `customasm m -o o` with an output that cannot be written / that can; stdout unwritable *)
Definition ex_groups : list pgroup :=
  [{| pg_format := None; pg_output := Some [111]; pg_print := false; pg_quiet := false; pg_version := false; pg_help := false;
      pg_defines := []; pg_debug_iters := false; pg_no_static := false; pg_no_matcher := false; pg_color := None; pg_iters := None;
      pg_free := [[109]] |}].

Example driver_example :
  let asm := fun (c : command) r => TopShape.assemble unit (fun _ _ _ => (Some tt, [])) (fun _ => true) modelled_shape 1 tt r in
  d_result (drive modelled_driver_shape ex_groups (fun _ => true) true asm) = DrOk /\
  List.length (d_acts (drive modelled_driver_shape ex_groups (fun _ => true) true asm)) = 1%nat /\
  d_result (drive modelled_driver_shape ex_groups (fun _ => false) true asm) = DrErr /\
  d_failed_write (drive modelled_driver_shape ex_groups (fun _ => false) true asm) = Some [111] /\
  d_acts (drive modelled_driver_shape ex_groups (fun _ => false) true asm) = [] /\
  d_result (drive modelled_driver_shape ex_groups (fun _ => true) false asm) = DrErr /\
  d_acts (drive modelled_driver_shape ex_groups (fun _ => true) false asm) = [].
Proof. vm_compute. repeat split. Qed.
