(* C05: number literals in every base and digit grouping denote their value and size. *)
From Coq Require Import NArith ZArith List Bool Lia ZifyBool.
From CA Require Import Model.Lexer Model.Parser Spec.LiteralSpec.
Import ListNotations.
Open Scope N_scope.

Lemma positional_app r a b : positional r (a ++ b) = positional r a + r ^ N.of_nat (length a) * positional r b.
Proof.
  induction a as [|d a IH]; [cbn [app positional length]; change (N.of_nat 0) with 0; rewrite N.pow_0_r; lia|].
  cbn [app positional length]. rewrite IH, Nat2N.inj_succ, N.pow_succ_r'. lia.
Qed.

(* the left-to-right Horner accumulation of the code is the positional sum *)
Lemma horner_positional r ds : forall acc,
  fold_left (fun a d => a * r + d) ds acc = acc * r ^ N.of_nat (length ds) + value_of_digits r ds.
Proof.
  unfold value_of_digits. induction ds as [|d ds IH]; intro acc.
  - cbn. lia.
  - cbn [fold_left rev length]. rewrite IH, positional_app, rev_length, Nat2N.inj_succ, N.pow_succ_r'.
    cbn [positional]. lia.
Qed.

Lemma digits_spec radix t : forall acc cnt,
  digits radix t acc cnt =
  match digit_list t with
  | Some ds => if forallb (fun d => d <? radix) ds
               then Some (fold_left (fun a d => a * radix + d) ds acc, cnt + N.of_nat (length ds))
               else None
  | None => None
  end.
Proof.
  induction t as [|c r IH]; intros acc cnt.
  - cbn. f_equal. f_equal. lia.
  - cbn [digits digit_list]. destruct (c =? 95); [apply IH|].
    destruct (digit_val c) as [d|]; [|reflexivity].
    destruct (d <? radix) eqn:Ed.
    + rewrite IH. destruct (digit_list r) as [ds|]; [|reflexivity].
      cbn [forallb fold_left length]. rewrite Ed. cbn [andb].
      destruct (forallb _ ds); [|reflexivity]. f_equal. f_equal. lia.
    + destruct (digit_list r) as [ds|]; [|reflexivity]. cbn [forallb]. rewrite Ed. reflexivity.
Qed.

Definition number_body (p : N * text) : option (N * option N) :=
  let '(radix, rest) := p in
  match digits radix rest 0 0 with
  | Some (v, cnt) =>
    if cnt =? 0 then None
    else Some (v, if radix =? 2 then Some cnt else if radix =? 8 then Some (3 * cnt) else if radix =? 16 then Some (4 * cnt) else None)
  | None => None
  end.

(* the literal patterns of `number_literal` restated through `=?` *)
Lemma number_literal_split t : number_literal t = number_body (split_prefix t).
Proof.
  unfold number_literal, split_prefix, number_body.
  destruct t as [|c r]; [reflexivity|].
  destruct (N.eqb_spec c 37) as [->|H37]; [reflexivity|].
  destruct (N.eqb_spec c 36) as [->|H36]; [reflexivity|].
  destruct (N.eqb_spec c 48) as [->|H48].
  - destruct r as [|c2 r2]; [reflexivity|].
    destruct (N.eqb_spec c2 98) as [->|H98]; [reflexivity|].
    destruct (N.eqb_spec c2 111) as [->|H111]; [reflexivity|].
    destruct (N.eqb_spec c2 120) as [->|H120]; [reflexivity|].
    destruct c2 as [|p]; [reflexivity|].
    do 7 (destruct p as [p|p|]; try reflexivity); exfalso; auto.
  - destruct c as [|p]; [reflexivity|].
    do 6 (destruct p as [p|p|]; try reflexivity); exfalso; auto.
Qed.

Lemma number_body_spec radix rest : (radix = 2 \/ radix = 8 \/ radix = 16 \/ radix = 10) ->
  number_body (radix, rest) = literal_spec radix rest.
Proof.
  intro Hr. unfold number_body, literal_spec. rewrite digits_spec.
  destruct (digit_list rest) as [ds|]; [|reflexivity].
  destruct (forallb _ ds); [|reflexivity]. cbn [andb].
  rewrite N.add_0_l, horner_positional, N.mul_0_l, N.add_0_l.
  destruct (N.of_nat (length ds) =? 0); [reflexivity|]. cbn [negb].
  f_equal. f_equal. unfold bits_per_digit.
  destruct Hr as [-> | [-> | [-> | ->]]];
    change (2 =? 2) with true; change (8 =? 2) with false; change (8 =? 8) with true;
    change (16 =? 2) with false; change (16 =? 8) with false; change (16 =? 16) with true;
    change (10 =? 2) with false; change (10 =? 8) with false; change (10 =? 16) with false;
    cbv iota; try reflexivity; f_equal; lia.
Qed.

Lemma split_prefix_radix t : let r := fst (split_prefix t) in r = 2 \/ r = 8 \/ r = 16 \/ r = 10.
Proof.
  unfold split_prefix. destruct t as [|c r]; cbn; [tauto|].
  destruct (c =? 37); cbn; [tauto|]. destruct (c =? 36); cbn; [tauto|].
  destruct (c =? 48); cbn; [|tauto]. destruct r as [|c2 r2]; cbn; [tauto|].
  destruct (c2 =? 98); cbn; [tauto|]. destruct (c2 =? 111); cbn; [tauto|]. destruct (c2 =? 120); cbn; tauto.
Qed.

(* the literal reader is: find the radix prefix, then read the body in that radix *)
Theorem number_literal_spec t :
  number_literal t = literal_spec (fst (split_prefix t)) (snd (split_prefix t)).
Proof.
  rewrite number_literal_split. pose proof (split_prefix_radix t) as H.
  destruct (split_prefix t) as [radix rest]. cbn [fst snd] in *. apply number_body_spec. exact H.
Qed.

(* the five prefixes, and plain decimal *)
Theorem literal_prefixes :
  (forall body, number_literal (48 :: 98 :: body) = literal_spec 2 body) /\      (* 0b *)
  (forall body, number_literal (48 :: 111 :: body) = literal_spec 8 body) /\     (* 0o *)
  (forall body, number_literal (48 :: 120 :: body) = literal_spec 16 body) /\    (* 0x *)
  (forall body, number_literal (37 :: body) = literal_spec 2 body) /\            (* %  *)
  (forall body, number_literal (36 :: body) = literal_spec 16 body) /\           (* $  *)
  (forall t, has_prefix t = false -> number_literal t = literal_spec 10 t).
Proof.
  repeat split; intros; rewrite number_literal_spec; try reflexivity.
  unfold has_prefix in H. destruct (N.eqb_spec (fst (split_prefix t)) 10) as [E|]; [|discriminate].
  rewrite E. f_equal. clear H. revert E. unfold split_prefix. destruct t as [|c r]; [reflexivity|].
  destruct (c =? 37); [discriminate|]. destruct (c =? 36); [discriminate|].
  destruct (c =? 48); [|reflexivity]. destruct r as [|c2 r2]; [reflexivity|].
  destruct (c2 =? 98); [discriminate|]. destruct (c2 =? 111); [discriminate|]. destruct (c2 =? 120); [discriminate|reflexivity].
Qed.

(* a body made of decimal digits and `_` never looks like a prefix *)
Lemma decimal_no_prefix t : forallb (fun c => is_digit c || (c =? 95)) t = true -> has_prefix t = false.
Proof.
  unfold has_prefix, split_prefix. destruct t as [|c r]; [reflexivity|]. cbn [forallb]. intro H.
  apply andb_prop in H. destruct H as [Hc Hr]. unfold is_digit, in_range in *.
  destruct (N.eqb_spec c 37); [lia|]. destruct (N.eqb_spec c 36); [lia|].
  destruct (N.eqb_spec c 48); [|reflexivity]. destruct r as [|c2 r2]; [reflexivity|].
  cbn [forallb] in Hr. apply andb_prop in Hr. destruct Hr as [Hc2 _].
  destruct (N.eqb_spec c2 98); [lia|]. destruct (N.eqb_spec c2 111); [lia|]. destruct (N.eqb_spec c2 120); [lia|reflexivity].
Qed.

(* what acceptance means, unpacked *)
Theorem literal_spec_accept radix body v sz : literal_spec radix body = Some (v, sz) ->
  exists ds, digit_list body = Some ds /\ ds <> [] /\ Forall (fun d => d < radix) ds /\
             v = value_of_digits radix ds /\
             sz = match bits_per_digit radix with Some k => Some (k * N.of_nat (length ds)) | None => None end.
Proof.
  unfold literal_spec. destruct (digit_list body) as [ds|]; [|discriminate].
  destruct (forallb _ ds) eqn:Ef; [|discriminate]. cbn [andb].
  destruct (N.of_nat (length ds) =? 0) eqn:El; [discriminate|]. cbn [negb]. intro E. inversion E; subst.
  exists ds. repeat split.
  - intro; subst; discriminate.
  - apply Forall_forall. intros d Hd. rewrite forallb_forall in Ef. specialize (Ef d Hd). lia.
Qed.

(* ... and rejection: no digit at all, a digit not below the radix, or a character that is no digit *)
Theorem literal_spec_reject radix body :
  literal_spec radix body = None <->
  match digit_list body with
  | Some ds => ds = [] \/ Exists (fun d => radix <= d) ds
  | None => True
  end.
Proof.
  unfold literal_spec. destruct (digit_list body) as [ds|]; [|tauto].
  destruct (forallb _ ds) eqn:Ef; cbn [andb].
  - destruct ds as [|d ds']; cbn [length negb]; [cbn; tauto|].
    destruct (N.eqb_spec (N.of_nat (S (length ds'))) 0); [lia|]. cbn [negb]. split; [discriminate|].
    intros [H|H]; [discriminate|]. exfalso. rewrite forallb_forall in Ef. apply Exists_exists in H.
    destruct H as [x [Hx Hge]]. specialize (Ef x Hx). lia.
  - split; [|reflexivity]. intros _. right. apply Exists_exists.
    assert (H : ~ (forall x, In x ds -> (x <? radix) = true)) by (rewrite <- forallb_forall; congruence).
    clear Ef. induction ds as [|d ds IH]; [exfalso; apply H; intros ? []|].
    destruct (d <? radix) eqn:Ed.
    + destruct IH as [x [Hx Hge]].
      { intro Hall. apply H. intros x [<-|Hx]; [exact Ed|apply Hall; exact Hx]. }
      exists x. split; [right; exact Hx|exact Hge].
    + exists d. split; [left; reflexivity|lia].
Qed.

(* the value of an accepted literal fits its size *)
Lemma positional_bound r ds : Forall (fun d => d < r) ds -> positional r ds < r ^ N.of_nat (length ds).
Proof.
  induction 1 as [|d ds Hd Hds IH]; [cbn; lia|].
  cbn [positional length]. rewrite Nat2N.inj_succ, N.pow_succ_r'. nia.
Qed.

Theorem number_literal_bound t v s : number_literal t = Some (v, Some s) -> (Z.of_N v < 2 ^ Z.of_N s)%Z.
Proof.
  rewrite number_literal_spec. intro E. apply literal_spec_accept in E.
  destruct E as [ds [_ [_ [Hall [-> Hs]]]]].
  pose proof (split_prefix_radix t) as Hr. cbv zeta in Hr. set (radix := fst (split_prefix t)) in *.
  assert (Hb : value_of_digits radix ds < radix ^ N.of_nat (length ds)).
  { unfold value_of_digits. rewrite <- (rev_length ds). apply positional_bound. apply Forall_rev. exact Hall. }
  assert (Hk : exists k, bits_per_digit radix = Some k /\ radix = 2 ^ k).
  { destruct Hr as [-> | [-> | [-> | ->]]]; cbn in Hs |- *; try discriminate; eexists; split; reflexivity. }
  destruct Hk as [k [Hk1 Hk2]]. rewrite Hk1 in Hs. inversion Hs; subst s.
  assert (Hb' : value_of_digits radix ds < 2 ^ (k * N.of_nat (length ds))).
  { rewrite N.pow_mul_r, <- Hk2. exact Hb. }
  apply N2Z.inj_lt in Hb'. rewrite N2Z.inj_pow in Hb'. exact Hb'.
Qed.

Example literal_nonvacuous :
  number_literal [48;120;102;95;70] = Some (255, Some 8) /\           (* 0xf_F *)
  number_literal [37;49;48;95;49] = Some (5, Some 3) /\               (* %10_1 *)
  number_literal [48;111;55;55] = Some (63, Some 6) /\                (* 0o77 *)
  number_literal [49;95;48;48;48] = Some (1000, None) /\              (* 1_000 *)
  number_literal [48;98;50] = None /\                                 (* 0b2: digit >= radix *)
  number_literal [48;120;95] = None /\                                (* 0x_: no digit *)
  value_of_digits 16 [15;15] = 255.
Proof. vm_compute. repeat split; reflexivity. Qed.
