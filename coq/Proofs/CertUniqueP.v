(* C01, steps 2-4 (infrastructure): frames (a pass only writes the slots its nodes own), per-node reading of a
   certificate, static sizes fix the layout of every certified state, symbol lookups under related states. *)
From Coq Require Import NArith ZArith List Bool Lia.
From CA Require Import Model.Lexer Model.Parser Model.Literal Model.BigIntOps Model.Evaluator Model.Matcher Model.Resolver
  Spec.Denote Proofs.EvalSemP Proofs.EvalMonoP Proofs.ResolverFixP Proofs.ResolverMonoP Proofs.ResolverTopP
  Proofs.CertifiedP Proofs.DenoteP Proofs.StaticSizeP.
Import ListNotations.
Open Scope Z_scope.

(* ---------- lists: set_nth / nth_error ---------- *)
Lemma set_nth_length {A} (l : list A) i x : length (set_nth l i x) = length l.
Proof. revert i; induction l as [|a l IH]; intros [|i]; cbn; auto. Qed.

Lemma nth_error_set_nth_other {A} (l : list A) i j x : i <> j -> nth_error (set_nth l j x) i = nth_error l i.
Proof. revert i j; induction l as [|a l IH]; intros [|i] [|j] H; cbn; try reflexivity; try congruence. apply IH. congruence. Qed.

Lemma nth_error_set_nth_same {A} (l : list A) i x y : nth_error l i = Some y -> nth_error (set_nth l i x) i = Some x.
Proof. revert i; induction l as [|a l IH]; intros [|i] H; cbn in *; try discriminate; auto. Qed.

Lemma nth_error_set_nth_none {A} (l : list A) i x : nth_error l i = None -> set_nth l i x = l.
Proof. revert i; induction l as [|a l IH]; intros [|i] H; cbn in *; try discriminate; auto. f_equal. auto. Qed.

Lemma set_nth_id {A} (l : list A) i x : (forall y, nth_error l i = Some y -> y = x) -> set_nth l i x = l.
Proof.
  revert i; induction l as [|a l IH]; intros [|i] H; cbn in *; auto.
  - f_equal. symmetry. apply H. reflexivity.
  - f_equal. apply IH. exact H.
Qed.

Lemma nth_error_ext {A} (l l' : list A) : length l = length l' -> (forall i, nth_error l i = nth_error l' i) -> l = l'.
Proof.
  revert l'; induction l as [|a l IH]; intros [|b l'] HL H; cbn in HL; try discriminate; [reflexivity|].
  f_equal. - pose proof (H O) as H0. cbn in H0. congruence.
  - apply IH; [congruence|]. intro i. exact (H (S i)).
Qed.

Lemma nth_error_nth' {A} (l : list A) i d y : nth_error l i = Some y -> nth i l d = y.
Proof. revert i; induction l as [|a l IH]; intros [|i] H; cbn in *; try discriminate; [congruence|auto]. Qed.

Lemma nth_error_None_len {A} (l l' : list A) i : length l = length l' -> nth_error l i = None -> nth_error l' i = None.
Proof. intros HL H. apply nth_error_None in H. apply nth_error_None. lia. Qed.

(* ---------- frames: two lists that differ at most at the indices of I ---------- *)
Definition fr {A} (I : list nat) (l l' : list A) : Prop :=
  length l = length l' /\ forall i, ~ In i I -> nth_error l i = nth_error l' i.

Lemma fr_refl {A} I (l : list A) : fr I l l.
Proof. split; auto. Qed.
Lemma fr_trans {A} I (a b c : list A) : fr I a b -> fr I b c -> fr I a c.
Proof. intros [L1 H1] [L2 H2]. split; [congruence|]. intros i Hi. rewrite H1, H2; auto. Qed.
Lemma fr_set {A} I (l : list A) k x : In k I -> fr I l (set_nth l k x).
Proof.
  intro Hk. split; [now rewrite set_nth_length|]. intros i Hi. rewrite nth_error_set_nth_other; [reflexivity|].
  intro; subst; contradiction.
Qed.

(* tracking a run of writes towards a target t starting from o: indices in I hold the target's value *)
Definition upd_rel {A} (I : list nat) (l o t : list A) : Prop :=
  length l = length t /\ forall i, (In i I -> nth_error l i = nth_error t i) /\ (~ In i I -> nth_error l i = nth_error o i).

Lemma upd_rel_init {A} (o t : list A) : length o = length t -> upd_rel [] o o t.
Proof. intro H. split; [exact H|]. intro i. split; [intros []|reflexivity]. Qed.

Lemma upd_rel_same {A} I I' (l o t : list A) : upd_rel I l o t -> (forall i, In i I' <-> In i I) -> upd_rel I' l o t.
Proof.
  intros [HL H] HI. split; [exact HL|]. intro i. destruct (H i) as [H1 H2]. split; intro Hi.
  - apply H1, HI, Hi. - apply H2. intro. apply Hi, HI. assumption.
Qed.

Lemma upd_rel_write {A} I I' (l o t : list A) k x : upd_rel I l o t ->
  (forall i, In i I' <-> In i I \/ i = k) -> (forall y, nth_error t k = Some y -> y = x) ->
  upd_rel I' (set_nth l k x) o t.
Proof.
  intros [HL H] HI Hx. split; [now rewrite set_nth_length|]. intro i. destruct (H i) as [H1 H2].
  destruct (Nat.eq_dec i k) as [->|Hne].
  - split; [intros _|intro Hn; exfalso; apply Hn, HI; now right].
    destruct (nth_error t k) as [y|] eqn:Et.
    + destruct (nth_error l k) as [z|] eqn:El.
      * rewrite (nth_error_set_nth_same _ _ _ _ El). f_equal. symmetry. apply Hx. reflexivity.
      * apply nth_error_None in El. assert (k < length t)%nat by (apply nth_error_Some; congruence). lia.
    + rewrite nth_error_set_nth_none; [|eapply nth_error_None_len; [symmetry; exact HL|exact Et]].
      eapply nth_error_None_len; [symmetry; exact HL|exact Et].
  - rewrite nth_error_set_nth_other by exact Hne. split; intro Hi.
    + apply H1. apply HI in Hi. destruct Hi; [assumption|contradiction].
    + apply H2. intro. apply Hi, HI. now left.
Qed.

Lemma upd_rel_done {A} I (l o t : list A) : upd_rel I l o t -> fr I o t -> l = t.
Proof.
  intros [HL H] [_ HF]. apply nth_error_ext; [exact HL|]. intro i. destruct (H i) as [H1 H2].
  destruct (in_dec Nat.eq_dec i I) as [Hi|Hi]; [apply H1, Hi|]. rewrite H2 by exact Hi. apply HF, Hi.
Qed.

Lemma upd_rel_either {A} I (l o t : list A) i : upd_rel I l o t -> nth_error l i = nth_error t i \/ nth_error l i = nth_error o i.
Proof. intros [_ H]. destruct (H i) as [H1 H2]. destruct (in_dec Nat.eq_dec i I); auto. Qed.

(* ---------- which slots of each state component the nodes of a program own ---------- *)
Definition label_ids (ns : list node) : list nat := flat_map (fun n => match n with NLabel s => [s] | _ => [] end) ns.
Definition const_ids (ns : list node) : list nat := flat_map (fun n => match n with NConst s _ => [s] | _ => [] end) ns.
Definition sym_ids (ns : list node) : list nat := flat_map (fun n => match n with NLabel s | NConst s _ => [s] | _ => [] end) ns.
Definition instr_ids (ns : list node) : list nat := flat_map (fun n => match n with NInstr i _ => [i] | _ => [] end) ns.
Definition data_ids (ns : list node) : list nat := flat_map (fun n => match n with NData _ el => map fst el | _ => [] end) ns.
Definition res_ids (ns : list node) : list nat := flat_map (fun n => match n with NRes k _ => [k] | _ => [] end) ns.
Definition align_ids (ns : list node) : list nat := flat_map (fun n => match n with NAlign k _ => [k] | _ => [] end) ns.
Definition addr_ids (ns : list node) : list nat := flat_map (fun n => match n with NAddr k _ => [k] | _ => [] end) ns.

Lemma sym_ids_split ns i : In i (sym_ids ns) <-> In i (label_ids ns) \/ In i (const_ids ns).
Proof.
  unfold sym_ids, label_ids, const_ids. induction ns as [|n ns IH]; cbn [flat_map]; [tauto|].
  rewrite !in_app_iff, IH. destruct n; cbn; tauto.
Qed.

Record frame (ns : list node) (a b : state) : Prop := {
  f_sym : fr (sym_ids ns) (s_sym a) (s_sym b);
  f_instr : fr (instr_ids ns) (s_instr a) (s_instr b);
  f_match : map i_matches (s_instr a) = map i_matches (s_instr b);
  f_data : fr (data_ids ns) (s_data a) (s_data b);
  f_res : fr (res_ids ns) (s_res a) (s_res b);
  f_align : fr (align_ids ns) (s_align a) (s_align b);
  f_addr : fr (addr_ids ns) (s_addr a) (s_addr b) }.

Lemma frame_refl ns a : frame ns a a.
Proof. constructor; try apply fr_refl; reflexivity. Qed.
Lemma frame_trans ns a b c : frame ns a b -> frame ns b c -> frame ns a c.
Proof. intros [] []. constructor; try (eapply fr_trans; eassumption); congruence. Qed.

Lemma map_set_nth {A B} (f : A -> B) (l : list A) i x : map f (set_nth l i x) = set_nth (map f l) i (f x).
Proof. revert i; induction l as [|a l IH]; intros [|i]; cbn; auto. f_equal. auto. Qed.

Lemma frame_sym ns st k v : In k (sym_ids ns) ->
  frame ns st {| s_sym := set_nth (s_sym st) k v; s_instr := s_instr st; s_data := s_data st; s_res := s_res st; s_align := s_align st; s_addr := s_addr st |}.
Proof. intro H. constructor; cbn; try apply fr_refl; try reflexivity. apply fr_set, H. Qed.
Lemma frame_instr ns st i d d' : In i (instr_ids ns) -> nth_error (s_instr st) i = Some d -> i_matches d' = i_matches d ->
  frame ns st {| s_sym := s_sym st; s_instr := set_nth (s_instr st) i d'; s_data := s_data st; s_res := s_res st; s_align := s_align st; s_addr := s_addr st |}.
Proof.
  intros H Hd Hm. constructor; cbn; try apply fr_refl; try reflexivity. - apply fr_set, H.
  - rewrite map_set_nth. symmetry. apply set_nth_id. intros y Hy. rewrite nth_error_map, Hd in Hy. cbn in Hy. congruence.
Qed.
Lemma frame_data ns st k v : In k (data_ids ns) ->
  frame ns st {| s_sym := s_sym st; s_instr := s_instr st; s_data := set_nth (s_data st) k v; s_res := s_res st; s_align := s_align st; s_addr := s_addr st |}.
Proof. intro H. constructor; cbn; try apply fr_refl; try reflexivity. apply fr_set, H. Qed.
Lemma frame_res ns st k v : In k (res_ids ns) ->
  frame ns st {| s_sym := s_sym st; s_instr := s_instr st; s_data := s_data st; s_res := set_nth (s_res st) k v; s_align := s_align st; s_addr := s_addr st |}.
Proof. intro H. constructor; cbn; try apply fr_refl; try reflexivity. apply fr_set, H. Qed.
Lemma frame_align ns st k v : In k (align_ids ns) ->
  frame ns st {| s_sym := s_sym st; s_instr := s_instr st; s_data := s_data st; s_res := s_res st; s_align := set_nth (s_align st) k v; s_addr := s_addr st |}.
Proof. intro H. constructor; cbn; try apply fr_refl; try reflexivity. apply fr_set, H. Qed.
Lemma frame_addr ns st k v : In k (addr_ids ns) ->
  frame ns st {| s_sym := s_sym st; s_instr := s_instr st; s_data := s_data st; s_res := s_res st; s_align := s_align st; s_addr := set_nth (s_addr st) k v |}.
Proof. intro H. constructor; cbn; try apply fr_refl; try reflexivity. apply fr_set, H. Qed.
Lemma frame_eta ns st : frame ns st {| s_sym := s_sym st; s_instr := s_instr st; s_data := s_data st; s_res := s_res st; s_align := s_align st; s_addr := s_addr st |}.
Proof. destruct st; apply frame_refl. Qed.

Lemma in_ids_label ns s : In (NLabel s) ns -> In s (sym_ids ns).
Proof. intro H. apply in_flat_map. exists (NLabel s). split; [exact H|now left]. Qed.
Lemma in_ids_const ns s e : In (NConst s e) ns -> In s (sym_ids ns).
Proof. intro H. apply in_flat_map. exists (NConst s e). split; [exact H|now left]. Qed.
Lemma in_ids_instr ns i src : In (NInstr i src) ns -> In i (instr_ids ns).
Proof. intro H. apply in_flat_map. exists (NInstr i src). split; [exact H|now left]. Qed.
Lemma in_ids_data ns w el d e : In (NData w el) ns -> In (d, e) el -> In d (data_ids ns).
Proof. intros H He. apply in_flat_map. exists (NData w el). split; [exact H|]. apply in_map_iff. exists (d, e). auto. Qed.
Lemma in_ids_res ns k e : In (NRes k e) ns -> In k (res_ids ns).
Proof. intro H. apply in_flat_map. exists (NRes k e). split; [exact H|now left]. Qed.
Lemma in_ids_align ns k e : In (NAlign k e) ns -> In k (align_ids ns).
Proof. intro H. apply in_flat_map. exists (NAlign k e). split; [exact H|now left]. Qed.
Lemma in_ids_addr ns k e : In (NAddr k e) ns -> In k (addr_ids ns).
Proof. intro H. apply in_flat_map. exists (NAddr k e). split; [exact H|now left]. Qed.

Section Frames.
Variable names : list text.
Variable defs : list ruledef.
Variable all : list node.

Lemma data_go_frame last width : forall elems st pos acc st' r pos',
  (forall d e, In (d, e) elems -> In d (data_ids all)) ->
  data_go names last width elems st pos acc = EOk (st', r, pos') -> frame all st st'.
Proof.
  induction elems as [|[d e] rest IH]; intros st pos acc st' r pos' Hin H; cbn [data_go] in H.
  - inversion H; subst. apply frame_refl.
  - cbv zeta in H.
    destruct (eval code_ops (pvar names st pos (negb last)) e []) as [[v c]|]; [|discriminate].
    destruct (expect_error_or_bigint v) as [v'|]; [|discriminate].
    destruct (match v' with VInt b => EOk (Some b) | _ => if last then EErr else EOk None end) as [menc|]; [|discriminate].
    match type of H with (if negb ?c then _ else _) = _ => destruct c; cbn [negb] in H; [|discriminate] end.
    apply IH in H; [|intros; eapply Hin; right; eauto].
    eapply frame_trans; [|exact H]. destruct menc; [|apply frame_refl].
    apply frame_data. eapply Hin. now left.
Qed.

Lemma resolve_node_frame last n st pos st' r pos' : In n all ->
  resolve_node names defs last n st pos = EOk (st', r, pos') -> frame all st st'.
Proof.
  intros Hin H. destruct n as [s|s e|i src|width elems|k e|k e|k e]; cbn [resolve_node] in H.
  - destruct (address_at pos (negb last)) as [a|]; [|discriminate]. inversion H; subst.
    apply frame_sym. eapply in_ids_label; eauto.
  - destruct (eval code_ops _ e []) as [[v c]|]; [|discriminate].
    destruct (last && match v with VFailed => true | _ => false end); [discriminate|]. inversion H; subst.
    apply frame_sym. eapply in_ids_const; eauto.
  - destruct (nth_error (s_instr st) i) as [d|] eqn:Hd; [|discriminate].
    destruct (resolve_encoding defs _ (negb last) (i_matches d)) as [chosen|]; [|discriminate].
    inversion H; subst. eapply frame_instr; [eapply in_ids_instr; eauto|exact Hd|]. destruct chosen; reflexivity.
  - eapply data_go_frame; [|exact H]. intros d e He. eapply in_ids_data; eauto.
  - destruct (eval code_ops _ e []) as [[v c]|]; [|discriminate].
    destruct (expect_error_or_bigint v) as [v'|]; [|discriminate].
    match type of H with match ?x with EErr => _ | EOk _ => _ end = _ => destruct x as [z|]; [|discriminate] end.
    inversion H; subst. apply frame_res. eapply in_ids_res; eauto.
  - destruct (eval code_ops _ e []) as [[v c]|]; [|discriminate].
    match type of H with match ?x with EErr => _ | EOk _ => _ end = _ => destruct x as [z|]; [|discriminate] end.
    assert (F : forall z, frame all st {| s_sym := s_sym st; s_instr := s_instr st; s_data := s_data st; s_res := s_res st; s_align := set_nth (s_align st) k z; s_addr := s_addr st |})
      by (intro; apply frame_align; eapply in_ids_align; eauto).
    destruct (negb (z =? nth k (s_align st) 0)); [inversion H; subst; apply F|].
    destruct (last && (z =? 0)); [discriminate|]. inversion H; subst. apply F.
  - destruct (eval code_ops _ e []) as [[v c]|]; [|discriminate].
    destruct (expect_error_or_bigint v) as [v'|]; [|discriminate].
    cbv zeta in H.
    assert (F : forall z, frame all st {| s_sym := s_sym st; s_instr := s_instr st; s_data := s_data st; s_res := s_res st; s_align := s_align st; s_addr := set_nth (s_addr st) k z |})
      by (intro; apply frame_addr; eapply in_ids_addr; eauto).
    match type of H with (if negb ?c then _ else _) = _ => destruct (negb c); [inversion H; subst; apply F|] end.
    match type of H with (if ?c then _ else _) = _ => destruct c; [discriminate|] end.
    match type of H with (if ?c then _ else _) = _ => destruct c; [discriminate|] end.
    inversion H; subst. apply F.
Qed.

Lemma pass_frame_gen last : forall ns st pos acc st' r, (forall n, In n ns -> In n all) ->
  pass names defs last ns st pos acc = EOk (st', r) -> frame all st st'.
Proof.
  induction ns as [|n ns IH]; intros st pos acc st' r Hsub H; cbn [pass] in H.
  - inversion H; subst. apply frame_refl.
  - destruct (resolve_node names defs last n st pos) as [[[s q] p]|] eqn:E; [|discriminate].
    eapply frame_trans; [eapply resolve_node_frame; [|exact E]; apply Hsub; now left|].
    eapply IH; [|exact H]. intros m Hm. apply Hsub. now right.
Qed.

Lemma loop_frame : forall k i max st st' n, loop names defs all k i max st = EOk (st', n) -> frame all st st'.
Proof.
  induction k as [|k IH]; intros i max st st' n H; cbn [loop] in H.
  - destruct (pass names defs true all st 0 Resolved) as [[s r]|] eqn:Q; [|discriminate]. destruct r; [|discriminate].
    inversion H; subst. eapply pass_frame_gen; [|exact Q]. auto.
  - destruct (pass names defs (Nat.eqb (S i) max) all st 0 Resolved) as [[s r]|] eqn:Q; [|discriminate].
    assert (F : frame all st s) by (eapply pass_frame_gen; [|exact Q]; auto).
    destruct r.
    + destruct (Nat.eqb (S i) max); [inversion H; subst; exact F|].
      destruct (pass names defs true all s 0 Resolved) as [[s2 r2]|] eqn:Q2; [|discriminate]. destruct r2; [|discriminate].
      inversion H; subst. eapply frame_trans; [exact F|]. eapply pass_frame_gen; [|exact Q2]. auto.
    + destruct (Nat.eqb (S i) max); [discriminate|]. eapply frame_trans; [exact F|]. eapply IH; eauto.
Qed.

Lemma simple_round_frame : forall ns st st' cnt0 cnt, (forall n, In n ns -> In n all) ->
  (fix go (ns : list node) (st : state) (cnt : nat) : eres (state * nat) :=
     match ns with
     | [] => EOk (st, cnt)
     | NConst s e :: r =>
       match eval code_ops (pvar_simple names st) e [] with
       | EErr => EErr
       | EOk (VFailed, _) => EErr
       | EOk (v, _) =>
         let st' := {| s_sym := set_nth (s_sym st) s v; s_instr := s_instr st; s_data := s_data st; s_res := s_res st; s_align := s_align st; s_addr := s_addr st |} in
         go r st' (match v with VUnknown => cnt | _ => S cnt end)
       end
     | _ :: r => go r st cnt
     end) ns st cnt0 = EOk (st', cnt) -> frame all st st'.
Proof.
  induction ns as [|n ns IH]; intros st st' cnt0 cnt Hsub H.
  - inversion H; subst. apply frame_refl.
  - assert (Hsub' : forall m, In m ns -> In m all) by (intros m Hm; apply Hsub; now right).
    destruct n as [s|s e|i src|width elems|k e|k e|k e]; try (eapply IH; eauto; fail).
    destruct (eval code_ops (pvar_simple names st) e []) as [[v c]|]; [|discriminate].
    assert (F : frame all st {| s_sym := set_nth (s_sym st) s v; s_instr := s_instr st; s_data := s_data st; s_res := s_res st; s_align := s_align st; s_addr := s_addr st |})
      by (apply frame_sym; eapply in_ids_const; apply Hsub; now left).
    destruct v; try discriminate; (eapply frame_trans; [exact F|]; eapply IH; eauto).
Qed.

Lemma simple_loop_frame : forall fuel st prev st', simple_loop fuel names all st prev = EOk st' -> frame all st st'.
Proof.
  induction fuel as [|f IH]; intros st prev st' H; cbn [simple_loop] in H.
  - inversion H; subst. apply frame_refl.
  - destruct (simple_round names all st) as [[s c]|] eqn:E; [|discriminate].
    assert (frame all st s) by (unfold simple_round in E; eapply simple_round_frame with (ns := all); eauto).
    destruct (Nat.eqb c prev); [inversion H; subst; assumption|]. eapply frame_trans; eauto.
Qed.
End Frames.

(* the assembler's answer: a certified state inside the frame of the initial state *)
Theorem assemble_framed indexed defs names ns budget out syms n :
  syms_distinct ns ->
  assemble indexed defs names ns budget = Some (out, syms, n) ->
  exists st0 st, init_state indexed defs (length names) ns = Some st0 /\ frame ns st0 st /\ labels_ok ns st /\
    Certified names defs ns st /\ syms = s_sym st /\ out = build_output ns st.
Proof.
  intros Hd H. unfold assemble in H.
  destruct (init_state indexed defs (length names) ns) as [st0|] eqn:E0; [|discriminate].
  destruct (simple_loop (S (length ns)) names ns st0 0) as [st1|] eqn:E1; [|discriminate].
  destruct (loop names defs ns budget 0 budget st1) as [[st k]|] eqn:E2; [|discriminate].
  inversion H; subst; clear H.
  assert (Hl : labels_ok ns st1) by (eapply simple_loop_labels_ok; eauto; eapply init_labels_ok; eauto).
  destruct (loop_inv names defs ns Hd budget 0 budget st1 st n Hl E2 ltac:(lia)) as [Hl' [Hc Hn]].
  exists st0, st. split; [reflexivity|]. split; [|auto].
  eapply frame_trans; [eapply simple_loop_frame; eauto|eapply loop_frame; eauto].
Qed.

(* ---------- reading a certificate node by node ---------- *)
Definition dflt : bigint := mk 0 (Some 0%N).

Fixpoint data_cert (names : list text) (st : state) (width : option N) (elems : list (nat * expr)) (pos : Z) : Prop :=
  match elems with
  | [] => True
  | (d, e) :: r =>
    (exists v c b, eval code_ops (pvar names st pos false) e [] = EOk (v, c) /\ expect_error_or_bigint v = EOk (VInt b) /\
       (width = None -> exists n, bsz b = Some n) /\
       nth d (s_data st) dflt = (match width with Some w => slice_to b (Z.of_N w) | None => slice_to b (size_or_min b) end))
    /\ data_cert names st width r (pos + size_of (nth d (s_data st) dflt))
  end.

Lemma data_go_cert names width : forall elems st pos acc pos',
  data_go names true width elems st pos acc = EOk (st, Resolved, pos') -> data_cert names st width elems pos.
Proof.
  induction elems as [|[d e] r IH]; intros st pos acc pos' H; cbn [data_go] in H; [exact I|].
  cbv zeta in H. cbn [negb] in H.
  destruct (eval code_ops (pvar names st pos false) e []) as [[v c]|] eqn:Ev; [|discriminate].
  destruct (expect_error_or_bigint v) as [v'|] eqn:Ex; [|discriminate].
  destruct v'; try discriminate.
  match type of H with (if negb ?c then _ else _) = _ => destruct c eqn:Ck; cbn [negb] in H; [|discriminate] end.
  pose proof (data_go_fix names true width _ _ _ _ _ _ H) as [Hs Hm].
  apply merge_resolved in Hm. destruct Hm as [_ Hst].
  match type of Hst with (if ?c then _ else _) = _ => destruct c eqn:E; [|discriminate] end.
  apply bigint_identical_eq in E. fold dflt in E.
  rewrite <- Hs in H. apply IH in H. cbn [data_cert]. split; [|exact H].
  exists v, c, b. split; [exact Ev|]. split; [exact Ex|]. split; [|exact E].
  intros ->. destruct (bsz b) as [n|]; [eauto|discriminate].
Qed.

Lemma literal_only_inv e : literal_only e = true -> exists b c, eval code_ops dummy_var e [] = EOk (VInt b, c).
Proof.
  unfold literal_only. destruct (eval code_ops dummy_var e []) as [[v c]|]; [|discriminate].
  destruct v; try discriminate. eauto.
Qed.

Lemma all_same_static_inv defs ms : all_same_static defs ms = true ->
  exists s, ms <> [] /\ forall m, In m ms -> match_static_size defs m = Some s.
Proof.
  unfold all_same_static. destruct ms as [|m r]; [discriminate|].
  destruct (match_static_size defs m) as [s|] eqn:E; [|discriminate].
  intro H. exists s. split; [discriminate|]. intros m' [<-|Hin]; [exact E|].
  rewrite forallb_forall in H. specialize (H m' Hin).
  destruct (match_static_size defs m') as [s'|]; [|discriminate]. apply Z.eqb_eq in H. now subst.
Qed.

Lemma fold_max_const {A} (f : A -> Z) s : forall ms a, (forall m, In m ms -> f m = s) ->
  fold_left (fun a m => Z.max a (f m)) ms a = match ms with [] => a | _ => Z.max a s end.
Proof.
  induction ms as [|m ms IH]; intros a H; [reflexivity|]. cbn [fold_left].
  rewrite IH by (intros; apply H; now right). rewrite (H m) by now left.
  destruct ms; [reflexivity|]. lia.
Qed.

Lemma size_of_nonneg b : 0 <= size_of b.
Proof. unfold size_of. destruct (bsz b); lia. Qed.

Lemma size_of_slice_to b n : 0 <= n -> size_of (slice_to b n) = n.
Proof. intro H. unfold slice_to, size_of. rewrite slice_bsz. lia. Qed.

Definition init_instr_ok (defs : list ruledef) (st0 : state) : Prop :=
  forall d, In d (s_instr st0) ->
    i_enc d = mk 0 (Some (Z.to_N (fold_left (fun a m => Z.max a (match match_static_size defs m with Some s => s | None => 0 end)) (i_matches d) 0))).
Definition data_slots (ns : list node) (st0 : state) : Prop :=
  forall w el d e, In (NData w el) ns -> In (d, e) el ->
    nth_error (s_data st0) d = Some (match w with
                                     | Some w => mk 0 (Some w)
                                     | None => mk 0 (Some (Z.to_N (match static_size [] e with Some s => s | None => 0 end))) end).
Definition matches_typed (defs : list ruledef) (st0 : state) : Prop :=
  forall d m, In d (s_instr st0) -> In m (i_matches d) -> match_typed defs m = true.

Lemma init_state_instr_ok indexed defs nsyms ns st0 : init_state indexed defs nsyms ns = Some st0 -> init_instr_ok defs st0.
Proof.
  unfold init_state. cbv zeta.
  match goal with |- (if ?c then _ else _) = _ -> _ => destruct c; [discriminate|] end.
  intro H. inversion H; subst; clear H. intros d Hd. cbn [s_instr] in Hd. apply in_map_iff in Hd.
  destruct Hd as [src [<- _]]. reflexivity.
Qed.

Lemma init_state_shape indexed defs nsyms ns st0 : init_state indexed defs nsyms ns = Some st0 ->
  s_sym st0 = repeat VUnknown nsyms.
Proof.
  unfold init_state. cbv zeta.
  match goal with |- (if ?c then _ else _) = _ -> _ => destruct c; [discriminate|] end.
  intro H. inversion H; subst; reflexivity.
Qed.

(* ---------- a certified state of a size-static program: every item has its static size ---------- *)
Record cert_ctx (names : list text) (defs : list ruledef) (ns : list node) (st0 st : state) : Prop := {
  cx_defs : defs_ok defs = true;
  cx_init : init_instr_ok defs st0;
  cx_slots : data_slots ns st0;
  cx_typed : matches_typed defs st0;
  cx_static : size_static defs ns st0 = true;
  cx_frame : frame ns st0 st;
  cx_cert : Certified names defs ns st;
  cx_labels : labels_ok ns st;
  cx_distinct : syms_distinct ns }.

Section Cert.
Variable names : list text.
Variable defs : list ruledef.
Variable ns : list node.
Variables st0 st : state.
Hypothesis HX : cert_ctx names defs ns st0 st.
Let Hdefs := cx_defs _ _ _ _ _ HX.
Let Hinit := cx_init _ _ _ _ _ HX.
Let Hslots := cx_slots _ _ _ _ _ HX.
Let Htyped := cx_typed _ _ _ _ _ HX.
Let Hstatic := cx_static _ _ _ _ _ HX.
Let HF := cx_frame _ _ _ _ _ HX.
Let HC := cx_cert _ _ _ _ _ HX.
Let HL := cx_labels _ _ _ _ _ HX.
Let Hdist := cx_distinct _ _ _ _ _ HX.

Lemma cert_at ns1 n ns2 : ns = ns1 ++ n :: ns2 ->
  exists p', resolve_node names defs true n st (cursor ns1 st 0) = EOk (st, Resolved, p').
Proof.
  intro E. pose proof HL as HL'. pose proof HC as HC'. rewrite E in HL', HC'.
  exact (certified_node names defs ns1 n ns2 st HL' HC').
Qed.

Lemma static_at n : In n ns ->
  match n with
  | NInstr i _ => match nth_error (s_instr st0) i with Some d => all_same_static defs (i_matches d) | None => false end
  | NData None elems => forallb (fun de => match static_size [] (snd de) with Some _ => true | None => false end) elems
  | NRes _ e | NAlign _ e | NAddr _ e => literal_only e
  | _ => true
  end = true.
Proof. intro Hin. unfold size_static in Hstatic. rewrite forallb_forall in Hstatic. exact (Hstatic n Hin). Qed.

Lemma same_matches i d0 : nth_error (s_instr st0) i = Some d0 ->
  exists d, nth_error (s_instr st) i = Some d /\ i_matches d = i_matches d0.
Proof.
  intro H0. pose proof (f_match _ _ _ HF) as Hm.
  assert (E : nth_error (map i_matches (s_instr st0)) i = nth_error (map i_matches (s_instr st)) i) by now rewrite Hm.
  rewrite !nth_error_map, H0 in E. cbn in E. destruct (nth_error (s_instr st) i) as [d|]; [|discriminate].
  exists d. split; [reflexivity|]. cbn in E. congruence.
Qed.

Lemma instr_size ns1 i src ns2 : ns = ns1 ++ NInstr i src :: ns2 ->
  exists d0 d, nth_error (s_instr st0) i = Some d0 /\ nth_error (s_instr st) i = Some d /\
    i_matches d = i_matches d0 /\ size_of (i_enc d) = size_of (i_enc d0) /\
    resolve_encoding defs (pvar names st (cursor ns1 st 0) false) false (i_matches d) = EOk (Some (i_enc d)).
Proof.
  intro E. assert (Hin : In (NInstr i src) ns) by (rewrite E; apply in_or_app; right; now left).
  pose proof (static_at _ Hin) as Hs. cbn beta iota in Hs.
  destruct (nth_error (s_instr st0) i) as [d0|] eqn:H0; [|discriminate].
  destruct (same_matches _ _ H0) as [d [Hd Hm]].
  pose proof HL as HL'. pose proof HC as HC'. rewrite E in HL', HC'.
  destruct (certified_instruction names defs _ _ _ _ _ HL' HC') as [d' [Hd' Hre]].
  rewrite Hd in Hd'. injection Hd' as <-.
  exists d0, d. repeat split; try assumption.
  destruct (all_same_static_inv _ _ Hs) as [s [Hne Hall]].
  destruct (resolve_encoding_strict _ _ _ _ Hre) as [rs [Hrs [Hb _]]].
  assert (Hty : forall m, In m (i_matches d) -> match_typed defs m = true).
  { intros m Hm'. rewrite Hm in Hm'. eapply Htyped; [eapply nth_error_In; exact H0|exact Hm']. }
  destruct (resolve_matches_sizes defs _ Hdefs _ _ _ Hty Hrs Hb) as [m [Hmin Hsz]].
  rewrite Hm in Hmin. pose proof (Hsz s (Hall m Hmin)) as Es.
  rewrite (Hinit d0 (nth_error_In _ _ H0)).
  rewrite (fold_max_const (fun m => match match_static_size defs m with Some s => s | None => 0 end) s)
    by (intros m' Hm'; now rewrite (Hall m' Hm')).
  pose proof (size_of_nonneg (i_enc d)) as Hnn.
  destruct (i_matches d0); [congruence|]. unfold size_of at 2. cbn [bsz mk]. lia.
Qed.

Lemma nth_nth_error {A} (l : list A) i d : nth i l d = match nth_error l i with Some x => x | None => d end.
Proof. revert i; induction l as [|a l IH]; intros [|i]; cbn; auto. Qed.

Lemma in_decomp {A} (x : A) l : In x l -> exists l1 l2, l = l1 ++ x :: l2.
Proof. apply in_split. Qed.

(* data elements *)
Lemma data_at ns1 w el ns2 : ns = ns1 ++ NData w el :: ns2 -> data_cert names st w el (cursor ns1 st 0).
Proof.
  intro E. destruct (cert_at _ _ _ E) as [p' H]. cbn [resolve_node] in H. eapply data_go_cert; eauto.
Qed.

Lemma data_elem_size w el : In (NData w el) ns -> forall pos, data_cert names st w el pos ->
  forall d e, In (d, e) el -> size_of (nth d (s_data st) dflt) = size_of (nth d (s_data st0) dflt).
Proof.
  intros Hin. pose proof (static_at _ Hin) as Hs. cbn beta iota in Hs.
  assert (Hsl : forall d e, In (d, e) el -> nth_error (s_data st0) d = Some (match w with
                                     | Some w => mk 0 (Some w)
                                     | None => mk 0 (Some (Z.to_N (match static_size [] e with Some s => s | None => 0 end))) end))
    by (intros; eapply Hslots; eauto).
  assert (Hst : w = None -> forall d e, In (d, e) el -> exists s, static_size [] e = Some s).
  { intros -> d e He. rewrite forallb_forall in Hs. specialize (Hs _ He). cbn in Hs.
    destruct (static_size [] e); [eauto|discriminate]. }
  clear Hs Hin. induction el as [|[d0 e0] r IH]; intros pos Hc d e He; [destruct He|].
  cbn [data_cert] in Hc. destruct Hc as [[v [c [b [Ev [Ex [Hb Hn]]]]]] Hr].
  destruct He as [He|He].
  - injection He as -> ->. rewrite Hn. rewrite (nth_nth_error (s_data st0)), (Hsl d e (or_introl eq_refl)).
    destruct w as [w|]; cbn beta iota.
    + rewrite size_of_slice_to by lia. unfold size_of. cbn [bsz mk]. reflexivity.
    + destruct (Hb eq_refl) as [n Eb]. destruct (Hst eq_refl d e (or_introl eq_refl)) as [s Es]. rewrite Es.
      assert (Hsz : Z.of_N n = s).
      { pose proof (static_size_sound_e e [] [] s _ _ _ _ (fun _ H => H) (no_assign_nil e)
                      (fun n z (H : slk [] n = Some z) => ltac:(discriminate H)) Es Ev) as Hsa.
        apply (Hsa b n); [|exact Eb]. unfold expect_error_or_bigint in Ex.
        destruct v; cbn in Ex |- *; try discriminate; congruence. }
      unfold size_or_min. rewrite Eb. rewrite size_of_slice_to by lia. unfold size_of. cbn [bsz mk]. lia.
  - exact (IH (fun d e H => Hsl d e (or_intror H)) (fun Hw d e H => Hst Hw d e (or_intror H)) _ Hr d e He).
Qed.

(* reservations, alignments, addresses: literal values *)
Lemma res_at ns1 k e ns2 : ns = ns1 ++ NRes k e :: ns2 ->
  exists b c, eval code_ops dummy_var e [] = EOk (VInt b, c) /\ nth k (s_res st) 0 = bv b * 8.
Proof.
  intro E. assert (Hin : In (NRes k e) ns) by (rewrite E; apply in_or_app; right; now left).
  destruct (literal_only_inv _ (static_at _ Hin)) as [b [c Hlit]]. exists b, c. split; [exact Hlit|].
  destruct (cert_at _ _ _ E) as [p' H]. cbn [resolve_node] in H.
  rewrite (eval_closed _ _ _ _ _ [] Hlit) in H. cbn [expect_error_or_bigint coallesce] in H.
  destruct ((bv b <? 0) || (bv b >? u32_max)); [discriminate|].
  destruct (bv b * 8 =? nth k (s_res st) 0) eqn:Q; [|discriminate]. apply Z.eqb_eq in Q. now symmetry.
Qed.

Lemma align_at ns1 k e ns2 : ns = ns1 ++ NAlign k e :: ns2 ->
  exists b c, eval code_ops dummy_var e [] = EOk (VInt b, c) /\ nth k (s_align st) 0 = bv b.
Proof.
  intro E. assert (Hin : In (NAlign k e) ns) by (rewrite E; apply in_or_app; right; now left).
  destruct (literal_only_inv _ (static_at _ Hin)) as [b [c Hlit]]. exists b, c. split; [exact Hlit|].
  destruct (cert_at _ _ _ E) as [p' H]. cbn [resolve_node] in H.
  rewrite (eval_closed _ _ _ _ _ [] Hlit) in H.
  destruct ((bv b <? 0) || (bv b >? usize_max)); [discriminate|].
  destruct (bv b =? nth k (s_align st) 0) eqn:Q; cbn [negb] in H; [|discriminate]. apply Z.eqb_eq in Q. now symmetry.
Qed.

Lemma addr_at ns1 k e ns2 : ns = ns1 ++ NAddr k e :: ns2 ->
  exists b c, eval code_ops dummy_var e [] = EOk (VInt b, c) /\ nth k (s_addr st) 0 = bv b /\ 0 <= bv b <= usize_max.
Proof.
  intro E. assert (Hin : In (NAddr k e) ns) by (rewrite E; apply in_or_app; right; now left).
  destruct (literal_only_inv _ (static_at _ Hin)) as [b [c Hlit]]. exists b, c. split; [exact Hlit|].
  destruct (cert_at _ _ _ E) as [p' H]. cbn [resolve_node] in H.
  rewrite (eval_closed _ _ _ _ _ [] Hlit) in H. cbn [expect_error_or_bigint coallesce] in H. cbv zeta in H.
  destruct (bv b =? nth k (s_addr st) 0) eqn:Q; cbn [negb] in H; [|discriminate]. apply Z.eqb_eq in Q.
  cbn [andb] in H. destruct (bv b <? 0) eqn:Q1; [discriminate|]. destruct (bv b * 8 >? usize_max) eqn:Q2; [discriminate|].
  apply Z.ltb_ge in Q1. rewrite Z.gtb_ltb in Q2. apply Z.ltb_ge in Q2. split; [now symmetry|]. unfold usize_max in *. lia.
Qed.

(* labels and constants *)
Lemma label_at ns1 s ns2 : ns = ns1 ++ NLabel s :: ns2 ->
  cursor ns1 st 0 mod 8 = 0 /\ nth s (s_sym st) VUnknown = VInt (un (cursor ns1 st 0 / 8)).
Proof.
  intro E. pose proof HL as HL'. pose proof HC as HC'. rewrite E in HL', HC'.
  exact (certified_label names defs ns1 s ns2 st HL' HC').
Qed.

Lemma const_at ns1 s e ns2 : ns = ns1 ++ NConst s e :: ns2 ->
  exists v c, eval code_ops (pvar names st (cursor ns1 st 0) false) e [] = EOk (v, c) /\ nth s (s_sym st) VUnknown = v.
Proof.
  intro E. destruct (cert_at _ _ _ E) as [p' H]. cbn [resolve_node] in H. cbn [negb] in H.
  destruct (eval code_ops _ e []) as [[v c]|]; [|discriminate].
  destruct (true && match v with VFailed => true | _ => false end); [discriminate|].
  destruct (value_identical v (nth s (s_sym st) VUnknown)) eqn:Q; [|discriminate].
  apply value_identical_eq in Q. eauto.
Qed.

(* a certified state holds no failed constraint in a constant (the final pass rejects it) *)
Lemma const_not_failed ns1 s e ns2 : ns = ns1 ++ NConst s e :: ns2 -> nth s (s_sym st) VUnknown <> VFailed.
Proof.
  intro E. destruct (cert_at _ _ _ E) as [p' H]. cbn [resolve_node] in H. cbn [negb] in H.
  destruct (eval code_ops _ e []) as [[v c]|]; [|discriminate].
  destruct v; cbn [andb] in H; try discriminate;
    (destruct (value_identical _ (nth s (s_sym st) VUnknown)) eqn:Q; [|discriminate];
     apply value_identical_eq in Q; rewrite <- Q; discriminate).
Qed.

(* ---------- size agreement and the cursor ---------- *)
Definition isz (l : list instr_def) (i : nat) : Z := match nth_error l i with Some d => size_of (i_enc d) | None => 0 end.
Definition sz_agree (cur : state) : Prop :=
  (forall i, In i (instr_ids ns) -> isz (s_instr cur) i = isz (s_instr st) i) /\
  (forall d, In d (data_ids ns) -> size_of (nth d (s_data cur) dflt) = size_of (nth d (s_data st) dflt)).

Lemma sz_agree_st0 : sz_agree st0.
Proof.
  split.
  - intros i Hi. apply in_flat_map in Hi. destruct Hi as [n [Hn Hi]]. destruct n; try contradiction.
    destruct Hi as [<-|[]]. destruct (in_split _ _ Hn) as [l1 [l2 E]].
    destruct (instr_size _ _ _ _ E) as [d0 [d [H0 [H1 [_ [Hs _]]]]]]. unfold isz. rewrite H0, H1. now symmetry.
  - intros d Hi. apply in_flat_map in Hi. destruct Hi as [n [Hn Hi]]. destruct n; try contradiction.
    apply in_map_iff in Hi. destruct Hi as [[d' e] [<- He]]. destruct (in_split _ _ Hn) as [l1 [l2 E]].
    symmetry. eapply data_elem_size; [exact Hn|eapply data_at; exact E|exact He].
Qed.

Lemma sz_agree_either cur :
  (forall i, nth_error (s_instr cur) i = nth_error (s_instr st) i \/ nth_error (s_instr cur) i = nth_error (s_instr st0) i) ->
  (forall i, nth_error (s_data cur) i = nth_error (s_data st) i \/ nth_error (s_data cur) i = nth_error (s_data st0) i) ->
  sz_agree cur.
Proof.
  intros Hi Hdt. destruct sz_agree_st0 as [A0 B0]. split.
  - intros i Hin. unfold isz. destruct (Hi i) as [E|E]; rewrite E; [reflexivity|]. apply A0, Hin.
  - intros d Hin. rewrite !(nth_nth_error _ d dflt). destruct (Hdt d) as [E|E]; rewrite E; [reflexivity|].
    rewrite <- !(nth_nth_error _ d dflt). apply B0, Hin.
Qed.

Lemma advance_agree cur n pos : In n ns -> sz_agree cur ->
  (forall k e, n = NRes k e -> nth k (s_res cur) 0 = nth k (s_res st) 0) ->
  (forall k e, n = NAlign k e -> nth k (s_align cur) 0 = nth k (s_align st) 0) ->
  (forall k e, n = NAddr k e -> nth k (s_addr cur) 0 = nth k (s_addr st) 0) ->
  advance cur n pos = advance st n pos.
Proof.
  intros Hin [A B] Er Ea Ed. destruct n as [s|s e|i src|w el|k e|k e|k e]; cbn [advance]; try reflexivity.
  - f_equal. apply (A i). eapply in_ids_instr; eauto.
  - assert (Hel : forall d e, In (d, e) el -> In d (data_ids ns)) by (intros; eapply in_ids_data; eauto).
    clear Hin Er Ea Ed. revert pos. induction el as [|[d e] r IH]; intro pos; [reflexivity|]. cbn [fold_left fst].
    change (mk 0 (Some 0%N)) with dflt. rewrite (B d) by (eapply Hel; now left). apply IH. intros; eapply Hel; right; eauto.
  - now rewrite (Er k e).
  - now rewrite (Ea k e).
  - now rewrite (Ed k e).
Qed.

Lemma cursor_agree cur : sz_agree cur -> s_res cur = s_res st -> s_align cur = s_align st -> s_addr cur = s_addr st ->
  forall l1 pos, (forall n, In n l1 -> In n ns) -> cursor l1 cur pos = cursor l1 st pos.
Proof.
  intros Hs Er Ea Ed. unfold cursor. induction l1 as [|n l1 IH]; intros pos Hsub; [reflexivity|]. cbn [fold_left].
  rewrite (advance_agree cur n pos); try assumption; try (intros; congruence); [|apply Hsub; now left].
  apply IH. intros m Hm. apply Hsub. now right.
Qed.

Lemma cursor_snoc l n s pos : cursor (l ++ [n]) s pos = advance s n (cursor l s pos).
Proof. unfold cursor. now rewrite fold_left_app. Qed.
End Cert.

(* ---------- symbol lookups under related states ---------- *)
Lemma pvar_same names a b pos g l p :
  (forall n s', l = 0%N -> p = [n] -> (text_eqb n s_dollar || text_eqb n s_pc) = false -> find_sym names n 0 = Some s' ->
     nth_error (s_sym a) s' = nth_error (s_sym b) s') ->
  pvar names a pos g l p = pvar names b pos g l p.
Proof.
  intro H. unfold pvar. destruct l; [|reflexivity]. destruct p as [|first rest]; [reflexivity|].
  destruct (text_eqb first s_dollar || text_eqb first s_pc) eqn:D; [reflexivity|].
  destruct rest; [|reflexivity]. destruct (find_sym names first 0) as [i|] eqn:F; [|reflexivity].
  now rewrite (H first i eq_refl eq_refl D F).
Qed.

Lemma pvar_weak names a b pos l p :
  (forall i, nth_error (s_sym a) i = nth_error (s_sym b) i \/ nth_error (s_sym a) i = Some VUnknown) ->
  pvar names a pos true l p = pvar names b pos true l p \/ pvar names a pos true l p = EOk VUnknown.
Proof.
  intro H. unfold pvar. destruct l; [|now left]. destruct p as [|first rest]; [now left|].
  destruct (text_eqb first s_dollar || text_eqb first s_pc); [now left|].
  destruct rest; [|now left]. destruct (find_sym names first 0) as [i|]; [|now left].
  destruct (H i) as [E|E]; rewrite E; [now left|now right].
Qed.

(* the constants can be ranked so that each constant's expression reads only constants of lower rank
   (labels and undeclared names are unconstrained); ranks are bounded by the number of nodes *)
Definition reads_sym (names : list text) (e : expr) (s' : nat) : Prop :=
  exists n, In (0%N, [n]) (evars e) /\ (text_eqb n s_dollar || text_eqb n s_pc) = false /\ find_sym names n 0 = Some s'.
Definition consts_acyclic (names : list text) (ns : list node) : Prop :=
  exists rank : nat -> nat, forall s e, In (NConst s e) ns ->
    (rank s <= length ns)%nat /\ forall s', reads_sym names e s' -> In s' (const_ids ns) -> (rank s' < rank s)%nat.
