(* C05 round trip: the code's recursion counter on a printed tree is at most twice the height of the tree
   (`pd_height`), so the depth hypothesis of the round trip holds for every tree of height <= 24. *)
From Coq Require Import NArith List Bool Arith Lia ZifyBool.
From CA Require Import Model.Lexer Model.Parser Spec.Printer Proofs.RoundTripSpec Proofs.RoundTripMain.
Import ListNotations.

Section Depth.
Variable full : bool.
Notation pd := (pd full).
Notation bd := (bd full).

Lemma guard_pd t : guard_paren full t = true -> pd 0 t = bd t.
Proof.
  unfold guard_paren. intro H. apply andb_prop in H. destruct H as [Hf _]. rewrite pd_eq. unfold needs_paren.
  destruct full; [discriminate|]. cbn [andb orb]. rewrite orb_false_r.
  replace (Nat.ltb (prec t) 0) with false by (symmetry; apply Nat.ltb_ge; lia). reflexivity.
Qed.

Lemma guard_nonleaf t : guard_paren full t = true -> is_leaf t = false.
Proof.
  unfold guard_paren. intro H. apply andb_prop in H. destruct H as [_ H]. destruct t; cbn [ends_open is_leaf] in *; congruence.
Qed.

Lemma list_bound (g h : expr -> nat) (es : list expr) m :
  (forall x, In x es -> (g x <= 2 * h x + 1)%nat) -> (list_max (map h es) <= m)%nat ->
  (list_max (map g es) <= 2 * m + 1)%nat.
Proof.
  intros H Hm. apply list_max_le. rewrite Forall_forall. intros k Hk. apply in_map_iff in Hk. destruct Hk as (x & <- & Hx).
  specialize (H x Hx). assert (h x <= m)%nat; [|lia].
  apply list_max_le in Hm. rewrite Forall_forall in Hm. apply Hm. apply in_map. exact Hx.
Qed.

(* the body of a non-leaf needs at most 2*height - 1, a pair of parentheses one more *)
Lemma bd_height : forall n e, (size e <= n)%nat ->
  (bd e + 1 <= 2 * height e \/ (bd e = 0%nat /\ is_leaf e = true))%nat /\ (forall p, (p <= 16)%nat -> (pd p e <= 2 * height e)%nat).
Proof.
  induction n as [|n IH]; intros e Hs; [pose proof (size_pos e); lia|].
  assert (Hb : (bd e + 1 <= 2 * height e \/ (bd e = 0%nat /\ is_leaf e = true))%nat).
  { destruct e as [v sz|bb|raw|lv path|uo a|o a b0|c t f0|l r0 a|s a|es|f0 args]; cbn [size bd height is_leaf] in *;
      try (right; split; reflexivity).
    - left. pose proof (proj2 (IH a ltac:(lia)) 14%nat ltac:(lia)). lia.
    - left. destruct (assign_dec o) as [-> | Ho].
      + pose proof (proj2 (IH a ltac:(lia)) 2%nat ltac:(lia)). pose proof (proj2 (IH b0 ltac:(lia)) 0%nat ltac:(lia)). lia.
      + pose proof (RoundTripP.binop_range o Ho).
        pose proof (proj2 (IH a ltac:(lia)) (binop_prec o) ltac:(lia)). pose proof (proj2 (IH b0 ltac:(lia)) (S (binop_prec o)) ltac:(lia)).
        destruct o; try congruence; lia.
    - left. pose proof (proj2 (IH c ltac:(lia)) 2%nat ltac:(lia)). pose proof (proj2 (IH t ltac:(lia)) 0%nat ltac:(lia)).
      pose proof (proj2 (IH f0 ltac:(lia)) 0%nat ltac:(lia)). pose proof (proj1 (IH t ltac:(lia))) as Ht.
      unfold gdep. destruct (guard_paren full t) eqn:Eg.
      + pose proof (guard_nonleaf t Eg). rewrite (guard_pd t Eg) in *.
        destruct (is_empty_block f0); destruct Ht as [Ht | [_ Ht]]; (lia || congruence).
      + destruct (is_empty_block f0); lia.
    - left. pose proof (proj2 (IH a ltac:(lia)) 13%nat ltac:(lia)). pose proof (proj2 (IH l ltac:(lia)) 0%nat ltac:(lia)).
      pose proof (proj2 (IH r0 ltac:(lia)) 0%nat ltac:(lia)). pose proof (proj1 (IH l ltac:(lia))) as Hl.
      unfold gdep. destruct (guard_paren full l) eqn:Eg.
      + pose proof (guard_nonleaf l Eg). rewrite (guard_pd l Eg) in *. destruct Hl as [Hl | [_ Hl]]; (lia || congruence).
      + lia.
    - left. pose proof (proj2 (IH a ltac:(lia)) 14%nat ltac:(lia)). pose proof (proj2 (IH s ltac:(lia)) 16%nat ltac:(lia)). lia.
    - destruct es as [|x es]; [right; split; reflexivity|left].
      pose proof (list_bound (fun x => S (pd 0 x)) height (x :: es) (list_max (map height (x :: es)))
        ltac:(intros z Hz; cbn beta; pose proof (in_size_le z (x :: es) Hz); pose proof (proj2 (IH z ltac:(lia)) 0%nat ltac:(lia)); lia) (le_n _)).
      lia.
    - left. pose proof (proj2 (IH f0 ltac:(lia)) 16%nat ltac:(lia)).
      pose proof (list_bound (fun x => S (pd 0 x)) height args (list_max (map height args))
        ltac:(intros z Hz; cbn beta; pose proof (in_size_le z args Hz); pose proof (proj2 (IH z ltac:(lia)) 0%nat ltac:(lia)); lia) (le_n _)).
      lia. }
  split; [exact Hb|]. intros p Hp. rewrite pd_eq. destruct (needs_paren full p e) eqn:En.
  - destruct Hb as [Hb | [Hb Hl]]; [lia|]. exfalso. unfold needs_paren in En. rewrite Hl in En. cbn [negb] in En.
    rewrite andb_false_r, orb_false_r in En. apply Nat.ltb_lt in En.
    destruct e; cbn [is_leaf prec] in *; try discriminate; lia.
  - destruct Hb as [Hb | [Hb Hl]]; lia.
Qed.

Lemma pd_height e p : (p <= 16)%nat -> (pd p e <= 2 * height e)%nat.
Proof. intro Hp. exact (proj2 (bd_height (size e) e (le_n _)) p Hp). Qed.
End Depth.

Theorem parse_full_height : forall e, wf_print e -> (2 * height e < PARSE_DEPTH_MAX)%nat ->
  exists w, parse_text (print_full e) = POk e w /\ cur w = bytes_len (print_full e).
Proof.
  intros e Hw Hh. apply parse_full; [exact Hw|]. unfold depth_full. pose proof (pd_height true e 0 ltac:(lia)). lia.
Qed.
Theorem parse_min_height : forall e, wf_print e -> (2 * height e < PARSE_DEPTH_MAX)%nat ->
  exists w, parse_text (print_min e) = POk e w /\ cur w = bytes_len (print_min e).
Proof.
  intros e Hw Hh. apply parse_min; [exact Hw|]. unfold depth_min. pose proof (pd_height false e 0 ltac:(lia)). lia.
Qed.
