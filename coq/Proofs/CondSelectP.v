(* C16: the loop of Model/Cond.v computes the direct interpreter of Spec/Select.v under its own final valuation *)
From Coq Require Import ZArith NArith List Bool Lia.
From CA Require Import Model.Driver Model.Cond Spec.Select Proofs.DriverP Proofs.CondEvalP Proofs.CondLoopP.
Import ListNotations.
Open Scope list_scope.
Open Scope nat_scope.

(* the selected world / decidedness of a top-level list *)
Definition sel (g : nat -> path -> cval) (its : list item) : list node := flat_map (fun it => select g (forget it)) its.
Definition dec (g : nat -> path -> cval) (its : list item) : bool := forallb (fun it => decided g (forget it)) its.

Lemma forget_inject n : forget (inject n) = n.
Proof. now destruct n. Qed.

Lemma sel_inject g l : sel g (map inject l) = flat_map (select g) l.
Proof. unfold sel. induction l as [|x l IH]; cbn; [reflexivity|]. now rewrite forget_inject, IH. Qed.

Lemma dec_inject g l : dec g (map inject l) = forallb (decided g) l.
Proof. unfold dec. induction l as [|x l IH]; cbn; [reflexivity|]. now rewrite forget_inject, IH. Qed.

Lemma sel_app g a b : sel g (a ++ b) = sel g a ++ sel g b.
Proof. unfold sel. apply flat_map_app. Qed.

Lemma dec_app g a b : dec g (a ++ b) = dec g a && dec g b.
Proof. unfold dec. apply forallb_app. Qed.

Lemma sel_forget g a b : map forget a = map forget b -> sel g a = sel g b /\ dec g a = dec g b.
Proof.
  revert b. induction a as [|x a IH]; destruct b as [|y b]; cbn; intro H; try discriminate; [split; reflexivity|].
  injection H as H1 H2. destruct (IH _ H2) as [A B]. unfold sel, dec in *. cbn. now rewrite H1, A, B.
Qed.

(* ------------------------------------------------------------------ resolve_ifs *)
Lemma arm_items_decl b ta fa it : In it (arm_items b ta fa) -> decl_of it = None.
Proof.
  unfold arm_items. intro H.
  assert (K : forall l, In it (map inject l) -> decl_of it = None).
  { intros l Hl. apply in_map_iff in Hl. destruct Hl as (n & <- & _). now destruct n. }
  destruct b; [eauto|]. destruct fa; [eauto | contradiction].
Qed.

Lemma resolve_ifs_spec : forall t its its' n, resolve_ifs t its = ROk (its', n) ->
  (forall it p, In it its' -> decl_of it = Some p -> In it its) /\
  (forall it p, In it its -> decl_of it = Some p -> In it its') /\
  (n = 0 -> its' = its) /\
  (forall g, le_lk (lookup t) g -> sel g its' = sel g its /\ dec g its' = dec g its).
Proof.
  intros t. induction its as [|it its IH]; intros its' n H; cbn [resolve_ifs] in H.
  - injection H as <- <-. repeat split; auto.
  - destruct (resolve_ifs t its) as [[r' m]| | |] eqn:R; try discriminate.
    destruct (IH _ _ eq_refl) as (A & B & C & D).
    assert (Keep : ROk (it :: r', m) = ROk (its', n) ->
      (forall x p, In x its' -> decl_of x = Some p -> In x (it :: its)) /\
      (forall x p, In x (it :: its) -> decl_of x = Some p -> In x its') /\
      (n = 0 -> its' = it :: its) /\
      (forall g, le_lk (lookup t) g -> sel g its' = sel g (it :: its) /\ dec g its' = dec g (it :: its))).
    { intro K. injection K as <- <-. repeat split.
      - intros x p [<-|Hx] Dx; [now left | right; eauto].
      - intros x p [<-|Hx] Dx; [now left | right; eauto].
      - intro Z. now rewrite C.
      - destruct (D g H0) as [S _]. unfold sel in *. cbn. now rewrite S.
      - destruct (D g H0) as [_ S]. unfold dec in *. cbn. now rewrite S. }
    destruct it as [lvl nm s d | c ta fa | i]; try (apply Keep; exact H).
    destruct (eval (lookup t) c) as [[|b|z]| | |] eqn:EV; try discriminate; try (apply Keep; exact H).
    injection H as <- <-. repeat split.
    + intros x p Hx Dx. apply in_app_or in Hx. destruct Hx as [Hx|Hx].
      * rewrite (arm_items_decl _ _ _ _ Hx) in Dx. discriminate.
      * right. eauto.
    + intros x p [<-|Hx] Dx; [discriminate|]. apply in_or_app. right. eauto.
    + discriminate.
    + destruct (D g H) as [S _]. rewrite sel_app, S. unfold sel at 3. cbn [flat_map forget select].
      rewrite (eval_mono _ _ _ _ H EV) by discriminate.
      fold (sel g its). f_equal. unfold arm_items. destruct b; [apply sel_inject|]. destruct fa; [apply sel_inject | reflexivity].
    + destruct (D g H) as [_ S]. rewrite dec_app, S. unfold dec at 3. cbn [forallb forget decided].
      rewrite (eval_mono _ _ _ _ H EV) by discriminate.
      fold (dec g its). f_equal. unfold arm_items. destruct b; [apply dec_inject|]. destruct fa; [apply dec_inject | reflexivity].
Qed.

(* ------------------------------------------------------------------ one round *)
Lemma round_good : forall optst ds t its prev its2 t2 cnt b,
  round optst ds t its prev = ROk (its2, t2, cnt, b) -> Good ds t its ->
  Good ds t2 its2 /\ le_lk (lookup t) (lookup t2) /\
  (forall g, le_lk (lookup t2) g -> sel g its2 = sel g its /\ dec g its2 = dec g its) /\
  (b = false -> exists its1 t1, collect [] t its = ROk (its1, t1) /\ resolve_consts optst ds t1 its1 = ROk (t2, cnt) /\
                                Good ds t1 its1 /\ its2 = its1).
Proof.
  intros optst ds t its prev its2 t2 cnt b H G. unfold round in H.
  destruct (collect [] t its) as [[its1 t1]| | |] eqn:C; try discriminate.
  destruct (resolve_consts optst ds t1 its1) as [[t2' cnt']| | |] eqn:RC; try discriminate.
  destruct (resolve_ifs t2' its1) as [[its2' nifs]| | |] eqn:RI; try discriminate.
  injection H as <- <- <- <-.
  destruct (collect_good ds its [] [] t its1 t1 C G) as [G1 L1]. cbn [app] in G1.
  destruct (resolve_consts_good optst ds its1 its1 t1 t2' cnt' (fun _ h => h) G1 RC) as [G2 L2].
  destruct (resolve_ifs_spec _ _ _ _ RI) as (A & B & Z & D).
  repeat split.
  - intros it p Hin Hd. eapply (g_declared _ _ _ G2); eauto.
  - intros it1 it2 p H1 H2 D1 D2. eapply (g_unique _ _ _ G2); eauto.
  - intros lvl nm e p en Hin Hf. eapply (g_just _ _ _ G2); [|exact Hf]. eapply A; [exact Hin | reflexivity].
  - intros en Hin. destruct (g_owner _ _ _ G2 _ Hin) as (l0 & n0 & s0 & I & K). exists l0, n0, s0. split; [|exact K].
    eapply B; [exact I | reflexivity].
  - eapply le_lk_trans; eauto.
  - destruct (D g H) as [S _]. rewrite S. apply sel_forget. eapply collect_forget; eauto.
  - destruct (D g H) as [_ S]. rewrite S. apply sel_forget. eapply collect_forget; eauto.
  - intro E. apply negb_false_iff, andb_true_iff in E. destruct E as [_ E]. apply Nat.eqb_eq in E.
    exists its1, t1. split; [reflexivity|]. split; [exact RC|]. split; [exact G1 | now apply Z].
Qed.

(* ------------------------------------------------------------------ the loop *)
Lemma loop_good : forall optst ds fuel t its prev itsF tF,
  loop fuel optst ds t its prev = ROk (itsF, tF) -> Good ds t its ->
  Good ds tF itsF /\ le_lk (lookup t) (lookup tF) /\
  sel (lookup tF) itsF = sel (lookup tF) its /\ dec (lookup tF) itsF = dec (lookup tF) its /\
  (* the last round: everything is declared, every constant has been visited, nothing was spliced *)
  (exists t0 its0 t1 cnt, collect [] t0 its0 = ROk (itsF, t1) /\ resolve_consts optst ds t1 itsF = ROk (tF, cnt) /\ Good ds t1 itsF).
Proof.
  intros optst ds. induction fuel as [|k IH]; intros t its prev itsF tF H G; cbn [loop] in H; [discriminate|].
  destruct (round optst ds t its prev) as [[[[its2 t2] cnt] b]| | |] eqn:R; try discriminate.
  destruct (round_good _ _ _ _ _ _ _ _ _ R G) as (G2 & L2 & S2 & Last).
  destruct b.
  - destruct (IH _ _ _ _ _ H G2) as (GF & LF & SF & DF & LastF).
    split; [exact GF|]. split; [eapply le_lk_trans; eauto|].
    split; [rewrite SF; apply (S2 _ LF)|]. split; [rewrite DF; apply (S2 _ LF) | exact LastF].
  - injection H as <- <-. destruct (Last eq_refl) as (its1 & t1 & C & RC & G1 & ->).
    split; [exact G2|]. split; [exact L2|].
    split; [apply (S2 _ (le_lk_refl _))|]. split; [apply (S2 _ (le_lk_refl _))|].
    exists t, its, t1, cnt. auto.
Qed.

(* ------------------------------------------------------------------ the whole first phase *)
Lemma good_init ds tree : Good ds [] (map inject tree).
Proof.
  assert (N : forall it, In it (map inject tree) -> decl_of it = None).
  { intros it H. apply in_map_iff in H. destruct H as (n & <- & _). now destruct n. }
  constructor.
  - intros it p H D. rewrite (N _ H) in D. discriminate.
  - intros it1 it2 p H1 _ D1 _. rewrite (N _ H1) in D1. discriminate.
  - intros lvl nm e p en H _. apply N in H. discriminate.
  - intros en [].
Qed.

Lemma no_if_sel : forall g its, existsb is_if its = false -> sel g its = map forget its /\ dec g its = true.
Proof.
  intros g. induction its as [|it its IH]; cbn; intro H; [split; reflexivity|].
  apply orb_false_iff in H. destruct H as [H1 H2]. destruct (IH H2) as [A B].
  unfold sel, dec in *. cbn. rewrite A, B. destruct it; cbn in *; try discriminate; split; reflexivity.
Qed.

Lemma check_unused_spec : forall ds t, check_unused ds t = true ->
  forall n v, In (n, v) ds -> exists en, find_entry (split_on 46%N n) t = Some en /\ e_kind en = KConst.
Proof.
  induction ds as [|[n0 v0] ds IH]; cbn; intros t H n v I; [contradiction|].
  destruct (find_entry (split_on 46%N n0) t) as [en|] eqn:F; [|discriminate].
  destruct (e_kind en) eqn:K; [discriminate|].
  destruct I as [I|I]; [injection I as <- <-; eauto | eauto].
Qed.

Record Outcome (optst : bool) (ds : defines) (tree : list node) (its : list item) (t : table) : Prop := {
  o_good : Good ds t its;
  o_list : map forget its = select_all (lookup t) tree;
  o_decided : decided_all (lookup t) tree = true;
  o_noif : existsb is_if its = false;
  o_unused : check_unused ds t = true;
  o_last : exists t0 its0 t1 cnt, collect [] t0 its0 = ROk (its, t1) /\ resolve_consts optst ds t1 its = ROk (t, cnt) /\ Good ds t1 its }.

Lemma run_outcome : forall fuel optst ds tree its t,
  run_fuel fuel optst ds tree = ROk (its, t) -> Outcome optst ds tree its t.
Proof.
  intros fuel optst ds tree its t H. unfold run_fuel in H.
  destruct (loop fuel optst ds [] (map inject tree) 0) as [[itsF tF]| | |] eqn:L; try discriminate.
  destruct (existsb is_if itsF) eqn:NI; [discriminate|].
  destruct (check_unused ds tF) eqn:CU; [|discriminate].
  injection H as <- <-.
  destruct (loop_good _ _ _ _ _ _ _ _ L (good_init ds tree)) as (G & _ & S & D & Last).
  destruct (no_if_sel (lookup tF) itsF NI) as [A B].
  constructor; auto.
  - rewrite <- A, S. apply sel_inject.
  - unfold decided_all. rewrite <- dec_inject, <- D. exact B.
Qed.

(* ------------------------------------------------------------------ command-line defines *)
Lemma resolve_consts_keeps : forall optst ds its t t' n p en,
  resolve_consts optst ds t its = ROk (t', n) -> find_entry p t = Some en -> e_resolved en = true ->
  find_entry p t' = Some en.
Proof.
  intros optst ds. induction its as [|it its IH]; intros t t' n p en R F ER; cbn [resolve_consts] in R.
  - now injection R as <- <-.
  - destruct it as [lvl nm [|e] d | c ta fa | i]; try (eapply IH; eauto; fail).
    destruct d as [q|]; [|discriminate].
    destruct (find_entry q t) as [enq|] eqn:FQ; [|discriminate].
    destruct (e_resolved enq) eqn:EQ.
    { destruct (resolve_consts optst ds t its) as [[t1 n1]| | |] eqn:R1; try discriminate. injection R as <- <-. eauto. }
    assert (N : p <> q) by (intro X; subst; rewrite FQ in F; injection F as <-; congruence).
    assert (K : forall v r, find_entry p (set_entry q v r t) = Some en) by (intros; rewrite find_set_other; auto).
    destruct (find_define (join_dot q) ds) as [dv|].
    { destruct (resolve_consts optst ds (set_entry q dv true t) its) as [[t1 n1]| | |] eqn:R1; try discriminate.
      injection R as <- <-. eauto. }
    destruct (eval (lookup t) e) as [[|b|z]| | |]; try discriminate.
    + eauto.
    + destruct (resolve_consts optst ds (set_entry q (VBool b) (optst && static_known e) t) its) as [[t1 n1]| | |] eqn:R1; try discriminate.
      injection R as <- <-. eauto.
    + destruct (resolve_consts optst ds (set_entry q (VInt z) (optst && static_known e) t) its) as [[t1 n1]| | |] eqn:R1; try discriminate.
      injection R as <- <-. eauto.
Qed.

Lemma resolve_consts_defined : forall optst ds all its t t' n,
  (forall it, In it its -> In it all) -> Good ds t all ->
  resolve_consts optst ds t its = ROk (t', n) ->
  forall lvl nm e p v, In (ISym lvl nm (SConst e) (Some p)) its -> find_define (join_dot p) ds = Some v ->
  exists en, find_entry p t' = Some en /\ e_value en = v /\ e_resolved en = true.
Proof.
  intros optst ds all. induction its as [|it its IH]; intros t t' n Sub G R lvl nm e p v I FD; [contradiction|].
  assert (Sub' : forall x, In x its -> In x all) by (intros x Hx; apply Sub; now right).
  destruct it as [l0 n0 [|e0] d | c ta fa | i]; cbn [resolve_consts] in R;
    try (destruct I as [I|I]; [discriminate | eapply IH; eauto]; fail).
  destruct d as [q|]; [|discriminate].
  destruct (find_entry q t) as [enq|] eqn:FQ; [|discriminate].
  assert (Hin : In (ISym l0 n0 (SConst e0) (Some q)) all) by (apply Sub; now left).
  pose proof (g_just _ _ _ G _ _ _ _ _ Hin FQ) as J.
  destruct (e_resolved enq) eqn:EQ.
  { destruct (resolve_consts optst ds t its) as [[t1 n1]| | |] eqn:R1; try discriminate. injection R as <- <-.
    destruct I as [I|I]; [|eapply IH; eauto].
    injection I as -> -> -> ->. rewrite FD in J. exists enq. split; [eapply resolve_consts_keeps; eauto|]. split; [now apply J | exact EQ]. }
  destruct (find_define (join_dot q) ds) as [dv|] eqn:FQD.
  { destruct (resolve_consts optst ds (set_entry q dv true t) its) as [[t1 n1]| | |] eqn:R1; try discriminate.
    injection R as <- <-.
    destruct (set_good ds t all l0 n0 e0 q enq dv true G Hin FQ) as [G1 _].
    - left. now apply J.
    - rewrite FQD. auto.
    - destruct I as [I|I]; [|eapply IH; eauto].
      injection I as -> -> -> ->. rewrite FD in FQD. injection FQD as <-.
      eexists. split; [eapply resolve_consts_keeps; [exact R1 | apply (find_set_same _ _ _ _ _ FQ) | reflexivity]|]. split; reflexivity. }
  assert (NotHead : ISym l0 n0 (SConst e0) (Some q) = ISym lvl nm (SConst e) (Some p) -> False).
  { intro X. injection X as -> -> -> ->. congruence. }
  destruct (eval (lookup t) e0) as [w| | |] eqn:EV; try discriminate.
  assert (OLD : e_value enq = VUnknown \/ e_value enq = w) by (destruct J as [J|J]; [now left | right; congruence]).
  destruct I as [I|I]; [now elim (NotHead I)|].
  destruct w as [|b|z].
  - destruct (set_good ds t all l0 n0 e0 q enq VUnknown false G Hin FQ OLD) as [G1 _]; [rewrite FQD; now left|].
    eapply IH; eauto.
  - destruct (resolve_consts optst ds (set_entry q (VBool b) (optst && static_known e0) t) its) as [[t1 n1]| | |] eqn:R1; try discriminate.
    injection R as <- <-.
    destruct (set_good ds t all l0 n0 e0 q enq (VBool b) (optst && static_known e0) G Hin FQ OLD) as [G1 _]; [rewrite FQD; now right|].
    eapply IH; eauto.
  - destruct (resolve_consts optst ds (set_entry q (VInt z) (optst && static_known e0) t) its) as [[t1 n1]| | |] eqn:R1; try discriminate.
    injection R as <- <-.
    destruct (set_good ds t all l0 n0 e0 q enq (VInt z) (optst && static_known e0) G Hin FQ OLD) as [G1 _]; [rewrite FQD; now right|].
    eapply IH; eauto.
Qed.

(* a define replaces the value of the constant of that name: at the end of the loop, and (g_just) whenever it is known *)
Lemma run_define : forall fuel optst ds tree its t,
  run_fuel fuel optst ds tree = ROk (its, t) ->
  forall lvl nm e p v, In (ISym lvl nm (SConst e) (Some p)) its -> find_define (join_dot p) ds = Some v ->
  exists en, find_entry p t = Some en /\ e_value en = v.
Proof.
  intros fuel optst ds tree its t H lvl nm e p v I FD.
  destruct (o_last _ _ _ _ _ (run_outcome _ _ _ _ _ _ H)) as (t0 & its0 & t1 & cnt & C & RC & G1).
  destruct (resolve_consts_defined optst ds its its t1 t cnt (fun _ h => h) G1 RC _ _ _ _ _ I FD) as (en & A & B & _).
  eauto.
Qed.

(* everything in the final list is declared, and every declaration belongs to a node of the final list *)
Lemma run_declared : forall fuel optst ds tree its t,
  run_fuel fuel optst ds tree = ROk (its, t) ->
  (forall lvl nm s d, In (ISym lvl nm s d) its -> exists p en, d = Some p /\ find_entry p t = Some en) /\
  (forall en, In en t -> exists lvl nm s, In (ISym lvl nm s (Some (e_path en))) its /\ e_kind en = kind_of s).
Proof.
  intros fuel optst ds tree its t H. pose proof (run_outcome _ _ _ _ _ _ H) as O.
  destruct (o_last _ _ _ _ _ O) as (t0 & its0 & t1 & cnt & C & RC & G1). split.
  - intros lvl nm s d I. pose proof (collect_declared _ _ _ _ _ C _ _ _ _ I) as D.
    destruct d as [p|]; [|congruence]. exists p.
    pose proof (g_declared _ _ _ (o_good _ _ _ _ _ O) _ p I eq_refl) as F.
    destruct (find_entry p t) as [en|]; [eauto | congruence].
  - apply (g_owner _ _ _ (o_good _ _ _ _ _ O)).
Qed.

(* hierarchical names: the name the override compares (the declaration's full name) and the name the unused-define
   check looks up (split at '.') are the same name, for identifiers (non-empty, no '.') *)
Lemma split_join_dot : forall p, p <> [] -> (forall x, In x p -> x <> [] /\ ~ In 46%N x) -> split_on 46%N (join_dot p) = p.
Proof.
  induction p as [|x p IH]; intros N H; [congruence|].
  destruct p as [|y p'].
  - cbn. apply split_on_no_sep. apply H. now left.
  - change (join_dot (x :: y :: p')) with (x ++ 46%N :: join_dot (y :: p')).
    rewrite split_on_app by (apply H; now left). f_equal. apply IH; [discriminate|]. intros z Hz. apply H. now right.
Qed.

(* ------------------------------------------------------------------ fuel *)
Lemma loop_fuel_mono : forall optst ds fuel k t its prev r,
  loop fuel optst ds t its prev = r -> r <> RFuel -> loop (fuel + k) optst ds t its prev = r.
Proof.
  intros optst ds. induction fuel as [|f IH]; intros k t its prev r H N; cbn [loop] in H; [congruence|].
  cbn [Nat.add loop]. destruct (round optst ds t its prev) as [[[[its2 t2] cnt] b]| | |]; try exact H.
  destruct b; [now apply IH | exact H].
Qed.

Lemma run_fuel_mono : forall optst ds tree fuel k r,
  run_fuel fuel optst ds tree = r -> r <> RFuel -> run_fuel (fuel + k) optst ds tree = r.
Proof.
  intros optst ds tree fuel k r H N. unfold run_fuel in *.
  destruct (loop fuel optst ds [] (map inject tree) 0) as [[its t]| | |] eqn:L.
  - rewrite (loop_fuel_mono _ _ _ k _ _ _ _ L) by discriminate. exact H.
  - rewrite (loop_fuel_mono _ _ _ k _ _ _ _ L) by discriminate. exact H.
  - rewrite (loop_fuel_mono _ _ _ k _ _ _ _ L) by discriminate. exact H.
  - congruence.
Qed.

(* ------------------------------------------------------------------ the statements of Props/C16.v *)
Lemma run_consistent : forall optst ds tree its t, run optst ds tree = ROk (its, t) ->
  map forget its = select_all (lookup t) tree.
Proof. intros. eapply o_list, run_outcome; eassumption. Qed.

Lemma run_invisible : forall optst ds tree its t, run optst ds tree = ROk (its, t) ->
  (forall n, In n (map forget its) <-> In n (select_all (lookup t) tree)) /\
  (forall lvl nm s d, In (ISym lvl nm s d) its -> exists p en, d = Some p /\ find_entry p t = Some en) /\
  (forall en, In en t -> exists lvl nm s, In (NSym lvl nm s) (select_all (lookup t) tree) /\
                                          In (ISym lvl nm s (Some (e_path en))) its /\ e_kind en = kind_of s).
Proof.
  intros optst ds tree its t H. pose proof (run_consistent _ _ _ _ _ H) as E.
  destruct (run_declared _ _ _ _ _ _ H) as [A B]. split; [|split].
  - intro n. now rewrite E.
  - exact A.
  - intros en I. destruct (B en I) as (l & nm & s & J & K). exists l, nm, s. split; [|auto].
    rewrite <- E. change (NSym l nm s) with (forget (ISym l nm s (Some (e_path en)))). now apply in_map.
Qed.

Lemma run_undecidable : forall optst ds tree its t, run optst ds tree = ROk (its, t) ->
  decided_all (lookup t) tree = true /\ existsb is_if its = false.
Proof. intros optst ds tree its t H. pose proof (run_outcome _ _ _ _ _ _ H) as O. split; [eapply o_decided | eapply o_noif]; eassumption. Qed.

Lemma run_define' : forall optst ds tree its t, run optst ds tree = ROk (its, t) ->
  forall lvl nm e p v, In (ISym lvl nm (SConst e) (Some p)) its -> find_define (join_dot p) ds = Some v ->
  exists en, find_entry p t = Some en /\ e_value en = v.
Proof. intros. eapply run_define; eassumption. Qed.

Lemma good_define : forall ds t its, Good ds t its ->
  forall lvl nm e p en v, In (ISym lvl nm (SConst e) (Some p)) its -> find_entry p t = Some en ->
  find_define (join_dot p) ds = Some v -> e_value en = VUnknown \/ e_value en = v.
Proof.
  intros ds t its G lvl nm e p en v I F D. pose proof (g_just _ _ _ G _ _ _ _ _ I F) as J. rewrite D in J.
  destruct (e_resolved en); [right; now apply J | left; now apply J].
Qed.

Lemma loop_invariant : forall optst ds fuel t its prev itsF tF,
  loop fuel optst ds t its prev = ROk (itsF, tF) -> Good ds t its -> Good ds tF itsF /\ le_lk (lookup t) (lookup tF).
Proof. intros optst ds fuel t its prev itsF tF H G. destruct (loop_good _ _ _ _ _ _ _ _ H G) as (A & B & _). now split. Qed.

Lemma run_unused : forall optst ds tree its t, run optst ds tree = ROk (its, t) ->
  forall n v, In (n, v) ds -> exists en, find_entry (split_on 46%N n) t = Some en /\ e_kind en = KConst.
Proof. intros optst ds tree its t H. apply check_unused_spec. eapply o_unused, run_outcome; eassumption. Qed.

Lemma define_parse_short : forall name, ~ In 61%N name ->
  parse_define name = COk (name, DBool true) /\
  parse_define (name ++ 61%N :: t_true) = COk (name, DBool true) /\
  parse_define (name ++ 61%N :: t_false) = COk (name, DBool false) /\
  parse_define (name ++ [61%N]) = CErr (EDefineValue name) /\
  parse_define (name ++ [61%N; 45%N]) = CErr (EDefineValue name).
Proof. intros name H. destruct (define_parse name H) as (A & B & C & D & E & _). auto. Qed.
