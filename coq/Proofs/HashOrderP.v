(* C10 — lemmas: point operations see only the lookup function; folding inserts over entries with distinct keys commutes;
   sorting by an injective key erases the order; the nested symbol table is formatted identically whatever the iteration
   order of every children map. *)
From Coq Require Import NArith ZArith List Bool Permutation Sorting.Sorted Lia.
From CA Require Import Model.HashOrder Spec.HashOrderSpec.
Import ListNotations.
Open Scope N_scope.

(* ---- text equality ---------------------------------------------------------------------------------------------- *)
Lemma text_eqb_eq : forall a b, text_eqb a b = true <-> a = b.
Proof.
  induction a as [|x a IH]; destruct b as [|y b]; cbn [text_eqb]; split; intro H; try reflexivity; try discriminate.
  - apply andb_true_iff in H. destruct H as [H1 H2]. apply N.eqb_eq in H1. apply IH in H2. subst. reflexivity.
  - inversion H; subst. apply andb_true_iff. split. apply N.eqb_refl. apply IH. reflexivity.
Qed.
Lemma text_eqb_refl : forall a, text_eqb a a = true.
Proof. intro a. apply text_eqb_eq. reflexivity. Qed.
Lemma text_eqb_neq : forall a b, text_eqb a b = false <-> a <> b.
Proof.
  intros a b. split; intro H.
  - intro E. apply text_eqb_eq in E. congruence.
  - destruct (text_eqb a b) eqn:E; [apply text_eqb_eq in E; contradiction | reflexivity].
Qed.

(* ---- finite maps -------------------------------------------------------------------------------------------------- *)
Section MapLemmas.
  Context {V : Type}.
  Implicit Types m : amap V.

  Lemma lookup_remove : forall m k k', lookup k (remove k' m) = if text_eqb k k' then None else lookup k m.
  Proof.
    induction m as [|[a v] m IH]; intros k k'; cbn [remove filter lookup fst snd].
    - destruct (text_eqb k k'); reflexivity.
    - fold (remove k' m). destruct (text_eqb k' a) eqn:E1; cbn [negb].
      + rewrite IH. apply text_eqb_eq in E1. subst a. destruct (text_eqb k k') eqn:E2; reflexivity.
      + cbn [lookup fst snd]. rewrite IH. destruct (text_eqb k a) eqn:E2.
        * apply text_eqb_eq in E2. subst a. destruct (text_eqb k k') eqn:E3; [|reflexivity].
          apply text_eqb_eq in E3. subst k'. rewrite text_eqb_refl in E1. discriminate.
        * reflexivity.
  Qed.

  Lemma lookup_insert : forall m k k' v, lookup k (insert k' v m) = if text_eqb k k' then Some v else lookup k m.
  Proof.
    intros m k k' v. unfold insert. cbn [lookup fst snd]. rewrite lookup_remove. destruct (text_eqb k k'); reflexivity.
  Qed.

  Lemma map_equiv_refl : forall m, map_equiv m m.
  Proof. intros m k. reflexivity. Qed.
  Lemma map_equiv_trans : forall m1 m2 m3, map_equiv m1 m2 -> map_equiv m2 m3 -> map_equiv m1 m3.
  Proof. intros m1 m2 m3 H1 H2 k. rewrite H1. apply H2. Qed.
  Lemma map_equiv_sym : forall m1 m2, map_equiv m1 m2 -> map_equiv m2 m1.
  Proof. intros m1 m2 H k. symmetry. apply H. Qed.

  (* point operations respect map_equiv: their results depend on the lookup function only *)
  Lemma insert_equiv : forall m m' k v, map_equiv m m' -> map_equiv (insert k v m) (insert k v m').
  Proof. intros m m' k v H x. rewrite !lookup_insert. rewrite H. reflexivity. Qed.
  Lemma remove_equiv : forall m m' k, map_equiv m m' -> map_equiv (remove k m) (remove k m').
  Proof. intros m m' k H x. rewrite !lookup_remove. rewrite H. reflexivity. Qed.
  Lemma contains_key_equiv : forall m m' k, map_equiv m m' -> contains_key k m = contains_key k m'.
  Proof. intros m m' k H. unfold contains_key. rewrite H. reflexivity. Qed.

  Lemma lookup_none_keys : forall m k, ~ In k (keys m) -> lookup k m = None.
  Proof.
    induction m as [|[a v] m IH]; intros k H; cbn [lookup fst snd]; [reflexivity|].
    destruct (text_eqb k a) eqn:E.
    - apply text_eqb_eq in E. subst. exfalso. apply H. left. reflexivity.
    - apply IH. intro H1. apply H. right. exact H1.
  Qed.

  Lemma lookup_In : forall m k v, NoDup (keys m) -> (In (k, v) m <-> lookup k m = Some v).
  Proof.
    induction m as [|[a w] m IH]; intros k v ND; cbn [lookup fst snd In].
    - split; [contradiction | discriminate].
    - inversion ND as [|? ? Hn ND']; subst. destruct (text_eqb k a) eqn:E.
      + apply text_eqb_eq in E. subst a. split.
        * intros [H|H]; [inversion H; reflexivity|]. exfalso. apply Hn. apply (in_map fst) in H. exact H.
        * intro H. inversion H. left. reflexivity.
      + apply text_eqb_neq in E. split.
        * intros [H|H]; [inversion H; subst; contradiction|]. apply IH; assumption.
        * intro H. right. apply IH; assumption.
  Qed.

  (* a permutation of the entries (distinct keys) is the same map *)
  Lemma lookup_perm : forall m m', Permutation m m' -> NoDup (keys m) -> map_equiv m m'.
  Proof.
    intros m m' P. induction P as [| [a v] l l' P IH | [a v] [b w] l | l1 l2 l3 P1 IH1 P2 IH2]; intros ND k.
    - reflexivity.
    - cbn [lookup fst snd]. inversion ND; subst. rewrite (IH H2 k). reflexivity.
    - cbn [lookup fst snd]. destruct (text_eqb k b) eqn:E1; destruct (text_eqb k a) eqn:E2; try reflexivity.
      apply text_eqb_eq in E1. apply text_eqb_eq in E2. subst. inversion ND as [|? ? Hn _]; subst. exfalso. apply Hn. left. reflexivity.
    - rewrite (IH1 ND k). apply IH2. unfold keys. eapply Permutation_NoDup; [apply Permutation_map; exact P1 | exact ND].
  Qed.

  (* conversely: two association lists with distinct keys and the same lookup function are permutations of each other,
     i.e. whatever order a container with these contents is iterated in is one of the `ord` the site theorems quantify over *)
  Lemma NoDup_keys_NoDup : forall m, NoDup (keys m) -> NoDup m.
  Proof. intros m H. unfold keys in H. apply NoDup_map_inv in H. exact H. Qed.
  Lemma equiv_perm : forall m m', NoDup (keys m) -> NoDup (keys m') -> map_equiv m m' -> Permutation m m'.
  Proof.
    intros m m' N1 N2 E. apply NoDup_Permutation; try (apply NoDup_keys_NoDup; assumption).
    intros [k v]. rewrite (lookup_In m k v N1), (lookup_In m' k v N2), (E k). reflexivity.
  Qed.

  Lemma keys_remove_notin : forall m k, ~ In k (keys (remove k m)).
  Proof.
    intros m k H. unfold keys, remove in H. apply in_map_iff in H. destruct H as [[a v] [E H]]. cbn in E. subst a.
    apply filter_In in H. destruct H as [_ H]. cbn in H. rewrite text_eqb_refl in H. discriminate.
  Qed.
  Lemma NoDup_keys_filter : forall (f : text * V -> bool) m, NoDup (keys m) -> NoDup (keys (filter f m)).
  Proof.
    induction m as [|x m IH]; intro ND; cbn [filter]; [constructor|]. inversion ND; subst.
    destruct (f x); cbn [keys map]; [constructor|]; try (apply IH; assumption).
    intro H. apply H1. unfold keys in H. apply in_map_iff in H. destruct H as [y [E H]]. apply filter_In in H.
    rewrite <- E. apply in_map. apply H.
  Qed.
  Lemma insert_nodup : forall m k v, NoDup (keys m) -> NoDup (keys (insert k v m)).
  Proof.
    intros m k v ND. unfold insert. cbn [keys map fst]. constructor. apply keys_remove_notin.
    apply NoDup_keys_filter. exact ND.
  Qed.
End MapLemmas.

(* ---- folding a step over the entries: any two orders give equivalent maps ------------------------------------------- *)
Section FoldPerm.
  Context {V W : Type} (step : amap W -> text * V -> amap W).
  Hypothesis step_equiv : forall m m' x, map_equiv m m' -> map_equiv (step m x) (step m' x).
  Hypothesis step_comm : forall m x y, fst x <> fst y -> map_equiv (step (step m y) x) (step (step m x) y).

  Lemma fold_equiv : forall l m m', map_equiv m m' -> map_equiv (fold_left step l m) (fold_left step l m').
  Proof. induction l as [|x l IH]; intros m m' H; cbn [fold_left]; [exact H|]. apply IH. apply step_equiv. exact H. Qed.

  Theorem fold_perm : forall l l', Permutation l l' -> NoDup (map fst l) ->
    forall m m', map_equiv m m' -> map_equiv (fold_left step l m) (fold_left step l' m').
  Proof.
    intros l l' P. induction P as [| x l l' P IH | x y l | l1 l2 l3 P1 IH1 P2 IH2]; intros ND m m' E.
    - exact E.
    - cbn [fold_left]. inversion ND; subst. apply IH; [assumption|]. apply step_equiv. exact E.
    - cbn [fold_left]. apply fold_equiv. cbn [map] in ND. inversion ND as [|? ? Hn ND']; subst.
      eapply map_equiv_trans; [apply step_comm | apply step_equiv; apply step_equiv; exact E].
      intro H. apply Hn. left. exact H.
    - eapply map_equiv_trans; [apply IH1; [exact ND | apply map_equiv_refl] |].
      apply IH2; [|exact E]. eapply Permutation_NoDup; [apply Permutation_map; exact P1 | exact ND].
  Qed.
End FoldPerm.

(* the label loop: insert every entry *)
Definition insert_step {V} (m : amap V) (kv : text * V) : amap V := insert (fst kv) (snd kv) m.
Lemma insert_step_equiv : forall V (m m' : amap V) x, map_equiv m m' -> map_equiv (insert_step m x) (insert_step m' x).
Proof. intros. apply insert_equiv. assumption. Qed.
Lemma insert_step_comm : forall V (m : amap V) x y, fst x <> fst y -> map_equiv (insert_step (insert_step m y) x) (insert_step (insert_step m x) y).
Proof.
  intros V m x y H k. unfold insert_step. rewrite !lookup_insert.
  destruct (text_eqb k (fst x)) eqn:E1; destruct (text_eqb k (fst y)) eqn:E2; try reflexivity.
  apply text_eqb_eq in E1. apply text_eqb_eq in E2. congruence.
Qed.

Theorem set_labels_order_free : forall V (ord ord' : list (text * V)) (locals locals' : amap V),
  Permutation ord ord' -> NoDup (keys ord) -> map_equiv locals locals' ->
  map_equiv (set_labels ord locals) (set_labels ord' locals').
Proof.
  intros V ord ord' locals locals' P ND E. unfold set_labels.
  exact (fold_perm insert_step (@insert_step_equiv V) (@insert_step_comm V) ord ord' P ND locals locals' E).
Qed.

Lemma set_labels_nodup : forall V (ord : list (text * V)) locals, NoDup (keys locals) -> NoDup (keys (set_labels ord locals)).
Proof.
  intros V ord. unfold set_labels. induction ord as [|x ord IH]; intros locals ND; cbn [fold_left]; [exact ND|].
  apply IH. apply insert_nodup. exact ND.
Qed.

(* the hygienise loops *)
Lemma hygienize_name_inj : forall a b, hygienize_name_for_asm_subst a = hygienize_name_for_asm_subst b -> a = b.
Proof. intros a b H. unfold hygienize_name_for_asm_subst in H. apply app_inv_head in H. exact H. Qed.

Lemma hygienize_step_equiv : forall V (m m' : amap V) x, map_equiv m m' -> map_equiv (hygienize_step m x) (hygienize_step m' x).
Proof. intros V m m' x H. unfold hygienize_step. destruct (starts_with _ _); [exact H | apply insert_equiv; exact H]. Qed.
Lemma hygienize_step_comm : forall V (m : amap V) x y, fst x <> fst y ->
  map_equiv (hygienize_step (hygienize_step m y) x) (hygienize_step (hygienize_step m x) y).
Proof.
  intros V m x y H. unfold hygienize_step.
  destruct (starts_with ASM_HYGIENIZE_PREFIX (fst x)); destruct (starts_with ASM_HYGIENIZE_PREFIX (fst y)); try apply map_equiv_refl.
  intro k. rewrite !lookup_insert.
  destruct (text_eqb k (hygienize_name_for_asm_subst (fst x))) eqn:E1;
    destruct (text_eqb k (hygienize_name_for_asm_subst (fst y))) eqn:E2; try reflexivity.
  apply text_eqb_eq in E1. apply text_eqb_eq in E2. subst k. apply hygienize_name_inj in E2. contradiction.
Qed.

Theorem hygienize_map_order_free : forall V (ord ord' : list (text * V)),
  Permutation ord ord' -> NoDup (keys ord) -> map_equiv (hygienize_map ord) (hygienize_map ord').
Proof.
  intros V ord ord' P ND. unfold hygienize_map.
  exact (fold_perm hygienize_step (@hygienize_step_equiv V) (@hygienize_step_comm V) ord ord' P ND [] [] (map_equiv_refl [])).
Qed.

Lemma hygienize_map_nodup : forall V (ord : list (text * V)), NoDup (keys (hygienize_map ord)).
Proof.
  intros V ord. unfold hygienize_map.
  assert (G : forall (l : list (text * V)) m, NoDup (keys m) -> NoDup (keys (fold_left hygienize_step l m))).
  { induction l as [|x l IH]; intros m ND; cbn [fold_left]; [exact ND|]. apply IH. unfold hygienize_step.
    destruct (starts_with _ _); [exact ND | apply insert_nodup; exact ND]. }
  apply G. constructor.
Qed.

(* every name the new context knows carries the prefix, and `name` is known there iff the old context knew it unprefixed *)
Lemma starts_with_app : forall p s, starts_with p (p ++ s) = true.
Proof. induction p as [|x p IH]; intro s; cbn [starts_with app]; [reflexivity|]. rewrite N.eqb_refl. apply IH. Qed.

Theorem asm_ctx_order_free : forall Val depth (ol ol' : list (text * Val)) (os os' : list (text * text)) (ob ob' : list (text * Val)),
  Permutation ol ol' -> NoDup (keys ol) -> Permutation os os' -> NoDup (keys os) -> Permutation ob ob' -> NoDup (keys ob) ->
  forall name,
    get_local (asm_instruction_ctx depth ol os ob) name = get_local (asm_instruction_ctx depth ol' os' ob') name /\
    get_token_subst (asm_instruction_ctx depth ol os ob) name = get_token_subst (asm_instruction_ctx depth ol' os' ob') name /\
    ec_depth (asm_instruction_ctx depth ol os ob) = ec_depth (asm_instruction_ctx depth ol' os' ob').
Proof.
  intros Val depth ol ol' os os' ob ob' P1 N1 P2 N2 P3 N3 name.
  assert (L : map_equiv (set_labels ob (hygienize_map ol)) (set_labels ob' (hygienize_map ol'))).
  { apply set_labels_order_free; try assumption. apply hygienize_map_order_free; assumption. }
  assert (S : map_equiv (hygienize_map os) (hygienize_map os')) by (apply hygienize_map_order_free; assumption).
  unfold get_local, get_token_subst, asm_instruction_ctx, hygienize_locals_for_asm_subst. cbn [ec_locals ec_token_substs ec_depth].
  rewrite (L name), (S name). repeat split; reflexivity.
Qed.

(* ---- sorting by an injective key erases the order ------------------------------------------------------------------ *)
Section SortLemmas.
  Context {A : Type} (key : A -> N).
  Let le_key (a b : A) : Prop := key a <= key b.

  Lemma insert_sorted_perm : forall x l, Permutation (x :: l) (insert_sorted key x l).
  Proof.
    intros x l. induction l as [|y r IH]; cbn [insert_sorted]; [apply Permutation_refl|].
    destruct (key x <=? key y); [apply Permutation_refl|].
    eapply Permutation_trans; [apply perm_swap | apply perm_skip; exact IH].
  Qed.
  Lemma sort_perm : forall l, Permutation l (sort_by_key key l).
  Proof.
    induction l as [|x l IH]; cbn [sort_by_key fold_right]; [constructor|].
    eapply Permutation_trans; [apply perm_skip; exact IH | apply insert_sorted_perm].
  Qed.
  Lemma insert_sorted_sorted : forall x l, StronglySorted le_key l -> StronglySorted le_key (insert_sorted key x l).
  Proof.
    intros x l. induction l as [|y r IH]; intro S; cbn [insert_sorted].
    - constructor; constructor.
    - inversion S as [|? ? S' F]; subst. destruct (key x <=? key y) eqn:E.
      + apply N.leb_le in E. constructor; [exact S|]. constructor; [exact E|].
        eapply Forall_impl; [|exact F]. intros a Ha. unfold le_key in *. lia.
      + apply N.leb_gt in E. constructor; [apply IH; exact S'|].
        eapply Permutation_Forall; [apply insert_sorted_perm|]. constructor; [unfold le_key; lia | exact F].
  Qed.
  Lemma sort_sorted : forall l, StronglySorted le_key (sort_by_key key l).
  Proof. induction l as [|x l IH]; cbn [sort_by_key fold_right]; [constructor | apply insert_sorted_sorted; exact IH]. Qed.

  Lemma sorted_unique : forall a b, StronglySorted le_key a -> StronglySorted le_key b -> NoDup (map key a) -> Permutation a b -> a = b.
  Proof.
    induction a as [|x a IH]; intros b Sa Sb ND P.
    - apply Permutation_nil in P. subst. reflexivity.
    - destruct b as [|y b]; [apply Permutation_sym, Permutation_nil in P; discriminate|].
      inversion Sa as [|? ? Sa' Fa]; subst. inversion Sb as [|? ? Sb' Fb]; subst. cbn [map] in ND. inversion ND as [|? ? Hn ND']; subst.
      assert (E : x = y).
      { assert (Hx : In x (y :: b)) by (eapply Permutation_in; [exact P | left; reflexivity]).
        assert (Hy : In y (x :: a)) by (eapply Permutation_in; [apply Permutation_sym; exact P | left; reflexivity]).
        destruct Hx as [Hx|Hx]; [congruence|]. destruct Hy as [Hy|Hy]; [exact Hy|].
        rewrite Forall_forall in Fa, Fb. pose proof (Fa y Hy) as H1. pose proof (Fb x Hx) as H2. unfold le_key in *.
        exfalso. apply Hn. assert (K : key x = key y) by lia. rewrite K. apply in_map. exact Hy. }
      subst y. f_equal. apply IH; try assumption. eapply Permutation_cons_inv. exact P.
  Qed.

  Theorem sort_perm_eq : forall l l', Permutation l l' -> NoDup (map key l) -> sort_by_key key l = sort_by_key key l'.
  Proof.
    intros l l' P ND. apply sorted_unique; try apply sort_sorted.
    - eapply Permutation_NoDup; [apply Permutation_map; apply sort_perm | exact ND].
    - eapply Permutation_trans; [apply Permutation_sym; apply sort_perm|].
      eapply Permutation_trans; [exact P | apply sort_perm].
  Qed.
End SortLemmas.

Theorem sorted_children_order_free : forall ord ord', Permutation ord ord' -> NoDup (map snd ord) -> sorted_children ord = sorted_children ord'.
Proof. intros ord ord' P ND. unfold sorted_children. apply sort_perm_eq; assumption. Qed.

(* ---- the nested symbol table ---------------------------------------------------------------------------------------- *)
Section SpermInd.
  Variable P : sdecl -> sdecl -> Prop.
  Hypothesis H : forall i v k l k',
    Forall2 (fun a b => fst a = fst b /\ sperm (snd a) (snd b) /\ P (snd a) (snd b)) k l -> Permutation l k' ->
    P (SDecl i v k) (SDecl i v k').
  Fixpoint sperm_ind' (t t' : sdecl) (p : sperm t t') {struct p} : P t t' :=
    match p in sperm t0 t0' return P t0 t0' with
    | SPerm i v k l k' F Pm =>
        H i v k l k'
          ((fix go (k0 l0 : list (text * sdecl)) (F0 : Forall2 (fun a b => fst a = fst b /\ sperm (snd a) (snd b)) k0 l0) {struct F0}
              : Forall2 (fun a b => fst a = fst b /\ sperm (snd a) (snd b) /\ P (snd a) (snd b)) k0 l0 :=
              match F0 in Forall2 _ k1 l1 return Forall2 (fun a b => fst a = fst b /\ sperm (snd a) (snd b) /\ P (snd a) (snd b)) k1 l1 with
              | Forall2_nil _ => Forall2_nil _
              | Forall2_cons a b (conj e s) F1 => Forall2_cons a b (conj e (conj s (sperm_ind' _ _ s))) (go _ _ F1)
              end) k l F) Pm
    end.
End SpermInd.

Lemma swf_inv : forall i v k, swf (SDecl i v k) -> NoDup (map (fun c => sd_index (snd c)) k) /\ Forall (fun c => swf (snd c)) k.
Proof.
  intros i v k [ND A]. split; [exact ND|]. clear ND. induction k as [|c r IH]; [constructor|].
  destruct A as [A1 A2]. constructor; [exact A1 | apply IH; exact A2].
Qed.
Lemma swf_intro : forall i v k, NoDup (map (fun c => sd_index (snd c)) k) -> Forall (fun c => swf (snd c)) k -> swf (SDecl i v k).
Proof.
  intros i v k ND F. split; [exact ND|]. clear ND. induction F as [|c r Hc F IH]; [exact I|]. split; assumption.
Qed.

Definition block (h : list text) (c : text * sdecl) : N * list (text * Z) := (sd_index (snd c), format_decl h (fst c) (snd c)).

Definition same_fmt (t t' : sdecl) : Prop := swf t -> sd_index t = sd_index t' /\ forall h n, format_decl h n t = format_decl h n t'.

Lemma blocks_order_free : forall h k l k',
  Forall2 (fun a b => fst a = fst b /\ sperm (snd a) (snd b) /\ same_fmt (snd a) (snd b)) k l -> Permutation l k' ->
  NoDup (map (fun c => sd_index (snd c)) k) -> Forall (fun c => swf (snd c)) k ->
  sort_by_key fst (map (block h) k) = sort_by_key fst (map (block h) k').
Proof.
  intros h k l k' F Pm ND W.
  assert (E : map (block h) k = map (block h) l).
  { clear Pm ND. induction F as [|a b k0 l0 [e [_ s]] F IH]; [reflexivity|]. inversion W; subst. cbn [map]. f_equal; [|apply IH; assumption].
    unfold block. destruct (s H1) as [s1 s2]. rewrite s1, e, s2. reflexivity. }
  rewrite E. apply sort_perm_eq; [apply Permutation_map; exact Pm|].
  rewrite <- E. rewrite map_map. cbn [block fst]. exact ND.
Qed.

Lemma sperm_same_fmt : forall t t', sperm t t' -> same_fmt t t'.
Proof.
  apply sperm_ind'. intros i v k l k' F Pm W. apply swf_inv in W. destruct W as [ND W]. split; [reflexivity|].
  intros h n. cbn [format_decl]. f_equal. f_equal. f_equal.
  exact (blocks_order_free (h ++ [n]) k l k' F Pm ND W).
Qed.

Theorem format_decl_order_free : forall t t' h n, sperm t t' -> swf t -> format_decl h n t = format_decl h n t'.
Proof. intros t t' h n S W. exact (proj2 (sperm_same_fmt t t' S W) h n). Qed.

Theorem format_symbols_order_free : forall g g', kperm g g' -> kwf g -> format_symbols g = format_symbols g'.
Proof.
  intros g g' [l [F Pm]] [ND W]. unfold format_symbols. f_equal. f_equal.
  apply (blocks_order_free [] g l g'); try assumption.
  clear Pm ND W. induction F as [|a b k0 l0 [e s] F IH]; constructor; [|exact IH].
  split; [exact e|]. split; [exact s | apply sperm_same_fmt; exact s].
Qed.

(* a plain permutation of the top level / of one children map is an instance *)
Lemma sperm_refl : forall t, sperm t t.
Proof.
  fix IH 1. intros [i v k]. apply SPerm with (l := k); [|apply Permutation_refl].
  induction k as [|c r IHk]; constructor; [split; [reflexivity | apply IH] | exact IHk].
Qed.
Lemma Forall2_sperm_refl : forall g : list (text * sdecl), Forall2 (fun a b => fst a = fst b /\ sperm (snd a) (snd b)) g g.
Proof. induction g as [|c r IH]; constructor; [split; [reflexivity | apply sperm_refl] | exact IH]. Qed.
Lemma kperm_of_perm : forall g g', Permutation g g' -> kperm g g'.
Proof. intros g g' P. exists g. split; [apply Forall2_sperm_refl | exact P]. Qed.

(* the code's own order of evaluation (sort the children, then walk them) gives the text defined above *)
Lemma insert_sorted_map : forall A B (f : A -> B) (kb : B -> N) (x : A) (l : list A),
  insert_sorted kb (f x) (map f l) = map f (insert_sorted (fun a => kb (f a)) x l).
Proof.
  intros A B f kb x l. induction l as [|y r IH]; cbn [insert_sorted map]; [reflexivity|].
  destruct (kb (f x) <=? kb (f y)); cbn [map]; [reflexivity | rewrite IH; reflexivity].
Qed.
Lemma sort_map : forall A B (f : A -> B) (kb : B -> N) (l : list A),
  sort_by_key kb (map f l) = map f (sort_by_key (fun a => kb (f a)) l).
Proof.
  intros A B f kb l. induction l as [|x l IH]; cbn [sort_by_key fold_right map]; [reflexivity|].
  fold (sort_by_key kb (map f l)). fold (sort_by_key (fun a => kb (f a)) l). rewrite IH. apply insert_sorted_map.
Qed.

Fixpoint sdepth (d : sdecl) : nat :=
  match d with SDecl _ _ k => S (fold_right (fun c acc => Nat.max (sdepth (snd c)) acc) 0%nat k) end.
Lemma sdepth_child : forall i v k c, In c k -> (sdepth (snd c) < sdepth (SDecl i v k))%nat.
Proof.
  intros i v k c H. cbn [sdepth]. apply le_n_S. induction k as [|x r IH]; [contradiction|]. cbn [fold_right].
  destruct H as [H|H]; [subst; apply Nat.le_max_l|]. eapply Nat.le_trans; [apply IH; exact H | apply Nat.le_max_r].
Qed.
Theorem format_decl_walk_eq : forall fuel d h n, (sdepth d < fuel)%nat -> format_decl_walk fuel h n d = format_decl h n d.
Proof.
  induction fuel as [|f IH]; intros d h n Hd; [inversion Hd|]. destruct d as [i v k]. cbn [format_decl_walk format_decl sd_value sd_children].
  f_equal.
  change (map (fun c => (sd_index (snd c), format_decl (h ++ [n]) (fst c) (snd c))) k) with (map (block (h ++ [n])) k).
  rewrite (sort_map _ _ (block (h ++ [n])) fst k).
  change (fun a : text * sdecl => fst (block (h ++ [n]) a)) with (fun c : text * sdecl => sd_index (snd c)).
  assert (P : forall c, In c (sort_by_key (fun c : text * sdecl => sd_index (snd c)) k) -> In c k).
  { intros c Hc. eapply Permutation_in; [apply Permutation_sym; apply sort_perm | exact Hc]. }
  revert P. generalize (sort_by_key (fun c : text * sdecl => sd_index (snd c)) k). intros L P.
  induction L as [|c L IHL]; [reflexivity|]. cbn [flat_map map concat block snd]. f_equal.
  - apply IH. pose proof (sdepth_child i v k c (P c (or_introl eq_refl))). lia.
  - apply IHL. intros c' Hc'. apply P. right. exact Hc'.
Qed.

(* SymbolManager::declare keeps the indices of every children map distinct: the new index is decls.len(), larger than all *)
Lemma NoDup_map_filter : forall A B (f : A -> B) (p : A -> bool) l, NoDup (map f l) -> NoDup (map f (filter p l)).
Proof.
  intros A B f p l. induction l as [|x l IH]; intro ND; cbn [filter map]; [constructor|]. inversion ND; subst.
  destruct (p x); cbn [map]; [constructor|]; try (apply IH; assumption).
  intro H. apply H1. apply in_map_iff in H. destruct H as [y [E H]]. apply filter_In in H. rewrite <- E. apply in_map. apply H.
Qed.
Theorem declare_child_fresh : forall n children name,
  Forall (fun c => snd c < n) children -> NoDup (map snd children) ->
  let r := declare_child n children name in
  Forall (fun c => snd c < fst r) (snd r) /\ NoDup (map snd (snd r)).
Proof.
  intros n children name B ND. cbn [declare_child fst snd]. unfold insert. split.
  - constructor; [cbn; lia|]. rewrite Forall_forall in *. intros c Hc. apply filter_In in Hc. specialize (B c (proj1 Hc)). lia.
  - cbn [map snd]. constructor.
    + intro H. apply in_map_iff in H. destruct H as [c [E H]]. apply filter_In in H. rewrite Forall_forall in B. specialize (B c (proj1 H)). lia.
    + apply NoDup_map_filter. exact ND.
Qed.

(* ---- the leftover format parameter ------------------------------------------------------------------------------------ *)
Theorem leftover_fixed_order_free : forall V given (ord ord' : amap V), Permutation ord ord' -> NoDup (keys ord) ->
  leftover_fixed given ord = leftover_fixed given ord'.
Proof.
  intros V given ord ord' P ND. unfold leftover_fixed. induction given as [|p r IH]; cbn [find]; [reflexivity|].
  rewrite (contains_key_equiv ord ord' p (lookup_perm ord ord' P ND)). rewrite IH. reflexivity.
Qed.

Theorem leftover_pinned_order_dependent :
  exists (ord ord' : list (text * text)), Permutation ord ord' /\ NoDup (keys ord) /\ leftover_pinned ord <> leftover_pinned ord'.
Proof.
  exists [([102; 111; 111], [49]); ([98; 97; 114], [50])], [([98; 97; 114], [50]); ([102; 111; 111], [49])].
  split; [apply perm_swap|]. split.
  - cbn. constructor; [intros [H|[]]; discriminate|]. constructor; [intros []|constructor].
  - cbn. discriminate.
Qed.

(* ---- the statements of Props/C10.v in the shape they are stated there ---------------------------------------------------- *)
Lemma site_hygienize_lookup : forall V (ord ord' : list (text * V)) name,
  Permutation ord ord' -> NoDup (keys ord) -> lookup name (hygienize_map ord) = lookup name (hygienize_map ord').
Proof. intros V ord ord' name P ND. exact (hygienize_map_order_free V ord ord' P ND name). Qed.

Lemma site_labels_lookup : forall V (ord ord' : list (text * V)) (locals : amap V) name,
  Permutation ord ord' -> NoDup (keys ord) -> lookup name (set_labels ord locals) = lookup name (set_labels ord' locals).
Proof. intros V ord ord' locals name P ND. exact (set_labels_order_free V ord ord' locals locals P ND (map_equiv_refl locals) name). Qed.

Lemma results_are_maps : forall V (ord : list (text * V)) locals,
  NoDup (keys (hygienize_map ord)) /\ (NoDup (keys locals) -> NoDup (keys (set_labels ord locals))).
Proof. intros V ord locals. split; [apply hygienize_map_nodup | apply set_labels_nodup]. Qed.

Lemma point_operations : forall V (m m' : amap V),
  (Permutation m m' -> NoDup (keys m) -> map_equiv m m') /\
  (map_equiv m m' -> forall k v, map_equiv (insert k v m) (insert k v m') /\ map_equiv (remove k m) (remove k m') /\
                                contains_key k m = contains_key k m' /\ lookup k m = lookup k m').
Proof.
  intros V m m'. split; [apply lookup_perm|]. intros E k v.
  repeat split; [apply insert_equiv | apply remove_equiv | apply contains_key_equiv | apply E]; exact E.
Qed.
