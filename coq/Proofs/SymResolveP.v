(* C15_unknown: a reference that cannot be resolved makes the evaluation fail in the final pass. *)
From Coq Require Import ZArith NArith List Bool Arith Lia.
From CA Require Import Model.Paths Model.BigIntOps Model.Symbols Model.ConstPass Model.SymResolve.
Import ListNotations.
Open Scope nat_scope.

Section Unknown.
Variable nm : names.
Variable m : mgr.
Variable defs : list sym.
Variable ctx : list text.
Variable addr : res Z.

(* the name is not one of the reserved words that are answered before the symbol table is asked *)
Definition not_reserved (lvl : nat) (path : list text) : Prop :=
  expr_level_builtin nm lvl path = false /\
  match lvl, path with
  | O, n :: _ => is_pc nm n = false /\ asm_builtin nm n = false
  | O, [] => False
  | S _, _ => True
  end.

(* e contains a reference that the symbol table does not know in context ctx *)
Inductive has_unknown : cexpr -> Prop :=
| hu_ref : forall lvl path, not_reserved lvl path -> try_get_by_name m ctx lvl path = ROk None -> has_unknown (CRef lvl path)
| hu_add_l : forall a b, has_unknown a -> has_unknown (CAdd a b)
| hu_add_r : forall a b, has_unknown b -> has_unknown (CAdd a b)
| hu_sub_l : forall a b, has_unknown a -> has_unknown (CSub a b)
| hu_sub_r : forall a b, has_unknown b -> has_unknown (CSub a b)
| hu_mul_l : forall a b, has_unknown a -> has_unknown (CMul a b)
| hu_mul_r : forall a b, has_unknown b -> has_unknown (CMul a b).

Lemma arith_not_unknown : forall op a b, arith op a b <> ROk VUnknown.
Proof.
  intros op [|x|] [|y|]; cbn; try discriminate.
  destruct op; [destruct (checked_add x y) | destruct (checked_sub x y) | destruct (checked_mul x y)]; discriminate.
Qed.

Lemma binop_unknown : forall op ea eb, binop op ea eb = ROk VUnknown -> ea = ROk VUnknown \/ eb tt = ROk VUnknown.
Proof.
  intros op ea eb H. unfold binop in H.
  destruct ea as [[|x|]| | |]; auto; try discriminate;
  (destruct (eb tt) as [[|y|]| | |]; auto; try discriminate; exfalso; eapply arith_not_unknown; eauto).
Qed.

(* in the last iteration nothing evaluates to Unknown *)
Lemma final_not_unknown : forall e, eval_full nm m defs ctx false addr e <> ROk VUnknown.
Proof.
  induction e; cbn [eval_full]; try discriminate.
  - destruct (expr_level_builtin nm lvl path); [discriminate|].
    unfold eval_variable.
    assert (L : match get_by_name m ctx lvl path with
                | ROk r => match nth_error defs r with
                           | Some s => match sv s with VUnknown => RErr | v => ROk v end
                           | None => RPanic end
                | RErr => RErr | RPanic => RPanic | RFuel => RFuel end <> ROk VUnknown).
    { destruct (get_by_name m ctx lvl path); try discriminate.
      destruct (nth_error defs a); try discriminate. destruct (sv s); discriminate. }
    destruct lvl; auto. destruct path; [discriminate|].
    destruct (is_pc nm t); [destruct addr; discriminate|].
    destruct (asm_builtin nm t); [discriminate | auto].
  - intro H. apply binop_unknown in H. tauto.
  - intro H. apply binop_unknown in H. tauto.
  - intro H. apply binop_unknown in H. tauto.
Qed.

Lemma binop_ok : forall op ea eb v, binop op ea eb = ROk v ->
  (ea = ROk VUnknown) \/ (exists va vb, ea = ROk va /\ eb tt = ROk vb).
Proof.
  intros op ea eb v H. unfold binop in H.
  destruct ea as [[|x|]| | |]; auto; try discriminate;
  (destruct (eb tt) as [[|y|]| | |]; try discriminate; right; eauto).
Qed.

Theorem unknown_fails : forall e, has_unknown e -> forall v, eval_full nm m defs ctx false addr e <> ROk v.
Proof.
  induction 1; intros v; cbn [eval_full].
  - destruct H as [H1 H2]. rewrite H1. unfold eval_variable, get_by_name. rewrite H0.
    destruct lvl; [|discriminate]. destruct path; [contradiction|]. destruct H2 as [P A]. rewrite P, A. discriminate.
  - intro E. apply binop_ok in E. destruct E as [E|(va & vb & E & _)]; [eapply final_not_unknown; eauto | eapply IHhas_unknown; eauto].
  - intro E. apply binop_ok in E. destruct E as [E|(va & vb & _ & E)]; [eapply final_not_unknown; eauto | eapply IHhas_unknown; eauto].
  - intro E. apply binop_ok in E. destruct E as [E|(va & vb & E & _)]; [eapply final_not_unknown; eauto | eapply IHhas_unknown; eauto].
  - intro E. apply binop_ok in E. destruct E as [E|(va & vb & _ & E)]; [eapply final_not_unknown; eauto | eapply IHhas_unknown; eauto].
  - intro E. apply binop_ok in E. destruct E as [E|(va & vb & E & _)]; [eapply final_not_unknown; eauto | eapply IHhas_unknown; eauto].
  - intro E. apply binop_ok in E. destruct E as [E|(va & vb & _ & E)]; [eapply final_not_unknown; eauto | eapply IHhas_unknown; eauto].
Qed.
End Unknown.
