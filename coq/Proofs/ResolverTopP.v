(* Whole-program statements about Model.Resolver.assemble: certificate (C02), pass count (C09), budget monotonicity (C09). *)
From Coq Require Import NArith ZArith List Bool Lia.
From CA Require Import Model.Lexer Model.Parser Model.Literal Model.BigIntOps Model.Evaluator Model.Matcher Model.Resolver
  Proofs.ResolverFixP Proofs.ResolverMonoP.
Import ListNotations.
Open Scope Z_scope.

Lemma nth_repeat_unknown n i : nth i (repeat VUnknown n) VUnknown = VUnknown.
Proof. revert i; induction n; intros [|i]; cbn; auto. Qed.

Lemma init_labels_ok indexed defs nsyms ns st : init_state indexed defs nsyms ns = Some st -> labels_ok ns st.
Proof.
  unfold init_state. cbv zeta.
  match goal with |- (if ?c then _ else _) = _ -> _ => destruct c; [discriminate|] end.
  intro H. inversion H; subst; clear H. intros s _. cbn [s_sym]. left. apply nth_repeat_unknown.
Qed.

Lemma simple_round_labels_ok names all : syms_distinct all ->
  forall ns st st' cnt0 cnt, (forall n, In n ns -> In n all) -> labels_ok all st ->
  (fix go (ns : list node) (st : state) (cnt : nat) : eres (state * nat) :=
     match ns with
     | [] => EOk (st, cnt)
     | NConst s e :: r =>
       match eval code_ops (pvar_simple names st) e [] with
       | EErr => EErr
       | EOk (VFailed, _) => EErr
       | EOk (v, _) =>
         let st' := {| s_sym := set_nth (s_sym st) s v; s_instr := s_instr st; s_data := s_data st; s_res := s_res st; s_align := s_align st; s_addr := s_addr st |} in
         go r st' (match v with VUnknown => cnt | _ => S cnt end)
       end
     | _ :: r => go r st cnt
     end) ns st cnt0 = EOk (st', cnt) -> labels_ok all st'.
Proof.
  intro Hd. induction ns as [|n ns IH]; intros st st' cnt0 cnt Hsub Hl H.
  - inversion H; subst. exact Hl.
  - assert (Hsub' : forall m, In m ns -> In m all) by (intros m Hm; apply Hsub; now right).
    destruct n as [s|s e|i src|width elems|k e|k e|k e]; try (eapply IH; eauto; fail).
    destruct (eval code_ops (pvar_simple names st) e []) as [[v c]|]; [|discriminate].
    assert (Hl' : labels_ok all {| s_sym := set_nth (s_sym st) s v; s_instr := s_instr st; s_data := s_data st; s_res := s_res st; s_align := s_align st; s_addr := s_addr st |}).
    { intros s0 Hs0. cbn [s_sym]. assert (s0 <> s) by (intro; subst; eapply Hd; eauto; apply Hsub; now left).
      rewrite nth_set_nth_other by assumption. apply Hl, Hs0. }
    destruct v; try discriminate; eapply IH; eauto.
Qed.

Lemma simple_loop_labels_ok names ns : syms_distinct ns -> forall fuel st prev st',
  labels_ok ns st -> simple_loop fuel names ns st prev = EOk st' -> labels_ok ns st'.
Proof.
  intro Hd. induction fuel as [|f IH]; intros st prev st' Hl H; cbn [simple_loop] in H.
  - inversion H; subst. exact Hl.
  - destruct (simple_round names ns st) as [[s c]|] eqn:E; [|discriminate].
    assert (labels_ok ns s) by (unfold simple_round in E; eapply simple_round_labels_ok with (ns := ns); eauto).
    destruct (Nat.eqb c prev); [inversion H; subst; assumption|eauto].
Qed.

(* C02: every successful assembly carries a certificate, and the reported pass count is within the budget;
   there is no other way to obtain output. *)
Theorem assemble_certificate indexed defs names ns budget out syms n :
  syms_distinct ns ->
  assemble indexed defs names ns budget = Some (out, syms, n) ->
  exists st, Certified names defs ns st /\ syms = s_sym st /\ out = build_output ns st /\ (n <= budget)%nat.
Proof.
  intros Hd H. unfold assemble in H.
  destruct (init_state indexed defs (length names) ns) as [st0|] eqn:E0; [|discriminate].
  destruct (simple_loop (S (length ns)) names ns st0 0) as [st1|] eqn:E1; [|discriminate].
  destruct (loop names defs ns budget 0 budget st1) as [[st k]|] eqn:E2; [|discriminate].
  inversion H; subst; clear H.
  assert (Hl : labels_ok ns st1) by (eapply simple_loop_labels_ok; eauto; eapply init_labels_ok; eauto).
  destruct (certificate names defs ns budget st1 st n Hd Hl E2) as [Hc Hn].
  exists st. auto.
Qed.

(* C09: a larger budget gives the identical output and symbol values *)
Theorem assemble_budget_monotone indexed defs names ns b b' out syms n :
  syms_distinct ns -> (1 <= b)%nat -> (b <= b')%nat ->
  assemble indexed defs names ns b = Some (out, syms, n) ->
  exists n', assemble indexed defs names ns b' = Some (out, syms, n').
Proof.
  intros Hd Hb Hle H. unfold assemble in *.
  destruct (init_state indexed defs (length names) ns) as [st0|] eqn:E0; [|discriminate].
  destruct (simple_loop (S (length ns)) names ns st0 0) as [st1|] eqn:E1; [|discriminate].
  destruct (loop names defs ns b 0 b st1) as [[st k]|] eqn:E2; [|discriminate].
  inversion H; subst; clear H.
  assert (Hl : labels_ok ns st1) by (eapply simple_loop_labels_ok; eauto; eapply init_labels_ok; eauto).
  destruct (budget_monotone names defs ns b b' st1 st n Hl Hd Hb Hle E2) as [n' Hn'].
  rewrite Hn'. eauto.
Qed.
