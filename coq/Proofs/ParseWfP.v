(* C05 ingredient: the expression parser only produces well-formed ASTs (Spec/EvalWf.wf_expr) from scalar text:
   every sized number literal fits its size (number_literal_bound) and every string literal / token text is a
   sub-list of the source, hence made of Unicode scalar values.  Proof: walker invariant `scalar_text (tail w)`
   preserved by advance/next_useful/next_linebreak/maybe_expect/expect/find_op, then induction on the parser fuel
   over the 13 mutually recursive functions (one-step unfolding equations proved by reflexivity). *)
From Coq Require Import ZArith NArith List Bool Lia.
From CA Require Import Model.Lexer Model.Parser Model.Literal Spec.EvalWf.
Import ListNotations.
Open Scope N_scope.

Lemma digits_bound k radix : radix = 2 ^ k ->
  forall t acc cnt v n, digits radix t acc cnt = Some (v, n) -> acc < 2 ^ (k * cnt) -> v < 2 ^ (k * n).
Proof.
  intros Hr; induction t as [|c r IH]; intros acc cnt v n H Hacc; cbn [digits] in H.
  - inversion H; subst; auto.
  - destruct (c =? 95); [eapply IH; eauto|].
    destruct (digit_val c) as [d|]; [|discriminate].
    destruct (d <? radix) eqn:Hd; [|discriminate].
    apply IH in H; auto. apply N.ltb_lt in Hd.
    rewrite N.mul_add_distr_l, N.mul_1_r, N.pow_add_r. subst radix.
    nia.
Qed.

Definition prefix_split (t : text) : N * text :=
    match t with
    | 48 :: 98 :: r => (2, r)
    | 48 :: 111 :: r => (8, r)
    | 48 :: 120 :: r => (16, r)
    | 37 :: r => (2, r)
    | 36 :: r => (16, r)
    | _ => (10, t)
    end.

Definition nl_body (p : N * text) : option (N * option N) :=
  let '(radix, rest) := p in
  match digits radix rest 0 0 with
  | Some (v, cnt) =>
    if cnt =? 0 then None
    else Some (v, if radix =? 2 then Some cnt else if radix =? 8 then Some (3 * cnt) else if radix =? 16 then Some (4 * cnt) else None)
  | None => None
  end.

Lemma number_literal_eq t : number_literal t = nl_body (prefix_split t).
Proof. reflexivity. Qed.

Lemma prefix_split_radix t : let r := fst (prefix_split t) in r = 2 \/ r = 8 \/ r = 16 \/ r = 10.
Proof.
  unfold prefix_split.
  repeat match goal with |- context [match ?x with _ => _ end] => destruct x end; cbn [fst]; auto.
Qed.

Theorem number_literal_bound : forall t v s, number_literal t = Some (v, Some s) -> (Z.of_N v < 2 ^ Z.of_N s)%Z.
Proof.
  intros t v s H. rewrite number_literal_eq in H.
  pose proof (prefix_split_radix t) as Hr. destruct (prefix_split t) as [radix rest]. cbn [fst] in Hr.
  unfold nl_body in H.
  destruct (digits radix rest 0 0) as [[v' cnt]|] eqn:Hd; [|discriminate].
  destruct (cnt =? 0); [discriminate|].
  assert (forall k, radix = 2 ^ k -> v' < 2 ^ (k * cnt)) as Hb.
  { intros k Hk. eapply digits_bound; eauto. rewrite N.mul_0_r. reflexivity. }
  change 2%Z with (Z.of_N 2). rewrite <- N2Z.inj_pow. apply N2Z.inj_lt.
  destruct Hr as [-> | [-> | [-> | ->]]]; cbn [N.eqb Pos.eqb] in H; inversion H; subst.
  - rewrite <- (N.mul_1_l s). apply (Hb 1). reflexivity.
  - apply (Hb 3). reflexivity.
  - apply (Hb 4). reflexivity.
Qed.

(* ---------- walker / token lemmas ---------- *)
Lemma Forall_take_bytes (P : N -> Prop) t : forall n, Forall P t -> Forall P (take_bytes n t).
Proof.
  induction t as [|c r IH]; intros n H; cbn [take_bytes]; auto.
  destruct (n =? 0); auto. inversion H; subst. constructor; auto.
Qed.
Lemma Forall_drop_bytes (P : N -> Prop) t : forall n, Forall P t -> Forall P (drop_bytes n t).
Proof.
  induction t as [|c r IH]; intros n H; cbn [drop_bytes]; auto.
  destruct (n =? 0); auto. inversion H; subst. auto.
Qed.

Definition st (w : walker) : Prop := scalar_text (tail w).

Lemma st_advance w n : st w -> st (advance w n).
Proof. unfold st, advance; cbn [tail]. apply Forall_drop_bytes. Qed.

Lemma st_visible w : st w -> scalar_text (visible w).
Proof. unfold st, visible. apply Forall_take_bytes. Qed.

Lemma st_next_useful f : forall w w' kn, next_useful f w = (w', kn) -> st w -> st w'.
Proof.
  induction f as [|f IH]; intros w w' kn H Hs; cbn [next_useful] in H.
  - inversion H; subst; auto.
  - destruct (token_here w) as [k n].
    destruct (lim w <=? cur w); [inversion H; subst; auto|].
    destruct (is_ignorable k); [|inversion H; subst; auto].
    eapply IH; eauto using st_advance.
Qed.

Lemma st_next_linebreak f : forall w w', next_linebreak f w = Some w' -> st w -> st w'.
Proof.
  induction f as [|f IH]; intros w w' H Hs; cbn [next_linebreak] in H; [discriminate|].
  destruct (token_here w) as [k n].
  destruct (tkind_eqb k TLineBreak); [inversion H; subst; auto using st_advance|].
  destruct (is_ignorable k); [|discriminate].
  eapply IH; eauto using st_advance.
Qed.

Lemma st_maybe_expect w k w' t : maybe_expect w k = Some (w', t) -> st w -> st w' /\ scalar_text t.
Proof.
  unfold maybe_expect. destruct (next_useful (fuel_of w) w) as [w1 [k' n]] eqn:Hn. intros H Hs.
  destruct (tkind_eqb k k'); [|discriminate]. inversion H; subst.
  apply st_next_useful in Hn; auto. split; [apply st_advance; auto|].
  apply Forall_take_bytes. apply st_visible; auto.
Qed.

Lemma st_expect w k w' t : expect w k = POk t w' -> st w -> st w' /\ scalar_text t.
Proof.
  unfold expect. destruct (maybe_expect w k) as [[w1 t1]|] eqn:H; [|discriminate].
  intros E; inversion E; subst. eapply st_maybe_expect; eauto.
Qed.

Lemma st_find_op ops : forall w w' o, find_op w ops = Some (w', o) -> st w -> st w'.
Proof.
  induction ops as [|[k o1] rest IH]; intros w w' o H Hs; cbn [find_op] in H; [discriminate|].
  destruct (maybe_expect w k) as [[w1 t1]|] eqn:Hm.
  - apply st_maybe_expect in Hm; [|auto]. inversion H; subst. tauto.
  - eauto.
Qed.

(* ---------- wf_expr on blocks / calls ---------- *)
Lemma wf_all_Forall es :
  (fix all (es : list expr) : Prop := match es with [] => True | x :: r => wf_expr x /\ all r end) es <-> Forall wf_expr es.
Proof.
  induction es as [|x r IH]; split; intros H; auto.
  - destruct H; constructor; [|apply IH]; auto.
  - inversion H; subst. split; [|apply IH]; auto.
Qed.
Lemma wf_expr_block es : wf_expr (EBlock es) <-> Forall wf_expr es.
Proof. apply wf_all_Forall. Qed.
Lemma wf_expr_call f args : wf_expr (ECall f args) <-> wf_expr f /\ Forall wf_expr args.
Proof. cbn [wf_expr]. rewrite wf_all_Forall. reflexivity. Qed.

Lemma bind_ok {A B} (m : pres A) (f : A -> walker -> pres B) r w' :
  bind m f = POk r w' -> exists a w1, m = POk a w1 /\ f a w1 = POk r w'.
Proof. destruct m; cbn [bind]; intros H; try discriminate; eauto. Qed.

(* ---------- one-step unfoldings of the mutual fixpoint ---------- *)
Lemma parse_expr_S f depth w : parse_expr (S f) depth w =
    let depth := S depth in
    if Nat.ltb PARSE_DEPTH_MAX depth then PErr else
    do (c, w) <- parse_assign f depth w;
    match maybe_expect w TQuestion with
    | Some (w, _) =>
      do (t, w) <- parse_expr f depth w;
      match maybe_expect w TColon with
      | Some (w, _) => do (e, w) <- parse_expr f depth w; POk (ETern c t e) w
      | None => POk (ETern c t (EBlock [])) w
      end
    | None => POk c w
    end.
Proof. reflexivity. Qed.
Lemma parse_assign_S f depth w : parse_assign (S f) depth w =
    do (l, w) <- parse_levels f depth level_ops w;
    match maybe_expect w TEqual with
    | Some (w, _) => do (r, w) <- parse_expr f depth w; POk (EBin Assign l r) w
    | None => POk l w
    end.
Proof. reflexivity. Qed.
Lemma parse_levels_S f depth lv w : parse_levels (S f) depth lv w =
    match lv with
    | [] => parse_slice f depth w
    | ops :: inner =>
      do (l, w) <- parse_levels f depth inner w;
      binary_loop f depth ops inner l w
    end.
Proof. reflexivity. Qed.
Lemma binary_loop_S f depth ops inner l w : binary_loop (S f) depth ops inner l w =
    if at_linebreak w then POk l w else
    match find_op w ops with
    | Some (w, o) => do (r, w) <- parse_levels f depth inner w; binary_loop f depth ops inner (EBin o l r) w
    | None => POk l w
    end.
Proof. reflexivity. Qed.
Lemma parse_slice_S f depth w : parse_slice (S f) depth w =
    do (e, w) <- parse_short f depth w;
    if at_linebreak w then POk e w else
    match maybe_expect w TBracketOpen with
    | Some (w, _) =>
      do (l, w) <- parse_expr f depth w;
      do (_x, w) <- expect w TColon;
      do (r, w) <- parse_expr f depth w;
      do (_y, w) <- expect w TBracketClose;
      POk (ESlice l r e) w
    | None => POk e w
    end.
Proof. reflexivity. Qed.
Lemma parse_short_S f depth w : parse_short (S f) depth w =
    do (e, w) <- parse_unary f depth w;
    if at_linebreak w then POk e w else
    match maybe_expect w TGrave with
    | Some (w, _) => do (s, w) <- parse_leaf f depth w; POk (EShort s e) w
    | None => POk e w
    end.
Proof. reflexivity. Qed.
Lemma parse_unary_S f depth w : parse_unary (S f) depth w =
    match maybe_expect w TExclamation with
    | Some (w, _) => if Nat.ltb PARSE_DEPTH_MAX (S depth) then PErr else do (e, w) <- parse_unary f (S depth) w; POk (EUn Not e) w
    | None =>
      match maybe_expect w TMinus with
      | Some (w, _) => if Nat.ltb PARSE_DEPTH_MAX (S depth) then PErr else do (e, w) <- parse_unary f (S depth) w; POk (EUn Neg e) w
      | None => parse_call f depth w
      end
    end.
Proof. reflexivity. Qed.
Lemma parse_call_S f depth w : parse_call (S f) depth w =
    do (l, w) <- parse_leaf f depth w;
    if at_linebreak w then POk l w else
    match maybe_expect w TParenOpen with
    | None => POk l w
    | Some (w, _) =>
      do (args, w) <- parse_args f depth w [];
      do (_x, w) <- expect w TParenClose;
      POk (ECall l args) w
    end.
Proof. reflexivity. Qed.
Lemma parse_args_S f depth w acc : parse_args (S f) depth w acc =
    if next_useful_is w TParenClose then POk (rev acc) w else
    do (e, w) <- parse_expr f depth w;
    if next_useful_is w TParenClose then POk (rev (e :: acc)) w else
    do (_x, w) <- expect w TComma;
    parse_args f depth w (e :: acc).
Proof. reflexivity. Qed.
Lemma parse_leaf_S f depth w : parse_leaf (S f) depth w =
    if next_useful_is w TBraceOpen then
      do (_x, w) <- expect w TBraceOpen;
      do (es, w) <- parse_block f depth w [];
      do (_y, w) <- expect w TBraceClose;
      POk (EBlock es) w
    else if next_useful_is w TParenOpen then
      do (_x, w) <- expect w TParenOpen;
      do (e, w) <- parse_expr f depth w;
      do (_y, w) <- expect w TParenClose;
      POk e w
    else if next_useful_is w TIdentifier || next_useful_is w TDot then
      parse_var_dots f w 0
    else if next_useful_is w TNumber then
      do (t, w) <- expect w TNumber;
      match number_literal t with Some (v, sz) => POk (ENum v sz) w | None => PErr end
    else if next_useful_is w TString then
      do (t, w) <- expect w TString; POk (EStr t) w
    else if next_useful_is w TKeywordTrue then do (_x, w) <- expect w TKeywordTrue; POk (EBool true) w
    else if next_useful_is w TKeywordFalse then do (_x, w) <- expect w TKeywordFalse; POk (EBool false) w
    else PErr.
Proof. reflexivity. Qed.
Lemma parse_block_S f depth w acc : parse_block (S f) depth w acc =
    if next_useful_is w TBraceClose then POk (rev acc) w else
    do (e, w) <- parse_expr f depth w;
    match next_linebreak (fuel_of w) w with
    | Some w' => parse_block f depth w' (e :: acc)
    | None =>
      if next_useful_is w TBraceClose then POk (rev (e :: acc)) w else
      do (_x, w) <- expect w TComma;
      parse_block f depth w (e :: acc)
    end.
Proof. reflexivity. Qed.
Lemma parse_var_dots_S f w level : parse_var_dots (S f) w level =
    if at_linebreak w then parse_var_names f w level [] else
    match maybe_expect w TDot with
    | Some (w, _) => parse_var_dots f w (level + 1)
    | None => parse_var_names f w level []
    end.
Proof. reflexivity. Qed.
Lemma parse_var_names_S f w level acc : parse_var_names (S f) w level acc =
    do (name, w) <- expect w TIdentifier;
    if at_linebreak w then POk (EVar level (rev (name :: acc))) w else
    match maybe_expect w TDot with
    | Some (w, _) => parse_var_names f w level (name :: acc)
    | None => POk (EVar level (rev (name :: acc))) w
    end.
Proof. reflexivity. Qed.

(* ---------- the invariant ---------- *)
Definition ok_e (r : pres expr) : Prop := forall e w', r = POk e w' -> wf_expr e /\ st w'.
Definition ok_l (r : pres (list expr)) : Prop := forall es w', r = POk es w' -> Forall wf_expr es /\ st w'.

Definition inv (fuel : nat) : Prop :=
  (forall depth w, st w -> ok_e (parse_expr fuel depth w)) /\
  (forall depth w, st w -> ok_e (parse_assign fuel depth w)) /\
  (forall depth lv w, st w -> ok_e (parse_levels fuel depth lv w)) /\
  (forall depth ops inner l w, st w -> wf_expr l -> ok_e (binary_loop fuel depth ops inner l w)) /\
  (forall depth w, st w -> ok_e (parse_slice fuel depth w)) /\
  (forall depth w, st w -> ok_e (parse_short fuel depth w)) /\
  (forall depth w, st w -> ok_e (parse_unary fuel depth w)) /\
  (forall depth w, st w -> ok_e (parse_call fuel depth w)) /\
  (forall depth w acc, st w -> Forall wf_expr acc -> ok_l (parse_args fuel depth w acc)) /\
  (forall depth w, st w -> ok_e (parse_leaf fuel depth w)) /\
  (forall depth w acc, st w -> Forall wf_expr acc -> ok_l (parse_block fuel depth w acc)) /\
  (forall w level, st w -> ok_e (parse_var_dots fuel w level)) /\
  (forall w level acc, st w -> ok_e (parse_var_names fuel w level acc)).

Ltac side := solve [auto | cbn [wf_expr]; auto | constructor; auto].
Ltac step :=
  match goal with
  | H : bind _ _ = POk _ _ |- _ =>
      apply bind_ok in H; let a := fresh "a" in let w := fresh "w" in let Hm := fresh "Hm" in
      destruct H as (a & w & Hm & H); cbv beta in H
  | H : POk _ _ = POk _ _ |- _ => inversion H; subst; clear H
  | H : PErr = POk _ _ |- _ => discriminate H
  | H : PFuel = POk _ _ |- _ => discriminate H
  | H : (let _ := _ in _) = POk _ _ |- _ => cbv zeta in H
  | H : (if ?b then _ else _) = POk _ _ |- _ => destruct b
  | H : match maybe_expect ?w ?k with _ => _ end = POk _ _ |- _ =>
      let E := fresh "E" in destruct (maybe_expect w k) as [[? ?]|] eqn:E;
      [apply st_maybe_expect in E; [destruct E | solve [auto]] | clear E]
  | H : match find_op ?w ?k with _ => _ end = POk _ _ |- _ =>
      let E := fresh "E" in destruct (find_op w k) as [[? ?]|] eqn:E;
      [apply st_find_op in E; [| solve [auto]] | clear E]
  | H : match next_linebreak ?f ?w with _ => _ end = POk _ _ |- _ =>
      let E := fresh "E" in destruct (next_linebreak f w) as [?|] eqn:E;
      [apply st_next_linebreak in E; [| solve [auto]] | clear E]
  | H : match number_literal ?t with _ => _ end = POk _ _ |- _ =>
      let E := fresh "E" in destruct (number_literal t) as [[? [?|]]|] eqn:E;
      [apply number_literal_bound in E | clear E | clear E]
  | H : expect ?w ?k = POk _ _ |- _ => apply st_expect in H; [destruct H | solve [auto]]
  | H : match ?lv with [] => _ | _ :: _ => _ end = POk _ _ |- _ => destruct lv
  | H : _ = POk _ _, IH : forall _ : nat, _ |- _ => apply IH in H; [destruct H | side ..]
  | H : _ = POk _ _, IH : forall _ : walker, _ |- _ => apply IH in H; [destruct H | side ..]
  end.
Ltac fin :=
  split; auto;
  match goal with
  | |- Forall _ (rev _) => apply Forall_rev; auto
  | |- Forall _ (rev _ ++ _) => apply Forall_app; split; [apply Forall_rev; auto | auto]
  | |- wf_expr (EBlock _) => apply wf_expr_block; auto
  | |- wf_expr (ECall _ _) => apply wf_expr_call; auto
  | |- _ => cbn [wf_expr]; auto 6
  end.
Lemma inv_all fuel : inv fuel.
Proof.
  induction fuel as [|f IH].
  - unfold inv, ok_e, ok_l; repeat split; intros; discriminate.
  - destruct IH as (IHexpr & IHassign & IHlevels & IHbin & IHslice & IHshort & IHunary & IHcall & IHargs & IHleaf & IHblock & IHdots & IHnames).
    unfold inv, ok_e, ok_l in *. repeat match goal with |- _ /\ _ => split end; intros.
    + rewrite parse_expr_S in H0. repeat step; fin.
    + rewrite parse_assign_S in H0. repeat step; fin.
    + rewrite parse_levels_S in H0. repeat step; fin.
    + rewrite binary_loop_S in H1. repeat step; fin.
    + rewrite parse_slice_S in H0. repeat step; fin.
    + rewrite parse_short_S in H0. repeat step; fin.
    + rewrite parse_unary_S in H0. repeat step; fin.
    + rewrite parse_call_S in H0. repeat step; fin.
    + rewrite parse_args_S in H1. repeat step; fin.
    + rewrite parse_leaf_S in H0. repeat step; fin.
    + rewrite parse_block_S in H1. repeat step; fin.
    + rewrite parse_var_dots_S in H0. repeat step; fin.
    + rewrite parse_var_names_S in H0. repeat step; fin.
Qed.

(* ---------- the theorem ---------- *)
Theorem parse_wf : forall t e w, scalar_text t -> parse_text t = POk e w -> wf_expr e.
Proof.
  intros t e w Hs H. unfold parse_text in H.
  destruct (inv_all (200 * S (length t))) as (Hexpr & _).
  eapply Hexpr in H; [tauto | exact Hs].
Qed.

(* the walker left by the parser still points into scalar text (useful to callers that keep parsing) *)
Theorem parse_wf_walker : forall t e w, scalar_text t -> parse_text t = POk e w -> scalar_text (tail w).
Proof.
  intros t e w Hs H. unfold parse_text in H.
  destruct (inv_all (200 * S (length t))) as (Hexpr & _).
  eapply Hexpr in H; [destruct H as [_ H]; exact H | exact Hs].
Qed.

(* non-vacuity: `0xff @ "a"` parses to a sized literal concatenated with a string, and the premise holds *)
Example parse_wf_nonvacuous :
  exists e w, parse_text [48;120;102;102;32;64;32;34;97;34] = POk e w /\ wf_expr e /\
              e = EBin Concat (ENum 255 (Some 8)) (EStr [34;97;34]) /\
              scalar_text [48;120;102;102;32;64;32;34;97;34].
Proof.
  eexists; eexists. split; [vm_compute; reflexivity|].
  split; [|split; [reflexivity|]].
  - cbn [wf_expr]. split; [reflexivity|]. repeat constructor.
  - repeat constructor.
Qed.
Example number_literal_bound_nonvacuous : number_literal [48;120;102;102] = Some (255, Some 8).
Proof. vm_compute. reflexivity. Qed.
