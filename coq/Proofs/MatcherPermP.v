(* C08 (matcher half), continued: the working matches of the indexed matcher are a permutation of those of the
   brute-force matcher (same fuel), fuel monotonicity (inclusion), and the non-vacuity examples.  No axioms. *)
From Coq Require Import NArith ZArith List Bool Lia ZifyBool Permutation.
Import ListNotations.
From CA Require Import Model.Lexer Model.Parser Model.Matcher Proofs.MatcherP Proofs.MatcherCaseP.
Open Scope N_scope.

(* the matches one candidate (ruledef index, rule index) contributes; this is literally the body of the
   flat_map of match_instr_at true *)
Definition cand_matches (fuel : nat) (defs : list ruledef) (w : walker) (e : nat * nat) : list (imatch * walker) :=
  let '(i, j) := e in
  match nth_error defs i with
  | Some d => match nth_error (rd_rules d) j with
              | Some r => match_with_rule fuel defs r (rpat r) w true {| sf_rd := i; sf_ru := j; sf_args := [] |}
              | None => [] end
  | None => [] end.

Definition working_indexed (fuel : nat) (defs : list ruledef) (w : walker) : list (imatch * walker) :=
  flat_map (cand_matches fuel defs w) (query_prefixed (map_entries defs) (instr_key MAX_PREFIX w)).
(* every rule of every non-sub ruledef, in declaration order *)
Definition working_brute (fuel : nat) (defs : list ruledef) (w : walker) : list (imatch * walker) :=
  flat_map (cand_matches fuel defs w) (map proj_entry (map_entries defs)).

Lemma match_instr_at_indexed : forall defs w,
  match_instr_at true defs w = finish_matches defs (working_indexed (match_fuel defs (tail w)) defs w).
Proof. reflexivity. Qed.

(* ---- the brute-force path is working_brute with ONE UNIT LESS fuel (match_with_ruledef spends one) ---- *)
Definition ruledef_go (f : nat) (defs : list ruledef) (rdi : nat) (w : walker) (needs : bool) :=
  fix go (rules : list rule) (i : nat) : list (imatch * walker) :=
    match rules with
    | [] => []
    | r :: rest => match_with_rule f defs r (rpat r) w needs {| sf_rd := rdi; sf_ru := i; sf_args := [] |} ++ go rest (S i)
    end.
Lemma mwrd_S : forall f defs rdi rd w needs,
  match_with_ruledef (S f) defs rdi rd w needs = ruledef_go f defs rdi w needs (rd_rules rd) O.
Proof. reflexivity. Qed.
Lemma mwrd_O : forall defs rdi rd w needs, match_with_ruledef O defs rdi rd w needs = [].
Proof. reflexivity. Qed.

Definition brute_go (fuel : nat) (defs : list ruledef) (w : walker) :=
  fix go (ds : list ruledef) (i : nat) : list (imatch * walker) :=
    match ds with
    | [] => []
    | d :: r => (if rd_sub d then [] else match_with_ruledef fuel defs i d w true) ++ go r (S i)
    end.
Lemma match_instr_at_brute_go : forall defs w,
  match_instr_at false defs w = finish_matches defs (brute_go (match_fuel defs (tail w)) defs w defs O).
Proof. reflexivity. Qed.

Lemma ruledef_go_flat : forall f defs w i0 d, nth_error defs i0 = Some d ->
  forall rs j0, (forall j, nth_error rs j = nth_error (rd_rules d) (j0 + j)) ->
  ruledef_go f defs i0 w true rs j0 = flat_map (cand_matches f defs w) (map proj_entry (gr_entries i0 rs j0)).
Proof.
  intros f defs w i0 d Hd. induction rs as [|x rest IH]; intros j0 Hn; [reflexivity|].
  rewrite gr_entries_cons. cbn [ruledef_go map flat_map]. f_equal.
  - unfold proj_entry. cbn [fst snd cand_matches]. rewrite Hd.
    specialize (Hn O). cbn [nth_error] in Hn. rewrite Nat.add_0_r in Hn. rewrite <- Hn. reflexivity.
  - apply IH. intros j. specialize (Hn (S j)). cbn [nth_error] in Hn. rewrite Hn. f_equal. lia.
Qed.

Lemma brute_go_flat : forall f defs w ds i0, (forall i, nth_error ds i = nth_error defs (i0 + i)) ->
  brute_go (S f) defs w ds i0 = flat_map (cand_matches f defs w) (map proj_entry (go_entries ds i0)).
Proof.
  intros f defs w. induction ds as [|d ds IH]; intros i0 Hn; [reflexivity|].
  rewrite go_entries_cons, map_app, flat_map_app. cbn [brute_go]. f_equal.
  - destruct (rd_sub d); [reflexivity|]. rewrite mwrd_S. apply ruledef_go_flat with (d := d).
    + specialize (Hn O). cbn [nth_error] in Hn. rewrite Nat.add_0_r in Hn. auto.
    + intros j. reflexivity.
  - apply IH. intros i. specialize (Hn (S i)). cbn [nth_error] in Hn. rewrite Hn. f_equal. lia.
Qed.

Lemma match_fuel_S : forall defs src, match_fuel defs src = S (pred (match_fuel defs src)).
Proof. intros defs src. unfold match_fuel. lia. Qed.

Theorem match_instr_at_brute : forall defs w,
  match_instr_at false defs w = finish_matches defs (working_brute (pred (match_fuel defs (tail w))) defs w).
Proof.
  intros defs w. rewrite match_instr_at_brute_go. rewrite (match_fuel_S defs (tail w)) at 1.
  rewrite brute_go_flat; [rewrite <- map_entries_eq; reflexivity | intros i; reflexivity].
Qed.

(* ---- completeness of the index at any fuel ---- *)
Lemma prefix_complete_fuel : forall fuel defs i j d r w,
  nth_error defs i = Some d -> rd_sub d = false -> nth_error (rd_rules d) j = Some r ->
  rule_key_ok r ->
  match_with_rule fuel defs r (rpat r) w true {| sf_rd := i; sf_ru := j; sf_args := [] |} <> [] ->
  In (i, j) (query_prefixed (map_entries defs) (instr_key MAX_PREFIX w)).
Proof.
  intros fuel defs i j d r w Hd Hs Hr Hok Hm.
  pose proof (prefix_complete_key _ _ _ _ _ _ _ MAX_PREFIX Hm Hok) as Hk.
  apply In_query. exists (length (rule_key MAX_PREFIX (rpat r))). split.
  - pose proof (rule_key_length MAX_PREFIX (rpat r)) as H1.
    pose proof (firstn_text_length (length (rule_key MAX_PREFIX (rpat r))) (instr_key MAX_PREFIX w)) as [H2 _].
    rewrite <- Hk in H2. lia.
  - rewrite <- Hk. apply In_map_entries. exists d, r. auto.
Qed.

Definition all_keys_ok (defs : list ruledef) : Prop :=
  forall i d j r, nth_error defs i = Some d -> rd_sub d = false -> nth_error (rd_rules d) j = Some r -> rule_key_ok r.

(* ---- list facts ---- *)
Lemma flat_map_all_nil {A B} (F : A -> list B) : forall l, (forall x, In x l -> F x = []) -> flat_map F l = [].
Proof.
  induction l as [|a l IH]; intros H; [reflexivity|]. cbn [flat_map]. rewrite (H a (or_introl eq_refl)).
  apply IH. intros x Hx. apply H. right. exact Hx.
Qed.

Lemma flat_map_perm_sub {A B} (dec : forall x y : A, {x = y} + {x <> y}) (F : A -> list B) : forall q a,
  NoDup q -> NoDup a -> incl q a -> (forall e, In e a -> ~ In e q -> F e = []) ->
  Permutation (flat_map F q) (flat_map F a).
Proof.
  intros q a Hq Ha Hincl Hnil.
  set (rest := filter (fun e => if in_dec dec e q then false else true) a).
  assert (Hp : Permutation a (q ++ rest)).
  { apply NoDup_Permutation; [exact Ha | |].
    - apply NoDup_app_intro; [exact Hq | apply NoDup_filter; exact Ha |].
      intros x Hx Hr. unfold rest in Hr. apply filter_In in Hr. destruct Hr as [_ Hr].
      destruct (in_dec dec x q); [discriminate | contradiction].
    - intros x. rewrite in_app_iff. unfold rest. rewrite filter_In. split.
      + intros Hx. destruct (in_dec dec x q) as [Hi|Hi]; [left; exact Hi|]. right. split; [exact Hx|].
        destruct (in_dec dec x q); [contradiction | reflexivity].
      + intros [Hx|[Hx _]]; [apply Hincl; exact Hx | exact Hx]. }
  rewrite (Permutation_flat_map _ Hp). rewrite flat_map_app.
  rewrite (flat_map_all_nil F rest), app_nil_r; [reflexivity|].
  intros x Hx. unfold rest in Hx. apply filter_In in Hx. destruct Hx as [Hx Hd].
  apply Hnil; [exact Hx|]. destruct (in_dec dec x q); [discriminate | assumption].
Qed.

Lemma In_all_entries : forall defs i j, In (i, j) (map proj_entry (map_entries defs)) <->
  exists d r, nth_error defs i = Some d /\ rd_sub d = false /\ nth_error (rd_rules d) j = Some r.
Proof.
  intros defs i j. rewrite in_map_iff. split.
  - intros [[[a b] k] [He Hin]]. unfold proj_entry in He. cbn [fst snd] in He. injection He as -> ->.
    apply In_map_entries in Hin. destruct Hin as [d [r [H1 [H2 [H3 _]]]]]. exists d, r. auto.
  - intros [d [r [H1 [H2 H3]]]]. exists (i, j, rule_key MAX_PREFIX (rpat r)). split; [reflexivity|].
    apply In_map_entries. exists d, r. auto.
Qed.

Lemma pair_nat_dec : forall x y : nat * nat, {x = y} + {x <> y}.
Proof. decide equality; apply Nat.eq_dec. Qed.

(* (A)6  with the SAME fuel on both sides, the indexed candidates produce a permutation of what all rules produce:
   the query returns distinct rules, all of them real, and every rule it omits matches nothing *)
Theorem C08_working_permutation : forall fuel defs w, all_keys_ok defs ->
  Permutation (working_indexed fuel defs w) (working_brute fuel defs w).
Proof.
  intros fuel defs w Hok. unfold working_indexed, working_brute.
  apply (flat_map_perm_sub pair_nat_dec).
  - apply C08_index_nodup.
  - apply NoDup_map_entries.
  - intros [i j] H. apply In_all_entries. eapply C08_index_sound. exact H.
  - intros [i j] Hin Hnq. apply In_all_entries in Hin. destruct Hin as [d [r [H1 [H2 H3]]]].
    cbn [cand_matches]. rewrite H1, H3.
    destruct (match_with_rule fuel defs r (rpat r) w true {| sf_rd := i; sf_ru := j; sf_args := [] |}) eqn:E;
      [reflexivity|]. exfalso. apply Hnq.
    eapply prefix_complete_fuel; try eassumption; [eapply Hok; eassumption|]. rewrite E. discriminate.
Qed.

(* ------------------------------------------------------------------------------------------------ *)
(* fuel monotonicity: one more unit of fuel never loses a match                                       *)

Definition param_variant (f : nat) (defs : list ruledef) (r : rule) (i : nat) (rest : list part) (w : walker)
           (needs_all : bool) (sf : sofar) (look : bool) : list (imatch * walker) :=
  let wl := if look then
              match find_lookahead_char rest with
              | Some c => match lookahead_index (S (length (visible w))) (visible w) (cur w) c false 0 0 with
                          | Some l => Some (with_limit w l) | None => None end
              | None => None end
            else Some w in
  match wl with
  | None => []
  | Some wl =>
    let start := cur (next_useful_index w) in
    match nth_rule_params (rparams r) i with
    | TyRule name =>
      match find_ruledef defs name 0 with
      | None => []
      | Some nrd =>
        let nested := match_with_ruledef f defs nrd (nth nrd defs {| rd_sub := true; rd_name := None; rd_rules := [] |}) wl false in
        flat_map (fun mw : imatch * walker =>
                    let '(m, w') := mw in
                    let w' := with_limit w' (lim w) in
                    let e := cur w' in let s := N.min start e in
                    match_with_rule f defs r rest w' needs_all
                      {| sf_rd := sf_rd sf; sf_ru := sf_ru sf; sf_args := ANested m s e (excerpt_of w s e) :: sf_args sf |}) nested
      end
    | _ =>
      match parse_expr (200 * fuel_of wl) 0 wl with
      | POk ex w' =>
        let w' := with_limit w' (lim w) in
        let e := cur w' in let s := N.min start e in
        match_with_rule f defs r rest w' needs_all
          {| sf_rd := sf_rd sf; sf_ru := sf_ru sf; sf_args := AExpr ex s e (excerpt_of w s e) :: sf_args sf |}
      | _ => []
      end
    end
  end.

Lemma mwr_param : forall f defs r i rest w needs sf,
  match_with_rule (S f) defs r (PParam i :: rest) w needs sf =
  param_variant f defs r i rest w needs sf false ++ param_variant f defs r i rest w needs sf true.
Proof. reflexivity. Qed.
Lemma mwr_ws : forall f defs r rest w needs sf,
  match_with_rule (S f) defs r (PWs :: rest) w needs sf =
  if negb (is_over w) && negb (tkind_eqb (fst (token_here w)) TWhitespace) && negb (tkind_eqb (fst (token_here w)) TComment) then []
  else match_with_rule f defs r rest w needs sf.
Proof. reflexivity. Qed.
Lemma mwr_nil : forall f defs r w needs sf,
  match_with_rule (S f) defs r [] w needs sf =
  if negb (is_over w) && needs then [] else [(IMatch (sf_rd sf) (sf_ru sf) (rev (sf_args sf)) 0, w)].
Proof. reflexivity. Qed.

Lemma incl_flat_map2 {A B} (F G : A -> list B) : forall l1 l2, incl l1 l2 -> (forall x, incl (F x) (G x)) ->
  incl (flat_map F l1) (flat_map G l2).
Proof.
  intros l1 l2 Hl HF b Hb. apply in_flat_map in Hb. destruct Hb as [x [Hx Hbx]].
  apply in_flat_map. exists x. split; [apply Hl; exact Hx | apply HF; exact Hbx].
Qed.

Definition mono_at (f : nat) (defs : list ruledef) : Prop :=
  (forall r pat w needs sf, incl (match_with_rule f defs r pat w needs sf) (match_with_rule (S f) defs r pat w needs sf)) /\
  (forall rdi rd w needs, incl (match_with_ruledef f defs rdi rd w needs) (match_with_ruledef (S f) defs rdi rd w needs)).

Lemma ruledef_go_incl : forall f g defs rdi w needs,
  (forall r pat w needs sf, incl (match_with_rule f defs r pat w needs sf) (match_with_rule g defs r pat w needs sf)) ->
  forall rs j, incl (ruledef_go f defs rdi w needs rs j) (ruledef_go g defs rdi w needs rs j).
Proof.
  intros f g defs rdi w needs H. induction rs as [|x rs IH]; intros j; [apply incl_refl|].
  cbn [ruledef_go]. apply incl_app_app; [apply H | apply IH].
Qed.

Lemma fuel_mono_step : forall defs f, mono_at f defs.
Proof.
  intros defs. induction f as [|f [IHr IHd]].
  - split; intros; [rewrite mwr_O | rewrite mwrd_O]; intros x [].
  - assert (Hr : forall r pat w needs sf,
               incl (match_with_rule (S f) defs r pat w needs sf) (match_with_rule (S (S f)) defs r pat w needs sf)).
    { intros r pat w needs sf. destruct pat as [|[|c|c|i] rest].
      - rewrite !mwr_nil. apply incl_refl.
      - rewrite !mwr_ws. destruct (_ && _ && _); [apply incl_refl | apply IHr].
      - rewrite !mwr_exact. destruct (maybe_expect_char w c); [apply IHr | apply incl_refl].
      - rewrite !mwr_glued. destruct (maybe_expect_char_glued w c); [apply IHr | apply incl_refl].
      - rewrite !mwr_param.
        assert (Hv : forall look, incl (param_variant f defs r i rest w needs sf look)
                                       (param_variant (S f) defs r i rest w needs sf look)).
        { intros look. unfold param_variant.
          destruct (if look then _ else _) as [wl|]; [|apply incl_refl].
          destruct (nth_rule_params (rparams r) i);
            try (destruct (parse_expr (200 * fuel_of wl) 0 wl); [apply IHr | apply incl_refl | apply incl_refl]).
          destruct (find_ruledef defs name 0) as [nrd|]; [|apply incl_refl].
          apply incl_flat_map2; [apply IHd|]. intros [m w']. apply IHr. }
        apply incl_app_app; apply Hv. }
    split; [exact Hr|].
    intros rdi rd w needs. rewrite !mwrd_S. apply ruledef_go_incl. exact IHr.
Qed.

Theorem match_with_rule_fuel_mono : forall defs f r pat w needs sf,
  incl (match_with_rule f defs r pat w needs sf) (match_with_rule (S f) defs r pat w needs sf).
Proof. intros defs f. apply (fuel_mono_step defs f). Qed.

Lemma working_brute_fuel_mono : forall defs f w, incl (working_brute f defs w) (working_brute (S f) defs w).
Proof.
  intros defs f w. unfold working_brute. apply incl_flat_map2; [apply incl_refl|].
  intros [i j]. cbn [cand_matches]. destruct (nth_error defs i) as [d|]; [|apply incl_refl].
  destruct (nth_error (rd_rules d) j) as [r|]; [|apply incl_refl]. apply match_with_rule_fuel_mono.
Qed.

(* at the ACTUAL fuels of match_instr_at: every working match of the brute-force path (which runs each rule with one
   unit less) is a working match of the indexed path -- the index loses nothing *)
Theorem C08_index_loses_nothing : forall defs w, all_keys_ok defs ->
  incl (working_brute (pred (match_fuel defs (tail w))) defs w)
       (working_indexed (match_fuel defs (tail w)) defs w).
Proof.
  intros defs w Hok x Hx.
  apply (Permutation_in x (Permutation_sym (C08_working_permutation (match_fuel defs (tail w)) defs w Hok))).
  rewrite (match_fuel_S defs (tail w)). apply working_brute_fuel_mono. exact Hx.
Qed.

(* and whenever the last unit of fuel is not needed by the brute-force path (it returns the same working list with
   one unit more), the two working lists of match_instr_at are permutations of each other *)
Theorem C08_working_permutation_actual : forall defs w, all_keys_ok defs ->
  working_brute (pred (match_fuel defs (tail w))) defs w = working_brute (match_fuel defs (tail w)) defs w ->
  Permutation (working_indexed (match_fuel defs (tail w)) defs w)
              (working_brute (pred (match_fuel defs (tail w))) defs w).
Proof. intros defs w Hok ->. apply C08_working_permutation. exact Hok. Qed.

(* ------------------------------------------------------------------------------------------------ *)
(* non-vacuity                                                                                        *)

(* "#ruledef{ld {x}=>0x55@x`8" LF "ld a,{x}=>0xaa@x`8" LF "halt=>0x00" LF "}" *)
Definition ex_rules_text : text :=
  [35;114;117;108;101;100;101;102;123;108;100;32;123;120;125;61;62;48;120;53;53;64;120;96;56;10;
   108;100;32;97;44;123;120;125;61;62;48;120;97;97;64;120;96;56;10;
   104;97;108;116;61;62;48;120;48;48;10;125].
Definition ex_defs : list ruledef := Eval vm_compute in match parse_defs ex_rules_text with Some d => d | None => [] end.
Example ex_defs_parsed : parse_defs ex_rules_text = Some ex_defs.
Proof. vm_compute. reflexivity. Qed.
(* "  Ld ;*c*; A , 5" *)
Definition ex_instr : walker :=
  let t := [32;32;76;100;32;59;42;99;42;59;32;65;32;44;32;53] in {| tail := t; cur := 0; lim := bytes_len t |}.

Example C08_prefix_complete_nonvacuous :
  exists d r, nth_error ex_defs 0 = Some d /\ rd_sub d = false /\ nth_error (rd_rules d) 1 = Some r /\
              rule_key_ok r /\
              rule_key MAX_PREFIX (rpat r) = [108; 100] /\
              instr_key MAX_PREFIX ex_instr = [108; 100; 97; 44] /\
              match_with_rule (match_fuel ex_defs (tail ex_instr)) ex_defs r (rpat r) ex_instr true
                              {| sf_rd := 0; sf_ru := 1; sf_args := [] |} <> [] /\
              query_prefixed (map_entries ex_defs) (instr_key MAX_PREFIX ex_instr) = [(0, 0); (0, 1)]%nat /\
              length (match_instr_at true ex_defs ex_instr) = 1%nat /\
              match_instr_at true ex_defs ex_instr = match_instr_at false ex_defs ex_instr.
Proof.
  eexists. eexists. split; [vm_compute; reflexivity|]. split; [reflexivity|]. split; [reflexivity|].
  split; [vm_compute; reflexivity|]. split; [vm_compute; reflexivity|]. split; [vm_compute; reflexivity|].
  split; [vm_compute; discriminate|]. split; [vm_compute; reflexivity|]. split; vm_compute; reflexivity.
Qed.

Example all_keys_ok_nonvacuous : all_keys_ok ex_defs.
Proof.
  intros i d j r Hd Hs Hr.
  unfold ex_defs in Hd. destruct i as [|i]; [|destruct i; discriminate].
  cbn [nth_error] in Hd. injection Hd as <-. cbn [rd_rules] in Hr.
  do 3 (destruct j as [|j]; [cbn [nth_error] in Hr; injection Hr as <-; vm_compute; reflexivity|]).
  destruct j; discriminate.
Qed.

(* C07: "#ruledef{ld {x}=>0x55@x`8" LF "ld a=>0xaa" LF "}" against "LD A": both rules match (the first one reads A as an
   expression), only the one spelling the operand literally survives; the upper-case instruction matches lower-case rules *)
Definition c07_rules_text : text :=
  [35;114;117;108;101;100;101;102;123;108;100;32;123;120;125;61;62;48;120;53;53;64;120;96;56;10;
   108;100;32;97;61;62;48;120;97;97;10;125].
Definition c07_defs : list ruledef := Eval vm_compute in match parse_defs c07_rules_text with Some d => d | None => [] end.
Definition c07_instr : walker := let t := [76;68;32;65] in {| tail := t; cur := 0; lim := bytes_len t |}.

Example C07_literal_priority_nonvacuous :
  parse_defs c07_rules_text = Some c07_defs /\
  map fst (working_brute (pred (match_fuel c07_defs (tail c07_instr))) c07_defs c07_instr)
    = [IMatch 0 0 [AExpr (EVar 0 [[65]]) 3 4 [65]] 0; IMatch 0 1 [] 0] /\
  match_instr_at false c07_defs c07_instr = [IMatch 0 1 [] 3] /\
  match_instr_at true c07_defs c07_instr = [IMatch 0 1 [] 3].
Proof. repeat split; vm_compute; reflexivity. Qed.

Example C07_pattern_lowercase_nonvacuous :
  lower_exacts [72;97;76;116] = [PExact 104; PGlued 97; PGlued 108; PGlued 116] /\
  lower_exacts [72;97;76;116] = lower_exacts [104;65;108;84].
Proof. split; vm_compute; reflexivity. Qed.

(* C07_blank_before_exact: skipping "  ;*c*; " in front of 'X' first changes nothing *)
Example C07_blank_before_exact_nonvacuous :
  let t := [32;32;59;42;99;42;59;32;88;49] in
  let w := {| tail := t; cur := 0; lim := bytes_len t |} in
  skip_ignorable 5 w <> w /\ maybe_expect_char w 120 <> None /\
  maybe_expect_char (skip_ignorable 5 w) 120 = maybe_expect_char w 120.
Proof. cbv zeta. split; [vm_compute; discriminate|]. split; [vm_compute; discriminate | vm_compute; reflexivity]. Qed.
